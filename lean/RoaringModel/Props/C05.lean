import RoaringModel.Lemmas.CodecWF
import RoaringModel.Lemmas.Parser
import RoaringModel.Lemmas.RoundTrip
import RoaringModel.Lemmas.EncodeSpec
import RoaringModel.Lemmas.CodecKernel
import RoaringModel.Lemmas.Canonical
import RoaringModel.Lemmas.SpecRoundTrip
import RoaringModel.Lemmas.TreemapCodec
import RoaringModel.Lemmas.TreemapEncodeSpec
import RoaringModel.Lemmas.TreemapCodecWF
import RoaringModel.Lemmas.FidelityCodec
/-!
# C05 — serialization is exact, deterministic and format-conformant (32-bit half)
-/
namespace Roaring.C05
open Roaring Roaring.Parser

/-- `serialize_into` writes exactly `serialized_size()` bytes. -/
theorem C05_size (b : Bitmap) (h : Bitmap.WF b) : (Bitmap.serialize b).length = Bitmap.serializedSize b := by
  have h := h.toCodec
  unfold Bitmap.serialize
  simp only [List.length_append, u32le_length, descrBytes_length, offsetBytes_length,
    payloadBytes_length b (fun c hc => (h.2 c hc).2), serializedSize_eq]
  omega

/-- Decoding the output with `deserialize_from` (`chk = true`) or `deserialize_unchecked_from` (`chk = false`),
    in either build configuration, returns a value structurally equal to the original (hence `==`), and
    leaves untouched whatever follows the serialisation in the stream. -/
theorem C05_decode (chk dbg : Bool) (b : Bitmap) (h : Bitmap.WF b) (rest : List Nat) :
    deserialize chk dbg (Bitmap.serialize b ++ rest) = .ok (b, rest) :=
  deserialize_serialize chk dbg b h.toCodec rest

/-- the derived `==` of the model agrees: a value equals itself -/
theorem C05_decode_eq (chk dbg : Bool) (b : Bitmap) (h : Bitmap.WF b) :
    ∃ b', deserialize chk dbg (Bitmap.serialize b) = .ok (b', []) ∧ b' = b := by
  refine ⟨b, ?_, rfl⟩
  have := C05_decode chk dbg b h []
  simpa using this

/-- The bytes are the standard (run-free) Roaring encoding **determined by the element set alone**: they equal
    the independent reference encoder `Spec.encode` (written from the format specification, cross-validated
    against the upstream golden files) applied to `elems b`.  Determinism and format conformance in one
    statement.  Unconditional: the bitset bridge `Kernel.bitmap_toArray` is discharged in
    `Lemmas/CodecKernel.lean` from the shared BitmapStore library. -/
theorem C05_bytes (b : Bitmap) (h : Bitmap.WF b) : Bitmap.serialize b = Spec.encode (Bitmap.elems b) :=
  serialize_eq_encode bitmap_toArray b h.toCodec

/-- the full statement as a `Prop` -/
def C05_bytes_statement : Prop := ∀ b : Bitmap, Bitmap.WF b → Bitmap.serialize b = Spec.encode (Bitmap.elems b)

theorem C05_bytes_statement_holds : C05_bytes_statement := C05_bytes

/-- two values with the same elements serialise to the same bytes (history-independence): the bytes are a
    function of the element list alone … -/
theorem C05_deterministic (a b : Bitmap) (ha : Bitmap.WF a) (hb : Bitmap.WF b)
    (he : Bitmap.elems a = Bitmap.elems b) : Bitmap.serialize a = Bitmap.serialize b := by
  rw [C05_bytes a ha, C05_bytes b hb, he]

/-- … and indeed (canonical form, `Bitmap.canonical`) the two values are the same representation. -/
theorem C05_deterministic_repr (a b : Bitmap) (ha : Bitmap.WF a) (hb : Bitmap.WF b)
    (he : Bitmap.elems a = Bitmap.elems b) : a = b := Bitmap.canonical a b ha hb he

/-- conversely, equal bytes ⇒ equal values: serialisation is injective on well-formed values -/
theorem C05_injective (a b : Bitmap) (ha : Bitmap.WF a) (hb : Bitmap.WF b)
    (he : Bitmap.serialize a = Bitmap.serialize b) : a = b := by
  have h1 := C05_decode true false a ha []
  have h2 := C05_decode true false b hb []
  rw [he, h2] at h1
  simp only [Except.ok.injEq, Prod.mk.injEq, and_true] at h1
  exact h1.symm

/-- Format conformance, decoder side: the strict reference decoder (written from the format specification)
    accepts the output — cookie, size, strictly ascending keys, declared cardinalities, an offset table with the
    true payload positions, strictly ascending array payloads, bitset payloads of the declared cardinality — and
    reads back exactly the value's elements, leaving what follows. -/
theorem C05_conformant (b : Bitmap) (h : Bitmap.WF b) (rest : List Nat) :
    Spec.decode (Bitmap.serialize b ++ rest) = some (Bitmap.elems b, rest) :=
  specDecode_serialize b h.toCodec rest

/-- consequently the reference codec round-trips on the element list of every well-formed value: the two halves
    of `SpecCodec.lean` (encoder and strict decoder, written independently of the model) agree with each other -/
theorem C05_spec_roundtrip (b : Bitmap) (h : Bitmap.WF b) (rest : List Nat) :
    Spec.decode (Spec.encode (Bitmap.elems b) ++ rest) = some (Bitmap.elems b, rest) := by
  rw [← C05_bytes b h]; exact C05_conformant b h rest

/-- the output is a byte string (every entry `< 256`), for every value -/
theorem C05_is_bytes (b : Bitmap) : ∀ x ∈ Bitmap.serialize b, x < 256 := serialize_isBytes b

/-- concrete agreement (no hypothesis): a two-chunk value -/
example : Bitmap.serialize [{ key := 0, store := .array [1, 5, 65535] }, { key := 65535, store := .array [0] }]
    = Spec.encode [1, 5, 65535, 4294901760] := by rfl

/-- a two-chunk value with one array chunk and one chunk key at the top of the key space meets `Bitmap.WF` -/
example : Bitmap.WF [{ key := 0, store := .array [1, 5, 65535] }, { key := 65535, store := .array [0] }] := by
  apply BitmapWF.toWF
  refine ⟨by decide, ?_⟩
  intro c hc
  simp only [List.mem_cons, List.not_mem_nil, or_false] at hc
  rcases hc with rfl | rfl <;> refine ⟨by decide, by decide, ?_, by decide, by decide⟩ <;>
    (intro x hx; simp only [List.mem_cons, List.not_mem_nil, or_false] at hx; omega)

/-! ### the encoder the driver executes: `(container.len() - 1) as u16` in `u64` arithmetic (fidelity audit)

`Bitmap.serialize` writes the cardinality field with the truncated `Nat` subtraction `len - 1`; the Rust computes
`container.len() - 1` on `u64` (panic with overflow checks on / wrap to `0xFFFF` with them off when `len = 0`).
`Bitmap.serializeM ovf` (Ser.lean) has exactly that arithmetic; it is what `ser` / `dump` / `deser_prefix` of the driver
run.  For well-formed values (no empty container) the two coincide, in both build configurations. -/

/-- a well-formed value has no empty container -/
theorem wf_len_pos (b : Bitmap) (h : Bitmap.WF b) : ∀ c ∈ b, 1 ≤ c.len := by
  intro c hc
  have hst : Store.WF c.store := (h.2 c hc).2
  unfold Container.len Store.len
  cases hs : c.store with
  | array v => rw [hs] at hst; exact hst.2.1
  | bitmap bs => rw [hs] at hst; have := hst.2; simp only []; omega

/-- **mirror.** -/
theorem C05_serialize_mirror_eq (ovf : Bool) (b : Bitmap) (h : Bitmap.WF b) :
    Bitmap.serializeM ovf b = some (Bitmap.serialize b) :=
  Fidelity.serializeM_eq ovf b (wf_len_pos b h)

/-- **C05_bytes / C05_size for the executed encoder**: no panic in either build configuration, the bytes are the
    reference encoding of the element set, and their number is `serialized_size()`. -/
theorem C05_bytes_mirror (ovf : Bool) (b : Bitmap) (h : Bitmap.WF b) :
    Bitmap.serializeM ovf b = some (Spec.encode (Bitmap.elems b)) ∧
    (Spec.encode (Bitmap.elems b)).length = Bitmap.serializedSize b := by
  rw [C05_serialize_mirror_eq ovf b h, ← C05_bytes b h]
  exact ⟨rfl, C05_size b h⟩

/-- **round trip for the executed encoder** -/
theorem C05_decode_mirror (ovf chk dbg : Bool) (b : Bitmap) (h : Bitmap.WF b) (rest : List Nat) :
    ∃ bytes, Bitmap.serializeM ovf b = some bytes ∧ deserialize chk dbg (bytes ++ rest) = .ok (b, rest) :=
  ⟨Bitmap.serialize b, C05_serialize_mirror_eq ovf b h, C05_decode chk dbg b h rest⟩

/-- concrete: the executed encoder on a two-chunk value, both build configurations -/
example : ∀ ovf, Bitmap.serializeM ovf [{ key := 0, store := .array [1, 5, 65535] }, { key := 65535, store := .array [0] }]
    = some (Spec.encode [1, 5, 65535, 4294901760]) := by decide

end Roaring.C05

/-!
# C05, 64-bit half — `RoaringTreemap` (treemap/serialization.rs)

Lifted from the 32-bit theorems above through the bucket loop (`Lemmas/TreemapCodec.lean`,
`Lemmas/TreemapEncodeSpec.lean`, instantiated at `Bitmap.WF` in `Lemmas/TreemapCodecWF.lean`); nothing about
the 32-bit format is re-proved.  Well-formed treemap = `Treemap.WFd Bitmap.WF` (`Treemap.TWF`, the invariant of
every other treemap family: partition keys strictly ascending `u32`s, every partition a `Bitmap.WF` value with
an element); it is equivalent to the codec's own `Treemap.SerWF Bitmap.WF` ("… and not the empty bitmap").
All theorems are unconditional.
-/
namespace Roaring.C05
open Roaring Roaring.Parser

/-- well-formed treemap (the shared invariant `Treemap.TWF`) -/
abbrev TreemapWF (t : Treemap) : Prop := Treemap.WFd Bitmap.WF t

/-- the codec's view of the invariant: keys strictly ascending `u32`s, every partition `Bitmap.WF` and not the
    empty bitmap -/
theorem C05_t_wf_iff (t : Treemap) : TreemapWF t ↔ Treemap.SerWF Bitmap.WF t := (Treemap.serWF_iff t).symm

/-- `serialize_into` writes exactly `serialized_size()` bytes. -/
theorem C05_t_size (t : Treemap) (h : Treemap.WFd Bitmap.WF t) :
    (Treemap.serialize t).length = Treemap.serializedSize t :=
  Treemap.serialize_length t (fun p hp => C05_size p.2 (h.parts p hp).2.1)

/-- The bytes are a `u64` partition count followed by (`u32` key, 32-bit stream) pairs in strictly ascending
    key order, every 32-bit stream being the standard encoding of the partition (`C05_bytes`). -/
theorem C05_t_framing (t : Treemap) (h : Treemap.WFd Bitmap.WF t) :
    Treemap.serialize t = u64le t.length ++ t.flatMap (fun p => u32le p.1 ++ Bitmap.serialize p.2) ∧
    (t.map (·.1)).Pairwise (· < ·) ∧ leVal (u64le t.length) = t.length ∧
    (∀ p ∈ t, leVal (u32le p.1) = p.1) ∧
    ∀ p ∈ t, Bitmap.serialize p.2 = Spec.encode (Bitmap.elems p.2) :=
  ⟨rfl, h.sorted, leVal_u64le _ (by have := h.length_le; omega), fun p hp => leVal_u32le _ (h.parts p hp).1,
   fun p hp => C05_bytes p.2 (h.parts p hp).2.1⟩

/-- Decoding the output with `deserialize_from` (`chk = true`) or `deserialize_unchecked_from` (`chk = false`),
    in either build configuration, returns a value structurally equal to the original (hence `==`), and
    leaves untouched whatever follows the serialisation in the stream. -/
theorem C05_t_decode (chk dbg : Bool) (t : Treemap) (h : Treemap.WFd Bitmap.WF t) (rest : List Nat) :
    Treemap.deserialize chk dbg (Treemap.serialize t ++ rest) = .ok (t, rest) :=
  Treemap.deserialize_serialize chk dbg (fun b hb r => C05_decode chk dbg b hb r) t h.toSer rest

theorem C05_t_decode_eq (chk dbg : Bool) (t : Treemap) (h : Treemap.WFd Bitmap.WF t) :
    ∃ t', Treemap.deserialize chk dbg (Treemap.serialize t) = .ok (t', []) ∧ t' = t := by
  refine ⟨t, ?_, rfl⟩
  have := C05_t_decode chk dbg t h []
  simpa using this

/-- a treemap with the lowest and the highest partition key meets `TreemapWF` -/
example : TreemapWF [(0, [{ key := 0, store := .array [1, 5, 65535] }]),
                     (4294967295, [{ key := 65535, store := .array [0] }])] := by
  apply (C05_t_wf_iff _).mpr
  refine ⟨by simp [Treemap.KeysSorted, Treemap.keys, TL.Sorted], ?_⟩
  intro p hp
  simp only [List.mem_cons, List.not_mem_nil, or_false] at hp
  rcases hp with rfl | rfl <;> refine ⟨by decide, BitmapWF.toWF ?_, by simp⟩ <;> simp [BitmapWF, StoreWF]

/-- concrete bytes (no hypothesis): count 2, key 0 + stream, key `u32::MAX` + stream -/
example : Treemap.serialize [(0, [{ key := 0, store := .array [5] }]), (4294967295, [{ key := 0, store := .array [5] }])]
    = [2, 0, 0, 0, 0, 0, 0, 0,
       0, 0, 0, 0, 58, 48, 0, 0, 1, 0, 0, 0, 0, 0, 0, 0, 16, 0, 0, 0, 5, 0,
       255, 255, 255, 255, 58, 48, 0, 0, 1, 0, 0, 0, 0, 0, 0, 0, 16, 0, 0, 0, 5, 0] := by decide

/-- The treemap bytes are the reference encoding of the 64-bit portable format (`Spec.encode64`, written from the
    format description: `u64` count, ascending `u32` keys each followed by the standard 32-bit encoding of the low
    halves) **determined by the element set alone**.  Unconditional: the 32-bit layer is `C05_bytes`; the 64-bit
    layer (bucket keys = distinct high halves, bucket contents = low halves, count) is proved in
    `Lemmas/TreemapEncodeSpec.lean`. -/
theorem C05_t_bytes (t : Treemap) (h : Treemap.WFd Bitmap.WF t) :
    Treemap.serialize t = Spec.encode64 (Treemap.elems t) :=
  Treemap.serialize_eq_encode64 t h.partsOK h.sorted (fun p hp => C05_bytes p.2 (h.parts p hp).2.1)

/-- the full statement as a `Prop` -/
def C05_t_bytes_statement : Prop :=
  ∀ t : Treemap, Treemap.WFd Bitmap.WF t → Treemap.serialize t = Spec.encode64 (Treemap.elems t)

theorem C05_t_bytes_statement_holds : C05_t_bytes_statement := C05_t_bytes

/-- two treemaps with the same elements serialise to the same bytes (history-independence): the bytes are a
    function of the element list alone … -/
theorem C05_t_deterministic (a b : Treemap) (ha : Treemap.WFd Bitmap.WF a) (hb : Treemap.WFd Bitmap.WF b)
    (he : Treemap.elems a = Treemap.elems b) : Treemap.serialize a = Treemap.serialize b := by
  rw [C05_t_bytes a ha, C05_t_bytes b hb, he]

/-- … and indeed (canonical form, `Treemap.canonical`) the two values are the same representation. -/
theorem C05_t_deterministic_repr (a b : Treemap) (ha : Treemap.WFd Bitmap.WF a) (hb : Treemap.WFd Bitmap.WF b)
    (he : Treemap.elems a = Treemap.elems b) : a = b := Treemap.canonical a b ha hb he

/-- conversely, equal bytes ⇒ equal values: serialisation is injective on well-formed treemaps -/
theorem C05_t_injective (a b : Treemap) (ha : Treemap.WFd Bitmap.WF a) (hb : Treemap.WFd Bitmap.WF b)
    (he : Treemap.serialize a = Treemap.serialize b) : a = b := by
  have h1 := C05_t_decode true false a ha []
  have h2 := C05_t_decode true false b hb []
  rw [he, h2] at h1
  simp only [Except.ok.injEq, Prod.mk.injEq, and_true] at h1
  exact h1.symm

/-- the output is accepted by the strict reference decoder of the portable format, which reads back exactly the
    value's elements and leaves what follows -/
theorem C05_t_conformant (t : Treemap) (h : Treemap.WFd Bitmap.WF t) (rest : List Nat) :
    Spec.decode64 (Treemap.serialize t ++ rest) = some (Treemap.elems t, rest) :=
  Treemap.specDecode64_serialize t h rest

/-- concrete agreement (no hypothesis): partitions 0 and `u32::MAX` -/
example : Treemap.serialize [(0, [{ key := 0, store := .array [1, 5] }]), (4294967295, [{ key := 65535, store := .array [65535] }])]
    = Spec.encode64 [1, 5, 18446744073709551615] := by decide

/-! ### the treemap encoder the driver executes (fidelity audit): inner 32-bit streams through `Bitmap.serializeM` -/

/-- **mirror (64-bit).** For a well-formed treemap the executed encoder does not panic in either build
    configuration and emits the bytes of `Treemap.serialize` (= `Spec.encode64 (elems t)` by `C05_t_bytes`). -/
theorem C05_t_serialize_mirror_eq (ovf : Bool) (t : Treemap) (h : Treemap.WFd Bitmap.WF t) :
    Treemap.serializeM ovf t = some (Treemap.serialize t) :=
  Fidelity.tserializeM_eq ovf t (fun p hp => wf_len_pos p.2 (h.parts p hp).2.1)

theorem C05_t_bytes_mirror (ovf : Bool) (t : Treemap) (h : Treemap.WFd Bitmap.WF t) :
    Treemap.serializeM ovf t = some (Spec.encode64 (Treemap.elems t)) := by
  rw [C05_t_serialize_mirror_eq ovf t h, C05_t_bytes t h]

end Roaring.C05
