import RoaringModel.Lemmas.CodecWF
import RoaringModel.Lemmas.Parser
import RoaringModel.Lemmas.RoundTrip
/-!
# C05 — serialization is exact, deterministic and format-conformant (32-bit half)
-/
namespace Roaring.C05
open Roaring Roaring.Parser

/-- `serialize_into` writes exactly `serialized_size()` bytes. -/
theorem C05_size (b : Bitmap) (h : BitmapWF b) : (Bitmap.serialize b).length = Bitmap.serializedSize b := by
  unfold Bitmap.serialize
  simp only [List.length_append, u32le_length, descrBytes_length, offsetBytes_length,
    payloadBytes_length b (fun c hc => (h.2 c hc).2), serializedSize_eq]
  omega

/-- Decoding the output with `deserialize_from` (`chk = true`) or `deserialize_unchecked_from` (`chk = false`),
    in either build configuration, returns a value structurally equal to the original (hence `==`), and
    leaves untouched whatever follows the serialisation in the stream. -/
theorem C05_decode (chk dbg : Bool) (b : Bitmap) (h : BitmapWF b) (rest : List Nat) :
    deserialize chk dbg (Bitmap.serialize b ++ rest) = .ok (b, rest) :=
  deserialize_serialize chk dbg b h rest

/-- the derived `==` of the model agrees: a value equals itself -/
theorem C05_decode_eq (chk dbg : Bool) (b : Bitmap) (h : BitmapWF b) :
    ∃ b', deserialize chk dbg (Bitmap.serialize b) = .ok (b', []) ∧ b' = b := by
  refine ⟨b, ?_, rfl⟩
  have := C05_decode chk dbg b h []
  simpa using this

/-- a two-chunk value with one array chunk and one chunk key at the top of the key space meets `BitmapWF` -/
example : BitmapWF [{ key := 0, store := .array [1, 5, 65535] }, { key := 65535, store := .array [0] }] := by
  refine ⟨by decide, ?_⟩
  intro c hc
  simp only [List.mem_cons, List.not_mem_nil, or_false] at hc
  rcases hc with rfl | rfl <;> refine ⟨by decide, by decide, ?_, by decide, by decide⟩ <;>
    (intro x hx; simp only [List.mem_cons, List.not_mem_nil, or_false] at hx; omega)

end Roaring.C05
