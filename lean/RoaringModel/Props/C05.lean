import RoaringModel.Ser
/-! # C05 (placeholder, replaced below) -/
namespace Roaring.C05
open Roaring

theorem C05_readN_zero (bs : List Nat) : readN 0 bs = .ok ([], bs) := by
  simp [readN]

end Roaring.C05
