import RoaringModel.Ops
import RoaringModel.Spec
/-!
# C02 — 32-bit set algebra is exact (property theorems)
-/
namespace Roaring.C02
open Roaring

/-- the wrappers of ops.rs delegate: `a | b` is `a |= b`. -/
theorem C02_or_oo_eq_ao (a b : Bitmap) : Bitmap.orOO a b = Bitmap.orAO a b := rfl

end Roaring.C02
