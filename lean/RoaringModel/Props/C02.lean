import RoaringModel.Lemmas.BitmapOps
import RoaringModel.Lemmas.BitmapSearchOps
import RoaringModel.Lemmas.BitmapOrAssign
import RoaringModel.Lemmas.BitmapAndAssign
import RoaringModel.Lemmas.Canonical
import RoaringModel.Lemmas.MirrorLemmas
/-!
# C02 — 32-bit set algebra is exactly union / intersection / difference / symmetric difference

Statement shape (DESIGN §8): for well-formed operands the result is well-formed and its element list
*is* the SPEC operation on the operands' element lists (`Spec.sOr / sAnd / sSub / sXor`, whose membership
laws are `Spec.mem_sOr` … in `Lemmas/AlgebraSpec.lean`).

Proved here, for all well-formed `a b` (`Bitmap.WF`, `Inv.lean`), **for all 4 operators × 6 forms**
(`C02_<op>_<form>`, form ∈ {oo, or, ro, rr, ao, ar}; `C02_all_forms` for all at once), unconditionally, each
mirroring its own code path:
* `&a op &b` — the four `Pairs` merge-join loops; `a ^= b`, `a ^= &b` — two more `Pairs` loops;
* `a &= &b`, `a -= &b` — `retain_mut` + `binary_search_by_key`, shown to visit the same chunk pairs;
* `a &= b` — operand swap on `containers.len()`, matched rhs chunk moved out (`mem::replace`);
* `a |= b` (operand swap on `len()`), `a |= &b` — the insert-or-merge loop (`binary_search` + `Vec::insert`);
* the wrappers, delegating exactly as ops.rs does (including the exchanged operands of `&a | b`, `&a & b`,
  `&a ^ b`, for which commutativity of the SPEC operation is proved);
down to the per-kind store dispatch, the scalar merges, the in-place `retain` forms with the galloping
index, and `ensure_correct_store`.  `C02_forms_agree` (and `C02_<op>_forms_agree`): all six forms of one
operator return *structurally equal* values (`Bitmap.canonical`, `Lemmas/Canonical.lean`).

The family's lemma library is parametrised by the bitset-kernel record `K : BKernel`
(`Lemmas/StoreOps.lean`); it is inhabited by `bKernel` (every field is the core-library theorem of the same
name, `Lemmas/BStoreBasic.lean` / `BStoreRange.lean`), so nothing here is conditional.

"Borrowed operands are left unchanged" is not a theorem of a functional model (DESIGN §8 C02).
-/
namespace Roaring.C02
open Roaring Roaring.Bitmap

/-- The full-strength statement for one operator form `op` against the SPEC operation `sop`. -/
def Exact (op : Bitmap → Bitmap → Bitmap) (sop : List Nat → List Nat → List Nat) : Prop :=
  ∀ a b : Bitmap, a.WF → b.WF → (op a b).WF ∧ elems (op a b) = sop (elems a) (elems b)

theorem C02_or_rr : Exact orRR Spec.sOr := by
  intro a b ha hb
  rw [orRR_eq]
  exact pairsOp_elems_eq bKernel (pairSpec_or bKernel) a b ha hb _
    (Spec.sorted_sOr _ _ (sorted_elemsK bKernel a ha) (sorted_elemsK bKernel b hb)) (fun y => Spec.mem_sOr _ _ y)

theorem C02_and_rr : Exact andRR Spec.sAnd := by
  intro a b ha hb
  rw [andRR_eq]
  exact pairsOp_elems_eq bKernel (pairSpec_and bKernel) a b ha hb _
    (Spec.sorted_sAnd _ _ (sorted_elemsK bKernel a ha) (sorted_elemsK bKernel b hb))
    (fun y => Spec.mem_sAnd _ _ (sorted_elemsK bKernel a ha) (sorted_elemsK bKernel b hb) y)

theorem C02_sub_rr : Exact subRR Spec.sSub := by
  intro a b ha hb
  rw [subRR_eq]
  exact pairsOp_elems_eq bKernel (pairSpec_sub bKernel) a b ha hb _
    (Spec.sorted_sSub _ _ (sorted_elemsK bKernel a ha) (sorted_elemsK bKernel b hb))
    (fun y => Spec.mem_sSub _ _ (sorted_elemsK bKernel a ha) (sorted_elemsK bKernel b hb) y)

/-- `&a - b` delegates to `&a - &b` (ops.rs:295). -/
theorem C02_sub_ro : Exact subRO Spec.sSub := C02_sub_rr

theorem C02_xorWith (f : Container → Container → Container) (op : Store → Store → Store)
    (hf : ∀ l r : Container, f l r = Container.ensureCorrectStore { key := l.key, store := op l.store r.store })
    (hop : Store.OpSpec Store.PXor op) : Exact (xorWith f) Spec.sXor := by
  intro a b ha hb
  rw [xorWith_eq]
  exact pairsOp_elems_eq bKernel (pairSpec_xor bKernel f op hf hop) a b ha hb _
    (Spec.sorted_sXor _ _ (sorted_elemsK bKernel a ha) (sorted_elemsK bKernel b hb))
    (fun y => Spec.mem_sXor _ _ (sorted_elemsK bKernel a ha) (sorted_elemsK bKernel b hb) y)

theorem C02_xor_rr : Exact xorRR Spec.sXor :=
  C02_xorWith _ _ (fun _ _ => rfl) (Store.xorRef_spec bKernel)
theorem C02_xor_ao : Exact xorAO Spec.sXor :=
  C02_xorWith _ _ (fun _ _ => rfl) (Store.xorAssignOwned_spec bKernel)
theorem C02_xor_ar : Exact xorAR Spec.sXor :=
  C02_xorWith _ _ (fun _ _ => rfl) (Store.xorAssignRef_spec bKernel)
/-- `a ^ b` is `a ^= b`, `a ^ &b` is `a ^= &b` (ops.rs:351-369). -/
theorem C02_xor_oo : Exact xorOO Spec.sXor := C02_xor_ao
theorem C02_xor_or : Exact xorOR Spec.sXor := C02_xor_ar

/-- symmetric difference is symmetric (needed because `&a ^ b` is computed as `b ^= &a`) -/
theorem C02_sXor_comm (l r : List Nat) (hl : Sorted l) (hr : Sorted r) : Spec.sXor l r = Spec.sXor r l := by
  apply Arr.sorted_ext _ _ (Spec.sorted_sXor l r hl hr) (Spec.sorted_sXor r l hr hl)
  intro x; rw [Spec.mem_sXor l r hl hr, Spec.mem_sXor r l hr hl]
  constructor <;> (intro h; rcases h with h | h) <;> simp [h.1, h.2]

/-- `&a ^ b` = `BitXor::bitxor(rhs, self)` (ops.rs:371): the operands are exchanged. -/
theorem C02_xor_ro : Exact xorRO Spec.sXor := by
  intro a b ha hb
  have := C02_xor_ar b a hb ha
  exact ⟨this.1, by rw [C02_sXor_comm _ _ (sorted_elemsK bKernel a ha) (sorted_elemsK bKernel b hb)]; exact this.2⟩

/-! ### the search-based loops -/

theorem C02_and_ar : Exact andAR Spec.sAnd := by
  intro a b ha hb
  rw [andAR_eq, searchOp_eq_pairsOp _ _ _ a b ha hb]
  exact pairsOp_elems_eq bKernel (pairSpec_andAR bKernel) a b ha hb _
    (Spec.sorted_sAnd _ _ (sorted_elemsK bKernel a ha) (sorted_elemsK bKernel b hb))
    (fun y => Spec.mem_sAnd _ _ (sorted_elemsK bKernel a ha) (sorted_elemsK bKernel b hb) y)

/-- `a & &b` is `a &= &b` (ops.rs:197). -/
theorem C02_and_or : Exact andOR Spec.sAnd := C02_and_ar

theorem C02_sAnd_comm (l r : List Nat) (hl : Sorted l) (hr : Sorted r) : Spec.sAnd l r = Spec.sAnd r l := by
  apply Arr.sorted_ext _ _ (Spec.sorted_sAnd l r hl hr) (Spec.sorted_sAnd r l hr hl)
  intro x; rw [Spec.mem_sAnd l r hl hr, Spec.mem_sAnd r l hr hl]; exact And.comm

/-- `&a & b` = `BitAnd::bitand(rhs, self)` (ops.rs:207): the operands are exchanged. -/
theorem C02_and_ro : Exact andRO Spec.sAnd := by
  intro a b ha hb
  have := C02_and_ar b a hb ha
  exact ⟨this.1, by rw [C02_sAnd_comm _ _ (sorted_elemsK bKernel a ha) (sorted_elemsK bKernel b hb)]; exact this.2⟩

theorem C02_sub_ar : Exact subAR Spec.sSub := by
  intro a b ha hb
  rw [subAR_eq, searchOp_eq_pairsOp _ _ _ a b ha hb]
  exact pairsOp_elems_eq bKernel (pairSpec_subAR bKernel) a b ha hb _
    (Spec.sorted_sSub _ _ (sorted_elemsK bKernel a ha) (sorted_elemsK bKernel b hb))
    (fun y => Spec.mem_sSub _ _ (sorted_elemsK bKernel a ha) (sorted_elemsK bKernel b hb) y)

/-- `a -= b`, `a - b`, `a - &b` all are `a -= &b` (ops.rs:275-334). -/
theorem C02_sub_ao : Exact subAO Spec.sSub := C02_sub_ar
theorem C02_sub_oo : Exact subOO Spec.sSub := C02_sub_ar
theorem C02_sub_or : Exact subOR Spec.sSub := C02_sub_ar

/-- `a &= b` (owned): whichever way the `containers.len()`-based operand swap goes -/
theorem C02_and_ao : Exact andAO Spec.sAnd := by
  intro a b ha hb
  have hsa := sorted_elemsK bKernel a ha
  have hsb := sorted_elemsK bKernel b hb
  rw [andAO_eq a b ha hb]
  split
  · have := pairsOp_elems_eq bKernel (pairSpec_andAO bKernel) b a hb ha _ (Spec.sorted_sAnd _ _ hsb hsa)
      (fun y => Spec.mem_sAnd _ _ hsb hsa y)
    exact ⟨this.1, by rw [C02_sAnd_comm _ _ hsa hsb]; exact this.2⟩
  · exact pairsOp_elems_eq bKernel (pairSpec_andAO bKernel) a b ha hb _ (Spec.sorted_sAnd _ _ hsa hsb)
      (fun y => Spec.mem_sAnd _ _ hsa hsb y)

/-- `a & b` is `a &= b` (ops.rs:187). -/
theorem C02_and_oo : Exact andOO Spec.sAnd := C02_and_ao

/-! ### the insert-or-merge loops of `|=` -/

theorem C02_sOr_comm (l r : List Nat) (hl : Sorted l) (hr : Sorted r) : Spec.sOr l r = Spec.sOr r l := by
  apply Arr.sorted_ext _ _ (Spec.sorted_sOr l r hl hr) (Spec.sorted_sOr r l hr hl)
  intro x; rw [Spec.mem_sOr, Spec.mem_sOr]; exact Or.comm

theorem C02_or_ar : Exact orAR Spec.sOr := by
  intro a b ha hb
  rw [orAR_eq_pairsOp a b ha hb]
  exact pairsOp_elems_eq bKernel (pairSpec_orAR bKernel) a b ha hb _
    (Spec.sorted_sOr _ _ (sorted_elemsK bKernel a ha) (sorted_elemsK bKernel b hb)) (fun y => Spec.mem_sOr _ _ y)

/-- `a |= b` (owned): whichever way the `len()`-based operand swap goes, the result is the union -/
theorem C02_or_ao : Exact orAO Spec.sOr := by
  intro a b ha hb
  rw [orAO_eq_pairsOp a b ha hb]
  split
  · have := pairsOp_elems_eq bKernel (pairSpec_orAO bKernel) b a hb ha _
      (Spec.sorted_sOr _ _ (sorted_elemsK bKernel b hb) (sorted_elemsK bKernel a ha)) (fun y => Spec.mem_sOr _ _ y)
    exact ⟨this.1, by rw [C02_sOr_comm _ _ (sorted_elemsK bKernel a ha) (sorted_elemsK bKernel b hb)]; exact this.2⟩
  · exact pairsOp_elems_eq bKernel (pairSpec_orAO bKernel) a b ha hb _
      (Spec.sorted_sOr _ _ (sorted_elemsK bKernel a ha) (sorted_elemsK bKernel b hb)) (fun y => Spec.mem_sOr _ _ y)

/-- `a | b` is `a |= b`, `a | &b` is `a |= &b` (ops.rs:107-125). -/
theorem C02_or_oo : Exact orOO Spec.sOr := C02_or_ao
theorem C02_or_or : Exact orOR Spec.sOr := C02_or_ar

/-- `&a | b` = `BitOr::bitor(rhs, self)` (ops.rs:127): the operands are exchanged. -/
theorem C02_or_ro : Exact orRO Spec.sOr := by
  intro a b ha hb
  have := C02_or_ar b a hb ha
  exact ⟨this.1, by rw [C02_sOr_comm _ _ (sorted_elemsK bKernel a ha) (sorted_elemsK bKernel b hb)]; exact this.2⟩

/-- **C02, all operators and forms at once**: the result is well-formed and is exactly the SPEC operation. -/
theorem C02_all_forms (op : BinOp) (fm : Form) (a b : Bitmap) (ha : a.WF) (hb : b.WF) :
    (binop op fm a b).WF ∧ elems (binop op fm a b) =
      (match op with
       | .or => Spec.sOr | .and => Spec.sAnd | .sub => Spec.sSub | .xor => Spec.sXor) (elems a) (elems b) := by
  cases op <;> cases fm
  · exact C02_or_oo a b ha hb
  · exact C02_or_or a b ha hb
  · exact C02_or_ro a b ha hb
  · exact C02_or_rr a b ha hb
  · exact C02_or_ao a b ha hb
  · exact C02_or_ar a b ha hb
  · exact C02_and_oo a b ha hb
  · exact C02_and_or a b ha hb
  · exact C02_and_ro a b ha hb
  · exact C02_and_rr a b ha hb
  · exact C02_and_ao a b ha hb
  · exact C02_and_ar a b ha hb
  · exact C02_sub_oo a b ha hb
  · exact C02_sub_or a b ha hb
  · exact C02_sub_ro a b ha hb
  · exact C02_sub_rr a b ha hb
  · exact C02_sub_ao a b ha hb
  · exact C02_sub_ar a b ha hb
  · exact C02_xor_oo a b ha hb
  · exact C02_xor_or a b ha hb
  · exact C02_xor_ro a b ha hb
  · exact C02_xor_rr a b ha hb
  · exact C02_xor_ao a b ha hb
  · exact C02_xor_ar a b ha hb

/-- **All forms of one operator return STRUCTURALLY EQUAL values** (not merely the same elements): every
    form's result is well-formed with the same element list (`C02_all_forms`), and a well-formed value is
    determined by its element list (`Bitmap.canonical`, the canonical-form theorem of C04). -/
theorem C02_forms_agree (op : BinOp) (fm fm' : Form) (a b : Bitmap) (ha : a.WF) (hb : b.WF) :
    binop op fm a b = binop op fm' a b :=
  have h := C02_all_forms op fm a b ha hb
  have h' := C02_all_forms op fm' a b ha hb
  Bitmap.canonical _ _ h.1 h'.1 (h.2.trans h'.2.symm)

/-- per operator, against the `&a op &b` form -/
theorem C02_or_forms_agree (a b : Bitmap) (ha : a.WF) (hb : b.WF) (fm : Form) :
    binop .or fm a b = orRR a b := C02_forms_agree .or fm .rr a b ha hb
theorem C02_and_forms_agree (a b : Bitmap) (ha : a.WF) (hb : b.WF) (fm : Form) :
    binop .and fm a b = andRR a b := C02_forms_agree .and fm .rr a b ha hb
theorem C02_sub_forms_agree (a b : Bitmap) (ha : a.WF) (hb : b.WF) (fm : Form) :
    binop .sub fm a b = subRR a b := C02_forms_agree .sub fm .rr a b ha hb
theorem C02_xor_forms_agree (a b : Bitmap) (ha : a.WF) (hb : b.WF) (fm : Form) :
    binop .xor fm a b = xorRR a b := C02_forms_agree .xor fm .rr a b ha hb

/-- the wrappers of ops.rs delegate: `a | b` is `a |= b`, `a | &b` is `a |= &b`, `&a | b` is `b |= &a`;
    likewise for `&`; every owned/borrowed form of `-` is `a -= &b` except `&a - &b` / `&a - b`. -/
theorem C02_wrappers (a b : Bitmap) :
    orOO a b = orAO a b ∧ orOR a b = orAR a b ∧ orRO a b = orAR b a ∧
    andOO a b = andAO a b ∧ andOR a b = andAR a b ∧ andRO a b = andAR b a ∧
    subOO a b = subAR a b ∧ subOR a b = subAR a b ∧ subAO a b = subAR a b ∧ subRO a b = subRR a b :=
  ⟨rfl, rfl, rfl, rfl, rfl, rfl, rfl, rfl, rfl, rfl⟩

/-! Non-vacuity of the `WF` hypotheses: a two-chunk value (keys 0 and 7) is well-formed, and the
    operations are exercised on it by evaluation. -/
def exA : Bitmap := [⟨0, .array [1, 5, 65535]⟩, ⟨7, .array [0, 2]⟩]
def exB : Bitmap := [⟨0, .array [5, 6]⟩, ⟨3, .array [9]⟩]

example : exA.WF ∧ exB.WF := by
  refine ⟨⟨by decide, ?_⟩, ⟨by decide, ?_⟩⟩ <;>
  · intro c hc
    simp only [exA, exB, List.mem_cons, List.not_mem_nil, or_false] at hc
    rcases hc with rfl | rfl <;>
      exact ⟨by decide, ⟨⟨by simp [Sorted], by decide⟩, by decide, by decide⟩⟩

/-- … and a value with one array chunk and one bitset chunk (4160 values) -/
def exBits : BStore := { len := 4160, bits := List.replicate 65 wMax ++ List.replicate 959 0 }
def exC : Bitmap := [⟨0, .array [1, 5, 65535]⟩, ⟨7, .bitmap exBits⟩]

example : exC.WF := by
  refine ⟨by decide, ?_⟩
  intro c hc
  simp only [exC, List.mem_cons, List.not_mem_nil, or_false] at hc
  rcases hc with rfl | rfl
  · exact ⟨by decide, ⟨⟨by simp [Sorted], by decide⟩, by decide, by decide⟩⟩
  · exact ⟨by decide, ⟨by decide +kernel, by decide +kernel, by decide +kernel⟩, by decide⟩

example : elems (orRR exA exB) = [1, 5, 6, 65535, 196617, 458752, 458754]
    ∧ elems (andRR exA exB) = [5] ∧ elems (subRR exA exB) = [1, 65535, 458752, 458754]
    ∧ elems (xorAO exA exB) = [1, 6, 65535, 196617, 458752, 458754] := by decide +kernel

/-! ## Fidelity audit (stores): the theorems above, restated for the mirrored definitions the driver executes

`notes/fidelity-stores-iter32.md`.  The store kernels under `C02_*` are `Arr.or/and/sub/xor` (scalar.rs) and
`BStore.opBitmaps` (bitmap_store.rs `op_bitmaps`).  Their Rust originals are (a) ONE generic merge per operator,
parameterised by a `BinaryOperationVisitor`, closed by `ArrayStore::from_vec_unchecked`, and (b) ONE loop that applies
the word operator and accumulates `len`.  The mirrored definitions are `Arr.scalar* V` / `Arr.*Op dbg` and
`BStore.opBitmapsMirror`.  Because the equalities below are equalities of *functions* (`@[csimp]`, unconditional), the
compiled driver evaluates every `C02_*` operation through the mirrored kernels, and every theorem of this file is, by
rewriting with them, a theorem about what the driver executes. -/

/-- what the compiled driver runs in place of the five array kernels and the bitset kernel (the `@[csimp]` equations) -/
theorem C02_driver_runs_mirrors :
    @Arr.or = @Arr.orVisit ∧ @Arr.and = @Arr.andVisit ∧ @Arr.sub = @Arr.subVisit ∧ @Arr.xor = @Arr.xorVisit
    ∧ @BStore.opBitmaps = @BStore.opBitmapsMirror :=
  ⟨Arr.or_eq_visit, Arr.and_eq_visit, Arr.sub_eq_visit, Arr.xor_eq_visit, BStore.opBitmaps_eq_mirror⟩

/-- scalar.rs, generic in the visitor, run with `VecWriter` from any already written prefix `acc`: it appends exactly
    the model merge — for arbitrary (also ill-formed) slices -/
theorem C02_scalar_vecWriter (l r : List Nat) (acc : Array Nat) :
    (Arr.scalarOr Arr.vecWriter l r acc).toList = acc.toList ++ Arr.or l r
    ∧ (Arr.scalarAnd Arr.vecWriter l r acc).toList = acc.toList ++ Arr.and l r
    ∧ (Arr.scalarSub Arr.vecWriter l r acc).toList = acc.toList ++ Arr.sub l r
    ∧ (Arr.scalarXor Arr.vecWriter l r acc).toList = acc.toList ++ Arr.xor l r :=
  ⟨Arr.scalarOr_vecWriter l r acc, Arr.scalarAnd_vecWriter l r acc, Arr.scalarSub_vecWriter l r acc,
   Arr.scalarXor_vecWriter l r acc⟩

/-- The four `&ArrayStore ∘ &ArrayStore` operator impls *including* the closing `from_vec_unchecked`: on strictly
    ascending operands (every array chunk of a `Bitmap.WF` value: `Store.Inv`) the debug validation never fires, in
    either build configuration, and the result is the strictly ascending vector of the set operation. -/
theorem C02_array_ops_exact (dbg : Bool) (a b : List Nat) (ha : Sorted a) (hb : Sorted b) :
    (∃ v, Arr.orOp dbg a b = some v ∧ Sorted v ∧ ∀ x, x ∈ v ↔ x ∈ a ∨ x ∈ b)
    ∧ (∃ v, Arr.andOp dbg a b = some v ∧ Sorted v ∧ ∀ x, x ∈ v ↔ x ∈ a ∧ x ∈ b)
    ∧ (∃ v, Arr.subOp dbg a b = some v ∧ Sorted v ∧ ∀ x, x ∈ v ↔ x ∈ a ∧ x ∉ b)
    ∧ (∃ v, Arr.xorOp dbg a b = some v ∧ Sorted v ∧ ∀ x, x ∈ v ↔ (x ∈ a ∧ x ∉ b) ∨ (x ∉ a ∧ x ∈ b)) :=
  ⟨⟨_, Arr.orOp_eq dbg a b ha hb, Arr.sorted_or a b ha hb, Arr.mem_or a b⟩,
   ⟨_, Arr.andOp_eq dbg a b ha hb, Arr.sorted_and a b ha hb, Arr.mem_and a b ha hb⟩,
   ⟨_, Arr.subOp_eq dbg a b ha hb, Arr.sorted_sub a b ha hb, Arr.mem_sub a b ha hb⟩,
   ⟨_, Arr.xorOp_eq dbg a b ha hb, Arr.sorted_xor a b ha hb, Arr.mem_xor a b ha hb⟩⟩

example : Sorted [1, 5, 65535] ∧ Sorted [5, 6] := by simp [Sorted]
example : Arr.orOp true [1, 5, 65535] [5, 6] = some [1, 5, 6, 65535] ∧ Arr.xorOp true [1, 5, 65535] [5, 6] = some [1, 6, 65535]
    ∧ Arr.orOp true [5, 1] [2] = none := by decide +kernel

/-- `op_bitmaps` as the single loop of the Rust (`len = 0`; per word: operator, then `len += count_ones`) is the model's
    `opBitmaps` for every word operator and all operands; in particular `orB/andB/subB/xorB`, on which
    `C02_*` rest, are that loop. -/
theorem C02_opBitmaps_mirror (f : Nat → Nat → Nat) (a b : BStore) :
    BStore.opBitmapsMirror f a b = BStore.opBitmaps f a b := BStore.opBitmaps_mirror_eq f a b

example : BStore.opBitmapsMirror (· ^^^ ·) ⟨3, [7, 0]⟩ ⟨2, [1, 8]⟩ = ⟨3, [6, 8]⟩ := by decide +kernel

/-- The two store conversions of `ensure_correct_store` *including* the debug validation of the `*_unchecked`
    constructor they end in (`to_array_store` → `from_vec_unchecked`, `to_bitmap_store` → `from_unchecked`): never
    fires on a store satisfying its structural invariant, so `Container.ensureCorrectStore` (which uses the bare
    `toArray` / `arrToBitmap`) drops nothing. -/
theorem C02_conversions_validated (dbg : Bool) :
    (∀ b : BStore, b.Inv → BStore.toArrayOp dbg b = some b.toArray)
    ∧ (∀ v : List Nat, Arr.Inv v → Store.arrToBitmapOp dbg v = some (Store.arrToBitmap v)) :=
  ⟨fun b hb => BStore.toArrayOp_eq dbg b hb, fun v hv => Store.arrToBitmapOp_eq dbg v hv⟩

example : BStore.new.Inv ∧ Arr.Inv [1, 5, 65535] := ⟨BStore.inv_new, by simp [Sorted], by decide⟩

end Roaring.C02
