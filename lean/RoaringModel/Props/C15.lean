import RoaringModel.BitmapStore
/-!
# C15 — no safe call sequence causes an invalid memory access (bounds logic of the unsafe sites)

A Lean theorem cannot exhibit undefined behaviour; what is proved here is the index arithmetic each `unsafe` block
relies on, for **arbitrary** (also ill-formed) states.  The tie to the Rust sites are the `cfg(roaring_verif)` bounds
recorders (see DESIGN.md §8 C15).
-/
namespace Roaring.C15
open Roaring

/-- `BitmapIter::advance_to`: the word index read with `get_unchecked(new_key)` is `index / 64 ≤ 1023`
    for every `u16` target, whatever the iterator state. -/
theorem C15_advanceTo_index (index : Nat) (h : index < 65536) : wkey index < 1024 := by
  unfold wkey; omega

/-- `BitmapIter::next`: every word index read in the scan lies strictly between `key` and `key_back`,
    hence below 1024 whenever `key_back ≤ 1023` (which `new`, `advance_back_to` and `next_back` maintain). -/
theorem C15_next_scan_index (key keyBack k : Nat) (hkb : keyBack ≤ 1023)
    (hk : k ∈ List.range' (key + 1) (keyBack - key - 1)) : k < 1024 := by
  rw [List.mem_range'_1] at hk; omega

/-- `advance_back_to` never increases `key_back`, `next_back` only decrements it while it is `> key ≥ 0`:
    `key_back ≤ 1023` is an invariant of every `BIter` reachable from `BIter.new`. -/
theorem C15_keyBack_advanceBackTo (it : BIter) (index : Nat) (hi : index < 65536) (h : it.keyBack ≤ 1023) :
    (it.advanceBackTo index).keyBack ≤ 1023 := by
  unfold BIter.advanceBackTo
  have : wkey index ≤ 1023 := by unfold wkey; omega
  simp only []
  repeat' split
  all_goals (first | exact h | exact this)

end Roaring.C15
