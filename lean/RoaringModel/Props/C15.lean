import RoaringModel.Lemmas.UnsafeLemmas
import RoaringModel.Store
/-!
# C15 — no safe call sequence causes an invalid memory access (bounds logic of the unsafe sites)

A Lean theorem cannot exhibit undefined behaviour; what is proved here is the index arithmetic each `unsafe` block
relies on, for **arbitrary** (also ill-formed) states: unsorted arrays, arrays with duplicates, unsorted or repeated
chunk keys, any word list, any cursor position.  No theorem below has a well-formedness hypothesis.

* `Unsafe.lean` / `UnsafeIter.lean` model the loops around the 16 unchecked accesses with explicit indices and record
  every unchecked access as an `Access` (`site`, `index`, `len`) — the arguments of the crate's
  `#[cfg(roaring_verif)] verif_hooks::site(id, index, len)` recorders, which are the tie to the Rust sites
  (DESIGN.md §8 C15).  `Safe t` = every access of the trace `t` has `index < len`.
* sites: 0 `rank`; 1–8 `scalar::{or,and,sub,xor}`; 9 `retain`; 10, 11 `from_lsb0_bytes_unchecked`;
  12 `advance_to`; 13 `advance_back_to`; 14 `next`; 15 `next_back`.

Each theorem with hypotheses is followed by an `example` that instantiates it on an ill-formed input.
-/
namespace Roaring.C15
open Roaring Roaring.Unsafe

/-! ## sites 1–8: the two-pointer merges of `scalar.rs` -/

/-- Sites 1, 2 (`scalar::or`): from *every* loop state `(fuel, i, j)` over *any* two slices, each recorded access is
    `lhs.get_unchecked(i)` with `i < lhs.len()` or `rhs.get_unchecked(j)` with `j < rhs.len()`. -/
theorem C15_or_sites (lhs rhs : Array Nat) (fuel i j : Nat) :
    ∀ a ∈ (orLoop lhs rhs fuel i j).2,
      (a.site = 1 ∧ a.len = lhs.size ∨ a.site = 2 ∧ a.len = rhs.size) ∧ a.index < a.len :=
  orLoop_only lhs rhs fuel i j

/-- Sites 3, 4 (`scalar::and`): as `C15_or_sites`. -/
theorem C15_and_sites (lhs rhs : Array Nat) (fuel i j : Nat) :
    ∀ a ∈ (andLoop lhs rhs fuel i j).2,
      (a.site = 3 ∧ a.len = lhs.size ∨ a.site = 4 ∧ a.len = rhs.size) ∧ a.index < a.len :=
  andLoop_only lhs rhs fuel i j

/-- Sites 5, 6 (`scalar::sub`): as `C15_or_sites`. -/
theorem C15_sub_sites (lhs rhs : Array Nat) (fuel i j : Nat) :
    ∀ a ∈ (subLoop lhs rhs fuel i j).2,
      (a.site = 5 ∧ a.len = lhs.size ∨ a.site = 6 ∧ a.len = rhs.size) ∧ a.index < a.len :=
  subLoop_only lhs rhs fuel i j

/-- Sites 7, 8 (`scalar::xor`): as `C15_or_sites`. -/
theorem C15_xor_sites (lhs rhs : Array Nat) (fuel i j : Nat) :
    ∀ a ∈ (xorLoop lhs rhs fuel i j).2,
      (a.site = 7 ∧ a.len = lhs.size ∨ a.site = 8 ∧ a.len = rhs.size) ∧ a.index < a.len :=
  xorLoop_only lhs rhs fuel i j

/-- Sites 1–8: the traces of the four merges, called on arbitrary slices, are in bounds. -/
theorem C15_merge_safe (lhs rhs : Array Nat) :
    Safe (Unsafe.or lhs rhs).2 ∧ Safe (Unsafe.and lhs rhs).2 ∧ Safe (Unsafe.sub lhs rhs).2 ∧ Safe (Unsafe.xor lhs rhs).2 :=
  ⟨(orLoop_only lhs rhs _ 0 0).safe, (andLoop_only lhs rhs _ 0 0).safe,
   (subLoop_only lhs rhs _ 0 0).safe, (xorLoop_only lhs rhs _ 0 0).safe⟩

/-- Sites 1–8, tie of the two models: on arbitrary (unsorted, duplicated) inputs the index-level loops hand the visitor
    exactly the list the list-level model `Arr.or/and/sub/xor` (the one the correspondence check runs against the crate)
    computes; in particular `fuel = lhs.len() + rhs.len()` never runs out. -/
theorem C15_merge_eq_model (lhs rhs : Array Nat) :
    (Unsafe.or lhs rhs).1 = Arr.or lhs.toList rhs.toList ∧ (Unsafe.and lhs rhs).1 = Arr.and lhs.toList rhs.toList ∧
    (Unsafe.sub lhs rhs).1 = Arr.sub lhs.toList rhs.toList ∧ (Unsafe.xor lhs rhs).1 = Arr.xor lhs.toList rhs.toList := by
  unfold Unsafe.or Unsafe.and Unsafe.sub Unsafe.xor
  refine ⟨?_, ?_, ?_, ?_⟩
  · simpa using orLoop_eq lhs rhs (lhs.size + rhs.size) 0 0 (by omega)
  · simpa using andLoop_eq lhs rhs (lhs.size + rhs.size) 0 0 (by omega)
  · simpa using subLoop_eq lhs rhs (lhs.size + rhs.size) 0 0 (by omega)
  · simpa using xorLoop_eq lhs rhs (lhs.size + rhs.size) 0 0 (by omega)

/-- ill-formed operands (unsorted, with duplicates): all recorded accesses (14 for the first pair) are in bounds -/
example : (Unsafe.or #[5, 1, 1, 9] #[1, 7, 7, 2]).2.length = 14 ∧ Safe (Unsafe.or #[5, 1, 1, 9] #[1, 7, 7, 2]).2 := by decide
example : (Unsafe.xor #[9, 9, 0] #[3, 3, 3, 3, 1]).1 = [3, 3, 3, 3, 1, 9, 9, 0] ∧ Safe (Unsafe.xor #[9, 9, 0] #[3, 3, 3, 3, 1]).2 := by
  decide
example : Safe (Unsafe.sub #[65535, 0, 65535] #[0, 0]).2 := (C15_merge_safe _ _).2.2.1

/-! ## site 9: `ArrayStore::retain` -/

/-- Site 9 (`retain`): for any vector and any (stateful, `FnMut`) predicate, every `slice.get_unchecked_mut(pos)` has
    `pos < slice.len()`; moreover the final `pos ≤ len` (`truncate(pos)` only shrinks) and the length never changes. -/
theorem C15_retain {σ : Type} (f : σ → Nat → σ × Bool) (s : σ) (vec : Array Nat) :
    (∀ a ∈ (retain f s vec).2.2, a.site = 9 ∧ a.len = vec.size ∧ a.index < a.len)
    ∧ (retainLoop f vec.size s vec 0 0).pos ≤ vec.size
    ∧ (retainLoop f vec.size s vec 0 0).slice.size = vec.size :=
  retainLoop_spec f vec.size s vec 0 0 (Nat.le_refl _) (by omega)

/-- Site 9, from every loop state with `pos ≤ i` (the SAFETY comment of the crate) and `k = len - i` iterations left. -/
theorem C15_retain_loop {σ : Type} (f : σ → Nat → σ × Bool) (k : Nat) (s : σ) (slice : Array Nat) (pos i : Nat)
    (hpos : pos ≤ i) (hk : i + k = slice.size) :
    ∀ a ∈ (retainLoop f k s slice pos i).trace, a.site = 9 ∧ a.len = slice.size ∧ a.index < a.len :=
  (retainLoop_spec f k s slice pos i hpos hk).1

/-- Site 9, tie of the two models: on any vector the index-level `retain` leaves exactly the elements (and the closure
    state) the list-level `retainList` keeps; with the galloping closures of the in-place `&=` / `-=`
    (array_store/mod.rs:388, 427) that is the list-level model `Arr.andAssign` / `Arr.subAssign`. -/
theorem C15_retain_eq_model {σ : Type} (f : σ → Nat → σ × Bool) (s : σ) (vec rhs : Array Nat) :
    (retain f s vec).1.toList = (retainList f s vec.toList).1 ∧ (retain f s vec).2.1 = (retainList f s vec.toList).2
    ∧ (retain andClosure rhs.toList vec).1.toList = Arr.andAssign vec.toList rhs.toList
    ∧ (retain subClosure rhs.toList vec).1.toList = Arr.subAssign vec.toList rhs.toList :=
  ⟨(retain_eq f s vec).1, (retain_eq f s vec).2,
   by rw [(retain_eq _ _ _).1, retainList_and], by rw [(retain_eq _ _ _).1, retainList_sub]⟩

/-- a stateful closure on an unsorted vector with duplicates; and a mid-loop state with `pos ≤ i` -/
example : (retain (fun (n : Nat) v => (n + 1, n % 2 == 0 || v == 7)) 0 #[7, 3, 3, 7, 0, 7]).1 = #[7, 3, 7, 0, 7] := by decide
example : Safe (retainLoop (fun (_ : Unit) v => ((), v != 3)) 3 () #[7, 3, 3, 7, 0] 1 2).trace :=
  fun a ha => (C15_retain_loop _ 3 () #[7, 3, 3, 7, 0] 1 2 (by decide) (by decide) a ha).2.2

/-! ## site 0: `RoaringBitmap::rank` -/

/-- Site 0 (`rank`): whatever index a contract-respecting `binary_search_by_key` returns on a directory with *arbitrary*
    keys (unsorted, repeated), `self.containers.get_unchecked(i)` in the `Ok(i)` arm is in bounds, and the checked
    `self.containers[..i]` of both arms does not panic. -/
theorem C15_rank (keys : Array Nat) (key : Nat) (r : Search) (h : r.Contract keys key) :
    Safe (rankAccesses keys r) ∧ rankSliceOk keys r :=
  rank_spec keys key r h

/-- unsorted keys with a repeated key: both `Ok(1)` and `Ok(3)` respect the contract for key 2 -/
example : Safe (rankAccesses #[9, 2, 0, 2] (.ok 3)) := (C15_rank #[9, 2, 0, 2] 2 (.ok 3) (by decide)).1
example : Safe (rankAccesses #[9, 2, 0, 2] (.ok 1)) := (C15_rank #[9, 2, 0, 2] 2 (.ok 1) (by decide)).1

/-- Site 0, with std's actual algorithm (`binary_search_by` of the installed toolchain's `core/src/slice/mod.rs`) in place of the oracle: on arbitrary keys it
    respects the contract (so `C15_rank` applies to it), and its own two `get_unchecked` are in bounds as well. -/
theorem C15_rank_std (keys : Array Nat) (key : Nat) :
    (stdBinarySearch keys key).1.Contract keys key ∧ Safe (stdBinarySearch keys key).2
    ∧ Safe (rankAccesses keys (stdBinarySearch keys key).1) :=
  ⟨(stdBinarySearch_spec keys key).1, (stdBinarySearch_spec keys key).2,
   (rank_spec keys key _ (stdBinarySearch_spec keys key).1).1⟩

/-- on unsorted keys std misses a present key (3 is at index 4) — allowed by the contract, and harmless -/
example : (stdBinarySearch #[5, 1, 1, 9, 3, 3, 0] 3).1 = .err 3 := by decide

/-! ## sites 10, 11: `BitmapStore::from_lsb0_bytes_unchecked` -/

/-- Sites 10, 11 (`from_lsb0_bytes_unchecked`): for every `bytes.len()` and `byte_offset`, either the leading `assert!`
    panics (exactly when `byte_offset + bytes.len() > 8192`), or: `read_unaligned` of 8192 bytes happens only on a slice
    of exactly 8192 bytes (then `byte_offset = 0`), the byte view `from_raw_parts_mut(_, 8192)` covers exactly the
    `1024 * 8`-byte box, and the checked `dst[byte_offset..][..bytes.len()]` does not panic. -/
theorem C15_from_lsb0 (bytesLen byteOffset : Nat) :
    (fromLsb0Accesses bytesLen byteOffset = none ↔ ¬ byteOffset + bytesLen ≤ 8192) ∧
    ∀ t, fromLsb0Accesses bytesLen byteOffset = some t →
      Safe t ∧ fromLsb0SliceOk bytesLen byteOffset ∧ (bytesLen = 8192 → byteOffset = 0) :=
  fromLsb0_spec bytesLen byteOffset

example : fromLsb0Accesses 8192 0 = some [⟨10, 8191, 8192⟩] ∧ fromLsb0Accesses 8191 1 = some [⟨11, 8191, 8192⟩]
    ∧ fromLsb0Accesses 8192 1 = none ∧ fromLsb0Accesses 0 8193 = none := by decide

/-! ## sites 12–15: `BitmapIter`

The instrumented `nextT / nextBackT / advanceToT / advanceBackToT` compute what `BIter.next / …` compute
(`C15_biter_erasure`), so their traces are the word reads of the existing model.  The invariant is
`BIter.Inv it := it.keyBack ≤ 1023` and nothing else: `key`, both cached words and the word list are arbitrary. -/

/-- Sites 12–15: the instrumented cursor functions are the model's cursor functions plus a trace (every state). -/
theorem C15_biter_erasure (it : BIter) (index : Nat) :
    (it.nextT).1 = it.next ∧ (it.nextBackT).1 = it.nextBack ∧
    (it.advanceToT index).1 = it.advanceTo index ∧ (it.advanceBackToT index).1 = it.advanceBackTo index :=
  ⟨BIter.nextT_fst it, BIter.nextBackT_fst it, BIter.advanceToT_fst it index, BIter.advanceBackToT_fst it index⟩

/-- Sites 12–15: on a word list of the Rust type's length (`[u64; 1024]`) an in-bounds index reads a real element — the
    default of the model's `word` (`getD … 0`) is never what a recorded access returns. -/
theorem C15_word_no_default (bits : List Nat) (h : bits.length = 1024) (k : Nat) (hk : k < 1024) :
    bits[k]? = some (BStore.word bits k) := by
  unfold BStore.word
  rw [List.getD_eq_getElem?_getD, List.getElem?_eq_getElem (by omega)]; rfl

example : (List.replicate 1024 7)[1023]? = some (BStore.word (List.replicate 1024 7) 1023) :=
  C15_word_no_default _ List.length_replicate 1023 (by decide)

/-- `BitmapIter::new`: `key_back = BITMAP_LENGTH - 1`. -/
theorem C15_inv_new (bits : List Nat) : (BIter.new bits).Inv := Nat.le_refl _

/-- `next` never writes `key_back`: the invariant is preserved from every state. -/
theorem C15_inv_next (it : BIter) (h : it.Inv) : it.next.1.Inv := by
  unfold BIter.Inv at *; rw [BIter.next_keyBack]; exact h

/-- `next_back` only decrements `key_back`, and only while `key_back > key ≥ 0` (so the `u16` never underflows: the
    instrumented version decrements with wrapping `dec16` and is still equal to the model, `C15_biter_erasure`). -/
theorem C15_inv_nextBack (it : BIter) (h : it.Inv) : it.nextBack.1.Inv := by
  unfold BIter.Inv at *; have := (BIter.nextBack_keys it).1; omega

/-- `advance_to` never writes `key_back`. -/
theorem C15_inv_advanceTo (it : BIter) (index : Nat) (h : it.Inv) : (it.advanceTo index).Inv := by
  unfold BIter.Inv at *; rw [BIter.advanceTo_keyBack]; exact h

/-- `advance_back_to(index)` leaves `key_back` or sets it to `index / 64 ≤ 1023`, for every `u16` index. -/
theorem C15_inv_advanceBackTo (it : BIter) (index : Nat) (hi : index < 65536) (h : it.Inv) :
    (it.advanceBackTo index).Inv := by
  unfold BIter.Inv at *
  have := (BIter.advanceBackTo_keys it index).1
  have := BIter.wkey_le index hi
  omega

/-- an ill-formed cursor (key beyond key_back, key > 1023, garbage words, 3-word list) still keeps the invariant -/
example : (BIter.advanceBackTo { key := 5000, value := 7, keyBack := 17, valueBack := 0, bits := [1, 2, 3] } 65535).Inv :=
  C15_inv_advanceBackTo _ 65535 (by decide) (by decide)

/-- Site 14 (`next`): every word index read lies strictly between `key` and `key_back` (every state); under the
    invariant all of them are `< 1024`. -/
theorem C15_next_reads (it : BIter) :
    (∀ a ∈ (it.nextT).2, a.site = 14 ∧ a.len = 1024 ∧ it.key < a.index ∧ a.index < it.keyBack)
    ∧ (it.Inv → Safe (it.nextT).2) :=
  ⟨BIter.nextT_reads it, fun h => (BIter.nextT_reads it).safe (by unfold BIter.Inv at h; intro k hk; omega)⟩

/-- Site 15 (`next_back`): every word index read is a decremented `key_back` with `key ≤ index < key_back` (every
    state; the decrement is the wrapping `dec16`, so this also says it was never applied to 0); under the invariant all
    of them are `< 1024`. -/
theorem C15_nextBack_reads (it : BIter) :
    (∀ a ∈ (it.nextBackT).2, a.site = 15 ∧ a.len = 1024 ∧ it.key ≤ a.index ∧ a.index < it.keyBack)
    ∧ (it.Inv → Safe (it.nextBackT).2) :=
  ⟨BIter.nextBackT_reads it, fun h => (BIter.nextBackT_reads it).safe (by unfold BIter.Inv at h; intro k hk; omega)⟩

/-- Site 12 (`advance_to`): the only word read is `new_key = index / 64`, in the branch `key < new_key < key_back`
    (every state); it is `< 1024` under the invariant — and also for every `u16` index without it. -/
theorem C15_advanceTo_reads (it : BIter) (index : Nat) :
    (∀ a ∈ (it.advanceToT index).2, a.site = 12 ∧ a.len = 1024 ∧ a.index = wkey index ∧ it.key < a.index ∧ a.index < it.keyBack)
    ∧ (it.Inv → Safe (it.advanceToT index).2) ∧ (index < 65536 → Safe (it.advanceToT index).2) :=
  ⟨BIter.advanceToT_reads it index,
   fun h => (BIter.advanceToT_reads it index).safe (by unfold BIter.Inv at h; intro k hk; omega),
   fun h => (BIter.advanceToT_reads it index).safe (by have := BIter.wkey_le index h; intro k hk; omega)⟩

/-- Site 13 (`advance_back_to`): the only word read is `new_key = index / 64`, in the branch `key < new_key < key_back`
    (every state); it is `< 1024` under the invariant — and also for every `u16` index without it. -/
theorem C15_advanceBackTo_reads (it : BIter) (index : Nat) :
    (∀ a ∈ (it.advanceBackToT index).2, a.site = 13 ∧ a.len = 1024 ∧ a.index = wkey index ∧ it.key < a.index ∧ a.index < it.keyBack)
    ∧ (it.Inv → Safe (it.advanceBackToT index).2) ∧ (index < 65536 → Safe (it.advanceBackToT index).2) :=
  ⟨BIter.advanceBackToT_reads it index,
   fun h => (BIter.advanceBackToT_reads it index).safe (by unfold BIter.Inv at h; intro k hk; omega),
   fun h => (BIter.advanceBackToT_reads it index).safe (by have := BIter.wkey_le index h; intro k hk; omega)⟩

/-- a cursor over a 2-word list (reads beyond it hit the `getD` default — still `< 1024`) with `value = 0`: `next` scans
    words 4..8; an ill-formed cursor (`key > 1023`, `key > key_back`): `next_back` reads nothing, in bounds -/
example : (BIter.nextT { key := 3, value := 0, keyBack := 9, valueBack := 0, bits := [0, 0] }).2.map (·.index) = [4, 5, 6, 7, 8] := by
  decide
example : Safe (BIter.nextBackT { key := 2000, value := 0, keyBack := 1023, valueBack := 0, bits := [] }).2 :=
  (C15_nextBack_reads _).2 (by decide)

/-- Sites 12–15, closed under every safe call sequence: in every state reachable from `BitmapIter::new(bits)` — for any
    word list — by `next`, `next_back`, `advance_to(i)`, `advance_back_to(i)` with arbitrary `u16` arguments, all word
    reads of all four functions are in bounds (and `key`, `key_back` are `≤ 1023`). -/
theorem C15_biter_reachable (bits : List Nat) (it : BIter) (h : BIter.Reach bits it) :
    it.Inv ∧ it.KeyOk ∧ Safe (it.nextT).2 ∧ Safe (it.nextBackT).2 ∧
    ∀ index, index < 65536 → Safe (it.advanceToT index).2 ∧ Safe (it.advanceBackToT index).2 := by
  have hi := (BIter.reach_inv h).1
  exact ⟨hi, (BIter.reach_inv h).2, (C15_next_reads it).2 hi, (C15_nextBack_reads it).2 hi,
    fun index _ => ⟨(C15_advanceTo_reads it index).2.1 hi, (C15_advanceBackTo_reads it index).2.1 hi⟩⟩

example : Safe ((((BIter.new [0, 5, 0]).advanceBackTo 4000).nextBack.1.advanceTo 70).nextT).2 :=
  (C15_biter_reachable [0, 5, 0] _ (.advanceTo 70 (by decide) (.nextBack (.advanceBackTo 4000 (by decide) .new)))).2.2.1

/-- `u16` arithmetic of the yielded values (not a memory access; a release build would wrap, a debug build panic):
    `key ≤ 1023` is preserved from every state satisfying the invariant, hence `64 * key + index` with `index ≤ 63`
    fits a `u16`; `next` sets `key` to a scanned index in `(key, key_back)` or to `key_back`, `advance_to` to
    `index / 64` or to `key_back`, the other two leave it. -/
theorem C15_keyOk (it : BIter) (h : it.Inv) (hk : it.KeyOk) :
    it.next.1.KeyOk ∧ it.nextBack.1.KeyOk ∧
    (∀ index, index < 65536 → (it.advanceTo index).KeyOk ∧ (it.advanceBackTo index).KeyOk) ∧
    64 * it.key + 63 < 65536 ∧ 64 * it.keyBack + 63 < 65536 := by
  unfold BIter.Inv at h; unfold BIter.KeyOk at *
  refine ⟨?_, ?_, ?_, by omega, by omega⟩
  · have := BIter.next_key it; omega
  · rw [(BIter.nextBack_keys it).2]; exact hk
  · intro index hi
    have h1 := BIter.advanceTo_key it index
    have h2 := (BIter.advanceBackTo_keys it index).2
    have h3 := BIter.wkey_le index hi
    omega

/-- Every value yielded by `next` / `next_back` in a reachable state over `u64` words is a `u16`: no overflow in
    `64 * self.key + index` / `64 * self.key_back + index`. -/
theorem C15_yield_u16 (bits : List Nat) (hb : ∀ w ∈ bits, w < 2^64) (it : BIter) (h : BIter.Reach bits it) :
    (∀ v, it.next.2 = some v → v < 65536) ∧ (∀ v, it.nextBack.2 = some v → v < 65536) :=
  ⟨BIter.next_value_lt it (BIter.reach_inv h).1 (BIter.reach_inv h).2 (BIter.reach_u64 hb h),
   BIter.nextBack_value_lt it (BIter.reach_inv h).1 (BIter.reach_u64 hb h)⟩

example : ∀ v, ((BIter.new [0, 5]).advanceTo 64).next.2 = some v → v < 65536 :=
  (C15_yield_u16 [0, 5] (by decide) _ (.advanceTo 64 (by decide) .new)).1

/-! ## the first three theorems of this file (kept: they are the raw arithmetic facts behind the ones above) -/

/-- Site 12 (`advance_to`): the word index read with `get_unchecked(new_key)` is `index / 64 ≤ 1023`
    for every `u16` target, whatever the iterator state. -/
theorem C15_advanceTo_index (index : Nat) (h : index < 65536) : wkey index < 1024 := by
  unfold wkey; omega

/-- Site 14 (`next`): every word index read in the scan lies strictly between `key` and `key_back`,
    hence below 1024 whenever `key_back ≤ 1023` (which `new`, `advance_back_to` and `next_back` maintain). -/
theorem C15_next_scan_index (key keyBack k : Nat) (hkb : keyBack ≤ 1023)
    (hk : k ∈ List.range' (key + 1) (keyBack - key - 1)) : k < 1024 := by
  rw [List.mem_range'_1] at hk; omega

/-- Site 13 (`advance_back_to`) never increases `key_back` beyond `max(key_back, 1023)`:
    `key_back ≤ 1023` is preserved. -/
theorem C15_keyBack_advanceBackTo (it : BIter) (index : Nat) (hi : index < 65536) (h : it.keyBack ≤ 1023) :
    (it.advanceBackTo index).keyBack ≤ 1023 :=
  C15_inv_advanceBackTo it index hi h

example : k ∈ List.range' (5 + 1) (9 - 5 - 1) → k < 1024 := C15_next_scan_index 5 9 k (by decide)

/-! ## Fidelity audit (stores): `retain` with the stateless closures of `ArrayStore &= / -= &BitmapStore`

`notes/fidelity-stores-iter32.md`.  `C15_retain_eq_model` ties the index-level `retain` loop (write cursor `pos`,
`truncate(pos)`) to the list-level model for the two galloping closures.  The remaining two callers of `retain`
(array_store/mod.rs:398 `|x| rhs.contains(x)`, :437 `|x| !rhs.contains(x)`) have a stateless predicate; the list-level
model (`Store.arrAndBitmap`, `Store.arrSubBitmap`) is `List.filter`. -/

/-- Site 9, tie of the two models for a stateless predicate: on any vector the index-level `retain` leaves exactly
    `List.filter p`; with `p = rhs.contains` / `!rhs.contains` that is `Store.arrAndBitmap` / `Store.arrSubBitmap`. -/
theorem C15_retain_filter_eq_model (p : Nat → Bool) (vec : Array Nat) (b : BStore) :
    (retain (fun (_ : Unit) x => ((), p x)) () vec).1.toList = vec.toList.filter p
    ∧ (retain (fun (_ : Unit) x => ((), b.contains x)) () vec).1.toList = Store.arrAndBitmap vec.toList b
    ∧ (retain (fun (_ : Unit) x => ((), !b.contains x)) () vec).1.toList = Store.arrSubBitmap vec.toList b :=
  ⟨retain_filter p vec, retain_filter _ vec, retain_filter _ vec⟩

example : (retain (fun (_ : Unit) x => ((), x % 2 == 1)) () #[7, 3, 4, 7, 0, 9]).1 = #[7, 3, 7, 9] := by decide

/-- Site 9, the in-place `ArrayStore &= &ArrayStore` / `-= &ArrayStore` exactly as written: the index-level `retain` loop
    with the closure whose captured state is the index `i` into `rhs`
    (`i += rhs.iter().skip(i).position(|y| *y >= x).unwrap_or(rhs.vec.len()); rhs.vec.get(i).map_or(..)`), started at
    `i = 0`, computes the list-level model `Arr.andAssign` / `Arr.subAssign` — on arbitrary (also ill-formed) vectors. -/
theorem C15_retain_index_closure_eq_model (vec rhs : Array Nat) :
    (retain (andClosureIdx rhs.toList) 0 vec).1.toList = Arr.andAssign vec.toList rhs.toList
    ∧ (retain (subClosureIdx rhs.toList) 0 vec).1.toList = Arr.subAssign vec.toList rhs.toList :=
  ⟨retain_andIdx vec rhs, retain_subIdx vec rhs⟩

/-- unsorted operands with duplicates; the index runs past `rhs.len()` once nothing `≥ x` is left -/
example : (retain (andClosureIdx [1, 7, 7, 2]) 0 #[5, 7, 1, 9, 2]).1 = #[7] ∧
    (retain (subClosureIdx [1, 7, 7, 2]) 0 #[5, 7, 1, 9, 2]).1 = #[5, 1, 9, 2] ∧
    (retain (andClosureIdx [1, 7, 7, 2]) 0 #[5, 7, 1, 9, 2]).2.1 = 9 := by decide

end Roaring.C15
