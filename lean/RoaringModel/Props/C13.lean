import RoaringModel.Lemmas.DecodeWF
import RoaringModel.Lemmas.CodecKernel
import RoaringModel.Lemmas.RoundTrip
import RoaringModel.Lemmas.Dir
import RoaringModel.Lemmas.TreemapCodec
import RoaringModel.Lemmas.TreemapCodecWF
/-!
# C13 — the checked decoder never accepts a malformed stream as a broken set (32-bit half)

For **every** byte string: an error, or a well-formed value together with an unread rest that is a suffix of
the input (the decoder reads only the declared structure); never a panic.
-/
namespace Roaring.C13
open Roaring Roaring.Parser

/-- The checked decoder has no panic path, for every input and both build configurations. -/
theorem C13_no_panic (dbg : Bool) (bs : List Nat) : deserialize true dbg bs ≠ .error .panic :=
  np_deserializeG (fun n => np_readN n) dbg bs

/-- It reads only the declared structure: what it leaves unread is a suffix of the input, the value does not
    depend on that suffix, and cutting into the consumed part is an EOF error (so nothing past the structure
    was looked at). -/
theorem C13_reads_declared (dbg : Bool) (bs rest : List Nat) (b : Bitmap)
    (h : deserialize true dbg bs = .ok (b, rest)) :
    ∃ used, bs = used ++ rest ∧ (∀ ys, deserialize true dbg (used ++ ys) = .ok (b, ys)) ∧
      (∀ k, k < used.length → deserialize true dbg (used.take k) = .error .eof) :=
  mono_deserializeG true dbg bs b rest h

/-- Full statement, unconditional: for every byte string the checked decoder returns an error that is not a
    panic, or a value satisfying the shared invariant `Bitmap.WF` together with an unread rest that is a suffix
    of the input.  (The run-chunk kernel fact `Kernel.runStore_wf` is discharged in `Lemmas/CodecKernel.lean`
    from `Store.insertRange_spec` and `Container.ensureCorrectStore_spec`.) -/
theorem C13_32 (dbg : Bool) (bs : List Nat) (hb : ∀ x ∈ bs, x < 256) :
    match deserialize true dbg bs with
    | .ok (b, rest) => Bitmap.WF b ∧ rest <:+ bs
    | .error e => e ≠ .panic := by
  cases h : deserialize true dbg bs with
  | ok r =>
    obtain ⟨b, rest⟩ := r
    exact ⟨(post_deserialize runStore_wf dbg bs b rest hb h).1.toWF,
      rest_suffix _ (mono_deserializeG true dbg) bs b rest h⟩
  | error e =>
    intro he
    subst he
    exact C13_no_panic dbg bs h

/-- the same, as an implication -/
theorem C13_32_wf (dbg : Bool) (bs rest : List Nat) (b : Bitmap) (hb : ∀ x ∈ bs, x < 256)
    (h : deserialize true dbg bs = .ok (b, rest)) : Bitmap.WF b ∧ rest <:+ bs := by
  have := C13_32 dbg bs hb
  rw [h] at this
  exact this

/-- the full property as a `Prop` -/
def C13_32_statement : Prop :=
  ∀ (dbg : Bool) (bs : List Nat), (∀ x ∈ bs, x < 256) →
    match deserialize true dbg bs with
    | .ok (b, rest) => Bitmap.WF b ∧ rest <:+ bs
    | .error e => e ≠ .panic

theorem C13_32_statement_holds : C13_32_statement := C13_32

/-- Corollary: an accepted value is a *good* value.  All observers are consistent on it (its element list is
    strictly ascending, inside `u32`, and membership is chunk-wise membership — the hypotheses of every
    query/mutator theorem of the library hold), and it re-serialises to a stream that both decoders, in both
    build configurations, decode to the very same value, leaving untouched whatever follows. -/
theorem C13_reserialize (dbg : Bool) (bs rest : List Nat) (b : Bitmap) (hb : ∀ x ∈ bs, x < 256)
    (h : deserialize true dbg bs = .ok (b, rest)) :
    Bitmap.WF b ∧ Sorted (Bitmap.elems b) ∧ (∀ y ∈ Bitmap.elems b, y < 4294967296) ∧
    (∀ y, y ∈ Bitmap.elems b ↔ y % 65536 ∈ Bitmap.chunk b (y / 65536)) ∧
    ∀ (chk' dbg' : Bool) (ys : List Nat), deserialize chk' dbg' (Bitmap.serialize b ++ ys) = .ok (b, ys) := by
  have hwf := (C13_32_wf dbg bs rest b hb h).1
  refine ⟨hwf, Bitmap.sorted_elems b hwf.dir, Bitmap.elems_lt b hwf.dir, Bitmap.mem_elems b hwf.dir, ?_⟩
  intro chk' dbg' ys
  exact deserialize_serialize chk' dbg' b hwf.toCodec ys

/-- non-vacuity: a stream with a run chunk (runs `[2..=4]`, `[9..=9]`, key 3) followed by two trailing bytes is
    accepted, leaving exactly the trailing bytes; a stream with descending keys is rejected. -/
example : deserialize true true [59, 48, 0, 0, 1, 3, 0, 3, 0, 2, 0, 2, 0, 2, 0, 9, 0, 0, 0, 170, 187] =
    .ok ([{ key := 3, store := .array [2, 3, 4, 9] }], [170, 187]) := by rfl
example : deserialize true true
    [58, 48, 0, 0, 2, 0, 0, 0, 5, 0, 0, 0, 1, 0, 0, 0, 24, 0, 0, 0, 26, 0, 0, 0, 1, 0, 7, 0] = .error .invalidData := by
  rfl

end Roaring.C13

/-!
# C13, 64-bit half — `RoaringTreemap::deserialize_from` on any byte string

Lifted from the 32-bit theorems through the bucket loop (`Lemmas/TreemapCodec.lean`).  The loop counter is the
declared `u64` count itself; nothing is allocated from it and every iteration reads at least 12 bytes or fails,
so a count larger than the data ends in `eof` (`C13_t_reads_declared`: only the declared structure is read).
-/
namespace Roaring.C13
open Roaring Roaring.Parser

/-- The checked treemap decoder has no panic path, for every input and both build configurations. -/
theorem C13_t_no_panic (dbg : Bool) (bs : List Nat) : Treemap.deserialize true dbg bs ≠ .error .panic :=
  Treemap.np_deserializeG (fun n => np_readN n) dbg bs

/-- It reads only the declared structure: what it leaves unread is a suffix of the input, the value does not
    depend on that suffix, and cutting into the consumed part is an EOF error. -/
theorem C13_t_reads_declared (dbg : Bool) (bs rest : List Nat) (t : Treemap)
    (h : Treemap.deserialize true dbg bs = .ok (t, rest)) :
    ∃ used, bs = used ++ rest ∧ (∀ ys, Treemap.deserialize true dbg (used ++ ys) = .ok (t, ys)) ∧
      (∀ k, k < used.length → Treemap.deserialize true dbg (used.take k) = .error .eof) :=
  Treemap.mono_deserializeG true dbg bs t rest h

/-- The lifting step, unconditional: if every value the checked 32-bit decoder accepts satisfies `wf32`, then
    every value the checked treemap decoder accepts has strictly ascending `u32` keys and partitions that are
    `wf32` and not the empty bitmap (so: duplicate / descending keys in the stream never survive, an empty inner
    bitmap is never kept), the rest is a suffix of the input, and there is no panic. -/
theorem C13_64_lift {wf32 : Bitmap → Prop} (dbg : Bool) (hP : Post wf32 (deserializeG readN true dbg))
    (bs : List Nat) (hb : ∀ x ∈ bs, x < 256) :
    match Treemap.deserialize true dbg bs with
    | .ok (t, rest) => Treemap.SerWF wf32 t ∧ rest <:+ bs
    | .error e => e ≠ .panic := by
  cases h : Treemap.deserialize true dbg bs with
  | ok r =>
    obtain ⟨t, rest⟩ := r
    exact ⟨(Treemap.post_deserializeG true dbg hP bs t rest hb h).1,
           rest_suffix _ (Treemap.mono_deserializeG true dbg) bs t rest h⟩
  | error e =>
    intro he
    subst he
    exact C13_t_no_panic dbg bs h

/-- Full statement for the treemap decoder, unconditional: for every byte string the checked treemap decoder
    returns an error that is not a panic, or a well-formed treemap (`Treemap.WFd Bitmap.WF` = `Treemap.TWF`:
    partition keys strictly ascending `u32`s, every partition `Bitmap.WF` with an element) together with an unread
    rest that is a suffix of the input.  The 32-bit layer is `C13_32` (`post_deserialize runStore_wf`), the 64-bit
    layer is `C13_64_lift`. -/
theorem C13_64 (dbg : Bool) (bs : List Nat) (hb : ∀ x ∈ bs, x < 256) :
    match Treemap.deserialize true dbg bs with
    | .ok (t, rest) => Treemap.WFd Bitmap.WF t ∧ rest <:+ bs
    | .error e => e ≠ .panic := by
  have h := C13_64_lift (wf32 := Bitmap.WF) dbg
    (post_weaken _ (post_deserialize runStore_wf dbg) (fun _ hb => hb.toWF)) bs hb
  cases hd : Treemap.deserialize true dbg bs with
  | ok r =>
    obtain ⟨t, rest⟩ := r
    rw [hd] at h
    exact ⟨(Treemap.serWF_iff t).mp h.1, h.2⟩
  | error e =>
    rw [hd] at h
    exact h

/-- the same, as an implication -/
theorem C13_64_wf (dbg : Bool) (bs rest : List Nat) (t : Treemap) (hb : ∀ x ∈ bs, x < 256)
    (h : Treemap.deserialize true dbg bs = .ok (t, rest)) : Treemap.WFd Bitmap.WF t ∧ rest <:+ bs := by
  have := C13_64 dbg bs hb
  rw [h] at this
  exact this

/-- the full property as a `Prop` -/
def C13_64_statement : Prop :=
  ∀ (dbg : Bool) (bs : List Nat), (∀ x ∈ bs, x < 256) →
    match Treemap.deserialize true dbg bs with
    | .ok (t, rest) => Treemap.WFd Bitmap.WF t ∧ rest <:+ bs
    | .error e => e ≠ .panic

theorem C13_64_statement_holds : C13_64_statement := C13_64

/-- Corollary: an accepted treemap is a *good* value.  Its keys are strictly ascending `u32`s, no partition is
    empty, its element list is strictly ascending and inside `u64`, membership is partition-wise membership, and
    it re-serialises to a stream that both decoders, in both build configurations, decode to the very same
    value, leaving untouched whatever follows. -/
theorem C13_t_reserialize (dbg : Bool) (bs rest : List Nat) (t : Treemap) (hb : ∀ x ∈ bs, x < 256)
    (h : Treemap.deserialize true dbg bs = .ok (t, rest)) :
    Treemap.WFd Bitmap.WF t ∧ (Treemap.elems t).Pairwise (· < ·) ∧
    (∀ y ∈ Treemap.elems t, y < 18446744073709551616) ∧
    (∀ y, y ∈ Treemap.elems t ↔
      ∃ b, Treemap.get t (y / 4294967296) = some b ∧ y % 4294967296 ∈ Bitmap.elems b) ∧
    ∀ (chk' dbg' : Bool) (ys : List Nat),
      Treemap.deserialize chk' dbg' (Treemap.serialize t ++ ys) = .ok (t, ys) := by
  have hwf := (C13_64_wf dbg bs rest t hb h).1
  exact ⟨hwf, Treemap.sorted_elems Treemap.elems32 hwf, Treemap.elems_lt Treemap.elems32 hwf,
    Treemap.mem_elems Treemap.elems32 hwf, fun chk' dbg' ys => Treemap.deserialize_serialize_wf chk' dbg' t hwf ys⟩

/-- non-vacuity, checked by evaluation: descending keys `[3, 1]` with an empty bucket (key 4) in between and two
    trailing bytes are accepted as the sorted two-partition value, leaving the trailing bytes; a count of `2^63`
    with one bucket of data is `eof`; a duplicate key keeps the later bucket. -/
example : Treemap.deserialize true true
    ([3, 0, 0, 0, 0, 0, 0, 0,
      3, 0, 0, 0, 58, 48, 0, 0, 1, 0, 0, 0, 0, 0, 0, 0, 16, 0, 0, 0, 7, 0,
      4, 0, 0, 0, 58, 48, 0, 0, 0, 0, 0, 0,
      1, 0, 0, 0, 58, 48, 0, 0, 1, 0, 0, 0, 0, 0, 0, 0, 16, 0, 0, 0, 9, 0, 170, 187]) =
    .ok ([(1, [{ key := 0, store := .array [9] }]), (3, [{ key := 0, store := .array [7] }])], [170, 187]) := by
  rfl
example : Treemap.deserialize true true
    [0, 0, 0, 0, 0, 0, 0, 128, 3, 0, 0, 0, 58, 48, 0, 0, 1, 0, 0, 0, 0, 0, 0, 0, 16, 0, 0, 0, 7, 0] = .error .eof := by
  rfl
example : Treemap.deserialize true true
    [2, 0, 0, 0, 0, 0, 0, 0,
     1, 0, 0, 0, 58, 48, 0, 0, 1, 0, 0, 0, 0, 0, 0, 0, 16, 0, 0, 0, 7, 0,
     1, 0, 0, 0, 58, 48, 0, 0, 1, 0, 0, 0, 0, 0, 0, 0, 16, 0, 0, 0, 9, 0] =
    .ok ([(1, [{ key := 0, store := .array [9] }])], []) := by
  rfl

end Roaring.C13
