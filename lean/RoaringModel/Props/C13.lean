import RoaringModel.Ser
/-! # C13 (placeholder, replaced below) -/
namespace Roaring.C13
open Roaring

theorem C13_readN_zero (bs : List Nat) : readN 0 bs = .ok ([], bs) := by
  simp [readN]

end Roaring.C13
