import RoaringModel.Lemmas.DecodeWF
import RoaringModel.Lemmas.CodecKernel
import RoaringModel.Lemmas.RoundTrip
import RoaringModel.Lemmas.Dir
/-!
# C13 — the checked decoder never accepts a malformed stream as a broken set (32-bit half)

For **every** byte string: an error, or a well-formed value together with an unread rest that is a suffix of
the input (the decoder reads only the declared structure); never a panic.
-/
namespace Roaring.C13
open Roaring Roaring.Parser

/-- The checked decoder has no panic path, for every input and both build configurations. -/
theorem C13_no_panic (dbg : Bool) (bs : List Nat) : deserialize true dbg bs ≠ .error .panic :=
  np_deserializeG (fun n => np_readN n) dbg bs

/-- It reads only the declared structure: what it leaves unread is a suffix of the input, the value does not
    depend on that suffix, and cutting into the consumed part is an EOF error (so nothing past the structure
    was looked at). -/
theorem C13_reads_declared (dbg : Bool) (bs rest : List Nat) (b : Bitmap)
    (h : deserialize true dbg bs = .ok (b, rest)) :
    ∃ used, bs = used ++ rest ∧ (∀ ys, deserialize true dbg (used ++ ys) = .ok (b, ys)) ∧
      (∀ k, k < used.length → deserialize true dbg (used.take k) = .error .eof) :=
  mono_deserializeG true dbg bs b rest h

/-- Full statement, unconditional: for every byte string the checked decoder returns an error that is not a
    panic, or a value satisfying the shared invariant `Bitmap.WF` together with an unread rest that is a suffix
    of the input.  (The run-chunk kernel fact `Kernel.runStore_wf` is discharged in `Lemmas/CodecKernel.lean`
    from `Store.insertRange_spec` and `Container.ensureCorrectStore_spec`.) -/
theorem C13_32 (dbg : Bool) (bs : List Nat) (hb : ∀ x ∈ bs, x < 256) :
    match deserialize true dbg bs with
    | .ok (b, rest) => Bitmap.WF b ∧ rest <:+ bs
    | .error e => e ≠ .panic := by
  cases h : deserialize true dbg bs with
  | ok r =>
    obtain ⟨b, rest⟩ := r
    exact ⟨(post_deserialize runStore_wf dbg bs b rest hb h).1.toWF,
      rest_suffix _ (mono_deserializeG true dbg) bs b rest h⟩
  | error e =>
    intro he
    subst he
    exact C13_no_panic dbg bs h

/-- the same, as an implication -/
theorem C13_32_wf (dbg : Bool) (bs rest : List Nat) (b : Bitmap) (hb : ∀ x ∈ bs, x < 256)
    (h : deserialize true dbg bs = .ok (b, rest)) : Bitmap.WF b ∧ rest <:+ bs := by
  have := C13_32 dbg bs hb
  rw [h] at this
  exact this

/-- the full property as a `Prop` -/
def C13_32_statement : Prop :=
  ∀ (dbg : Bool) (bs : List Nat), (∀ x ∈ bs, x < 256) →
    match deserialize true dbg bs with
    | .ok (b, rest) => Bitmap.WF b ∧ rest <:+ bs
    | .error e => e ≠ .panic

theorem C13_32_statement_holds : C13_32_statement := C13_32

/-- Corollary: an accepted value is a *good* value.  All observers are consistent on it (its element list is
    strictly ascending, inside `u32`, and membership is chunk-wise membership — the hypotheses of every
    query/mutator theorem of the library hold), and it re-serialises to a stream that both decoders, in both
    build configurations, decode to the very same value, leaving untouched whatever follows. -/
theorem C13_reserialize (dbg : Bool) (bs rest : List Nat) (b : Bitmap) (hb : ∀ x ∈ bs, x < 256)
    (h : deserialize true dbg bs = .ok (b, rest)) :
    Bitmap.WF b ∧ Sorted (Bitmap.elems b) ∧ (∀ y ∈ Bitmap.elems b, y < 4294967296) ∧
    (∀ y, y ∈ Bitmap.elems b ↔ y % 65536 ∈ Bitmap.chunk b (y / 65536)) ∧
    ∀ (chk' dbg' : Bool) (ys : List Nat), deserialize chk' dbg' (Bitmap.serialize b ++ ys) = .ok (b, ys) := by
  have hwf := (C13_32_wf dbg bs rest b hb h).1
  refine ⟨hwf, Bitmap.sorted_elems b hwf.dir, Bitmap.elems_lt b hwf.dir, Bitmap.mem_elems b hwf.dir, ?_⟩
  intro chk' dbg' ys
  exact deserialize_serialize chk' dbg' b hwf.toCodec ys

/-- non-vacuity: a stream with a run chunk (runs `[2..=4]`, `[9..=9]`, key 3) followed by two trailing bytes is
    accepted, leaving exactly the trailing bytes; a stream with descending keys is rejected. -/
example : deserialize true true [59, 48, 0, 0, 1, 3, 0, 3, 0, 2, 0, 2, 0, 2, 0, 9, 0, 0, 0, 170, 187] =
    .ok ([{ key := 3, store := .array [2, 3, 4, 9] }], [170, 187]) := by rfl
example : deserialize true true
    [58, 48, 0, 0, 2, 0, 0, 0, 5, 0, 0, 0, 1, 0, 0, 0, 24, 0, 0, 0, 26, 0, 0, 0, 1, 0, 7, 0] = .error .invalidData := by
  rfl

end Roaring.C13
