import RoaringModel.Spec
/-!
# C01 — 32-bit mutation histories have exact set semantics (property theorems)
-/
namespace Roaring.C01
open Roaring

/-- `clear` yields the empty set. -/
theorem C01_clear (b : Bitmap) : Bitmap.elems (Bitmap.clear b) = [] := rfl

end Roaring.C01
