import RoaringModel.Lemmas.BitmapMut
/-!
# C01 — 32-bit mutation histories have exact set semantics (property theorems)

Each theorem: for every well-formed bitmap `b` (`Bitmap.WF`: keys strictly ascending, every chunk non-empty and
in the store kind its cardinality demands) and every argument, the model of the mutator returns a well-formed
bitmap whose abstraction `Bitmap.elems` is *equal* to the result of the one-line set operation of `Spec.lean`
on `Bitmap.elems b`, and the returned value is the one the set operation reports.
-/
namespace Roaring.C01
open Roaring

/-- `convert_range_to_inclusive` computes exactly the interval of values selected by the two bounds
    (and fails exactly when that interval is empty), for every `RangeBounds` shape. -/
theorem C01_convertRange (maxV : Nat) (lo hi : Bound) (hlo : Bound.le maxV lo) (hhi : Bound.le maxV hi) :
    (match convertRange maxV lo hi with
     | .ok r => some r
     | .error _ => none) = Spec.interval maxV lo hi :=
  convertRange_interval maxV lo hi hlo hhi

/-- the interval of `Spec.interval` is the set of values admitted by both bounds -/
theorem C01_interval_mem (maxV : Nat) (lo hi : Bound) :
    (∀ a b, Spec.interval maxV lo hi = some (a, b) →
      a ≤ b ∧ b ≤ maxV ∧ ∀ x, (a ≤ x ∧ x ≤ b) ↔ (Spec.Bound.mem lo hi x ∧ x ≤ maxV)) ∧
    (Spec.interval maxV lo hi = none → ∀ x, ¬ (Spec.Bound.mem lo hi x ∧ x ≤ maxV)) :=
  ⟨fun a b h => Spec.interval_some maxV lo hi a b h, fun h => Spec.interval_none maxV lo hi h⟩

theorem C01_new : Bitmap.WF Bitmap.new ∧ Bitmap.elems Bitmap.new = [] := by
  refine ⟨⟨List.Pairwise.nil, by simp [Bitmap.new]⟩, rfl⟩

theorem C01_clear (b : Bitmap) : Bitmap.WF (Bitmap.clear b) ∧ Bitmap.elems (Bitmap.clear b) = [] := C01_new

theorem C01_insert (b : Bitmap) (h : b.WF) (v : Nat) (hv : v < 4294967296) :
    (Bitmap.insert b v).1.WF ∧
    Bitmap.elems (Bitmap.insert b v).1 = (Spec.insert (Bitmap.elems b) v).1 ∧
    (Bitmap.insert b v).2 = (Spec.insert (Bitmap.elems b) v).2 :=
  Bitmap.insert_spec b h v hv

theorem C01_remove (b : Bitmap) (h : b.WF) (v : Nat) :
    (Bitmap.remove b v).1.WF ∧
    Bitmap.elems (Bitmap.remove b v).1 = (Spec.remove (Bitmap.elems b) v).1 ∧
    (Bitmap.remove b v).2 = (Spec.remove (Bitmap.elems b) v).2 :=
  Bitmap.remove_spec b h v

theorem C01_removeRange (b : Bitmap) (h : b.WF) (lo hi : Bound)
    (hlo : Bound.le u32Max lo) (hhi : Bound.le u32Max hi) :
    (Bitmap.removeRange b lo hi).1.WF ∧
    Bitmap.elems (Bitmap.removeRange b lo hi).1 = (Spec.removeRange u32Max (Bitmap.elems b) lo hi).1 ∧
    (Bitmap.removeRange b lo hi).2 = (Spec.removeRange u32Max (Bitmap.elems b) lo hi).2 :=
  Bitmap.removeRange_spec b h lo hi hlo hhi

/-- non-vacuity: a two-chunk value with one array chunk and one bitset chunk is well-formed
    (checked by evaluation of the decidable runtime form used by the driver) -/
example : (Bitmap.insertRange (Bitmap.insert [] 7).1 (.incl 65536) (.excl 70000)).1.length = 2 := by decide +kernel

end Roaring.C01
