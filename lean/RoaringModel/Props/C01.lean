import RoaringModel.Lemmas.BitmapMut2
import RoaringModel.Step32
import RoaringModel.Lemmas.Canonical
import RoaringModel.Lemmas.Mirror32
import RoaringModel.Lemmas.MirrorLemmas
/-!
# C01 — 32-bit mutation histories have exact set semantics (property theorems)

Each theorem: for every well-formed bitmap `b` (`Bitmap.WF`: keys strictly ascending, every chunk non-empty and
in the store kind its cardinality demands) and every argument, the model of the mutator returns a well-formed
bitmap whose abstraction `Bitmap.elems` is *equal* to the result of the one-line set operation of `Spec.lean`
on `Bitmap.elems b`, and the returned value is the one the set operation reports.  `C01_history` lifts this to
every finite call sequence from `new()`, for builds with and without debug assertions.
-/
namespace Roaring.C01
open Roaring

/-- `convert_range_to_inclusive` computes exactly the interval of values selected by the two bounds
    (and fails exactly when that interval is empty), for every `RangeBounds` shape. -/
theorem C01_convertRange (maxV : Nat) (lo hi : Bound) (hlo : Bound.le maxV lo) (hhi : Bound.le maxV hi) :
    (match convertRange maxV lo hi with
     | .ok r => some r
     | .error _ => none) = Spec.interval maxV lo hi :=
  convertRange_interval maxV lo hi hlo hhi

/-- the interval of `Spec.interval` is the set of values admitted by both bounds -/
theorem C01_interval_mem (maxV : Nat) (lo hi : Bound) :
    (∀ a b, Spec.interval maxV lo hi = some (a, b) →
      a ≤ b ∧ b ≤ maxV ∧ ∀ x, (a ≤ x ∧ x ≤ b) ↔ (Spec.Bound.mem lo hi x ∧ x ≤ maxV)) ∧
    (Spec.interval maxV lo hi = none → ∀ x, ¬ (Spec.Bound.mem lo hi x ∧ x ≤ maxV)) :=
  ⟨fun a b h => Spec.interval_some maxV lo hi a b h, fun h => Spec.interval_none maxV lo hi h⟩

theorem C01_new : Bitmap.WF Bitmap.new ∧ Bitmap.elems Bitmap.new = [] := by
  refine ⟨⟨List.Pairwise.nil, by simp [Bitmap.new]⟩, rfl⟩

theorem C01_clear (b : Bitmap) : Bitmap.WF (Bitmap.clear b) ∧ Bitmap.elems (Bitmap.clear b) = [] := C01_new

theorem C01_insert (b : Bitmap) (h : b.WF) (v : Nat) (hv : v < 4294967296) :
    (Bitmap.insert b v).1.WF ∧
    Bitmap.elems (Bitmap.insert b v).1 = (Spec.insert (Bitmap.elems b) v).1 ∧
    (Bitmap.insert b v).2 = (Spec.insert (Bitmap.elems b) v).2 :=
  Bitmap.insert_spec b h v hv

theorem C01_remove (b : Bitmap) (h : b.WF) (v : Nat) :
    (Bitmap.remove b v).1.WF ∧
    Bitmap.elems (Bitmap.remove b v).1 = (Spec.remove (Bitmap.elems b) v).1 ∧
    (Bitmap.remove b v).2 = (Spec.remove (Bitmap.elems b) v).2 :=
  Bitmap.remove_spec b h v

theorem C01_insertRange (b : Bitmap) (h : b.WF) (lo hi : Bound)
    (hlo : Bound.le u32Max lo) (hhi : Bound.le u32Max hi) :
    (Bitmap.insertRange b lo hi).1.WF ∧
    Bitmap.elems (Bitmap.insertRange b lo hi).1 = (Spec.insertRange u32Max (Bitmap.elems b) lo hi).1 ∧
    (Bitmap.insertRange b lo hi).2 = (Spec.insertRange u32Max (Bitmap.elems b) lo hi).2 :=
  Bitmap.insertRange_spec b h lo hi hlo hhi

theorem C01_removeRange (b : Bitmap) (h : b.WF) (lo hi : Bound)
    (hlo : Bound.le u32Max lo) (hhi : Bound.le u32Max hi) :
    (Bitmap.removeRange b lo hi).1.WF ∧
    Bitmap.elems (Bitmap.removeRange b lo hi).1 = (Spec.removeRange u32Max (Bitmap.elems b) lo hi).1 ∧
    (Bitmap.removeRange b lo hi).2 = (Spec.removeRange u32Max (Bitmap.elems b) lo hi).2 :=
  Bitmap.removeRange_spec b h lo hi hlo hhi

/-- push succeeds only above the current maximum -/
theorem C01_push (b : Bitmap) (h : b.WF) (v : Nat) (hv : v < 4294967296) :
    (Bitmap.push b v).1.WF ∧ Bitmap.elems (Bitmap.push b v).1 = (Spec.push (Bitmap.elems b) v).1 ∧
    (Bitmap.push b v).2 = (Spec.push (Bitmap.elems b) v).2 :=
  Bitmap.push_spec b h v hv

/-- `append` never panics (with or without debug assertions), reports `Ok(n)` or the index of the first
    out-of-order value, and adds exactly the values before it -/
theorem C01_append (dbg : Bool) (b : Bitmap) (h : b.WF) (vs : List Nat) (hvs : ∀ v ∈ vs, v < 4294967296) :
    ∃ b', Bitmap.append dbg b vs = some (b', (Spec.append (Bitmap.elems b) vs).2) ∧ b'.WF ∧
      Bitmap.elems b' = (Spec.append (Bitmap.elems b) vs).1 :=
  Bitmap.append_spec dbg b h vs hvs

theorem C01_extend (b : Bitmap) (h : b.WF) (vs : List Nat) (hvs : ∀ v ∈ vs, v < 4294967296) :
    (Bitmap.extend b vs).WF ∧ Bitmap.elems (Bitmap.extend b vs) = Spec.extend (Bitmap.elems b) vs :=
  Bitmap.extend_spec b h vs hvs

theorem C01_removeSmallest (b : Bitmap) (h : b.WF) (n : Nat) :
    (Bitmap.removeSmallest b n).WF ∧
    Bitmap.elems (Bitmap.removeSmallest b n) = Spec.removeSmallest (Bitmap.elems b) n :=
  Bitmap.removeSmallest_spec b h n

theorem C01_removeBiggest (b : Bitmap) (h : b.WF) (n : Nat) :
    (Bitmap.removeBiggest b n).WF ∧
    Bitmap.elems (Bitmap.removeBiggest b n) = Spec.removeBiggest (Bitmap.elems b) n :=
  Bitmap.removeBiggest_spec b h n

theorem valid_le (lo hi : Bound)
    (h : (match lo with | .incl n => n ≤ u32Max | .excl n => n ≤ u32Max | .unb => True) ∧
         (match hi with | .incl n => n ≤ u32Max | .excl n => n ≤ u32Max | .unb => True)) :
    Bound.le u32Max lo ∧ Bound.le u32Max hi := by
  cases lo <;> cases hi <;> exact h

/-- **One step.** Every mutating call on a well-formed value, in either build configuration, succeeds
    (no panic), returns exactly what the set operation reports, and yields a well-formed value whose element
    list is the set operation's result. -/
theorem C01_step (dbg : Bool) (b : Bitmap) (h : b.WF) (op : Op32) (hv : op.Valid) :
    ∃ b', Bitmap.step dbg b op = some (b', (Spec.step (Bitmap.elems b) op).2) ∧ b'.WF ∧
      Bitmap.elems b' = (Spec.step (Bitmap.elems b) op).1 := by
  cases op with
  | insert v =>
    obtain ⟨h1, h2, h3⟩ := C01_insert b h v hv
    exact ⟨_, by simp only [Bitmap.step, Spec.step, h3], h1, h2⟩
  | remove v =>
    obtain ⟨h1, h2, h3⟩ := C01_remove b h v
    exact ⟨_, by simp only [Bitmap.step, Spec.step, h3], h1, h2⟩
  | insertRange lo hi =>
    obtain ⟨l1, l2⟩ := valid_le lo hi hv
    obtain ⟨h1, h2, h3⟩ := C01_insertRange b h lo hi l1 l2
    exact ⟨_, by simp only [Bitmap.step, Spec.step, h3], h1, h2⟩
  | removeRange lo hi =>
    obtain ⟨l1, l2⟩ := valid_le lo hi hv
    obtain ⟨h1, h2, h3⟩ := C01_removeRange b h lo hi l1 l2
    exact ⟨_, by simp only [Bitmap.step, Spec.step, h3], h1, h2⟩
  | push v =>
    obtain ⟨h1, h2, h3⟩ := C01_push b h v hv
    exact ⟨_, by simp only [Bitmap.step, Spec.step, h3], h1, h2⟩
  | append vs =>
    obtain ⟨b', h1, h2, h3⟩ := C01_append dbg b h vs hv
    exact ⟨b', by simp only [Bitmap.step, Spec.step, h1, Option.map_some], h2, h3⟩
  | extend vs =>
    obtain ⟨h1, h2⟩ := C01_extend b h vs hv
    exact ⟨_, rfl, h1, h2⟩
  | clear => exact ⟨_, rfl, (C01_clear b).1, (C01_clear b).2⟩
  | removeSmallest n =>
    obtain ⟨h1, h2⟩ := C01_removeSmallest b h n
    exact ⟨_, rfl, h1, h2⟩
  | removeBiggest n =>
    obtain ⟨h1, h2⟩ := C01_removeBiggest b h n
    exact ⟨_, rfl, h1, h2⟩

/-- every history from a well-formed value -/
theorem C01_run (dbg : Bool) (ops : List Op32) : ∀ (b : Bitmap), b.WF → (∀ op ∈ ops, op.Valid) →
    ∃ b', Bitmap.run dbg b ops = some (b', (Spec.run (Bitmap.elems b) ops).2) ∧ b'.WF ∧
      Bitmap.elems b' = (Spec.run (Bitmap.elems b) ops).1 := by
  induction ops with
  | nil => intro b h _; exact ⟨b, rfl, h, rfl⟩
  | cons op ops ih =>
    intro b h hv
    obtain ⟨b1, s1, w1, e1⟩ := C01_step dbg b h op (hv op (List.mem_cons_self ..))
    obtain ⟨b2, s2, w2, e2⟩ := ih b1 w1 (fun o ho => hv o (List.mem_cons_of_mem _ ho))
    refine ⟨b2, ?_, w2, ?_⟩
    · simp only [Bitmap.run, s1, s2, Spec.run, Option.map_some, e1]
    · simp only [Spec.run]; rw [← e1]; exact e2

/-- **Every history.** After any finite sequence of mutating calls from `RoaringBitmap::new()`, with all
    arguments, in builds with and without debug assertions: no panic, every returned value is the abstract
    effect, and the bitmap contains exactly the integers the same sequence produces on a mathematical set. -/
theorem C01_history (dbg : Bool) (ops : List Op32) (hv : ∀ op ∈ ops, op.Valid) :
    ∃ b, Bitmap.run dbg Bitmap.new ops = some (b, (Spec.run [] ops).2) ∧ b.WF ∧
      Bitmap.elems b = (Spec.run [] ops).1 :=
  C01_run dbg ops Bitmap.new C01_new.1 hv

/-- debug and release builds compute the same thing on every history -/
theorem C01_cfg_irrelevant (ops : List Op32) (hv : ∀ op ∈ ops, op.Valid) :
    Bitmap.run true Bitmap.new ops = Bitmap.run false Bitmap.new ops := by
  obtain ⟨b1, h1, _, _⟩ := C01_history true ops hv
  obtain ⟨b2, h2, w2, e2⟩ := C01_history false ops hv
  rw [h1, h2]
  rename_i w1 e1
  have : b1 = b2 := Bitmap.canonical b1 b2 w1 w2 (by rw [e1, e2])
  rw [this]

/-- non-vacuity: a concrete history crossing the array→bitset threshold satisfies the hypotheses and the
    model evaluates as the theorem says -/
example : (∀ op ∈ [Op32.insert 7, .insertRange (.incl 65536) (.excl 70000), .removeSmallest 1], op.Valid) := by
  intro op hop
  simp only [List.mem_cons, List.mem_nil_iff, or_false] at hop
  rcases hop with rfl | rfl | rfl <;> simp [Op32.Valid, u32Max]

/-! ## Fidelity audit (stores): `BitmapStore::insert_range` with the fused middle loop of the Rust

`notes/fidelity-stores-iter32.md`.  `C01_insertRange` rests on the store kernel `BStore.insertRange`, whose multi-word
arm sums the middle words and then overwrites them (two passes).  The Rust (bitmap_store.rs:148-151) is ONE loop that
counts a word and overwrites it; `BStore.insertRangeMirror` (`midLoop`) is that loop.  The compiled driver executes
`BStore.insertRangeExec` wherever the model calls `BStore.insertRange` (`@[csimp]`, an unconditional equality of
functions, so every theorem of this file is also a theorem about what the driver executes); on every store satisfying
`BStore.Inv` — all bitset chunks of a `Bitmap.WF` value: `Store.Inv` — and every `u16` range that is the mirrored
loop. -/

/-- what the compiled driver runs in place of `BStore.insertRange` -/
theorem C01_driver_runs_insertRange_mirror : @BStore.insertRange = @BStore.insertRangeExec :=
  BStore.insertRange_eq_exec

/-- the mirrored `insert_range` is the model definition, is what the driver runs, and refines set insertion of the
    range: invariant kept, bit `x` set iff `x` in `s..=e` or set before, returns the number of *new* values -/
theorem C01_bstore_insertRange_mirror (b : BStore) (hb : b.Inv) (s e : Nat) (hse : s ≤ e) (he : e < 65536) :
    b.insertRangeMirror s e = b.insertRange s e
    ∧ BStore.insertRangeExec b s e = b.insertRangeMirror s e
    ∧ (b.insertRangeMirror s e).1.Inv
    ∧ (∀ x, x < 65536 → (b.insertRangeMirror s e).1.test x = ((decide (s ≤ x) && decide (x ≤ e)) || b.test x))
    ∧ (b.insertRangeMirror s e).2 = (e - s + 1) - b.countIn s e := by
  have h := BStore.insertRange_mirror_eq_of_inv b hb s e hse he
  refine ⟨h, BStore.insertRangeExec_eq_mirror b hb s e hse he, ?_⟩
  rw [h]
  exact BStore.insertRange_spec b hb s e hse he

/-- non-vacuity: the empty bitset satisfies the invariant; a range over four words runs the middle loop twice -/
example : BStore.new.Inv := BStore.inv_new
example : ((BStore.insertRangeMirror ⟨3, [1, 5, 0, 0, 0]⟩ 2 200).1 = ⟨200, [wMax - 2, wMax, wMax, 511, 0]⟩)
    ∧ (BStore.insertRangeMirror ⟨3, [1, 5, 0, 0, 0]⟩ 2 200).2 = 197 := by decide +kernel
/-! ### The same theorems for the statement-by-statement mirrors that the driver executes (`Mirror32.lean`)
`Extend<u32>::extend` keeps `current_container_index` between values of equal key (iter.rs:748-759);
`remove_smallest` / `remove_biggest` are `position` / `rposition` + `drain` + an indexed call (inherent.rs:755-811),
and the bitset → array rebuild inside them reads the chunk through `BitmapIter` (container.rs:110-138).  The mirrored
definitions are proved equal to the ones above in `Lemmas/Mirror32.lean` (`extend_mirror_eq` is unconditional, the
other two need only the store invariants that `Bitmap.WF` contains). -/
theorem C01_extend_mirror (b : Bitmap) (h : b.WF) (vs : List Nat) (hvs : ∀ v ∈ vs, v < 4294967296) :
    (Bitmap.extendMirror b vs).WF ∧ Bitmap.elems (Bitmap.extendMirror b vs) = Spec.extend (Bitmap.elems b) vs := by
  rw [Bitmap.extend_mirror_eq]; exact C01_extend b h vs hvs
theorem C01_removeSmallest_mirror (b : Bitmap) (h : b.WF) (n : Nat) :
    (Bitmap.removeSmallestMirror b n).WF ∧
    Bitmap.elems (Bitmap.removeSmallestMirror b n) = Spec.removeSmallest (Bitmap.elems b) n := by
  rw [Bitmap.removeSmallest_mirror_eq b h.storeInv]; exact C01_removeSmallest b h n
theorem C01_removeBiggest_mirror (b : Bitmap) (h : b.WF) (n : Nat) :
    (Bitmap.removeBiggestMirror b n).WF ∧
    Bitmap.elems (Bitmap.removeBiggestMirror b n) = Spec.removeBiggest (Bitmap.elems b) n := by
  rw [Bitmap.removeBiggest_mirror_eq b h.storeInv]; exact C01_removeBiggest b h n
/-- one step through the mirrored definitions -/
theorem C01_step_mirror (dbg : Bool) (b : Bitmap) (h : b.WF) (op : Op32) (hv : op.Valid) :
    ∃ b', Bitmap.stepMirror dbg b op = some (b', (Spec.step (Bitmap.elems b) op).2) ∧ b'.WF ∧
      Bitmap.elems b' = (Spec.step (Bitmap.elems b) op).1 := by
  rw [Bitmap.step_mirror_eq dbg b h op]; exact C01_step dbg b h op hv
/-- on every history from a well-formed value the mirrored run is the run of the first model -/
theorem C01_run_mirror_eq (dbg : Bool) (ops : List Op32) : ∀ (b : Bitmap), b.WF → (∀ op ∈ ops, op.Valid) →
    Bitmap.runMirror dbg b ops = Bitmap.run dbg b ops := by
  induction ops with
  | nil => intro b _ _; rfl
  | cons op ops ih =>
    intro b h hv
    obtain ⟨b1, s1, w1, _⟩ := C01_step dbg b h op (hv op (List.mem_cons_self ..))
    simp only [Bitmap.runMirror, Bitmap.run, Bitmap.step_mirror_eq dbg b h op, s1]
    rw [ih b1 w1 (fun o ho => hv o (List.mem_cons_of_mem _ ho))]
/-- **Every history, through the mirrored definitions.** -/
theorem C01_history_mirror (dbg : Bool) (ops : List Op32) (hv : ∀ op ∈ ops, op.Valid) :
    ∃ b, Bitmap.runMirror dbg Bitmap.new ops = some (b, (Spec.run [] ops).2) ∧ b.WF ∧
      Bitmap.elems b = (Spec.run [] ops).1 := by
  rw [C01_run_mirror_eq dbg ops Bitmap.new C01_new.1 hv]; exact C01_history dbg ops hv
/-- non-vacuity of the mirrors: the cached index is used (two values of key 0, a key change, key 0 again);
    `position` / `rposition` drop a whole chunk and cut into the next one -/
example : Bitmap.elems (Bitmap.extendMirror [] [5, 3, 70000, 4]) = [3, 4, 5, 70000] ∧
    Bitmap.elems (Bitmap.removeBiggestMirror (Bitmap.extendMirror [] [5, 3, 70000, 4]) 2) = [3, 4] ∧
    Bitmap.elems (Bitmap.removeSmallestMirror (Bitmap.extendMirror [] [5, 3, 70000, 4]) 2) = [5, 70000] := by
  decide +kernel
/-- non-vacuity of the container-level mirror (bitset → array rebuild through `BitmapIter`): a bitset satisfying
    `BStore.Inv`, evaluated through the equality theorem (a kernel evaluation of a full `BitmapIter` drain costs
    ≈ 40 s because the word scan of `next` is re-evaluated on the list model) -/
example : (⟨0, .bitmap { len := 4, bits := 7 :: 0 :: 2 :: List.replicate 1021 0 }⟩ : Container).store.Inv ∧
    (Container.removeSmallestMirror ⟨0, .bitmap { len := 4, bits := 7 :: 0 :: 2 :: List.replicate 1021 0 }⟩ 1).store
      = .array [1, 2, 129] := by
  have hinv : (⟨0, .bitmap { len := 4, bits := 7 :: 0 :: 2 :: List.replicate 1021 0 }⟩ : Container).store.Inv :=
    ⟨by decide +kernel, by decide +kernel, by decide +kernel⟩
  refine ⟨hinv, ?_⟩
  rw [Container.removeSmallest_mirror_eq _ hinv]
  decide +kernel

end Roaring.C01
