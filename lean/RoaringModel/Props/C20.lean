import RoaringModel.Lemmas.MiscStats
import RoaringModel.Lemmas.BStoreBasic
import RoaringModel.Lemmas.Dir
import RoaringModel.Lemmas.FidelityCodec
/-!
# C20 — `statistics()` describes the set and the Roaring space rule (property theorems)

`Spec.stats s` (SpecLsb0.lean) is what the property says about a set `s`, computed from the sorted element
list alone: group by `x / 65536`; a prefix with ≤ 4096 values is an array container (with its values), any
other a bitset container; no run containers; `serialized_size = 8 + Σ (8 + min(2·card, 8192))`.
The theorems are about well-formed bitmaps (the shared `Bitmap.WF` of Inv.lean, the invariant of every value
produced by the public API — C01/C02/C04 producer theorems); that the statement FAILS for non-well-formed
values is exactly how D2/D3 were visible.  Everything is unconditional: `C20` is the whole statement,
`C20_counts` / `C20_serialized_size` / `C20_minmax` its parts, `C20_groups` pins down `Spec.groups`
(one group per distinct 16-bit prefix, ascending, with the number of elements under that prefix).
-/
namespace Roaring.C20
open Roaring Roaring.MiscLemmas

/-- There are no run containers. -/
theorem C20_no_runs (b : Bitmap) : (Bitmap.statistics b).nRun = 0 ∧ (Bitmap.statistics b).valuesRun = 0 :=
  ⟨rfl, rfl⟩

/-- Container counts, value totals and cardinality are those of the element set under the space rule:
    `n_containers` = number of distinct 16-bit prefixes, prefixes with ≤ 4096 values are the array
    containers (counted with their values), all others are bitset containers, no run containers,
    `cardinality = len()`. -/
theorem C20_counts (b : Bitmap) (hwf : Bitmap.WF b) :
    (Bitmap.statistics b).nContainers = (Spec.stats (Bitmap.elems b)).nContainers ∧
    (Bitmap.statistics b).nArray = (Spec.stats (Bitmap.elems b)).nArray ∧
    (Bitmap.statistics b).nBitset = (Spec.stats (Bitmap.elems b)).nBitset ∧
    (Bitmap.statistics b).valuesArray = (Spec.stats (Bitmap.elems b)).valuesArray ∧
    (Bitmap.statistics b).valuesBitset = (Spec.stats (Bitmap.elems b)).valuesBitset ∧
    (Bitmap.statistics b).cardinality = (Spec.stats (Bitmap.elems b)).cardinality ∧
    (Bitmap.statistics b).cardinality = Bitmap.len b := by
  have h := (bitmapWF_iff b).2 hwf
  have hc := cards_eq b h
  have ha := filter_arr b h
  have hb := filter_bm b h
  have hfa : (b.map Container.len).filter (fun x => decide (x ≤ 4096))
      = (b.filter (fun c => decide (c.len ≤ 4096))).map Container.len := by
    rw [List.filter_map]; rfl
  have hfb : (b.map Container.len).filter (fun x => decide (4096 < x))
      = (b.filter (fun c => decide (4096 < c.len))).map Container.len := by
    rw [List.filter_map]; rfl
  simp only [Bitmap.statistics, Spec.stats, hc, hfa, hfb, List.length_map, len_eq_sum,
    elems_length b h]
  -- the two `match`es on the store kind are different auxiliary matchers, equal by unfolding
  refine ⟨trivial, ?_, ?_, ?_, ?_, trivial, trivial⟩
  · exact congrArg List.length ha
  · exact congrArg List.length hb
  · exact congrArg (fun l => Spec.sum (List.map Container.len l)) ha
  · exact congrArg (fun l => Spec.sum (List.map Container.len l)) hb

/-- `serialized_size() = 8 + Σ over prefixes (8 + min(2·cardinality, 8192))` — the Roaring space bound. -/
theorem C20_serialized_size (b : Bitmap) (hwf : Bitmap.WF b) :
    Bitmap.serializedSize b = (Spec.stats (Bitmap.elems b)).serializedSize := by
  have h := (bitmapWF_iff b).2 hwf
  simp only [Bitmap.serializedSize, Spec.stats, cards_eq b h, List.map_map]
  rw [foldl_add]
  congr 1
  rw [Nat.zero_add]
  congr 1
  apply List.map_congr_left
  intro c hc
  have hw := (h.2 c hc).2
  cases hs : c.store with
  | array v => rw [hs] at hw; have := hw.2.2.2; simp [Container.len, hs, Store.len]; omega
  | bitmap bs => rw [hs] at hw; have := hw.2.2.2; simp [Container.len, hs, Store.len]; omega

/-- What the SPEC's grouping means on the element list `s` of a well-formed bitmap: the group keys are strictly
    ascending (so pairwise distinct), each group `(k, n)` has `n > 0` = the number of elements of `s` with
    `x / 65536 = k`, and every element's prefix is a group key.  Hence `(Spec.stats s).nContainers` is the
    number of distinct 16-bit prefixes, and the `≤ 4096` / `> 4096` split and the size formula in `Spec.stats`
    are about the number of values under each prefix. -/
theorem C20_groups (b : Bitmap) (hwf : Bitmap.WF b) :
    ((Spec.groups (Bitmap.elems b)).map (·.1)).Pairwise (· < ·) ∧
    (∀ k n, (k, n) ∈ Spec.groups (Bitmap.elems b) →
      0 < n ∧ n = ((Bitmap.elems b).filter (fun x => x / 65536 = k)).length) ∧
    (∀ x ∈ Bitmap.elems b, ∃ n, (x / 65536, n) ∈ Spec.groups (Bitmap.elems b)) ∧
    Spec.groups (Bitmap.elems b) = b.map (fun c => (c.key, c.len)) :=
  let h := groups_spec (Bitmap.elems b) (Bitmap.sorted_elems b hwf.dir)
  ⟨h.1, h.2.1, h.2.2, groups_elems b ((bitmapWF_iff b).2 hwf)⟩

/-- a bitset store with 65 full words (4160 values) -/
def exBitset : BStore := ⟨4160, List.replicate 65 wMax ++ List.replicate 959 0⟩

/-- Non-vacuity of `C20_counts` / `C20_serialized_size`: a two-chunk bitmap with one array chunk (3 values
    under prefix 0) and one bitset chunk (4160 values under prefix 3) is well-formed. -/
example : Bitmap.WF [⟨0, .array [1, 2, 70]⟩, ⟨3, .bitmap exBitset⟩] := by
  rw [← bitmapWF_iff]
  refine ⟨by decide, ?_⟩
  intro c hc
  simp at hc
  rcases hc with rfl | rfl
  · simp [StoreWF]
  · exact ⟨by decide, by decide +kernel, by decide +kernel, by decide +kernel, by decide +kernel⟩

/-- `min_value` / `max_value` are `min()` / `max()` of the set, from the per-store kernel fact
    `BStoreMinMax` for the bitset stores of `b` (first non-zero word + `trailing_zeros`, last non-zero word +
    `leading_zeros`); the kernel fact is discharged in `C20_minmax` below. -/
theorem C20_minmax_local (b : Bitmap) (h : BitmapWF b)
    (hK : ∀ c ∈ b, ∀ bs, c.store = .bitmap bs → BStoreMinMax bs) :
    (Bitmap.statistics b).minValue = (Spec.stats (Bitmap.elems b)).minValue ∧
    (Bitmap.statistics b).maxValue = (Spec.stats (Bitmap.elems b)).maxValue := by
  simp only [Bitmap.statistics, Spec.stats]
  constructor
  · cases b with
    | nil => rfl
    | cons c cs =>
      have hne := container_elems_ne_nil c (h.2 c (by simp)).2
      simp only [Bitmap.min?, List.head?_cons, elems_cons]
      rw [store_min c (hK c (by simp)), List.head?_append]
      cases hh : c.elems.head? with
      | none => exact absurd (List.head?_eq_none_iff.1 hh) hne
      | some v => rfl
  · induction b with
    | nil => rfl
    | cons c cs ih =>
      rw [elems_cons, List.getLast?_append]
      cases cs with
      | nil =>
        simp only [Bitmap.max?, List.getLast?_singleton, Bitmap.elems, List.flatMap_nil, List.getLast?_nil,
          Option.none_or]
        exact store_max c (hK c (by simp))
      | cons c' cs' =>
        have ih' := ih h.tail (fun x hx => hK x (by simp [hx]))
        have hmax : Bitmap.max? (c :: c' :: cs') = Bitmap.max? (c' :: cs') := by
          simp [Bitmap.max?, List.getLast?_cons_cons]
        rw [hmax, ih']
        have hne : Bitmap.elems (c' :: cs') ≠ [] := by
          rw [elems_cons]
          have := container_elems_ne_nil c' (h.2 c' (by simp)).2
          simp [this]
        cases hl : (Bitmap.elems (c' :: cs')).getLast? with
        | none => exact absurd (List.getLast?_eq_none_iff.1 hl) hne
        | some v => rfl

theorem C20_minmax_of_kernel (b : Bitmap) (hwf : Bitmap.WF b)
    (hK : ∀ c ∈ b, ∀ bs, c.store = .bitmap bs → BStoreMinMax bs) :
    (Bitmap.statistics b).minValue = (Spec.stats (Bitmap.elems b)).minValue ∧
    (Bitmap.statistics b).maxValue = (Spec.stats (Bitmap.elems b)).maxValue :=
  C20_minmax_local b ((bitmapWF_iff b).2 hwf) hK

/-- **`min_value` / `max_value` are the smallest / largest element of the set** (unconditional: the per-store
    kernel is `BStore.min?_spec` / `BStore.max?_spec` of the shared library). -/
theorem C20_minmax (b : Bitmap) (hwf : Bitmap.WF b) :
    (Bitmap.statistics b).minValue = (Spec.stats (Bitmap.elems b)).minValue ∧
    (Bitmap.statistics b).maxValue = (Spec.stats (Bitmap.elems b)).maxValue := by
  refine C20_minmax_of_kernel b hwf ?_
  intro c hc bs hs
  have hst := (hwf.2 c hc).2
  rw [hs] at hst
  exact ⟨BStore.min?_spec bs hst.1, BStore.max?_spec bs hst.1⟩

/-- **C20**, the whole statement: every field of `statistics()` and `serialized_size()` is the value the SPEC
    computes from the element set alone (`Spec.stats`: group the elements by 16-bit prefix; a prefix with
    ≤ 4096 values is an array container, any other a bitset container; no run containers;
    `serialized_size = 8 + Σ (8 + min(2·card, 8192))`; min / max / cardinality of the set). -/
theorem C20 (b : Bitmap) (hwf : Bitmap.WF b) :
    let st := Bitmap.statistics b
    let sp := Spec.stats (Bitmap.elems b)
    st.nContainers = sp.nContainers ∧ st.nArray = sp.nArray ∧ st.nBitset = sp.nBitset ∧ st.nRun = 0 ∧
    st.valuesArray = sp.valuesArray ∧ st.valuesBitset = sp.valuesBitset ∧ st.valuesRun = 0 ∧
    st.cardinality = sp.cardinality ∧ st.minValue = sp.minValue ∧ st.maxValue = sp.maxValue ∧
    Bitmap.serializedSize b = sp.serializedSize := by
  obtain ⟨c1, c2, c3, c4, c5, c6, _⟩ := C20_counts b hwf
  obtain ⟨m1, m2⟩ := C20_minmax b hwf
  exact ⟨c1, c2, c3, rfl, c4, c5, rfl, c6, m1, m2, C20_serialized_size b hwf⟩

/-- Non-vacuity: a two-chunk bitmap (an array chunk with 3 values under prefix 0 and one with 2 values
    under prefix 3) is well-formed, has no bitset store (so `hK` holds vacuously for it), and the
    statistics/space-rule values are the expected ones. -/
example :
    let b : Bitmap := [⟨0, .array [1, 2, 70]⟩, ⟨3, .array [0, 65535]⟩]
    Bitmap.WF b ∧ (∀ c ∈ b, ∀ bs, c.store = .bitmap bs → BStoreMinMax bs) ∧
      Spec.stats (Bitmap.elems b) = ⟨2, 2, 0, 5, 0, 5, some 1, some 262143, 34⟩ := by
  refine ⟨(bitmapWF_iff _).1 ⟨by decide, ?_⟩, ?_, by decide⟩
  · intro c hc
    simp at hc
    rcases hc with rfl | rfl <;> simp [StoreWF]
  · intro c hc bs hs
    simp at hc
    rcases hc with rfl | rfl <;> simp at hs

/-! ### the definition the driver executes: the single accumulating loop of statistics.rs:73-89 -/

/-- **mirror.** `Bitmap.statisticsM` — one pass over the containers bumping the `let mut` counters, exactly as the
    Rust does — returns the record of `Bitmap.statistics`, for EVERY value (no well-formedness needed). -/
theorem C20_statistics_mirror_eq (b : Bitmap) : Bitmap.statisticsM b = Bitmap.statistics b :=
  Fidelity.statisticsM_eq b

/-- **C20 for the mirrored definition** (what the driver runs in `dump` / `stats`). -/
theorem C20_mirror (b : Bitmap) (hwf : Bitmap.WF b) :
    let st := Bitmap.statisticsM b
    let sp := Spec.stats (Bitmap.elems b)
    st.nContainers = sp.nContainers ∧ st.nArray = sp.nArray ∧ st.nBitset = sp.nBitset ∧ st.nRun = 0 ∧
    st.valuesArray = sp.valuesArray ∧ st.valuesBitset = sp.valuesBitset ∧ st.valuesRun = 0 ∧
    st.cardinality = sp.cardinality ∧ st.minValue = sp.minValue ∧ st.maxValue = sp.maxValue ∧
    Bitmap.serializedSize b = sp.serializedSize := by
  rw [C20_statistics_mirror_eq]; exact C20 b hwf

/-- Non-vacuity: the loop on a two-chunk value (an array chunk and a second array chunk) -/
example : Bitmap.statisticsM [⟨0, .array [1, 2, 70]⟩, ⟨3, .array [0, 65535]⟩]
    = ⟨2, 2, 0, 0, 5, 0, 0, some 262143, some 1, 5⟩ := by decide

end Roaring.C20
