import RoaringModel.Lemmas.MiscStats
/-!
# C20 — `statistics()` describes the set and the Roaring space rule (property theorems)

`Spec.stats s` (SpecLsb0.lean) is what the property says about a set `s`, computed from the sorted element
list alone: group by `x / 65536`; a prefix with ≤ 4096 values is an array container (with its values), any
other a bitset container; no run containers; `serialized_size = 8 + Σ (8 + min(2·card, 8192))`.
The theorems are about well-formed bitmaps (`BitmapWF`, the invariant of every value produced by the
public API — C01/C02/C04 producer theorems); that the statement FAILS for non-well-formed values is
exactly how D2/D3 were visible.
-/
namespace Roaring.C20
open Roaring Roaring.MiscLemmas

/-- There are no run containers. -/
theorem C20_no_runs (b : Bitmap) : (Bitmap.statistics b).nRun = 0 ∧ (Bitmap.statistics b).valuesRun = 0 :=
  ⟨rfl, rfl⟩

/-- Container counts, value totals and cardinality are those of the element set under the space rule:
    `n_containers` = number of distinct 16-bit prefixes, prefixes with ≤ 4096 values are the array
    containers (counted with their values), all others are bitset containers, no run containers,
    `cardinality = len()`. -/
theorem C20_counts (b : Bitmap) (h : BitmapWF b) :
    (Bitmap.statistics b).nContainers = (Spec.stats (Bitmap.elems b)).nContainers ∧
    (Bitmap.statistics b).nArray = (Spec.stats (Bitmap.elems b)).nArray ∧
    (Bitmap.statistics b).nBitset = (Spec.stats (Bitmap.elems b)).nBitset ∧
    (Bitmap.statistics b).valuesArray = (Spec.stats (Bitmap.elems b)).valuesArray ∧
    (Bitmap.statistics b).valuesBitset = (Spec.stats (Bitmap.elems b)).valuesBitset ∧
    (Bitmap.statistics b).cardinality = (Spec.stats (Bitmap.elems b)).cardinality ∧
    (Bitmap.statistics b).cardinality = Bitmap.len b := by
  have hc := cards_eq b h
  have ha := filter_arr b h
  have hb := filter_bm b h
  have hfa : (b.map Container.len).filter (fun x => decide (x ≤ 4096))
      = (b.filter (fun c => decide (c.len ≤ 4096))).map Container.len := by
    rw [List.filter_map]; rfl
  have hfb : (b.map Container.len).filter (fun x => decide (4096 < x))
      = (b.filter (fun c => decide (4096 < c.len))).map Container.len := by
    rw [List.filter_map]; rfl
  simp only [Bitmap.statistics, Spec.stats, hc, hfa, hfb, List.length_map, len_eq_sum,
    elems_length b h]
  -- the two `match`es on the store kind are different auxiliary matchers, equal by unfolding
  refine ⟨trivial, ?_, ?_, ?_, ?_, trivial, trivial⟩
  · exact congrArg List.length ha
  · exact congrArg List.length hb
  · exact congrArg (fun l => Spec.sum (List.map Container.len l)) ha
  · exact congrArg (fun l => Spec.sum (List.map Container.len l)) hb

/-- `serialized_size() = 8 + Σ over prefixes (8 + min(2·cardinality, 8192))` — the Roaring space bound. -/
theorem C20_serialized_size (b : Bitmap) (h : BitmapWF b) :
    Bitmap.serializedSize b = (Spec.stats (Bitmap.elems b)).serializedSize := by
  simp only [Bitmap.serializedSize, Spec.stats, cards_eq b h, List.map_map]
  rw [foldl_add]
  congr 1
  rw [Nat.zero_add]
  congr 1
  apply List.map_congr_left
  intro c hc
  have hw := (h.2 c hc).2
  cases hs : c.store with
  | array v => rw [hs] at hw; have := hw.2.2.2; simp [Container.len, hs, Store.len]; omega
  | bitmap bs => rw [hs] at hw; have := hw.2.2.2; simp [Container.len, hs, Store.len]; omega

/-- a bitset store with 65 full words (4160 values) -/
def exBitset : BStore := ⟨4160, List.replicate 65 wMax ++ List.replicate 959 0⟩

/-- Non-vacuity of `C20_counts` / `C20_serialized_size`: a two-chunk bitmap with one array chunk (3 values
    under prefix 0) and one bitset chunk (4160 values under prefix 3) is well-formed. -/
example : BitmapWF [⟨0, .array [1, 2, 70]⟩, ⟨3, .bitmap exBitset⟩] := by
  refine ⟨by decide, ?_⟩
  intro c hc
  simp at hc
  rcases hc with rfl | rfl
  · simp [StoreWF]
  · exact ⟨by decide, by decide +kernel, by decide +kernel, by decide +kernel, by decide +kernel⟩

/-- `min_value` / `max_value` are `min()` / `max()` of the set.  Proved from the per-store kernel fact
    `BStoreMinMax` for the bitset stores of `b` (nothing is assumed for array stores); missing for the
    full statement: that kernel fact (first non-zero word + `trailing_zeros`, last non-zero word +
    `leading_zeros`), which belongs to the C07 lemma family. -/
theorem C20_minmax_partial (b : Bitmap) (h : BitmapWF b)
    (hK : ∀ c ∈ b, ∀ bs, c.store = .bitmap bs → BStoreMinMax bs) :
    (Bitmap.statistics b).minValue = (Spec.stats (Bitmap.elems b)).minValue ∧
    (Bitmap.statistics b).maxValue = (Spec.stats (Bitmap.elems b)).maxValue := by
  simp only [Bitmap.statistics, Spec.stats]
  constructor
  · cases b with
    | nil => rfl
    | cons c cs =>
      have hne := container_elems_ne_nil c (h.2 c (by simp)).2
      simp only [Bitmap.min?, List.head?_cons, elems_cons]
      rw [store_min c (hK c (by simp)), List.head?_append]
      cases hh : c.elems.head? with
      | none => exact absurd (List.head?_eq_none_iff.1 hh) hne
      | some v => rfl
  · induction b with
    | nil => rfl
    | cons c cs ih =>
      rw [elems_cons, List.getLast?_append]
      cases cs with
      | nil =>
        simp only [Bitmap.max?, List.getLast?_singleton, Bitmap.elems, List.flatMap_nil, List.getLast?_nil,
          Option.none_or]
        exact store_max c (hK c (by simp))
      | cons c' cs' =>
        have ih' := ih h.tail (fun x hx => hK x (by simp [hx]))
        have hmax : Bitmap.max? (c :: c' :: cs') = Bitmap.max? (c' :: cs') := by
          simp [Bitmap.max?, List.getLast?_cons_cons]
        rw [hmax, ih']
        have hne : Bitmap.elems (c' :: cs') ≠ [] := by
          rw [elems_cons]
          have := container_elems_ne_nil c' (h.2 c' (by simp)).2
          simp [this]
        cases hl : (Bitmap.elems (c' :: cs')).getLast? with
        | none => exact absurd (List.getLast?_eq_none_iff.1 hl) hne
        | some v => rfl

/-- Non-vacuity: a two-chunk bitmap (an array chunk with 3 values under prefix 0 and one with 2 values
    under prefix 3) is well-formed, has no bitset store (so `hK` holds vacuously for it), and the
    statistics/space-rule values are the expected ones. -/
example :
    let b : Bitmap := [⟨0, .array [1, 2, 70]⟩, ⟨3, .array [0, 65535]⟩]
    BitmapWF b ∧ (∀ c ∈ b, ∀ bs, c.store = .bitmap bs → BStoreMinMax bs) ∧
      Spec.stats (Bitmap.elems b) = ⟨2, 2, 0, 5, 0, 5, some 1, some 262143, 34⟩ := by
  refine ⟨⟨by decide, ?_⟩, ?_, by decide⟩
  · intro c hc
    simp at hc
    rcases hc with rfl | rfl <;> simp [StoreWF]
  · intro c hc bs hs
    simp at hc
    rcases hc with rfl | rfl <;> simp at hs

end Roaring.C20
