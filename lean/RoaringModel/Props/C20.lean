import RoaringModel.Ser
import RoaringModel.SpecLsb0
/-!
# C20 — `statistics()` describes the set and the Roaring space rule (property theorems)
-/
namespace Roaring.C20
open Roaring

/-- There are no run containers. -/
theorem C20_no_runs (b : Bitmap) : (Bitmap.statistics b).nRun = 0 ∧ (Bitmap.statistics b).valuesRun = 0 :=
  ⟨rfl, rfl⟩

end Roaring.C20
