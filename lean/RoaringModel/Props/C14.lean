import RoaringModel.Lemmas.IOLemmas
import RoaringModel.Lemmas.RoundTrip
import RoaringModel.Lemmas.TreemapCodec
import RoaringModel.Lemmas.TreemapCodecWF
import RoaringModel.Lemmas.FidelityCodec
/-!
# C14 — I/O faults surface as errors; read/write chunking is irrelevant (32-bit half)

The theorems are about the decoder/encoder logic over `read_exact` / `write_all` as modelled in `IO.lean`
(the two std loops are quoted there).  That std's implementations behave as modelled is what the
correspondence check exercises with fault-injecting `Read`/`Write` implementations.
-/
namespace Roaring.C14
open Roaring Roaring.Parser

/-- `read_exact` is schedule-free: whatever the sequence of chunk sizes and `Interrupted` results, it delivers
    the same bytes, leaves the same unread data, and fails (with EOF) in exactly the same cases as on the plain
    byte slice. -/
theorem C14_readExact_sched (sched : List IoEv) (data : List Nat) (n : Nat) :
    (readExactS sched data n).map (fun r => (r.1, r.2.data)) = readN n data :=
  readExactS_eq sched data n

/-- Decoding (either decoder, either build configuration) through any scheduled reader gives the result of
    decoding the plain byte list: same value and same unread bytes, or the same error. -/
theorem C14_decode_sched (chk dbg : Bool) (data : List Nat) (sched : List IoEv) :
    (deserializeSched chk dbg data sched).map (fun r => (r.1, r.2.data)) = deserialize chk dbg data := by
  have hR : ∀ n, Sim SReader.data (SReader.readExact n) (readN n) := by
    intro n r
    exact readExactS_eq r.sched r.data n
  exact sim_deserializeG hR chk dbg ⟨data, sched⟩

example : deserializeSched true true [58, 48, 0, 0, 1, 0, 0, 0, 7, 0, 0, 0, 16, 0, 0, 0, 5, 0]
    [.intr, .chunk 1, .intr, .chunk 3] =
    .ok ([{ key := 7, store := .array [5] }], ⟨[], []⟩) := by rfl

/-- Every strict prefix of a stream that decodes completely is an error — `UnexpectedEof`, never a value,
    never a panic.  Holds for *every* stream the decoder accepts (run chunks, either cookie), in particular
    (with `C05_decode`) for every serialisation the crate writes. -/
theorem C14_prefix (chk dbg : Bool) (bs : List Nat) (b : Bitmap)
    (h : deserialize chk dbg bs = .ok (b, [])) (k : Nat) (hk : k < bs.length) :
    deserialize chk dbg (bs.take k) = .error .eof :=
  strict_prefix_eof _ (mono_deserializeG chk dbg) bs b h k hk

/-- Every strict prefix of a serialisation the crate writes is an error (EOF), for both decoders. -/
theorem C14_prefix_serialize (chk dbg : Bool) (b : Bitmap) (h : Bitmap.WF b) (k : Nat)
    (hk : k < (Bitmap.serialize b).length) :
    deserialize chk dbg ((Bitmap.serialize b).take k) = .error .eof := by
  have hd : deserialize chk dbg (Bitmap.serialize b) = .ok (b, []) := by
    have := deserialize_serialize chk dbg b h.toCodec []
    simpa using this
  exact C14_prefix chk dbg _ b hd k hk

/-- More generally: if decoding stops with `rest` unread, every prefix that is shorter than the consumed part
    is an EOF error, and the consumed part alone decodes to the same value. -/
theorem C14_prefix_rest (chk dbg : Bool) (bs rest : List Nat) (b : Bitmap)
    (h : deserialize chk dbg bs = .ok (b, rest)) (k : Nat) (hk : k < bs.length - rest.length) :
    deserialize chk dbg (bs.take k) = .error .eof := by
  obtain ⟨used, hbs, _, hpre⟩ := mono_deserializeG chk dbg bs b rest h
  subst hbs
  have hk' : k < used.length := by simp at hk; omega
  have := hpre k hk'
  rwa [List.take_append_of_le_length (by omega)]

example : deserialize true true ([58, 48, 0, 0, 1, 0, 0, 0, 7, 0, 0, 0, 16, 0, 0, 0, 5, 0].take 17) = .error .eof := by
  rfl

/-- the buffers handed to `write_all` by `serialize_into`, concatenated, are the serialisation -/
theorem C14_serializeFields_flatten (b : Bitmap) : (Bitmap.serializeFields b).flatten = Bitmap.serialize b := by
  have hd : ∀ b : Bitmap, (Bitmap.descrFields b).flatten = Bitmap.descrBytes b := by
    intro b
    induction b with
    | nil => rfl
    | cons c cs ih =>
      simp only [Bitmap.descrFields, List.flatMap_cons, List.flatten_append, Bitmap.descrBytes] at ih ⊢
      rw [ih]; simp
  have ho : ∀ (b : Bitmap) (off : Nat), (Bitmap.offsetFields b off).flatten = Bitmap.offsetBytes b off := by
    intro b
    induction b with
    | nil => intro off; rfl
    | cons c cs ih =>
      intro off
      simp only [Bitmap.offsetFields, Bitmap.offsetBytes, List.flatten_cons]
      rw [ih]
      rfl
  have hp : ∀ b : Bitmap, (Bitmap.payloadFields b).flatten = Bitmap.payloadBytes b := by
    intro b
    induction b with
    | nil => rfl
    | cons c cs ih =>
      simp only [Bitmap.payloadFields, List.flatMap_cons, List.flatten_append, Bitmap.payloadBytes] at ih ⊢
      rw [ih]
      congr 1
      cases c.store <;> simp [List.flatMap_def]
  unfold Bitmap.serializeFields Bitmap.serialize
  simp only [List.flatten_append, hd, ho, hp]
  simp

/-- A sink that accepts `room` bytes — in whatever chunk sizes, interrupted however often, failing with `Err`
    or `Ok(0)` — receives exactly the first `room` bytes of the serialisation, and `serialize_into` returns
    `Ok` iff everything fit (no third outcome: the result is a `Bool`, there is no panic path). -/
theorem C14_write (b : Bitmap) (room : Nat) (zeroMode : Bool) (sched : List IoEv) :
    (Bitmap.serializeInto b { accRev := [], room := room, zeroMode := zeroMode, sched := sched }).2.bytes
        = (Bitmap.serialize b).take room ∧
    ((Bitmap.serializeInto b { accRev := [], room := room, zeroMode := zeroMode, sched := sched }).1 = true
        ↔ (Bitmap.serialize b).length ≤ room) := by
  have h := writeFields_spec (Bitmap.serializeFields b)
    { accRev := [], room := room, zeroMode := zeroMode, sched := sched }
  rw [C14_serializeFields_flatten] at h
  simpa [SWriter.bytes, Bitmap.serializeInto] using h

example : (Bitmap.serializeInto [{ key := 7, store := .array [5] }]
    { accRev := [], room := 5, zeroMode := true, sched := [.chunk 3, .intr, .chunk 1] }).2.bytes = [58, 48, 0, 0, 1] := by
  decide

/-! ### the writer path the driver executes (fidelity audit)

`Bitmap.serializeIntoM ovf` (IO.lean) evaluates the cardinality field `(container.len() - 1) as u16` in `u64`
arithmetic: on an empty container that is a panic (overflow checks on) raised *between* two writes.  For a value
without empty containers — every well-formed value — it is `serializeInto`, so `C14_write` holds for it and the panic
path is never taken. -/

/-- a well-formed value has no empty container -/
theorem wf_len_pos (b : Bitmap) (h : Bitmap.WF b) : ∀ c ∈ b, 1 ≤ c.len := by
  intro c hc
  have hst : Store.WF c.store := (h.2 c hc).2
  unfold Container.len Store.len
  cases hs : c.store with
  | array v => rw [hs] at hst; exact hst.2.1
  | bitmap bs => rw [hs] at hst; have := hst.2; simp only []; omega

/-- **mirror.** -/
theorem C14_serializeInto_mirror_eq (ovf : Bool) (b : Bitmap) (h : Bitmap.WF b) (w : SWriter) :
    Bitmap.serializeIntoM ovf b w = some (Bitmap.serializeInto b w) :=
  Fidelity.serializeIntoM_eq ovf b (wf_len_pos b h) w

/-- **C14_write for the executed writer path**: no panic, the sink holds exactly the first `room` bytes, `Ok` iff
    everything fit — in both build configurations. -/
theorem C14_write_mirror (ovf : Bool) (b : Bitmap) (h : Bitmap.WF b) (room : Nat) (zeroMode : Bool) (sched : List IoEv) :
    ∃ r, Bitmap.serializeIntoM ovf b { accRev := [], room := room, zeroMode := zeroMode, sched := sched } = some r ∧
      r.2.bytes = (Bitmap.serialize b).take room ∧ (r.1 = true ↔ (Bitmap.serialize b).length ≤ room) :=
  ⟨_, C14_serializeInto_mirror_eq ovf b h _, C14_write b room zeroMode sched⟩

/-- the panic path exists (empty container, overflow checks on) and comes only after the earlier writes succeeded:
    a sink with room for 9 bytes fails first (`Err`), one with room for 10 reaches the panic -/
example : (Bitmap.serializeIntoM true [⟨0, .array []⟩] { accRev := [], room := 9, zeroMode := false, sched := [] }).map
        (fun r => (r.1, r.2.bytes)) = some (false, [58, 48, 0, 0, 1, 0, 0, 0, 0])
    ∧ (Bitmap.serializeIntoM true [⟨0, .array []⟩] { accRev := [], room := 10, zeroMode := false, sched := [] }).isNone
        = true := by
  decide

end Roaring.C14

/-!
# C14, 64-bit half — `RoaringTreemap`

The treemap decoder is the same abstract-reader program (`Treemap.deserializeG R`), so the schedule-independence
and the prefix theorem lift through the bucket loop (`Lemmas/TreemapCodec.lean`); the writer hands the sink the
`u64` count, then per partition the `u32` key and the 32-bit fields, each through `write_all`.
-/
namespace Roaring.C14
open Roaring Roaring.Parser

/-- Decoding a treemap (either decoder, either build configuration) through any scheduled reader gives the
    result of decoding the plain byte list: same value and same unread bytes, or the same error. -/
theorem C14_t_decode_sched (chk dbg : Bool) (data : List Nat) (sched : List IoEv) :
    (Treemap.deserializeSched chk dbg data sched).map (fun r => (r.1, r.2.data))
      = Treemap.deserialize chk dbg data := by
  have hR : ∀ n, Sim SReader.data (SReader.readExact n) (readN n) := by
    intro n r
    exact readExactS_eq r.sched r.data n
  exact Treemap.sim_deserializeG hR chk dbg ⟨data, sched⟩

/-- Every strict prefix of a stream that decodes completely is an error — `UnexpectedEof`, never a value,
    never a panic.  Holds for *every* stream the decoder accepts (any bucket order, run chunks, …). -/
theorem C14_t_prefix (chk dbg : Bool) (bs : List Nat) (t : Treemap)
    (h : Treemap.deserialize chk dbg bs = .ok (t, [])) (k : Nat) (hk : k < bs.length) :
    Treemap.deserialize chk dbg (bs.take k) = .error .eof :=
  strict_prefix_eof _ (Treemap.mono_deserializeG chk dbg) bs t h k hk

/-- Every strict prefix of a serialisation the crate writes is an error (EOF), for both decoders. -/
theorem C14_t_prefix_serialize (chk dbg : Bool) (t : Treemap) (h : Treemap.WFd Bitmap.WF t) (k : Nat)
    (hk : k < (Treemap.serialize t).length) :
    Treemap.deserialize chk dbg ((Treemap.serialize t).take k) = .error .eof := by
  have hd : Treemap.deserialize chk dbg (Treemap.serialize t) = .ok (t, []) := by
    have := Treemap.deserialize_serialize_wf chk dbg t h []
    simpa using this
  exact C14_t_prefix chk dbg _ t hd k hk

/-- If decoding stops with `rest` unread, every prefix shorter than the consumed part is an EOF error. -/
theorem C14_t_prefix_rest (chk dbg : Bool) (bs rest : List Nat) (t : Treemap)
    (h : Treemap.deserialize chk dbg bs = .ok (t, rest)) (k : Nat) (hk : k < bs.length - rest.length) :
    Treemap.deserialize chk dbg (bs.take k) = .error .eof := by
  obtain ⟨used, hbs, _, hpre⟩ := Treemap.mono_deserializeG chk dbg bs t rest h
  subst hbs
  have hk' : k < used.length := by simp at hk; omega
  have := hpre k hk'
  rwa [List.take_append_of_le_length (by omega)]

/-- the buffers handed to `write_all` by the treemap's `serialize_into`, concatenated, are the serialisation -/
theorem C14_t_serializeFields_flatten (t : Treemap) :
    (Treemap.serializeFields t).flatten = Treemap.serialize t :=
  Treemap.serializeFields_flatten t C14_serializeFields_flatten

/-- A sink that accepts `room` bytes — in whatever chunk sizes, interrupted however often, failing with `Err`
    or `Ok(0)` — receives exactly the first `room` bytes of the serialisation, and `serialize_into` returns
    `Ok` iff everything fit. -/
theorem C14_t_write (t : Treemap) (room : Nat) (zeroMode : Bool) (sched : List IoEv) :
    (Treemap.serializeInto t { accRev := [], room := room, zeroMode := zeroMode, sched := sched }).2.bytes
        = (Treemap.serialize t).take room ∧
    ((Treemap.serializeInto t { accRev := [], room := room, zeroMode := zeroMode, sched := sched }).1 = true
        ↔ (Treemap.serialize t).length ≤ room) := by
  have h := writeFields_spec (Treemap.serializeFields t)
    { accRev := [], room := room, zeroMode := zeroMode, sched := sched }
  rw [C14_t_serializeFields_flatten] at h
  simpa [SWriter.bytes, Treemap.serializeInto] using h

/-- a one-partition treemap through an interrupting one/three-byte reader; its serialisation cut inside the
    `u32` key; a sink that fails inside the `u64` count -/
example : Treemap.deserializeSched true true
    [1, 0, 0, 0, 0, 0, 0, 0, 3, 0, 0, 0, 58, 48, 0, 0, 1, 0, 0, 0, 7, 0, 0, 0, 16, 0, 0, 0, 5, 0]
    [.intr, .chunk 1, .intr, .chunk 3] =
    .ok ([(3, [{ key := 7, store := .array [5] }])], ⟨[], []⟩) := by rfl
example : Treemap.deserialize true true
    ([1, 0, 0, 0, 0, 0, 0, 0, 3, 0, 0, 0, 58, 48, 0, 0, 1, 0, 0, 0, 7, 0, 0, 0, 16, 0, 0, 0, 5, 0].take 10) = .error .eof := by
  rfl
example : (Treemap.serializeInto [(3, [{ key := 7, store := .array [5] }])]
    { accRev := [], room := 5, zeroMode := true, sched := [.chunk 3, .intr, .chunk 1] }).2.bytes = [1, 0, 0, 0, 0] := by
  decide

/-- **mirror (64-bit).** The executed treemap writer path (`Treemap.serializeIntoM`) on a well-formed treemap:
    no panic, and the outcome of `Treemap.serializeInto`, so `C14_t_write` holds for it. -/
theorem C14_t_write_mirror (ovf : Bool) (t : Treemap) (h : Treemap.WFd Bitmap.WF t) (room : Nat) (zeroMode : Bool)
    (sched : List IoEv) :
    ∃ r, Treemap.serializeIntoM ovf t { accRev := [], room := room, zeroMode := zeroMode, sched := sched } = some r ∧
      r.2.bytes = (Treemap.serialize t).take room ∧ (r.1 = true ↔ (Treemap.serialize t).length ≤ room) :=
  ⟨_, Fidelity.tserializeIntoM_eq ovf t (fun p hp => wf_len_pos p.2 (h.parts p hp).2.1) _,
    C14_t_write t room zeroMode sched⟩

end Roaring.C14
