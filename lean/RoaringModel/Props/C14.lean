import RoaringModel.Ser
/-! # C14 (placeholder, replaced below) -/
namespace Roaring.C14
open Roaring

theorem C14_readN_zero (bs : List Nat) : readN 0 bs = .ok ([], bs) := by
  simp [readN]

end Roaring.C14
