import RoaringModel.TreemapOps
import RoaringModel.Spec
import RoaringModel.Lemmas.TreemapAlg
import RoaringModel.Lemmas.TreemapMulti
import RoaringModel.Lemmas.TreemapMultiLaws
import RoaringModel.Lemmas.TreemapMirror
/-!
# C11 — 64-bit set algebra, relations and multi-ops are exact (property theorems)

MODEL: TreemapOps.lean (treemap/ops.rs, cmp.rs, multiops.rs), parametrised by the 32-bit operations `o : Ops32`;
`Ops32.model` is the instance with the mirrored 32-bit functions, each in exactly the form the Rust calls
(Ops.lean / Cmp.lean / MultiOps.lean) — the instance the driver runs.  SPEC: `Spec.sOr / sAnd / sSub / sXor`,
`Spec.isSubset / isDisjoint`, the cardinalities, `Spec.multi` on strictly ascending lists of `u64`.
Well-formedness: `TWF` (keys strictly ascending `u32`, every partition `Bitmap.WF` and non-empty — so an emptied
partition must be *gone* from the result, which every theorem below includes).

* The theorems named `…_partial` hold for **every** `o : Ops32` satisfying the 32-bit laws
  (`Treemap.BinLaws o`, `Treemap.MultiLaws o`: result `Bitmap.WF` and `elems` = the SPEC operation).
* The theorems without suffix are **unconditional**: they are about `Ops32.model`, whose laws are proved from the
  32-bit property theorems (`binLaws_model` from C02/C08, `multiLaws_model` from C09 plus the well-formedness of
  the 32-bit multi-op results, Lemmas/TreemapMultiLaws.lean).

Proved at the partition level (Lemmas/TreemapAlg.lean, TreemapMulti.lean): the operand swaps on `len()`, the
`Entry::Vacant/Occupied` flows, removal of emptied partitions and `keys_to_remove`, the `Pairs` merge-join, the
wrapping `u64` arithmetic of the `*_len`, the ordered multi-ops over the keys of the first operand, and the
heap-based k-way merge with grouping of equal keys **for an arbitrary min-extraction** of the heap (`IsExtractMin`:
any entry of minimal key, the others in any order) with fuel that is never exhausted early.
-/
namespace Roaring.C11
open Roaring Roaring.Treemap

variable (o : Ops32)

/-- the multi-op of an empty sequence is the empty treemap (all four operators, both forms). -/
theorem C11_multi_nil (op : MultiOp) (owned : Bool) : multi o op owned [] = [] := by
  cases op <;> cases owned <;> rfl

/-- `Result` forms, all items `Ok`: the result is `Ok` of the plain multi-op. -/
theorem C11_result_ok {ε} (op : MultiOp) (owned : Bool) (ts : List Treemap) :
    multiTry (ε := ε) o op owned (ts.map .ok) = .ok (multi o op owned ts) := by
  have : ∀ ts : List Treemap, firstErr (ε := ε) (ts.map .ok) = .ok ts := by
    intro ts; induction ts with
    | nil => rfl
    | cons t ts ih => simp [firstErr, ih]
  simp [multiTry, this]

/-- `Result` forms: the first error in the sequence is returned, whatever follows it (for all four
    operators — unlike the 32-bit `intersection`/`difference`, the treemap code collects every item first). -/
theorem C11_result_err {ε} (op : MultiOp) (owned : Bool) (pre : List Treemap) (e : ε)
    (rest : List (Except ε Treemap)) :
    multiTry o op owned (pre.map .ok ++ .error e :: rest) = .error e := by
  have : firstErr (pre.map (Except.ok (ε := ε)) ++ .error e :: rest) = .error e := by
    induction pre with
    | nil => rfl
    | cons t ts ih => simp [firstErr, ih]
  simp [multiTry, this]
example : multiTry (ε := Nat) o .or true [.ok [], .error 3, .error 4] = .error 3 := rfl

/-- which operand forms run the same code (ops.rs): owned∘owned = assign-owned, owned∘ref = assign-ref,
    ref∘owned = the assign-ref form with swapped operands (∪, ∩, ⊕) resp. assign on a clone (−);
    `is_superset` is `is_subset` with swapped operands. -/
theorem C11_forms (a b : Treemap) :
    orOO o a b = orAO o a b ∧ orOR o a b = orAR o a b ∧ orRO o a b = orAR o b a ∧
    andOO o a b = andAO o a b ∧ andOR o a b = andAR o a b ∧ andRO o a b = andAR o b a ∧
    subOO o a b = subAR o a b ∧ subOR o a b = subAR o a b ∧ subRO o a b = subAR o a b ∧ subRR o a b = subAR o a b ∧
      subAO o a b = subAR o a b ∧
    xorOO o a b = xorAO o a b ∧ xorOR o a b = xorAR o a b ∧ xorRO o a b = xorAR o b a ∧
    isSuperset o a b = isSubset o b a :=
  ⟨rfl, rfl, rfl, rfl, rfl, rfl, rfl, rfl, rfl, rfl, rfl, rfl, rfl, rfl, rfl⟩


/-! ### the four binary operations, six operand forms each -/

/-- the protocol's view: operator × form (the form names of `Bitmap.Form`) -/
def binop (o : Ops32) : Bitmap.BinOp → Bitmap.Form → Treemap → Treemap → Treemap
  | .or, .oo => orOO o | .or, .or_ => orOR o | .or, .ro => orRO o | .or, .rr => orRR o | .or, .ao => orAO o | .or, .ar => orAR o
  | .and, .oo => andOO o | .and, .or_ => andOR o | .and, .ro => andRO o | .and, .rr => andRR o | .and, .ao => andAO o | .and, .ar => andAR o
  | .sub, .oo => subOO o | .sub, .or_ => subOR o | .sub, .ro => subRO o | .sub, .rr => subRR o | .sub, .ao => subAO o | .sub, .ar => subAR o
  | .xor, .oo => xorOO o | .xor, .or_ => xorOR o | .xor, .ro => xorRO o | .xor, .rr => xorRR o | .xor, .ao => xorAO o | .xor, .ar => xorAR o

/-- the SPEC operation of an operator -/
def specBin : Bitmap.BinOp → List Nat → List Nat → List Nat
  | .or => Spec.sOr | .and => Spec.sAnd | .sub => Spec.sSub | .xor => Spec.sXor

variable {o}

/-- **All 4 operators × 6 forms**, for every `Ops32` satisfying the 32-bit laws: the result is well-formed (no
    empty partition survives) and its values are exactly the SPEC operation on the operands' values. -/
theorem C11_all_forms_partial (L : BinLaws o) (op : Bitmap.BinOp) (fm : Bitmap.Form) (a b : Treemap)
    (ha : TWF a) (hb : TWF b) :
    TWF (binop o op fm a b) ∧ elems (binop o op fm a b) = specBin op (elems a) (elems b) := by
  cases op <;> cases fm
  · exact orOO_exact L a b ha hb
  · exact orOR_exact L a b ha hb
  · exact orRO_exact L a b ha hb
  · exact orRR_exact L a b ha hb
  · exact orAO_exact L a b ha hb
  · exact orAR_exact L a b ha hb
  · exact andOO_exact L a b ha hb
  · exact andOR_exact L a b ha hb
  · exact andRO_exact L a b ha hb
  · exact andRR_exact L a b ha hb
  · exact andAO_exact L a b ha hb
  · exact andAR_exact L a b ha hb
  · exact subOO_exact L a b ha hb
  · exact subOR_exact L a b ha hb
  · exact subRO_exact L a b ha hb
  · exact subRR_exact L a b ha hb
  · exact subAO_exact L a b ha hb
  · exact subAR_exact L a b ha hb
  · exact xorOO_exact L a b ha hb
  · exact xorOR_exact L a b ha hb
  · exact xorRO_exact L a b ha hb
  · exact xorRR_exact L a b ha hb
  · exact xorAO_exact L a b ha hb
  · exact xorAR_exact L a b ha hb

/-- **All 4 operators × 6 forms, unconditional** (the mirrored 32-bit operations). -/
theorem C11_all_forms (op : Bitmap.BinOp) (fm : Bitmap.Form) (a b : Treemap) (ha : TWF a) (hb : TWF b) :
    TWF (binop Ops32.model op fm a b) ∧ elems (binop Ops32.model op fm a b) = specBin op (elems a) (elems b) :=
  C11_all_forms_partial binLaws_model op fm a b ha hb

/-- union, every form -/
theorem C11_or (fm : Bitmap.Form) (a b : Treemap) (ha : TWF a) (hb : TWF b) :
    TWF (binop Ops32.model .or fm a b) ∧ elems (binop Ops32.model .or fm a b) = Spec.sOr (elems a) (elems b) :=
  C11_all_forms .or fm a b ha hb
/-- intersection, every form -/
theorem C11_and (fm : Bitmap.Form) (a b : Treemap) (ha : TWF a) (hb : TWF b) :
    TWF (binop Ops32.model .and fm a b) ∧ elems (binop Ops32.model .and fm a b) = Spec.sAnd (elems a) (elems b) :=
  C11_all_forms .and fm a b ha hb
/-- difference, every form -/
theorem C11_sub (fm : Bitmap.Form) (a b : Treemap) (ha : TWF a) (hb : TWF b) :
    TWF (binop Ops32.model .sub fm a b) ∧ elems (binop Ops32.model .sub fm a b) = Spec.sSub (elems a) (elems b) :=
  C11_all_forms .sub fm a b ha hb
/-- symmetric difference, every form -/
theorem C11_xor (fm : Bitmap.Form) (a b : Treemap) (ha : TWF a) (hb : TWF b) :
    TWF (binop Ops32.model .xor fm a b) ∧ elems (binop Ops32.model .xor fm a b) = Spec.sXor (elems a) (elems b) :=
  C11_all_forms .xor fm a b ha hb

/-- all six forms of one operator have the same values -/
theorem C11_forms_agree (op : Bitmap.BinOp) (fm fm' : Bitmap.Form) (a b : Treemap) (ha : TWF a) (hb : TWF b) :
    elems (binop Ops32.model op fm a b) = elems (binop Ops32.model op fm' a b) := by
  rw [(C11_all_forms op fm a b ha hb).2, (C11_all_forms op fm' a b ha hb).2]

/-! ### relations and cardinalities -/

/-- `is_subset`, `is_superset`, `is_disjoint` (the `Pairs` merge-join over the two partition directories) -/
theorem C11_relations_partial (L : BinLaws o) (a b : Treemap) (ha : TWF a) (hb : TWF b) :
    isSubset o a b = Spec.isSubset (elems a) (elems b) ∧
    (isSubset o a b = true ↔ ∀ x, x ∈ elems a → x ∈ elems b) ∧
    isSuperset o a b = Spec.isSuperset (elems a) (elems b) ∧
    isDisjoint o a b = Spec.isDisjoint (elems a) (elems b) ∧
    (isDisjoint o a b = true ↔ ∀ x, x ∈ elems a → ¬ x ∈ elems b) :=
  ⟨isSubset_spec L ha hb, isSubset_iff L ha hb, isSuperset_spec L ha hb, isDisjoint_spec L ha hb,
   isDisjoint_iff L ha hb⟩

theorem C11_relations (a b : Treemap) (ha : TWF a) (hb : TWF b) :
    isSubset Ops32.model a b = Spec.isSubset (elems a) (elems b) ∧
    (isSubset Ops32.model a b = true ↔ ∀ x, x ∈ elems a → x ∈ elems b) ∧
    isSuperset Ops32.model a b = Spec.isSuperset (elems a) (elems b) ∧
    isDisjoint Ops32.model a b = Spec.isDisjoint (elems a) (elems b) ∧
    (isDisjoint Ops32.model a b = true ↔ ∀ x, x ∈ elems a → ¬ x ∈ elems b) :=
  C11_relations_partial binLaws_model a b ha hb

/-- `intersection_len` and `difference_len` are the cardinalities of `∩` and `−` (the plain `-` of
    `difference_len` never underflows); `union_len` and `symmetric_difference_len` are the cardinalities of `∪`
    and `⊕` modulo 2^64 — the wrapping arithmetic is exact unless the result is all 2^64 values. -/
theorem C11_lens_partial (L : BinLaws o) (a b : Treemap) (ha : TWF a) (hb : TWF b) :
    intersectionLen o a b = Spec.interLen (elems a) (elems b) ∧
    differenceLen o a b = Spec.diffLen (elems a) (elems b) ∧ intersectionLen o a b ≤ len a ∧
    unionLen o a b = Spec.unionLen (elems a) (elems b) % W64 ∧
    symmetricDifferenceLen o a b = Spec.xorLen (elems a) (elems b) % W64 ∧
    Spec.unionLen (elems a) (elems b) ≤ W64 ∧ Spec.xorLen (elems a) (elems b) ≤ W64 :=
  ⟨intersectionLen_spec L ha hb, (differenceLen_spec L ha hb).1, (differenceLen_spec L ha hb).2,
   unionLen_mod L ha hb, symmetricDifferenceLen_mod L ha hb, (length_sOr_sXor_le ha hb).1,
   (length_sOr_sXor_le ha hb).2⟩

theorem C11_lens (a b : Treemap) (ha : TWF a) (hb : TWF b) :
    intersectionLen Ops32.model a b = Spec.interLen (elems a) (elems b) ∧
    differenceLen Ops32.model a b = Spec.diffLen (elems a) (elems b) ∧ intersectionLen Ops32.model a b ≤ len a ∧
    unionLen Ops32.model a b = Spec.unionLen (elems a) (elems b) % W64 ∧
    symmetricDifferenceLen Ops32.model a b = Spec.xorLen (elems a) (elems b) % W64 ∧
    Spec.unionLen (elems a) (elems b) ≤ W64 ∧ Spec.xorLen (elems a) (elems b) ≤ W64 :=
  C11_lens_partial binLaws_model a b ha hb

/-- `union_len` / `symmetric_difference_len` without the modulus, when the result is not all of `u64` -/
theorem C11_union_xor_len (a b : Treemap) (ha : TWF a) (hb : TWF b) :
    ((Spec.sOr (elems a) (elems b)).length < W64 → unionLen Ops32.model a b = Spec.unionLen (elems a) (elems b)) ∧
    ((Spec.sXor (elems a) (elems b)).length < W64 →
      symmetricDifferenceLen Ops32.model a b = Spec.xorLen (elems a) (elems b)) :=
  ⟨fun h => unionLen_spec binLaws_model ha hb h, fun h => symmetricDifferenceLen_spec binLaws_model ha hb h⟩

/-! ### multi-ops -/

/-- **`MultiOps` on treemaps = the fold of the binary operation** (`∪`/`⊕` from `∅`, `∩`/`−` from the first
    operand), owned and borrowed items, for every `Ops32` satisfying the 32-bit multi-op laws. -/
theorem C11_multi_partial (M : MultiLaws o) (op : MultiOp) (owned : Bool) (ts : List Treemap)
    (hts : ∀ t ∈ ts, TWF t) :
    TWF (multi o op owned ts) ∧ elems (multi o op owned ts) = Spec.multi (specOf op) (ts.map elems) :=
  multi_exact M op owned ts hts

/-- **unconditional** (the mirrored 32-bit multi-ops, `MultiOps<RoaringBitmap>` / `MultiOps<&RoaringBitmap>`) -/
theorem C11_multi (op : MultiOp) (owned : Bool) (ts : List Treemap) (hts : ∀ t ∈ ts, TWF t) :
    TWF (multi Ops32.model op owned ts) ∧
    elems (multi Ops32.model op owned ts) = Spec.multi (specOf op) (ts.map elems) :=
  multi_exact multiLaws_model op owned ts hts

/-- The same for **every min-extraction of the heap** (`BinaryHeap::peek_mut` under the reversed key order
    returns *some* entry of minimal key; `IsExtractMin` allows any, with the other entries in any order): the
    result is well-formed and is the fold, hence independent of the heap's tie-breaking; the executable model
    is the instance `extractMin`. -/
theorem C11_multi_any_heap {ext : List Peeked → Option (Peeked × List Peeked)} (hext : IsExtractMin ext)
    (op : MultiOp) (owned : Bool) (ts : List Treemap) (hts : ∀ t ∈ ts, TWF t) :
    TWF (multiWith Ops32.model ext op owned ts) ∧
    elems (multiWith Ops32.model ext op owned ts) = Spec.multi (specOf op) (ts.map elems) ∧
    multi Ops32.model op owned ts = multiWith Ops32.model extractMin op owned ts ∧ IsExtractMin extractMin :=
  ⟨(multiWith_exact multiLaws_model hext op owned ts hts).1, (multiWith_exact multiLaws_model hext op owned ts hts).2,
   multi_eq_multiWith _ op owned ts, isExtractMin_extractMin⟩

/-- the fuel of the heap loop (`Σ` number of partitions) is never exhausted early: the loop ends with an empty
    heap, for every min-extraction and every state whose remaining partitions fit the fuel -/
theorem C11_multi_fuel {ext : List Peeked → Option (Peeked × List Peeked)} (hext : IsExtractMin ext)
    (op : List Bitmap → Bitmap) (fuel : Nat) (st : MergeSt) (h : (TM.entries st.heap).length ≤ fuel) :
    (mergeLoopWith ext op fuel st).heap = [] := mergeLoopWith_heap_nil hext op fuel st h

/-- `Result` forms on an all-`Ok` sequence: `Ok` of the fold -/
theorem C11_multi_result_ok {ε} (op : MultiOp) (owned : Bool) (ts : List Treemap) (hts : ∀ t ∈ ts, TWF t) :
    ∃ t, multiTry (ε := ε) Ops32.model op owned (ts.map .ok) = .ok t ∧ TWF t ∧
      elems t = Spec.multi (specOf op) (ts.map elems) :=
  ⟨_, C11_result_ok Ops32.model op owned ts, (C11_multi op owned ts hts).1, (C11_multi op owned ts hts).2⟩

/-! ### the step-for-step forms the driver executes (model-fidelity audit)

`isDisjointMirror` (cmp.rs:37 as written: `filter` then `all` with `unwrap`) and `multiMirror` / `multiTryMirror`
(multiops.rs:124 `try_ordered_multi_op_owned` *with* the `remove(&k)` it performs on the other operands) are what
the driver runs; they equal the definitions the theorems above are about. -/

/-- `is_disjoint` as written equals the fused form (no hypothesis), hence decides disjointness -/
theorem C11_isDisjoint_mirror (a b : Treemap) :
    isDisjointMirror o a b = isDisjoint o a b ∧
    (TWF a → TWF b → isDisjointMirror Ops32.model a b = Spec.isDisjoint (elems a) (elems b)) :=
  ⟨isDisjointMirror_eq o a b, fun ha hb => by
    rw [isDisjointMirror_eq]; exact (C11_relations a b ha hb).2.2.2.1⟩

/-- the multi-ops as the driver runs them (owned `intersection` / `difference` thread the shrinking other operands
    through the loop) equal `multi` on operands with strictly ascending keys, hence equal the fold -/
theorem C11_multi_mirror (op : MultiOp) (owned : Bool) (ts : List Treemap) (hts : ∀ t ∈ ts, TWF t) :
    multiMirror Ops32.model op owned ts = multi Ops32.model op owned ts ∧
    TWF (multiMirror Ops32.model op owned ts) ∧
    elems (multiMirror Ops32.model op owned ts) = Spec.multi (specOf op) (ts.map elems) := by
  have he := multiMirror_eq Ops32.model op owned ts (fun t ht => (hts t ht).sorted)
  rw [he]
  exact ⟨rfl, C11_multi op owned ts hts⟩

/-- … and the `Result` forms: the first error, else `Ok` of the fold -/
theorem C11_multiTry_mirror {ε : Type} (op : MultiOp) (owned : Bool) (items : List (Except ε Treemap))
    (h : ∀ t, Except.ok t ∈ items → TWF t) :
    multiTryMirror Ops32.model op owned items = multiTry Ops32.model op owned items :=
  multiTryMirror_eq Ops32.model op owned items (fun t ht => (h t ht).sorted)

example : multiMirror Ops32.model .and true [C10.tEx, C10.tEx, []] = [] := by decide +kernel

/-! ### non-vacuity: the hypotheses are met by a three-partition treemap built through the public API -/

example : TWF C10.tEx := C10.tEx_TWF
example : elems (binop Ops32.model .xor .rr C10.tEx C10.tEx) = [] := by
  rw [(C11_xor .rr _ _ C10.tEx_TWF C10.tEx_TWF).2]; decide +kernel
example : elems (multi Ops32.model .or true [C10.tEx, [], C10.tEx]) = elems C10.tEx := by
  rw [(C11_multi .or true _ (by
    intro t ht
    simp only [List.mem_cons, List.not_mem_nil, or_false] at ht
    rcases ht with rfl | rfl | rfl
    · exact C10.tEx_TWF
    · exact WFd.nil
    · exact C10.tEx_TWF)).2]
  decide +kernel

end Roaring.C11
