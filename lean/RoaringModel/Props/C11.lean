import RoaringModel.TreemapOps
import RoaringModel.Spec
/-!
# C11 — 64-bit set algebra, relations and multi-ops are exact (property theorems)
-/
namespace Roaring.C11
open Roaring

/-- the multi-op of an empty sequence is the empty treemap (all four operators, both forms). -/
theorem C11_multi_nil (o : Ops32) (op : Treemap.MultiOp) (owned : Bool) : Treemap.multi o op owned [] = [] := by
  cases op <;> cases owned <;> rfl

end Roaring.C11
