import RoaringModel.TreemapOps
import RoaringModel.Spec
/-!
# C11 — 64-bit set algebra, relations and multi-ops are exact (property theorems)

State of the proofs: what is proved here needs no hypothesis — the `Result` forms of the multi-ops (first
error wins, otherwise the fold), the empty sequence, and which operand forms share code.  The lifting of the
four binary operations / relations / `*_len` / heap merge through the partition directory (from the 32-bit
specifications `Ops32.Laws`) is **not yet proved**; it is listed in `gaps` of `bin/propcfg/C11.py` and is
decided on generated inputs by the correspondence check only.
-/
namespace Roaring.C11
open Roaring Roaring.Treemap

variable (o : Ops32)

/-- the multi-op of an empty sequence is the empty treemap (all four operators, both forms). -/
theorem C11_multi_nil (op : MultiOp) (owned : Bool) : multi o op owned [] = [] := by
  cases op <;> cases owned <;> rfl

/-- `Result` forms, all items `Ok`: the result is `Ok` of the plain multi-op. -/
theorem C11_result_ok {ε} (op : MultiOp) (owned : Bool) (ts : List Treemap) :
    multiTry (ε := ε) o op owned (ts.map .ok) = .ok (multi o op owned ts) := by
  have : ∀ ts : List Treemap, firstErr (ε := ε) (ts.map .ok) = .ok ts := by
    intro ts; induction ts with
    | nil => rfl
    | cons t ts ih => simp [firstErr, ih]
  simp [multiTry, this]

/-- `Result` forms: the first error in the sequence is returned, whatever follows it (for all four
    operators — unlike the 32-bit `intersection`/`difference`, the treemap code collects every item first). -/
theorem C11_result_err {ε} (op : MultiOp) (owned : Bool) (pre : List Treemap) (e : ε)
    (rest : List (Except ε Treemap)) :
    multiTry o op owned (pre.map .ok ++ .error e :: rest) = .error e := by
  have : firstErr (pre.map (Except.ok (ε := ε)) ++ .error e :: rest) = .error e := by
    induction pre with
    | nil => rfl
    | cons t ts ih => simp [firstErr, ih]
  simp [multiTry, this]
example : multiTry (ε := Nat) o .or true [.ok [], .error 3, .error 4] = .error 3 := rfl

/-- which operand forms run the same code (ops.rs): owned∘owned = assign-owned, owned∘ref = assign-ref,
    ref∘owned = the assign-ref form with swapped operands (∪, ∩, ⊕) resp. assign on a clone (−);
    `is_superset` is `is_subset` with swapped operands. -/
theorem C11_forms (a b : Treemap) :
    orOO o a b = orAO o a b ∧ orOR o a b = orAR o a b ∧ orRO o a b = orAR o b a ∧
    andOO o a b = andAO o a b ∧ andOR o a b = andAR o a b ∧ andRO o a b = andAR o b a ∧
    subOO o a b = subAR o a b ∧ subOR o a b = subAR o a b ∧ subRO o a b = subAR o a b ∧ subRR o a b = subAR o a b ∧
      subAO o a b = subAR o a b ∧
    xorOO o a b = xorAO o a b ∧ xorOR o a b = xorAR o a b ∧ xorRO o a b = xorAR o b a ∧
    isSuperset o a b = isSubset o b a :=
  ⟨rfl, rfl, rfl, rfl, rfl, rfl, rfl, rfl, rfl, rfl, rfl, rfl, rfl, rfl, rfl⟩

end Roaring.C11
