import RoaringModel.Lemmas.CIterLemmas
import RoaringModel.Lemmas.IterRangeLemmas
import RoaringModel.Lemmas.IterSortedLemmas
import RoaringModel.Lemmas.SpecIterLemmas
import RoaringModel.Inv
/-!
# C03 — 32-bit iteration is an exact ascending double-ended cursor (property theorems)

MODEL: `Roaring.Iter` (RoaringModel/Iter.lean, one model for `bitmap::Iter` and `bitmap::IntoIter`),
`Iter.step` (RoaringModel/IterStep.lean).  SPEC: `Spec.Cursor` (RoaringModel/SpecIter.lean): a cursor is the
list of remaining elements.  Abstraction: `Iter.rem` (Lemmas/IterDefs.lean).

Every theorem below is unconditional in the container-level kernel: `cKernel : CKernel` is proved in
`Lemmas/CIterLemmas.lean` from the `BitmapIter` lemmas (`Lemmas/BIterLemmas.lean`) and the slice-window lemmas.
-/
namespace Roaring.C03
open Roaring Spec

/-- what iteration needs of a bitmap value (implied by `Bitmap.WF`): ascending `u16` chunk keys; array chunks
    strictly ascending `u16`s; bitset chunks of 1024 `u64` words with a correct cached cardinality -/
def BitmapOK (b : Bitmap) : Prop := b.IterOK ∧ ∀ c ∈ b, c.key < 65536

/-- iterator states: the structural invariant `Iter.Inv`, and the remaining values are `u32`s -/
def IterWF (it : Iter) : Prop := it.Inv ∧ ∀ x ∈ it.rem, x ≤ u32Max

theorem C03_elems_u32 (b : Bitmap) (h : BitmapOK b) : ∀ x ∈ Bitmap.elems b, x ≤ u32Max := by
  intro x hx
  obtain ⟨c, hc, hk⟩ := Iter.mid_hi cKernel b h.1.2 x hx
  have := h.2 c hc
  unfold u32Max; omega

/-- **init.** `iter()` / `into_iter()` start as a cursor over exactly the elements of the bitmap. -/
theorem C03_init (b : Bitmap) (h : BitmapOK b) :
    IterWF (Bitmap.iter b) ∧ (Bitmap.iter b).rem = Bitmap.elems b := by
  obtain ⟨h1, h2⟩ := Iter.iter_spec b h.1
  exact ⟨⟨h1, by rw [h2]; exact C03_elems_u32 b h⟩, h2⟩

/-- **the shared well-formedness implies the local hypothesis.** `Bitmap.WF` (`RoaringModel/Inv.lean`: the invariant
    every C01/C02/C09/… producer theorem establishes) contains everything `BitmapOK` asks for; the 4096 threshold and
    non-emptiness of chunks are simply not needed for iteration. -/
theorem C03_BitmapOK_of_WF (b : Bitmap) (h : b.WF) : BitmapOK b := by
  refine ⟨⟨h.1, ?_⟩, fun c hc => (h.2 c hc).1⟩
  intro c hc
  have hs : c.store.WF := (h.2 c hc).2
  unfold Container.IterOK
  cases hst : c.store with
  | array v => rw [hst] at hs; exact ⟨hs.1.1, hs.1.2⟩
  | bitmap bs => rw [hst] at hs; exact ⟨hs.1.length, hs.1.words, hs.1.len⟩

/-- `C03_init` for every well-formed value (every value reachable through the public API: C04 producer table) -/
theorem C03_init_WF (b : Bitmap) (h : b.WF) :
    IterWF (Bitmap.iter b) ∧ (Bitmap.iter b).rem = Bitmap.elems b :=
  C03_init b (C03_BitmapOK_of_WF b h)

/-- the bounds of a `RangeBounds<u32>` carry `u32` values -/
def BoundU32 : Bound → Prop
  | .incl v => v ≤ u32Max
  | .excl v => v ≤ u32Max
  | .unb => True

/-- **range.** `range(r)` / `into_range(r)` panic exactly on the two documented inputs (start > end, or
    both excluded and equal) and otherwise start as a cursor over exactly the elements inside `r`. -/
theorem C03_range (b : Bitmap) (h : BitmapOK b) (lo hi : Bound) (hlo : BoundU32 lo) (hhi : BoundU32 hi) :
    (Bitmap.range b lo hi = none ↔ Spec.range (Bitmap.elems b) lo hi = none) ∧
    (∀ it, Bitmap.range b lo hi = some it →
      IterWF it ∧ Spec.range (Bitmap.elems b) lo hi = some it.rem ∧
      it.rem = (Bitmap.elems b).filter (fun x => decide (Bound.mem lo hi x))) := by
  have hU := C03_elems_u32 b h
  have key := Iter.range_spec cKernel b h.1 hU lo hi
    (by intro v hv; rcases hv with rfl | rfl <;> exact hlo)
    (by intro v hv; rcases hv with rfl | rfl <;> exact hhi)
  cases hm : Bitmap.range b lo hi with
  | none =>
    rw [hm] at key
    cases hs : Spec.range (Bitmap.elems b) lo hi with
    | none => simp
    | some c => rw [hs] at key; exact absurd key (by simp)
  | some it =>
    rw [hm] at key
    cases hs : Spec.range (Bitmap.elems b) lo hi with
    | none => rw [hs] at key; exact absurd key (by simp)
    | some c =>
      rw [hs] at key
      simp only [] at key
      refine ⟨by simp, ?_⟩
      intro it' hit
      simp only [Option.some.injEq] at hit; subst hit
      have hc : c = (Bitmap.elems b).filter (fun x => decide (Bound.mem lo hi x)) := by
        unfold Spec.range at hs
        split at hs
        · cases hs
        · simpa using hs.symm
      refine ⟨⟨key.1, ?_⟩, by rw [key.2], by rw [key.2, hc]⟩
      intro x hx
      rw [key.2, hc] at hx
      exact hU x (List.mem_filter.mp hx).1

/-- `C03_range` for every well-formed value -/
theorem C03_range_WF (b : Bitmap) (h : b.WF) (lo hi : Bound) (hlo : BoundU32 lo) (hhi : BoundU32 hi) :
    (Bitmap.range b lo hi = none ↔ Spec.range (Bitmap.elems b) lo hi = none) ∧
    (∀ it, Bitmap.range b lo hi = some it →
      IterWF it ∧ Spec.range (Bitmap.elems b) lo hi = some it.rem ∧
      it.rem = (Bitmap.elems b).filter (fun x => decide (Bound.mem lo hi x))) :=
  C03_range b (C03_BitmapOK_of_WF b h) lo hi hlo hhi

/-- exactness of `size_hint` needs `len ≤ usize::MAX`: a `u32` cursor has at most `2^32` elements -/
theorem C03_len_bound (it : Iter) (h : IterWF it) : it.rem.length ≤ usizeMax := by
  have := Iter.length_le_of_sorted it.rem 0 u32Max (Iter.rem_sorted cKernel it h.1) (by simp) h.2
  unfold u32Max at this; unfold usizeMax; omega

/-- `fold` with the recording closure returns the visited list -/
private theorem foldl_snoc (l : List Nat) : ∀ acc : List Nat, l.foldl (fun acc x => acc ++ [x]) acc = acc ++ l := by
  induction l with
  | nil => simp
  | cons a l ih => intro acc; simp [ih]

/-- **step.** Every iterator call acts on the remaining elements as the cursor operation of the
    specification, returns what the specification returns, and preserves well-formedness —
    for all states and all arguments. -/
theorem C03_step (it : Iter) (h : IterWF it) (op : ItOp) :
    IterWF (Iter.step it op).1 ∧
    (Iter.step it op).1.rem = (Cursor.step it.rem op).1 ∧
    (Iter.step it op).2 = (Cursor.step it.rem op).2 := by
  have sub : ∀ (it' : Iter), it'.Inv → (∀ x ∈ it'.rem, x ∈ it.rem) → IterWF it' :=
    fun it' hi hs => ⟨hi, fun x hx => h.2 x (hs x hx)⟩
  cases op with
  | next =>
    obtain ⟨h1, h2, h3⟩ := Iter.next_spec cKernel it h.1
    refine ⟨sub _ h3 ?_, h2, by simp [Iter.step, Cursor.step, Cursor.next, h1]⟩
    intro x hx; simp only [Iter.step] at hx; rw [h2] at hx; exact List.mem_of_mem_tail hx
  | nextBack =>
    obtain ⟨h1, h2, h3⟩ := Iter.nextBack_spec cKernel it h.1
    refine ⟨sub _ h3 ?_, h2, by simp [Iter.step, Cursor.step, Cursor.nextBack, h1]⟩
    intro x hx; simp only [Iter.step] at hx; rw [h2] at hx; exact (List.dropLast_sublist _).subset hx
  | nth n =>
    obtain ⟨h1, h2, h3⟩ := Iter.nth_spec cKernel it h.1 n
    refine ⟨sub _ h3 ?_, ?_, ?_⟩
    · intro x hx; simp only [Iter.step] at hx; rw [h2] at hx; exact List.mem_of_mem_drop hx
    · simp only [Iter.step, Cursor.step, Cursor.nth, Cursor.next, h2, List.tail_drop]
    · simp only [Iter.step, Cursor.step, Cursor.nth, Cursor.next, h1, List.head?_drop]
  | nthBack n =>
    obtain ⟨h1, h2, h3⟩ := Iter.nthBack_spec cKernel it h.1 n
    refine ⟨sub _ h3 ?_, ?_, ?_⟩
    · intro x hx; simp only [Iter.step] at hx; rw [h2] at hx
      exact List.mem_of_mem_take ((List.dropLast_sublist _).subset hx)
    · simp only [Iter.step, Cursor.step, Cursor.nthBack, Cursor.nextBack, h2, Iter.backDrop]
    · simp only [Iter.step, Cursor.step, Cursor.nthBack, Cursor.nextBack, h1, Iter.backGet]
  | advanceTo v =>
    obtain ⟨h1, h2⟩ := Iter.advanceTo_spec cKernel it h.1 v
    refine ⟨sub _ h2 ?_, h1, rfl⟩
    intro x hx; simp only [Iter.step] at hx; rw [h1] at hx; exact (List.mem_filter.mp hx).1
  | advanceBackTo v =>
    obtain ⟨h1, h2⟩ := Iter.advanceBackTo_spec cKernel it h.1 v
    refine ⟨sub _ h2 ?_, h1, rfl⟩
    intro x hx; simp only [Iter.step] at hx; rw [h1] at hx; exact (List.mem_filter.mp hx).1
  | sizeHint =>
    refine ⟨h, rfl, ?_⟩
    simp only [Iter.step, Cursor.step, Cursor.sizeHint, Iter.sizeHint_spec cKernel it h.1 (C03_len_bound it h)]
  | count =>
    refine ⟨h, rfl, ?_⟩
    simp only [Iter.step, Cursor.step, Cursor.count, Iter.count_spec cKernel it h.1]
  | fold =>
    refine ⟨h, rfl, ?_⟩
    simp only [Iter.step, Cursor.step, Iter.fold_spec cKernel it h.1, foldl_snoc, List.nil_append]
  | rfold =>
    refine ⟨h, rfl, ?_⟩
    simp only [Iter.step, Cursor.step, Iter.rfold_spec cKernel it h.1, foldl_snoc, List.nil_append]

/-- **history.** Any finite interleaving of calls, from any well-formed state, is the specification's run on
    the remaining elements (induction over the call list). -/
theorem C03_history (ops : List ItOp) : ∀ (it : Iter), IterWF it →
    IterWF (Iter.run it ops).1 ∧
    (Iter.run it ops).1.rem = (Cursor.run it.rem ops).1 ∧
    (Iter.run it ops).2 = (Cursor.run it.rem ops).2 := by
  induction ops with
  | nil => intro it h; exact ⟨h, rfl, rfl⟩
  | cons op ops ih =>
    intro it h
    obtain ⟨s1, s2, s3⟩ := C03_step it h op
    obtain ⟨i1, i2, i3⟩ := ih _ s1
    simp only [Iter.run, Cursor.run]
    rw [← s2, ← s3]
    exact ⟨i1, i2, by rw [i3]⟩

/-- histories from `iter()` / `into_iter()`: the cursor starts on exactly the elements of the bitmap -/
theorem C03_history_iter (b : Bitmap) (h : BitmapOK b) (ops : List ItOp) :
    (Iter.run (Bitmap.iter b) ops).2 = (Cursor.run (Bitmap.elems b) ops).2 := by
  obtain ⟨h1, h2⟩ := C03_init b h
  rw [← h2]; exact (C03_history ops _ h1).2.2

/-- `C03_history_iter` for every well-formed value -/
theorem C03_history_iter_WF (b : Bitmap) (h : b.WF) (ops : List ItOp) :
    (Iter.run (Bitmap.iter b) ops).2 = (Cursor.run (Bitmap.elems b) ops).2 :=
  C03_history_iter b (C03_BitmapOK_of_WF b h) ops

/-- `fold` / `rfold` for *every* closure and initial value (the step theorem observes them through the
    recording closure) -/
theorem C03_fold_any {β : Type} (it : Iter) (h : IterWF it) (init : β) (f : β → Nat → β) :
    it.fold init f = Cursor.fold it.rem init f ∧ it.rfold init f = Cursor.rfold it.rem init f :=
  ⟨Iter.fold_spec cKernel it h.1 init f, Iter.rfold_spec cKernel it h.1 init f⟩

/-- `ExactSizeIterator::len()` never trips its assertion and is exact -/
theorem C03_len (it : Iter) (h : IterWF it) : it.len? = some it.rem.length :=
  Iter.len?_spec cKernel it h.1 (C03_len_bound it h)

/-- **ascending.** The remaining elements are strictly ascending, so `next` yields ascending and
    `next_back` descending values, each element once across both ends (they pop the two ends of one list). -/
theorem C03_ascending (it : Iter) (h : IterWF it) : it.rem.Pairwise (· < ·) :=
  Iter.rem_sorted cKernel it h.1

/-- **front drain.** `k` calls of `next` on `iter()` yield the `k` smallest elements in ascending order and
    `None` from then on; what remains is the rest of the element list. -/
theorem C03_drain_front (b : Bitmap) (h : BitmapOK b) (k : Nat) :
    (Iter.run (Bitmap.iter b) (List.replicate k .next)).2 =
      (List.range k).map (fun i => ItOut.item (Bitmap.elems b)[i]?) ∧
    (Iter.run (Bitmap.iter b) (List.replicate k .next)).1.rem = (Bitmap.elems b).drop k := by
  obtain ⟨h1, h2⟩ := C03_init b h
  obtain ⟨_, r1, r2⟩ := C03_history (List.replicate k .next) _ h1
  rw [h2, Cursor.run_next] at r1 r2
  exact ⟨r2, r1⟩

/-- **back drain.** `k` calls of `next_back` on `iter()` yield the `k` largest elements in descending order
    (and `None` from then on); what remains is the front part of the element list — so an element taken from
    one end is never seen from the other. -/
theorem C03_drain_back (b : Bitmap) (h : BitmapOK b) (k : Nat) :
    (Iter.run (Bitmap.iter b) (List.replicate k .nextBack)).2 =
      (List.range k).map (fun i => ItOut.item (Bitmap.elems b).reverse[i]?) ∧
    (Iter.run (Bitmap.iter b) (List.replicate k .nextBack)).1.rem =
      (Bitmap.elems b).take ((Bitmap.elems b).length - k) := by
  obtain ⟨h1, h2⟩ := C03_init b h
  obtain ⟨_, r1, r2⟩ := C03_history (List.replicate k .nextBack) _ h1
  rw [h2, Cursor.run_nextBack] at r1 r2
  exact ⟨r2, r1⟩

/-- **fused.** Once exhausted, every call keeps the cursor exhausted and yields `None` / `(0, Some(0))` / 0. -/
theorem C03_fused (it : Iter) (h : IterWF it) (he : it.rem = []) (op : ItOp) :
    (Iter.step it op).1.rem = [] ∧
    (Iter.step it op).2 = (Cursor.step [] op).2 := by
  obtain ⟨_, s2, s3⟩ := C03_step it h op
  rw [he] at s2 s3
  refine ⟨?_, s3⟩
  rw [s2]
  cases op <;> simp [Cursor.step, Cursor.next, Cursor.nextBack, Cursor.nth, Cursor.nthBack, Cursor.advanceTo,
    Cursor.advanceBackTo]

/-! ### non-vacuity: a two-chunk bitmap with one array and one bitset chunk meets the hypotheses -/

/-- chunk 0: the array `{1, 5, 65535}`; chunk 1: the full bitset chunk -/
def exB : Bitmap := [⟨0, .array [1, 5, 65535]⟩, ⟨1, .bitmap BStore.full⟩]

private theorem popSum_replicate (w : Nat) : ∀ n, BStore.popSum (List.replicate n w) = n * popcount w := by
  intro n
  induction n with
  | zero => simp [BIter.popSum_nil]
  | succ n ih => rw [List.replicate_succ, BIter.popSum_cons, ih, Nat.succ_mul]; omega

private theorem exB_ok : BitmapOK exB := by
  refine ⟨⟨by decide, ?_⟩, by decide⟩
  intro c hc
  simp only [exB, List.mem_cons, List.not_mem_nil, or_false] at hc
  rcases hc with rfl | rfl
  · exact ⟨by decide, by decide⟩
  · refine ⟨List.length_replicate, ?_, ?_⟩
    · intro w hw
      simp only [BStore.full, List.mem_replicate] at hw
      rw [hw.2]; decide
    · show 65536 = BStore.popSum (List.replicate 1024 wMax)
      rw [popSum_replicate, popcount_eq_length_bitPos wMax (by decide)]
      decide

example : IterWF (Bitmap.iter exB) := (C03_init exB exB_ok).1
/-- the same value is well-formed in the shared sense (`Bitmap.WF`), so the `_WF` corollaries are not vacuous -/
private theorem exB_wf : exB.WF := by
  refine ⟨by decide, ?_⟩
  intro c hc
  simp only [exB, List.mem_cons, List.not_mem_nil, or_false] at hc
  rcases hc with rfl | rfl
  · exact ⟨by decide, ⟨by simp [Sorted], by decide⟩, by decide, by decide⟩
  · refine ⟨by decide, ⟨List.length_replicate, ?_, ?_⟩, by decide⟩
    · intro w hw
      simp only [BStore.full, List.mem_replicate] at hw
      rw [hw.2]; decide
    · show 65536 = BStore.popSum (List.replicate 1024 wMax)
      rw [popSum_replicate, popcount_eq_length_bitPos wMax (by decide)]
      decide

example : IterWF (Bitmap.iter exB) := (C03_init_WF exB exB_wf).1
example : ∃ it, IterWF it ∧ it.rem ≠ [] := by
  refine ⟨Bitmap.iter exB, (C03_init exB exB_ok).1, ?_⟩
  rw [(C03_init exB exB_ok).2]
  simp [exB, Bitmap.elems, Container.elems, Store.elems]
example : BoundU32 (.incl 5) ∧ BoundU32 (.excl 70000) :=
  ⟨by show 5 ≤ u32Max; decide, by show 70000 ≤ u32Max; decide⟩
example : ∃ it, IterWF it ∧ it.rem = [] := ⟨Bitmap.iter [], (C03_init [] ⟨⟨by decide, by simp⟩, by simp⟩).1, rfl⟩

end Roaring.C03
