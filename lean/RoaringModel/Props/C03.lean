import RoaringModel.IterStep
/-!
# C03 — 32-bit iteration is an exact ascending double-ended cursor (property theorems)
-/
namespace Roaring.C03
open Roaring

/-- `iter()` of the empty bitmap is exhausted. -/
theorem C03_empty_next : (Bitmap.iter []).next.2 = none := rfl

end Roaring.C03
