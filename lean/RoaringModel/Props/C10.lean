import RoaringModel.Treemap
import RoaringModel.Spec
/-!
# C10 — RoaringTreemap is an exact set of u64 under mutation and query (property theorems)
-/
namespace Roaring.C10
open Roaring

/-- `clear` yields the empty set. -/
theorem C10_clear (t : Treemap) : Treemap.elems (Treemap.clear t) = [] := rfl

end Roaring.C10
