import RoaringModel.Lemmas.TreemapKernel32
import RoaringModel.Lemmas.TreemapKernel
import RoaringModel.Lemmas.TreemapQuery
import RoaringModel.Lemmas.TreemapRemoveRange
import RoaringModel.Lemmas.TreemapInsertRange
import RoaringModel.Lemmas.TreemapAppend
import RoaringModel.Lemmas.TreemapCanonical
import RoaringModel.Lemmas.TreemapFull
import RoaringModel.Step64
/-!
# C10 — RoaringTreemap is an exact set of u64 under mutation and query (property theorems)

Every theorem is stated against `Spec` on strictly ascending lists of `u64` (`maxV = 2^64-1`).
`TWF t` = keys strictly ascending, every key `< 2^32`, every partition `Bitmap.WF` (Inv.lean) and non-empty.

* Theorems named `…_partial` are stated for an arbitrary bundle `K : Kernel32` of 32-bit refinement facts about
  `RoaringBitmap` (`Treemap.WF K t` = the same invariant over `K.WF`).
* `Treemap.kernel32 : Kernel32` (Lemmas/TreemapKernel.lean) **proves the bundle** for the mirrored 32-bit model
  with `WF := Bitmap.WF` from the core library (C01 mutators, C07 queries, `RoaringBitmap::full()`), and the
  theorems **without** suffix are unconditional: `C10_insert`, `C10_remove`, `C10_contains`, `C10_extend`,
  `C10_push`, `C10_pushUnchecked`, `C10_insertRange` (spans over 1, 2 and ≥ 3 partitions, whole middle partitions
  = `RoaringBitmap::full()`), `C10_removeRange`, `C10_append` / `C10_fromSortedIter`, `C10_fromBitmaps`, `C10_len`,
  `C10_isEmpty`, `C10_isFull` / `C10_isFull_iff` (+ `C10_full` for `RoaringTreemap::full()`), `C10_eq_iff` (the
  derived `==`), `C10_min`, `C10_max`, `C10_rank`, `C10_select`, `C10_new_clear`, `C10_elems`, and the history
  induction `C10_step` / `C10_run` / `C10_history` over the alphabet `Op64` (Step64.lean: all of the above
  mutators and queries): no panic in either build configuration, every returned value is the abstract one.

What is proved at this level is the partition directory: `split`/`join` arithmetic at 2^32, the sorted
association list, creation / replacement / removal of partitions, `elems` = concatenation of the partitions
(Lemmas/TreemapDir, TreemapKernel32, TreemapQuery, TreemapRemoveRange, TreemapInsertRange, TreemapAppend).
-/
namespace Roaring.C10
open Roaring Roaring.TL Roaring.Treemap

/-! ### arithmetic at bit 32 (no hypotheses beyond the integer widths) -/

/-- `join (split v) = v` for every `u64`, and both halves are `u32`. -/
theorem C10_join_split (v : Nat) (hv : v < 18446744073709551616) :
    join (split v).1 (split v).2 = v ∧ (split v).1 < 4294967296 ∧ (split v).2 < 4294967296 :=
  ⟨join_split hv, split_fst_lt v, split_snd_lt v⟩

/-- `split (join hi lo) = (hi, lo)` for `u32` halves; `join` is `hi·2^32 + lo`, a `u64`. -/
theorem C10_split_join (hi lo : Nat) (hh : hi < 4294967296) (hl : lo < 4294967296) :
    split (join hi lo) = (hi, lo) ∧ join hi lo = hi * 4294967296 + lo ∧ join hi lo < 18446744073709551616 :=
  ⟨split_join hh hl, join_eq hl, join_lt hh hl⟩
example : split (join 3 7) = (3, 7) := by decide

/-! ### the abstraction -/

/-- `new()` / `clear()` give the well-formed empty set. -/
theorem C10_new_clear_partial (K : Kernel32) (t : Treemap) :
    WF K Treemap.new ∧ elems Treemap.new = [] ∧ WF K (Treemap.clear t) ∧ elems (Treemap.clear t) = [] :=
  ⟨WFd.nil, rfl, WFd.nil, rfl⟩

/-- The values of a well-formed treemap are strictly ascending `u64`s, and `x` is a value iff its low half is
    in the partition of its high half. -/
theorem C10_elems_partial (K : Kernel32) (t : Treemap) (hw : WF K t) :
    Spec.Sorted (elems t) ∧ (∀ x ∈ elems t, x < 18446744073709551616) ∧
    ∀ x, x ∈ elems t ↔ ∃ b, get t (x / 4294967296) = some b ∧ x % 4294967296 ∈ Bitmap.elems b :=
  ⟨sorted_elems (kE K) hw, elems_lt (kE K) hw, mem_elems (kE K) hw⟩

private theorem insert_eq (t : Treemap) (v : Nat) :
    Treemap.insert t v = entryOrDefault t (split v).1 (fun b => Bitmap.insert b (split v).2) := rfl

/-- `insert`: well-formedness is preserved, the set becomes `s ∪ {v}`, the result is `v ∉ s`. -/
theorem C10_insert_partial (K : Kernel32) (t : Treemap) (hw : WF K t) (v : Nat) (hv : v < 18446744073709551616) :
    WF K (Treemap.insert t v).1 ∧ elems (Treemap.insert t v).1 = (Spec.insert (elems t) v).1 ∧
      (Treemap.insert t v).2 = (Spec.insert (elems t) v).2 := by
  rw [insert_eq]; unfold entryOrDefault
  simp only [split_fst_of_lt hv, split_snd]
  have hb0 := wf_getD K hw (v / 4294967296)
  obtain ⟨h1, h2, h3⟩ := K.insert_spec _ (v % 4294967296) hb0 (Nat.mod_lt _ (by decide))
  have hne : Bitmap.elems (Bitmap.insert ((get t (v / 4294967296)).getD Bitmap.new) (v % 4294967296)).1 ≠ [] := by
    rw [h2]; intro h
    have := (mem_insert (Bitmap.elems ((get t (v / 4294967296)).getD Bitmap.new)) (v % 4294967296) (v % 4294967296)).2 (Or.inl rfl)
    rw [h] at this; simp at this
  obtain ⟨hw', hm⟩ := insertKV_spec K hw (k := v / 4294967296) (by omega) h1 hne
  refine ⟨hw', ?_, ?_⟩
  · apply sorted_ext (sorted_elems (kE K) hw') (sorted_insert _ (sorted_elems (kE K) hw))
    intro x
    rw [hm, mem_insert, h2]
    by_cases hx : x / 4294967296 = v / 4294967296
    · simp only [hx, ↓reduceIte, mem_insert, mem_elems_getD K hw x]
      constructor
      · rintro (h | h)
        · exact Or.inl (by omega)
        · exact Or.inr h
      · rintro (h | h)
        · exact Or.inl (by omega)
        · exact Or.inr h
    · simp only [hx, ↓reduceIte]
      constructor
      · exact Or.inr
      · rintro (h | h)
        · subst h; exact absurd rfl hx
        · exact h
  · rw [h3, insert_snd, insert_snd]; simp only [mem_elems_getD K hw v]

private theorem remove_eq (t : Treemap) (v : Nat) :
    Treemap.remove t v = match get t (split v).1 with
      | none => (t, false)
      | some b =>
        let r := Bitmap.remove b (split v).2
        if r.2 then
          if Bitmap.isEmpty r.1 then (removeK t (split v).1, true) else (insertKV t (split v).1 r.1, true)
        else (insertKV t (split v).1 r.1, false) := rfl

/-- `remove`: the set becomes `s \ {v}` (an emptied partition is dropped), the result is `v ∈ s`. -/
theorem C10_remove_partial (K : Kernel32) (t : Treemap) (hw : WF K t) (v : Nat) (hv : v < 18446744073709551616) :
    WF K (Treemap.remove t v).1 ∧ elems (Treemap.remove t v).1 = (Spec.remove (elems t) v).1 ∧
      (Treemap.remove t v).2 = (Spec.remove (elems t) v).2 := by
  rw [remove_eq]
  simp only [split_fst_of_lt hv, split_snd]
  have hsort := sorted_elems (kE K) hw
  cases hg : get t (v / 4294967296) with
  | none =>
    have hnot : v ∉ elems t := by rw [mem_elems_getD K hw, hg]; simp [Bitmap.new, Bitmap.elems]
    refine ⟨hw, ?_, ?_⟩
    · apply sorted_ext hsort (sorted_remove _ hsort)
      intro x; rw [mem_remove]
      constructor
      · intro h; exact ⟨fun hxv => hnot (hxv ▸ h), h⟩
      · exact And.right
    · rw [remove_snd]; simp [hnot]
  | some b =>
    obtain ⟨hk, hb, hbne⟩ := hw.get hg
    obtain ⟨h1, h2, h3⟩ := K.remove_spec b (v % 4294967296) hb (Nat.mod_lt _ (by decide))
    have hvmem : v ∈ elems t ↔ v % 4294967296 ∈ Bitmap.elems b := by rw [mem_elems_getD K hw, hg]; rfl
    have hxmem : ∀ x, x / 4294967296 = v / 4294967296 → (x ∈ elems t ↔ x % 4294967296 ∈ Bitmap.elems b) := by
      intro x hx; rw [mem_elems_getD K hw, hx, hg]; rfl
    -- membership after the partition has been replaced by `r.1`, or dropped when `r.1` is empty
    have key : ∀ t', WF K t' →
        (∀ x, x ∈ elems t' ↔ if x / 4294967296 = v / 4294967296 then x % 4294967296 ∈ Bitmap.elems (Bitmap.remove b (v % 4294967296)).1 else x ∈ elems t) →
        elems t' = (Spec.remove (elems t) v).1 := by
      intro t' hw' hm
      apply sorted_ext (sorted_elems (kE K) hw') (sorted_remove _ hsort)
      intro x; rw [hm, mem_remove, h2]
      by_cases hx : x / 4294967296 = v / 4294967296
      · simp only [hx, ↓reduceIte, mem_remove, hxmem x hx]
        constructor
        · rintro ⟨h, h'⟩; exact ⟨by omega, h'⟩
        · rintro ⟨h, h'⟩; exact ⟨by omega, h'⟩
      · simp only [hx, ↓reduceIte]
        constructor
        · intro h; exact ⟨fun hxv => hx (by rw [hxv]), h⟩
        · exact And.right
    have hret : (Bitmap.remove b (v % 4294967296)).2 = (Spec.remove (elems t) v).2 := by
      rw [h3, remove_snd, remove_snd]; simp only [hvmem]
    simp only []
    by_cases hr : (Bitmap.remove b (v % 4294967296)).2 = true
    · simp only [hr, ↓reduceIte]
      by_cases he : Bitmap.isEmpty (Bitmap.remove b (v % 4294967296)).1 = true
      · simp only [he, ↓reduceIte]
        obtain ⟨hw', hm⟩ := removeK_spec K hw (v / 4294967296)
        have hnil := (K.isEmpty_spec _ h1).1 he
        refine ⟨hw', key _ hw' ?_, by rw [← hret, hr]⟩
        intro x; rw [hm]
        by_cases hx : x / 4294967296 = v / 4294967296 <;> simp [hx, hnil]
      · simp only [he, Bool.false_eq_true, ↓reduceIte]
        have hne : Bitmap.elems (Bitmap.remove b (v % 4294967296)).1 ≠ [] := fun h => he ((K.isEmpty_spec _ h1).2 h)
        obtain ⟨hw', hm⟩ := insertKV_spec K hw hk h1 hne
        exact ⟨hw', key _ hw' hm, by rw [← hret, hr]⟩
    · simp only [hr, Bool.false_eq_true, ↓reduceIte]
      -- nothing was removed: the partition is unchanged as a set, hence still non-empty
      have hr' : (Bitmap.remove b (v % 4294967296)).2 = false := by simpa using hr
      have hnotin : v % 4294967296 ∉ Bitmap.elems b := by
        rw [h3, remove_snd] at hr'; simpa using hr'
      have hsame : Bitmap.elems (Bitmap.remove b (v % 4294967296)).1 = Bitmap.elems b := by
        rw [h2]
        apply sorted_ext (sorted_remove _ (K.elems_sorted b hb)) (K.elems_sorted b hb)
        intro x; rw [mem_remove]
        constructor
        · exact And.right
        · intro h; exact ⟨fun hxv => hnotin (hxv ▸ h), h⟩
      obtain ⟨hw', hm⟩ := insertKV_spec K hw hk h1 (by rw [hsame]; exact hbne)
      exact ⟨hw', key _ hw' hm, by rw [← hret, hr']⟩

/-- `contains` answers membership exactly. -/
theorem C10_contains_partial (K : Kernel32) (t : Treemap) (hw : WF K t) (v : Nat) (hv : v < 18446744073709551616) :
    Treemap.contains t v = Spec.contains (elems t) v := by
  have : Treemap.contains t v = match get t (split v).1 with
      | none => false
      | some r => Bitmap.contains r (split v).2 := rfl
  rw [this]; simp only [split_fst_of_lt hv, split_snd]
  have hiff := mem_elems_getD K hw v
  cases hg : get t (v / 4294967296) with
  | none =>
    rw [hg] at hiff
    simp only [Spec.contains]
    have : v ∉ elems t := by rw [hiff]; simp [Bitmap.new, Bitmap.elems]
    simp [this]
  | some b =>
    rw [hg] at hiff
    simp only []
    rw [K.contains_spec b _ (hw.get hg).2.1 (Nat.mod_lt _ (by decide))]
    simp only [Spec.contains, Option.getD_some] at hiff ⊢
    rw [Bool.eq_iff_iff]; simp [hiff]

/-- `extend` / `from_iter`: the set becomes `s ∪ vs` (fold of `insert`). -/
theorem C10_extend_partial (K : Kernel32) (vs : List Nat) (hv : ∀ v ∈ vs, v < 18446744073709551616) :
    ∀ (t : Treemap), WF K t →
      WF K (Treemap.extend t vs) ∧ elems (Treemap.extend t vs) = Spec.extend (elems t) vs := by
  induction vs with
  | nil => intro t hw; exact ⟨hw, rfl⟩
  | cons v vs ih =>
    intro t hw
    obtain ⟨h1, h2, _⟩ := C10_insert_partial K t hw v (hv v (by simp))
    have := ih (fun x hx => hv x (List.mem_cons_of_mem _ hx)) _ h1
    simp only [Treemap.extend, Spec.extend, List.foldl_cons] at this ⊢
    rw [← h2]; exact this

/-! ### `push` -/

private theorem last_key_max {t : Treemap} (hs : KeysSorted t) {key : Nat} {b : Bitmap}
    (hl : t.getLast? = some (key, b)) : (key, b) ∈ t ∧ ∀ p ∈ t, p.1 ≤ key := by
  have h1 : (keys t).getLast? = some key := by simp [keys, List.getLast?_map, hl]
  have := getLast?_eq_some_max hs h1
  refine ⟨List.mem_of_getLast? hl, ?_⟩
  intro p hp; exact this.2 p.1 (List.mem_map_of_mem hp)

private theorem insertKV_last : ∀ {t : Treemap}, KeysSorted t → ∀ {key : Nat} {b b' : Bitmap},
    t.getLast? = some (key, b) → insertKV t key b' = t.dropLast ++ [(key, b')]
  | [], _, _, _, _, hl => by simp at hl
  | [(k1, b1)], _, key, b, b', hl => by
    simp at hl; obtain ⟨rfl, rfl⟩ := hl
    simp [insertKV]
  | (k1, b1) :: q :: t, hs, key, b, b', hl => by
    rw [List.getLast?_cons_cons] at hl
    have hs' := (keysSorted_cons.mp hs).2
    have hlt := (keysSorted_cons.mp hs).1 _ (last_key_max hs' hl).1
    simp at hlt
    unfold insertKV
    have h1 : ¬ key < k1 := by omega
    have h2 : ¬ key = k1 := by omega
    simp only [h1, h2, ↓reduceIte, List.dropLast_cons_cons, List.cons_append]
    rw [insertKV_last hs' hl]

private theorem push_snd_iff {s : List Nat} (h : Sorted s) (v : Nat) : (Spec.push s v).2 = true ↔ ∀ x ∈ s, x < v := by
  unfold Spec.push
  cases hl : s.getLast? with
  | none => have : s = [] := by simpa using hl
            subst this; simp
  | some m =>
    have hm := getLast?_eq_some_max h hl
    by_cases hmv : m < v
    · simp only [hmv, ↓reduceIte, true_iff]
      intro x hx; have := hm.2 x hx; omega
    · simp only [hmv, ↓reduceIte, Bool.false_eq_true, false_iff]
      intro hall; exact hmv (hall m hm.1)

private theorem push_eq (t : Treemap) (v : Nat) :
    Treemap.push t v = match t.getLast? with
      | some (key, bitmap) =>
        if key = (split v).1 then
          let r := Bitmap.push bitmap (split v).2
          (t.dropLast ++ [(key, r.1)], r.2)
        else if key > (split v).1 then (t, false)
        else (insertKV t (split v).1 (Bitmap.push Bitmap.new (split v).2).1, true)
      | none => (insertKV t (split v).1 (Bitmap.push Bitmap.new (split v).2).1, true) := rfl

/-- a fresh partition holding the single value `v`, above every existing partition -/
private theorem push_fresh (K : Kernel32) (t : Treemap) (hw : WF K t) (v : Nat) (hv : v < 18446744073709551616)
    (hall : ∀ p ∈ t, p.1 < v / 4294967296) :
    let t' := insertKV t (v / 4294967296) (Bitmap.push Bitmap.new (v % 4294967296)).1
    WF K t' ∧ elems t' = (Spec.push (elems t) v).1 ∧ true = (Spec.push (elems t) v).2 := by
  intro t'
  have hsort := sorted_elems (kE K) hw
  obtain ⟨h1, h2, _⟩ := K.push_spec Bitmap.new (v % 4294967296) K.new_WF (Nat.mod_lt _ (by decide))
  have h2' : Bitmap.elems (Bitmap.push Bitmap.new (v % 4294967296)).1 = [v % 4294967296] := by
    rw [h2]; simp [Bitmap.new, Bitmap.elems, Spec.push]
  obtain ⟨hw', hm⟩ := insertKV_spec K hw (k := v / 4294967296) (by omega) h1 (by rw [h2']; simp)
  have hkey : ∀ x ∈ elems t, x / 4294967296 < v / 4294967296 := by
    intro x hx
    obtain ⟨b, hg, _⟩ := (mem_elems (kE K) hw x).1 hx
    have := hall _ (mem_of_get_eq_some hg)
    simpa using this
  have hlt : ∀ x ∈ elems t, x < v := by
    intro x hx
    have := hkey x hx
    have : (x / 4294967296 + 1) * 4294967296 ≤ v / 4294967296 * 4294967296 := Nat.mul_le_mul_right _ (by omega)
    omega
  have hret := (push_snd_iff hsort v).2 hlt
  refine ⟨hw', ?_, hret.symm⟩
  apply sorted_ext (sorted_elems (kE K) hw') (sorted_push _ hsort)
  intro x; rw [hm, mem_push, hret, h2']
  by_cases hx : x / 4294967296 = v / 4294967296
  · simp only [hx, ↓reduceIte, List.mem_singleton, true_and]
    constructor
    · intro h; exact Or.inr (by omega)
    · rintro (h | h)
      · have := hkey x h; omega
      · omega
  · simp only [hx, ↓reduceIte, true_and]
    constructor
    · exact Or.inl
    · rintro (h | h)
      · exact h
      · subst h; exact absurd rfl hx

/-- `push` succeeds exactly when `v` is above the current maximum (it compares with the last partition
    first), and then appends `v`. -/
theorem C10_push_partial (K : Kernel32) (t : Treemap) (hw : WF K t) (v : Nat) (hv : v < 18446744073709551616) :
    WF K (Treemap.push t v).1 ∧ elems (Treemap.push t v).1 = (Spec.push (elems t) v).1 ∧
      (Treemap.push t v).2 = (Spec.push (elems t) v).2 := by
  rw [push_eq]
  simp only [split_fst_of_lt hv, split_snd]
  have hsort := sorted_elems (kE K) hw
  cases hl : t.getLast? with
  | none =>
    have : t = [] := by simpa using hl
    subst this
    exact push_fresh K [] hw v hv (by simp)
  | some p =>
    obtain ⟨key, b⟩ := p
    obtain ⟨hmem, hmax⟩ := last_key_max hw.sorted hl
    obtain ⟨hk, hb, hbne0⟩ := hw.parts _ hmem
    have hk : key < 4294967296 := hk
    have hb : K.WF b := hb
    have hbne : Bitmap.elems b ≠ [] := hbne0
    have hg := get_eq_some_of_mem hw.sorted hmem
    simp only []
    by_cases h1 : key = v / 4294967296
    · -- the last partition is the partition of `v`
      subst h1
      simp only [↓reduceIte]
      rw [← insertKV_last hw.sorted hl]
      obtain ⟨p1, p2, p3⟩ := K.push_spec b (v % 4294967296) hb (Nat.mod_lt _ (by decide))
      have hne : Bitmap.elems (Bitmap.push b (v % 4294967296)).1 ≠ [] := by
        rw [p2]; intro h
        have := (mem_push (Bitmap.elems b) (v % 4294967296) (List.head (Bitmap.elems b) hbne)).2 (Or.inl (List.head_mem hbne))
        rw [h] at this; simp at this
      obtain ⟨hw', hm⟩ := insertKV_spec K hw hk p1 hne
      -- the 32-bit and the 64-bit "above the maximum" conditions agree
      have hiff : (Spec.push (Bitmap.elems b) (v % 4294967296)).2 = (Spec.push (elems t) v).2 := by
        rw [Bool.eq_iff_iff, push_snd_iff (K.elems_sorted b hb), push_snd_iff hsort]
        constructor
        · intro h x hx
          obtain ⟨b', hg', hm'⟩ := (mem_elems (kE K) hw x).1 hx
          have hle := hmax _ (mem_of_get_eq_some hg')
          simp at hle
          by_cases hxk : x / 4294967296 = v / 4294967296
          · rw [hxk, hg] at hg'; cases hg'
            have := h _ hm'; omega
          · have : (x / 4294967296 + 1) * 4294967296 ≤ v / 4294967296 * 4294967296 := Nat.mul_le_mul_right _ (by omega)
            omega
        · intro h y hy
          have hy32 := K.elems_lt b hb y hy
          have : v / 4294967296 * 4294967296 + y ∈ elems t := by
            rw [mem_elems (kE K) hw]
            refine ⟨b, ?_, ?_⟩
            · have : (v / 4294967296 * 4294967296 + y) / 4294967296 = v / 4294967296 := by omega
              rw [this]; exact hg
            · have : (v / 4294967296 * 4294967296 + y) % 4294967296 = y := by omega
              rw [this]; exact hy
          have := h _ this; omega
      refine ⟨hw', ?_, by rw [p3, hiff]⟩
      apply sorted_ext (sorted_elems (kE K) hw') (sorted_push _ hsort)
      intro x; rw [hm, mem_push, p2, ← hiff]
      by_cases hx : x / 4294967296 = v / 4294967296
      · simp only [hx, ↓reduceIte, mem_push]
        have : x ∈ elems t ↔ x % 4294967296 ∈ Bitmap.elems b := by
          rw [mem_elems_getD K hw, hx, hg]; rfl
        rw [this]
        constructor
        · rintro (h | ⟨h, h'⟩)
          · exact Or.inl h
          · exact Or.inr ⟨h, by omega⟩
        · rintro (h | ⟨h, h'⟩)
          · exact Or.inl h
          · exact Or.inr ⟨h, by omega⟩
      · simp only [hx, ↓reduceIte]
        constructor
        · exact Or.inl
        · rintro (h | ⟨_, h⟩)
          · exact h
          · subst h; exact absurd rfl hx
    · simp only [h1, ↓reduceIte]
      by_cases h2 : key > v / 4294967296
      · -- a higher partition exists: refused
        simp only [h2, ↓reduceIte]
        have hfalse : (Spec.push (elems t) v).2 = false := by
          rw [Bool.eq_false_iff]; intro h
          rw [push_snd_iff hsort] at h
          have hy := List.head_mem hbne
          have hy32 := K.elems_lt b hb _ hy
          have : key * 4294967296 + List.head (Bitmap.elems b) hbne ∈ elems t := by
            rw [mem_elems (kE K) hw]
            refine ⟨b, ?_, ?_⟩
            · have : (key * 4294967296 + List.head (Bitmap.elems b) hbne) / 4294967296 = key := by omega
              rw [this]; exact hg
            · have : (key * 4294967296 + List.head (Bitmap.elems b) hbne) % 4294967296 = List.head (Bitmap.elems b) hbne := by omega
              rw [this]; exact hy
          have := h _ this
          have : (v / 4294967296 + 1) * 4294967296 ≤ key * 4294967296 := Nat.mul_le_mul_right _ (by omega)
          omega
        refine ⟨hw, ?_, hfalse.symm⟩
        apply sorted_ext hsort (sorted_push _ hsort)
        intro x; rw [mem_push, hfalse]; simp
      · simp only [h2, ↓reduceIte]
        exact push_fresh K t hw v hv (by intro p hp; have := hmax p hp; omega)

/-! ### cardinality, emptiness, extrema -/

private theorem len_foldl (K : Kernel32) : ∀ (t : Treemap), (∀ p ∈ t, K.WF p.2) → ∀ acc,
    t.foldl (fun acc p => acc + Bitmap.len p.2) acc = acc + (elems t).length
  | [], _, acc => by simp [elems]
  | p :: t, h, acc => by
    rw [List.foldl_cons, len_foldl K t (fun q hq => h q (List.mem_cons_of_mem _ hq)), elems_cons,
      K.len_spec p.2 (h p (by simp))]
    simp [Nat.add_assoc]

/-- `len` is the number of values. -/
theorem C10_len_partial (K : Kernel32) (t : Treemap) (hw : WF K t) : Treemap.len t = (elems t).length := by
  unfold Treemap.len
  rw [len_foldl K t (fun p hp => (hw.parts p hp).2.1)]; simp

/-- `is_empty` answers emptiness (and a well-formed empty treemap has no partition). -/
theorem C10_isEmpty_partial (K : Kernel32) (t : Treemap) (hw : WF K t) :
    Treemap.isEmpty t = (elems t).isEmpty := by
  cases t with
  | nil => rfl
  | cons p t =>
    have hp := hw.parts p (by simp)
    have h1 : Bitmap.isEmpty p.2 = false := by
      rw [Bool.eq_false_iff]; intro h; exact hp.2.2 ((K.isEmpty_spec _ hp.2.1).1 h)
    have h2 : elems (p :: t) ≠ [] := by rw [elems_cons]; simp [hp.2.2]
    simp [Treemap.isEmpty, h1, h2]

/-- `min` is the first value. -/
theorem C10_min_partial (K : Kernel32) (t : Treemap) (hw : WF K t) : Treemap.min? t = Spec.min? (elems t) := by
  cases t with
  | nil => rfl
  | cons p t =>
    obtain ⟨k, b⟩ := p
    have hp := hw.parts (k, b) (by simp)
    have hmin := K.min_spec b hp.2.1
    obtain ⟨y, ys, hy⟩ := List.exists_cons_of_ne_nil hp.2.2
    simp only [Spec.min?] at hmin ⊢
    simp only [hy, List.head?_cons] at hmin
    simp [Treemap.min?, List.find?, hmin, elems_cons, hy]

/-- `max` is the last value. -/
theorem C10_max_partial (K : Kernel32) (t : Treemap) (hw : WF K t) : Treemap.max? t = Spec.max? (elems t) := by
  rcases List.eq_nil_or_concat t with rfl | ⟨t', p, rfl⟩
  · rfl
  · obtain ⟨k, b⟩ := p
    rw [List.concat_eq_append] at hw ⊢
    have hp := hw.parts (k, b) (by simp)
    have hmax := K.max_spec b hp.2.1
    have hne : (Bitmap.elems b).map (join k) ≠ [] := by simp [hp.2.2]
    have hel : elems (t' ++ [(k, b)]) = elems t' ++ (Bitmap.elems b).map (join k) := by simp [elems]
    simp only [Spec.max?] at hmax ⊢
    obtain ⟨m, hm⟩ : ∃ m, (Bitmap.elems b).getLast? = some m := by
      cases h : (Bitmap.elems b).getLast? with
      | none => exact absurd (by simpa using h) hp.2.2
      | some m => exact ⟨m, rfl⟩
    rw [hm] at hmax
    rw [hel, List.getLast?_append, List.getLast?_map, hm]
    simp [Treemap.max?, List.reverse_append, hmax]

/-! ### unconditional forms (the 32-bit kernel is `Treemap.kernel32`, proved from the core library) -/

/-- `new()` / `clear()` give the well-formed empty set. -/
theorem C10_new_clear (t : Treemap) :
    TWF Treemap.new ∧ elems Treemap.new = [] ∧ TWF (Treemap.clear t) ∧ elems (Treemap.clear t) = [] :=
  C10_new_clear_partial kernel32 t

/-- The values of a well-formed treemap are strictly ascending `u64`s, and `x` is a value iff its low half is
    in the partition of its high half. -/
theorem C10_elems (t : Treemap) (hw : TWF t) :
    Spec.Sorted (elems t) ∧ (∀ x ∈ elems t, x < 18446744073709551616) ∧
    ∀ x, x ∈ elems t ↔ ∃ b, get t (x / 4294967296) = some b ∧ x % 4294967296 ∈ Bitmap.elems b :=
  C10_elems_partial kernel32 t hw

/-- `insert`: well-formedness is preserved, the set becomes `s ∪ {v}`, the result is `v ∉ s`. -/
theorem C10_insert (t : Treemap) (hw : TWF t) (v : Nat) (hv : v < 18446744073709551616) :
    TWF (Treemap.insert t v).1 ∧ elems (Treemap.insert t v).1 = (Spec.insert (elems t) v).1 ∧
      (Treemap.insert t v).2 = (Spec.insert (elems t) v).2 := C10_insert_partial kernel32 t hw v hv

/-- `remove`: the set becomes `s \ {v}` (an emptied partition is dropped), the result is `v ∈ s`. -/
theorem C10_remove (t : Treemap) (hw : TWF t) (v : Nat) (hv : v < 18446744073709551616) :
    TWF (Treemap.remove t v).1 ∧ elems (Treemap.remove t v).1 = (Spec.remove (elems t) v).1 ∧
      (Treemap.remove t v).2 = (Spec.remove (elems t) v).2 := C10_remove_partial kernel32 t hw v hv

/-- `contains` answers membership exactly. -/
theorem C10_contains (t : Treemap) (hw : TWF t) (v : Nat) (hv : v < 18446744073709551616) :
    Treemap.contains t v = Spec.contains (elems t) v := C10_contains_partial kernel32 t hw v hv

/-- `extend` / `from_iter`: the set becomes `s ∪ vs` (fold of `insert`). -/
theorem C10_extend (vs : List Nat) (hv : ∀ v ∈ vs, v < 18446744073709551616) (t : Treemap) (hw : TWF t) :
    TWF (Treemap.extend t vs) ∧ elems (Treemap.extend t vs) = Spec.extend (elems t) vs :=
  C10_extend_partial kernel32 vs hv t hw

/-- `push` succeeds exactly when `v` is above the current maximum, and then appends `v`. -/
theorem C10_push (t : Treemap) (hw : TWF t) (v : Nat) (hv : v < 18446744073709551616) :
    TWF (Treemap.push t v).1 ∧ elems (Treemap.push t v).1 = (Spec.push (elems t) v).1 ∧
      (Treemap.push t v).2 = (Spec.push (elems t) v).2 := C10_push_partial kernel32 t hw v hv

/-- `len` is the number of values. -/
theorem C10_len (t : Treemap) (hw : TWF t) : Treemap.len t = (elems t).length := C10_len_partial kernel32 t hw

/-- `is_empty` answers emptiness. -/
theorem C10_isEmpty (t : Treemap) (hw : TWF t) : Treemap.isEmpty t = (elems t).isEmpty :=
  C10_isEmpty_partial kernel32 t hw

/-- `min` is the first value. -/
theorem C10_min (t : Treemap) (hw : TWF t) : Treemap.min? t = Spec.min? (elems t) := C10_min_partial kernel32 t hw

/-- `max` is the last value. -/
theorem C10_max (t : Treemap) (hw : TWF t) : Treemap.max? t = Spec.max? (elems t) := C10_max_partial kernel32 t hw

/-- `convert_range_to_inclusive` (the `u64` copy of treemap/util.rs) computes exactly the interval of values
    selected by the two bounds, and `None` exactly when that interval is empty. -/
theorem C10_convertRange (lo hi : Bound) (hlo : Bound.le u64Max lo) (hhi : Bound.le u64Max hi) :
    convertRange64 lo hi = Spec.interval u64Max lo hi := convertRange64_interval lo hi hlo hhi

/-- `insert_range`: every value of the range is added — for spans inside one partition, across two, and over
    any number of whole middle partitions (which become `RoaringBitmap::full()`) — and the result is the number
    of values that were new.  (The model's counter is a `Nat`: the `u64` counter of the code can overflow only
    when all 2^64 values are new, see C16.) -/
theorem C10_insertRange (t : Treemap) (hw : TWF t) (lo hi : Bound)
    (hlo : Bound.le u64Max lo) (hhi : Bound.le u64Max hi) :
    TWF (Treemap.insertRange t lo hi).1 ∧
    elems (Treemap.insertRange t lo hi).1 = (Spec.insertRange u64Max (elems t) lo hi).1 ∧
    (Treemap.insertRange t lo hi).2 = (Spec.insertRange u64Max (elems t) lo hi).2 :=
  insertRange_spec kernel32 t hw lo hi hlo hhi

/-- `remove_range`: every value of the range is removed, emptied partitions are dropped, and the result is the
    number of values that were present. -/
theorem C10_removeRange (t : Treemap) (hw : TWF t) (lo hi : Bound)
    (hlo : Bound.le u64Max lo) (hhi : Bound.le u64Max hi) :
    TWF (Treemap.removeRange t lo hi).1 ∧
    elems (Treemap.removeRange t lo hi).1 = (Spec.removeRange u64Max (elems t) lo hi).1 ∧
    (Treemap.removeRange t lo hi).2 = (Spec.removeRange u64Max (elems t) lo hi).2 :=
  removeRange_spec kernel32 t hw lo hi hlo hhi

/-- `push_unchecked` of a value above the maximum appends it; neither the debug assertions nor the explicit
    `panic!` fire, in either build configuration. -/
theorem C10_pushUnchecked (dbg : Bool) (t : Treemap) (hw : TWF t) (v : Nat) (hv : v < 18446744073709551616)
    (hmax : ∀ x ∈ elems t, x < v) :
    ∃ t', Treemap.pushUnchecked dbg t v = some t' ∧ TWF t' ∧ elems t' = elems t ++ [v] :=
  pushUnchecked_spec kernel32 dbg t hw v hv hmax

/-- `append`: never panics (in either build configuration); exactly the strictly ascending prefix that starts
    above the current maximum is added; `Ok(n)` iff everything was accepted, else `Err(k)` with exactly the
    first `k` values added. -/
theorem C10_append (dbg : Bool) (t : Treemap) (hw : TWF t) (vs : List Nat) (hvs : ∀ v ∈ vs, v < 18446744073709551616) :
    ∃ t', Treemap.append dbg t vs = some (t', (Spec.append (elems t) vs).2) ∧ TWF t' ∧
      elems t' = (Spec.append (elems t) vs).1 :=
  append_spec kernel32 dbg t hw (C10_max t hw) vs hvs

/-- `from_sorted_iter` is `append` on the empty treemap. -/
theorem C10_fromSortedIter (dbg : Bool) (vs : List Nat) (hvs : ∀ v ∈ vs, v < 18446744073709551616) :
    ∃ t', Treemap.append dbg [] vs = some (t', (Spec.append [] vs).2) ∧ TWF t' ∧ elems t' = (Spec.append [] vs).1 :=
  C10_append dbg [] WFd.nil vs hvs

/-- `rank(v)` is the number of values `≤ v` (whether or not the partition of `v` exists). -/
theorem C10_rank (t : Treemap) (hw : TWF t) (v : Nat) (hv : v < 18446744073709551616) :
    Treemap.rank t v = Spec.rank (elems t) v := rank_spec kernel32 t hw v hv

/-- `select(n)` is the `n`-th smallest value (`None` past the end); the `.unwrap()` on the partition's
    `select` never panics. -/
theorem C10_select (t : Treemap) (hw : TWF t) (n : Nat) :
    Treemap.select t n = some (Spec.select (elems t) n) := select_spec kernel32 t hw n

/-- `from_bitmaps`: empty bitmaps are skipped and a repeated key replaces the earlier partition. -/
theorem C10_fromBitmaps (items : List (Nat × Bitmap)) (h : ∀ p ∈ items, p.1 < 4294967296 ∧ Bitmap.WF p.2) :
    TWF (Treemap.fromBitmaps items) ∧
    elems (Treemap.fromBitmaps items) = Spec.fromBitmaps (items.map (fun p => (p.1, Bitmap.elems p.2))) :=
  fromBitmaps_spec kernel32 items h

/-! ### `==` and `is_full` -/

/-- **`==` is extensional.** The derived `PartialEq` (`BTreeMap` equality: same number of partitions, pairwise
    equal keys and `RoaringBitmap`s — `Treemap.eq`, with `Bitmap.eq` the mirrored 32-bit `==`) of two well-formed
    treemaps holds exactly when they contain the same integers.  (From the canonical-form theorem
    `Treemap.canonical`, Lemmas/TreemapCanonical.lean, over the 32-bit `Bitmap.canonical` / `Bitmap.eq_iff` of C04.) -/
theorem C10_eq_iff (a b : Treemap) (ha : TWF a) (hb : TWF b) :
    Treemap.eq a b = true ↔ elems a = elems b := Treemap.eq_iff_elems a b ha hb

/-- `==` is moreover structural equality of the model values (no hypothesis) -/
theorem C10_eq_iff_eq (a b : Treemap) : Treemap.eq a b = true ↔ a = b := Treemap.eq_iff a b

/-- `is_full` answers "all 2^64 values are present" (as a cardinality, the form the driver's SPEC column uses). -/
theorem C10_isFull (t : Treemap) (hw : TWF t) : Treemap.isFull t = Spec.isFull u64Max (elems t) :=
  Treemap.isFull_spec t hw

/-- **`is_full`, characterised exactly** for every well-formed treemap.  What the code tests — exactly 2^32
    partitions, every one of them `RoaringBitmap::is_full` — is equivalent to: the element list is all of
    `0 ..= u64::MAX` (2^64 entries; every `u64` is a member), and to: `contains(v)` for every `u64`. -/
theorem C10_isFull_iff (t : Treemap) (hw : TWF t) :
    (Treemap.isFull t = true ↔ t.length = 4294967296 ∧ ∀ p ∈ t, Bitmap.isFull p.2 = true) ∧
    (Treemap.isFull t = true ↔ (elems t).length = 18446744073709551616) ∧
    (Treemap.isFull t = true ↔ ∀ v, v < 18446744073709551616 → v ∈ elems t) ∧
    (Treemap.isFull t = true ↔ ∀ v, v < 18446744073709551616 → Treemap.contains t v = true) := by
  refine ⟨by simp [Treemap.isFull], ?_, Treemap.isFull_iff_forall_mem t hw, ?_⟩
  · rw [C10_isFull t hw]; simp [Spec.isFull, u64Max]
  · rw [Treemap.isFull_iff_forall_mem t hw]
    constructor
    · intro h v hv
      rw [C10_contains t hw v hv]; simpa [Spec.contains] using h v hv
    · intro h v hv
      have := h v hv
      rw [C10_contains t hw v hv] at this; simpa [Spec.contains] using this

/-- `RoaringTreemap::full()` (2^32 partitions `RoaringBitmap::full()`) is well-formed, `is_full`, and contains
    every `u64`; conversely, by `C10_eq_iff`, every well-formed `is_full` treemap `==` it. -/
theorem C10_full :
    TWF Treemap.full ∧ Treemap.isFull Treemap.full = true ∧
    (∀ v, v < 18446744073709551616 → Treemap.contains Treemap.full v = true) ∧
    ∀ t, TWF t → Treemap.isFull t = true → Treemap.eq t Treemap.full = true := by
  refine ⟨Treemap.full_TWF, Treemap.isFull_full, (C10_isFull_iff _ Treemap.full_TWF).2.2.2.mp Treemap.isFull_full, ?_⟩
  intro t hw hf
  rw [C10_eq_iff t _ hw Treemap.full_TWF]
  apply TL.sorted_ext (sorted_elems elems32 hw) (sorted_elems elems32 Treemap.full_TWF)
  intro x
  have h1 := (Treemap.isFull_iff_forall_mem t hw).mp hf
  have h2 := (Treemap.isFull_iff_forall_mem _ Treemap.full_TWF).mp Treemap.isFull_full
  exact ⟨fun hx => h2 x (elems_lt elems32 hw x hx), fun hx => h1 x (elems_lt elems32 Treemap.full_TWF x hx)⟩

/-- non-vacuity: the three-partition example below is not full, and `==` itself / differs from a smaller set -/
example : Treemap.isFull (Treemap.fromIter [1, 5, 8589934595]) = false ∧
    Treemap.eq (Treemap.fromIter [1, 8589934595]) (Treemap.fromIter [8589934595, 1]) = true ∧
    Treemap.eq (Treemap.fromIter [1, 8589934595]) (Treemap.fromIter [1]) = false := by decide

/-! ### histories (MODEL `Treemap.step` / `Treemap.run`, SPEC `Spec.step64` / `Spec.run64`: Step64.lean) -/

/-- **One step.** Every call on a well-formed value, in either build configuration, succeeds (no panic),
    returns exactly what the set operation reports, and yields a well-formed value whose element list is the
    set operation's result. -/
theorem C10_step (dbg : Bool) (t : Treemap) (h : TWF t) (op : Op64) (hv : op.Valid) :
    ∃ t', Treemap.step dbg t op = some (t', (Spec.step64 (elems t) op).2) ∧ TWF t' ∧
      elems t' = (Spec.step64 (elems t) op).1 := by
  cases op with
  | insert v =>
    obtain ⟨h1, h2, h3⟩ := C10_insert t h v hv
    exact ⟨_, by simp only [Treemap.step, Spec.step64, h3], h1, h2⟩
  | remove v =>
    obtain ⟨h1, h2, h3⟩ := C10_remove t h v hv
    exact ⟨_, by simp only [Treemap.step, Spec.step64, h3], h1, h2⟩
  | insertRange lo hi =>
    obtain ⟨h1, h2, h3⟩ := C10_insertRange t h lo hi hv.1 hv.2
    exact ⟨_, by simp only [Treemap.step, Spec.step64, h3], h1, h2⟩
  | removeRange lo hi =>
    obtain ⟨h1, h2, h3⟩ := C10_removeRange t h lo hi hv.1 hv.2
    exact ⟨_, by simp only [Treemap.step, Spec.step64, h3], h1, h2⟩
  | push v =>
    obtain ⟨h1, h2, h3⟩ := C10_push t h v hv
    exact ⟨_, by simp only [Treemap.step, Spec.step64, h3], h1, h2⟩
  | append vs =>
    obtain ⟨t', h1, h2, h3⟩ := C10_append dbg t h vs hv
    exact ⟨t', by simp only [Treemap.step, Spec.step64, h1, Option.map_some], h2, h3⟩
  | extend vs =>
    obtain ⟨h1, h2⟩ := C10_extend vs hv t h
    exact ⟨_, rfl, h1, h2⟩
  | clear => exact ⟨_, rfl, (C10_new_clear t).2.2.1, (C10_new_clear t).2.2.2⟩
  | contains v => exact ⟨t, by simp only [Treemap.step, Spec.step64, C10_contains t h v hv], h, rfl⟩
  | len => exact ⟨t, by simp only [Treemap.step, Spec.step64, C10_len t h], h, rfl⟩
  | isEmpty => exact ⟨t, by simp only [Treemap.step, Spec.step64, C10_isEmpty t h], h, rfl⟩
  | min => exact ⟨t, by simp only [Treemap.step, Spec.step64, C10_min t h], h, rfl⟩
  | max => exact ⟨t, by simp only [Treemap.step, Spec.step64, C10_max t h], h, rfl⟩
  | rank v => exact ⟨t, by simp only [Treemap.step, Spec.step64, C10_rank t h v hv], h, rfl⟩
  | select n => exact ⟨t, by simp only [Treemap.step, Spec.step64, C10_select t h n, Option.map_some], h, rfl⟩
  | isFull => exact ⟨t, by simp only [Treemap.step, Spec.step64, C10_isFull t h], h, rfl⟩

/-- every history from a well-formed value -/
theorem C10_run (dbg : Bool) (ops : List Op64) : ∀ (t : Treemap), TWF t → (∀ op ∈ ops, op.Valid) →
    ∃ t', Treemap.run dbg t ops = some (t', (Spec.run64 (elems t) ops).2) ∧ TWF t' ∧
      elems t' = (Spec.run64 (elems t) ops).1 := by
  induction ops with
  | nil => intro t h _; exact ⟨t, rfl, h, rfl⟩
  | cons op ops ih =>
    intro t h hv
    obtain ⟨t1, s1, w1, e1⟩ := C10_step dbg t h op (hv op (List.mem_cons_self ..))
    obtain ⟨t2, s2, w2, e2⟩ := ih t1 w1 (fun o ho => hv o (List.mem_cons_of_mem _ ho))
    refine ⟨t2, ?_, w2, ?_⟩
    · simp only [Treemap.run, s1, s2, Spec.run64, Option.map_some, e1]
    · simp only [Spec.run64]; rw [← e1]; exact e2

/-- **Every history.** After any finite sequence of calls from `RoaringTreemap::new()`, with all `u64`
    arguments, in builds with and without debug assertions: no panic, every returned value (including every
    query along the way) is the abstract one, and the treemap contains exactly the integers the same sequence
    produces on a mathematical set of `u64`. -/
theorem C10_history (dbg : Bool) (ops : List Op64) (hv : ∀ op ∈ ops, op.Valid) :
    ∃ t, Treemap.run dbg Treemap.new ops = some (t, (Spec.run64 [] ops).2) ∧ TWF t ∧
      elems t = (Spec.run64 [] ops).1 :=
  C10_run dbg ops Treemap.new (C10_new_clear []).1 hv

/-! ### non-vacuity: a three-partition treemap built through the public API meets the invariant

The directory lemmas are shown to apply to a concrete value with a concrete 32-bit invariant, and the same
value meets `TWF`, the hypothesis of the unconditional theorems. -/

def wfEx (b : Bitmap) : Prop := TL.Sorted (Bitmap.elems b) ∧ ∀ x ∈ Bitmap.elems b, x < 4294967296
private theorem wfEx_elems32 : Elems32 wfEx := ⟨fun _ h => h.1, fun _ h => h.2⟩

/-- `{1, 5, 2^33+3, 2^33+50, 2^34+7}`: partitions 0, 2, 4 (absent partitions in between) -/
def tEx : Treemap := Treemap.fromIter [1, 5, 8589934595, 8589934642, 17179869191]

def tExLit : Treemap := [(0, [{ key := 0, store := .array [1, 5] }]), (2, [{ key := 0, store := .array [3, 50] }]),
    (4, [{ key := 0, store := .array [7] }])]
private theorem tEx_eq : tEx = tExLit := by decide

example : WFd wfEx tEx := by
  rw [tEx_eq]
  refine ⟨by decide, ?_⟩
  intro p hp
  simp only [tExLit, List.mem_cons, List.not_mem_nil, or_false] at hp
  rcases hp with rfl | rfl | rfl <;>
    exact ⟨by decide, ⟨by decide, by decide⟩, by decide⟩

theorem tEx_TWF : TWF tEx := by
  rw [tEx_eq]
  refine ⟨by decide, ?_⟩
  intro p hp
  simp only [tExLit, List.mem_cons, List.not_mem_nil, or_false] at hp
  rcases hp with rfl | rfl | rfl <;>
    exact ⟨by decide, ⟨by decide, by
      intro c hc
      simp only [List.mem_cons, List.not_mem_nil, or_false] at hc
      subst hc
      exact ⟨by decide, ⟨by unfold Roaring.Sorted; decide, by decide⟩, by decide, by decide⟩⟩, by decide⟩

example : elems tEx = [1, 5, 8589934595, 8589934642, 17179869191] := by decide
/-- non-vacuity of the history theorem: a concrete history over three partitions satisfies the hypotheses … -/
def opsEx : List Op64 :=
  [.insert 4294967296, .push 5, .insertRange (.incl 4294967290) (.excl 4294967300), .rank 4294967296,
   .removeRange (.incl 0) (.incl 4294967295), .select 3, .append [8589934595, 8589934642, 7]]
example : ∀ op ∈ opsEx, op.Valid := by
  intro op hop
  simp only [opsEx, List.mem_cons, List.not_mem_nil, or_false] at hop
  rcases hop with rfl | rfl | rfl | rfl | rfl | rfl | rfl <;> simp [Op64.Valid, Bound.le, u64Max]
/-- … and the model evaluates as the theorem says (values returned along the way) -/
example : (Treemap.run true Treemap.new opsEx).map (fun r => elems r.1) = some (Spec.run64 [] opsEx).1 := by decide
example : (Spec.run64 [] opsEx).1 = [4294967296, 4294967297, 4294967298, 4294967299, 8589934595, 8589934642] := by
  decide

/-- the D4 shape on the model: after `insert(2^32)`, `push(5)` is refused -/
example : (Treemap.push (Treemap.insert [] 4294967296).1 5).2 = false := by decide

end Roaring.C10
