import RoaringModel.Lemmas.InterSer
import RoaringModel.SpecCodec
/-!
# C18 — intersection with a serialized bitmap (partial)

Full statement (`C18_statement`): for well-formed `a` and every conformant stream `s` (accepted by the strict
reference decoder with set `S`), `intersection_with_serialized_unchecked` returns a well-formed value whose
elements are exactly those of `a` that are in `S`; a truncated stream gives an error or that same value, never
a panic.

Proved here: the parts that do not need the container-level `&=` lemmas of the algebra family — absence of
panics for *every* input in builds without debug assertions, error propagation from a truncated or invalid
header in every build, and the empty-left-operand instance of the offset path.  The rest is covered by the
correspondence check (conformant streams of every shape, truncations at every kind of boundary, the D7
reproducer) and by the driver's run-time cross-check `elems result = a ∩ Spec.decode s`.
-/
namespace Roaring.C18
open Roaring Roaring.Parser

def C18_statement : Prop :=
  ∀ (dbg : Bool) (a : Bitmap) (bs S rest : List Nat), BitmapWF a → Spec.decode bs = some (S, rest) →
    (∃ r, Bitmap.interSer dbg a bs = .ok r ∧ BitmapWF r ∧ ∀ x, x ∈ Bitmap.elems r ↔ x ∈ Bitmap.elems a ∧ x ∈ S) ∧
    ∀ k, Bitmap.interSer dbg a (bs.take k) ≠ .error .panic ∧
      ∀ r, Bitmap.interSer dbg a (bs.take k) = .ok r → ∀ x, x ∈ Bitmap.elems r ↔ x ∈ Bitmap.elems a ∧ x ∈ S

/-- Release builds (no debug assertions): for **every** left operand and **every** byte string — conformant,
    truncated anywhere, or garbage — the result is a value or an error, never a panic (this is what the D7
    repair, `?` instead of `unwrap()`, establishes). -/
theorem C18_no_panic_release_partial (a : Bitmap) (bytes : List Nat) :
    Bitmap.interSer false a bytes ≠ .error .panic := by
  unfold Bitmap.interSer
  intro h
  split at h
  · simp at h
  · rename_i e he
    simp only [Except.error.injEq] at h
    subst h
    exact np_interSerG a ⟨bytes, 0⟩ he

theorem C18_header_cursor (bytes : List Nat) :
    (decodeHeader Cursor.readExact ⟨bytes, 0⟩).map (fun r => (r.1, r.2.data.drop r.2.pos)) =
      decodeHeader readN bytes := by
  have := sim_decodeHeader (π := fun c : Cursor => c.data.drop c.pos) sim_cursor ⟨bytes, 0⟩
  simpa using this

/-- In every build: if the stream ends (or is invalid) inside the header, the call returns that error. -/
theorem C18_header_error_partial (dbg : Bool) (a : Bitmap) (bytes : List Nat) (e : DecErr)
    (h : decodeHeader readN bytes = .error e) : Bitmap.interSer dbg a bytes = .error e := by
  have hc := C18_header_cursor bytes
  rw [h] at hc
  unfold Bitmap.interSer interSerG
  simp only [bind, Parser.bind]
  cases hd : decodeHeader Cursor.readExact ⟨bytes, 0⟩ with
  | ok r => rw [hd] at hc; simp [Except.map] at hc
  | error e' =>
    rw [hd] at hc
    simp only [Except.map, Except.error.injEq] at hc
    subst hc
    rfl

/-- Offset path with an empty left operand: once the header is read the result is the empty bitmap, whatever
    follows (nothing of the payload is looked at). -/
theorem C18_empty_left_partial (dbg : Bool) (bytes : List Nat) (hd : Header) (rest : List Nat)
    (h : decodeHeader readN bytes = .ok (hd, rest)) (ho : hd.hasOffsets = true) :
    Bitmap.interSer dbg [] bytes = .ok [] := by
  have hc := C18_header_cursor bytes
  rw [h] at hc
  unfold Bitmap.interSer interSerG
  simp only [bind, Parser.bind]
  cases hdc : decodeHeader Cursor.readExact ⟨bytes, 0⟩ with
  | error e' => rw [hdc] at hc; simp [Except.map] at hc
  | ok r =>
    rw [hdc] at hc
    simp only [Except.map, Except.ok.injEq, Prod.mk.injEq] at hc
    obtain ⟨h1, _⟩ := hc
    simp only [h1, ho, ↓reduceIte, interOffsets, pure, Parser.pure]

/-- non-vacuity / concrete instances evaluated in the kernel: the 64-byte stream of D7
    (`(0..10) ∪ (70000..70010)`), `a = {3, 70005, 200000}`: the full stream gives `{3, 70005}`; cut at byte 63
    (inside the second chunk, whose key `a` holds) it is an EOF error — not a panic. -/
example : (Bitmap.interSer true
    [{ key := 0, store := .array [3] }, { key := 1, store := .array [4469] }, { key := 3, store := .array [3392] }]
    [58, 48, 0, 0, 2, 0, 0, 0, 0, 0, 9, 0, 1, 0, 9, 0, 24, 0, 0, 0, 44, 0, 0, 0,
     0, 0, 1, 0, 2, 0, 3, 0, 4, 0, 5, 0, 6, 0, 7, 0, 8, 0, 9, 0,
     112, 17, 113, 17, 114, 17, 115, 17, 116, 17, 117, 17, 118, 17, 119, 17, 120, 17, 121, 17]).map Bitmap.elems
    = .ok [3, 70005] := by rfl
example : Bitmap.interSer true
    [{ key := 0, store := .array [3] }, { key := 1, store := .array [4469] }, { key := 3, store := .array [3392] }]
    ([58, 48, 0, 0, 2, 0, 0, 0, 0, 0, 9, 0, 1, 0, 9, 0, 24, 0, 0, 0, 44, 0, 0, 0,
     0, 0, 1, 0, 2, 0, 3, 0, 4, 0, 5, 0, 6, 0, 7, 0, 8, 0, 9, 0,
     112, 17, 113, 17, 114, 17, 115, 17, 116, 17, 117, 17, 118, 17, 119, 17, 120, 17, 121, 17].take 63)
    = .error .eof := by rfl

end Roaring.C18
