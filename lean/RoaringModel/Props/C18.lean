import RoaringModel.Lemmas.InterSer
import RoaringModel.Lemmas.InterSerSpec
import RoaringModel.Lemmas.InterSerTrunc
import RoaringModel.Lemmas.AlgebraSpec
import RoaringModel.Lemmas.SpecRoundTrip
import RoaringModel.SpecCodec
/-!
# C18 — intersection with a serialized bitmap

Full statement (`C18_statement`, proved: `C18`): for a well-formed `a` and every conformant stream `s` (a byte
string accepted by the strict reference decoder with set `S`), `intersection_with_serialized_unchecked` returns,
in both build configurations, a well-formed value whose elements are exactly those of `a` that are in `S`
(`C18_value`: `elems r = Spec.sAnd (elems a) S`); for every truncation of the stream the result is an
`UnexpectedEof` error or that same value — never a panic, never a different value (`C18_trunc`).

Also proved, for *arbitrary* byte strings: no panic in builds without debug assertions
(`C18_no_panic_release`), header errors are propagated (`C18_header_error`), and truncation can only turn the
outcome into EOF (`C18_trunc_any`).

The hypothesis `∀ x ∈ bs, x < 256` says that the `List Nat` is a byte string (see C06).
-/
namespace Roaring.C18
open Roaring Roaring.Parser

def C18_statement : Prop :=
  ∀ (dbg : Bool) (a : Bitmap) (bs S rest : List Nat), Bitmap.WF a → (∀ x ∈ bs, x < 256) →
    Spec.decode bs = some (S, rest) →
    (∃ r, Bitmap.interSer dbg a bs = .ok r ∧ Bitmap.WF r ∧ ∀ x, x ∈ Bitmap.elems r ↔ x ∈ Bitmap.elems a ∧ x ∈ S) ∧
    ∀ k, Bitmap.interSer dbg a (bs.take k) ≠ .error .panic ∧
      ∀ r, Bitmap.interSer dbg a (bs.take k) = .ok r → ∀ x, x ∈ Bitmap.elems r ↔ x ∈ Bitmap.elems a ∧ x ∈ S

/-- **C18, value.**  Well-formed `a`, conformant stream with set `S` (either cookie, with or without offset
    table, array / bitset / run chunks), either build configuration: the result is a well-formed value and its
    element list is the reference intersection of `elems a` and `S`. -/
theorem C18_value (dbg : Bool) (a : Bitmap) (bs S rest : List Nat) (ha : Bitmap.WF a) (hb : ∀ x ∈ bs, x < 256)
    (h : Spec.decode bs = some (S, rest)) :
    ∃ r, Bitmap.interSer dbg a bs = .ok r ∧ Bitmap.WF r ∧ Bitmap.elems r = Spec.sAnd (Bitmap.elems a) S := by
  obtain ⟨r, h1, h2, h3⟩ := interSer_spec dbg a bs S rest ha hb h
  obtain ⟨b, _, hbw, hbe⟩ := decode_spec false false bs S rest hb h
  have hsa := Bitmap.sorted_elems a ha.dir
  have hsS : Sorted S := by rw [← hbe]; exact Bitmap.sorted_elems b hbw.dir
  refine ⟨r, h1, h2, ?_⟩
  apply Arr.sorted_ext _ _ (Bitmap.sorted_elems r h2.dir) (Spec.sorted_sAnd _ _ hsa hsS)
  intro x
  rw [h3 x, Spec.mem_sAnd _ _ hsa hsS]

/-- in particular for the streams the crate itself writes (cookie `12346`, offset table — the seeking path):
    `a.intersection_with_serialized_unchecked(serialize(b))` is `a ∩ b`, whatever follows the serialisation -/
theorem C18_serialize (dbg : Bool) (a b : Bitmap) (ha : Bitmap.WF a) (hb : Bitmap.WF b) :
    ∃ r, Bitmap.interSer dbg a (Bitmap.serialize b) = .ok r ∧ Bitmap.WF r ∧
      Bitmap.elems r = Spec.sAnd (Bitmap.elems a) (Bitmap.elems b) := by
  have hd := specDecode_serialize b hb.toCodec []
  rw [List.append_nil] at hd
  exact C18_value dbg a _ _ [] ha (serialize_isBytes b) hd

/-- **C18, truncation (any input).**  For every left operand, every byte string and every cut, in both build
    configurations: on the truncated input the call fails with `UnexpectedEof`, or does exactly what it does on
    the whole input. -/
theorem C18_trunc_any (dbg : Bool) (a : Bitmap) (bs : List Nat) (k : Nat) :
    Bitmap.interSer dbg a (bs.take k) = .error .eof ∨
    Bitmap.interSer dbg a (bs.take k) = Bitmap.interSer dbg a bs :=
  interSer_trunc dbg a bs k

/-- **C18, truncation.**  For a well-formed `a` and every truncation of a conformant stream (debug assertions on
    or off): an `UnexpectedEof` error, or the correct value — never a panic, never a wrong value. -/
theorem C18_trunc (dbg : Bool) (a : Bitmap) (bs S rest : List Nat) (ha : Bitmap.WF a) (hb : ∀ x ∈ bs, x < 256)
    (h : Spec.decode bs = some (S, rest)) (k : Nat) :
    Bitmap.interSer dbg a (bs.take k) = .error .eof ∨
    ∃ r, Bitmap.interSer dbg a (bs.take k) = .ok r ∧ Bitmap.WF r ∧
      Bitmap.elems r = Spec.sAnd (Bitmap.elems a) S := by
  obtain ⟨r, h1, h2, h3⟩ := C18_value dbg a bs S rest ha hb h
  rcases C18_trunc_any dbg a bs k with ht | ht
  · exact Or.inl ht
  · exact Or.inr ⟨r, by rw [ht, h1], h2, h3⟩

/-- the full statement -/
theorem C18 : C18_statement := by
  intro dbg a bs S rest ha hb h
  obtain ⟨r, h1, h2, h3⟩ := interSer_spec dbg a bs S rest ha hb h
  refine ⟨⟨r, h1, h2, h3⟩, ?_⟩
  intro k
  rcases C18_trunc_any dbg a bs k with ht | ht
  · rw [ht]
    exact ⟨by simp, by intro r' hr'; cases hr'⟩
  · rw [ht, h1]
    refine ⟨by simp, ?_⟩
    intro r' hr'
    simp only [Except.ok.injEq] at hr'
    subst hr'
    exact h3

/-- Release builds (no debug assertions): for **every** left operand and **every** byte string — conformant,
    truncated anywhere, or garbage — the result is a value or an error, never a panic (this is what the D7
    repair, `?` instead of `unwrap()`, establishes). -/
theorem C18_no_panic_release (a : Bitmap) (bytes : List Nat) :
    Bitmap.interSer false a bytes ≠ .error .panic := by
  unfold Bitmap.interSer
  intro h
  split at h
  · simp at h
  · rename_i e he
    simp only [Except.error.injEq] at h
    subst h
    exact np_interSerG a ⟨bytes, 0⟩ he

theorem C18_header_cursor (bytes : List Nat) :
    (decodeHeader Cursor.readExact ⟨bytes, 0⟩).map (fun r => (r.1, r.2.data.drop r.2.pos)) =
      decodeHeader readN bytes := by
  have := sim_decodeHeader (π := fun c : Cursor => c.data.drop c.pos) sim_cursor ⟨bytes, 0⟩
  simpa using this

/-- In every build: if the stream ends (or is invalid) inside the header, the call returns that error. -/
theorem C18_header_error (dbg : Bool) (a : Bitmap) (bytes : List Nat) (e : DecErr)
    (h : decodeHeader readN bytes = .error e) : Bitmap.interSer dbg a bytes = .error e := by
  have hc := C18_header_cursor bytes
  rw [h] at hc
  unfold Bitmap.interSer interSerG
  simp only [bind, Parser.bind]
  cases hd : decodeHeader Cursor.readExact ⟨bytes, 0⟩ with
  | ok r => rw [hd] at hc; simp [Except.map] at hc
  | error e' =>
    rw [hd] at hc
    simp only [Except.map, Except.error.injEq] at hc
    subst hc
    rfl

/-- Offset path with an empty left operand: once the header is read the result is the empty bitmap, whatever
    follows (nothing of the payload is looked at). -/
theorem C18_empty_left (dbg : Bool) (bytes : List Nat) (hd : Header) (rest : List Nat)
    (h : decodeHeader readN bytes = .ok (hd, rest)) (ho : hd.hasOffsets = true) :
    Bitmap.interSer dbg [] bytes = .ok [] := by
  have hc := C18_header_cursor bytes
  rw [h] at hc
  unfold Bitmap.interSer interSerG
  simp only [bind, Parser.bind]
  cases hdc : decodeHeader Cursor.readExact ⟨bytes, 0⟩ with
  | error e' => rw [hdc] at hc; simp [Except.map] at hc
  | ok r =>
    rw [hdc] at hc
    simp only [Except.map, Except.ok.injEq, Prod.mk.injEq] at hc
    obtain ⟨h1, _⟩ := hc
    simp only [h1, ho, ↓reduceIte, interOffsets, pure, Parser.pure]

/-- non-vacuity / concrete instances evaluated in the kernel: the 64-byte stream of D7
    (`(0..10) ∪ (70000..70010)`), `a = {3, 70005, 200000}`: the full stream gives `{3, 70005}`; cut at byte 63
    (inside the second chunk, whose key `a` holds) it is an EOF error — not a panic. -/
example : (Bitmap.interSer true
    [{ key := 0, store := .array [3] }, { key := 1, store := .array [4469] }, { key := 3, store := .array [3392] }]
    [58, 48, 0, 0, 2, 0, 0, 0, 0, 0, 9, 0, 1, 0, 9, 0, 24, 0, 0, 0, 44, 0, 0, 0,
     0, 0, 1, 0, 2, 0, 3, 0, 4, 0, 5, 0, 6, 0, 7, 0, 8, 0, 9, 0,
     112, 17, 113, 17, 114, 17, 115, 17, 116, 17, 117, 17, 118, 17, 119, 17, 120, 17, 121, 17]).map Bitmap.elems
    = .ok [3, 70005] := by rfl
example : Bitmap.interSer true
    [{ key := 0, store := .array [3] }, { key := 1, store := .array [4469] }, { key := 3, store := .array [3392] }]
    ([58, 48, 0, 0, 2, 0, 0, 0, 0, 0, 9, 0, 1, 0, 9, 0, 24, 0, 0, 0, 44, 0, 0, 0,
     0, 0, 1, 0, 2, 0, 3, 0, 4, 0, 5, 0, 6, 0, 7, 0, 8, 0, 9, 0,
     112, 17, 113, 17, 114, 17, 115, 17, 116, 17, 117, 17, 118, 17, 119, 17, 120, 17, 121, 17].take 63)
    = .error .eof := by rfl

end Roaring.C18
