import RoaringModel.Ser
/-! # C18 (placeholder, replaced below) -/
namespace Roaring.C18
open Roaring

theorem C18_readN_zero (bs : List Nat) : readN 0 bs = .ok ([], bs) := by
  simp [readN]

end Roaring.C18
