import RoaringModel.Bitmap
import RoaringModel.Spec
import RoaringModel.Fmt
import RoaringModel.Lemmas.MiscFmt
import RoaringModel.Lemmas.SpecFacts
/-!
# C16 — public operations are total: only the documented panics (property theorems)
-/
namespace Roaring.C16
open Roaring Roaring.MiscLemmas

/-- Empty, inverted and equal-excluded ranges are the empty set for the four range operations, and the
    bitmap is left unchanged — for every bitmap (no well-formedness needed) and every bound pair that
    `convert_range_to_inclusive` rejects. -/
theorem C16_ranges (b : Bitmap) (lo hi : Bound) (e : ConvErr)
    (h : convertRange u32Max lo hi = .error e) :
    Bitmap.insertRange b lo hi = (b, 0) ∧ Bitmap.removeRange b lo hi = (b, 0) ∧
    Bitmap.rangeCardinality b lo hi = 0 ∧ Bitmap.containsRange b lo hi = true := by
  simp [Bitmap.insertRange, Bitmap.removeRange, Bitmap.rangeCardinality, Bitmap.containsRange, h]

/-- Non-vacuity of `C16_ranges`: `5..5`, `7..=3`, `(Excluded 9, Excluded 9)`, `(Excluded MAX, Unbounded)`, `..0`. -/
example : convertRange u32Max (.incl 5) (.excl 5) = .error .empty
    ∧ convertRange u32Max (.incl 7) (.incl 3) = .error .startGreaterThanEnd
    ∧ convertRange u32Max (.excl 9) (.excl 9) = .error .startAndEndEqualExcluded
    ∧ convertRange u32Max (.excl u32Max) .unb = .error .empty
    ∧ convertRange u32Max .unb (.excl 0) = .error .empty := ⟨rfl, rfl, rfl, rfl, rfl⟩

/-- a bound whose value fits the integer type -/
def Bound.fits (maxV : Nat) : Bound → Prop
  | .incl n => n ≤ maxV
  | .excl n => n ≤ maxV
  | .unb => True

/-- `convert_range_to_inclusive` succeeds exactly on the non-empty intervals, with the interval's end points
    (`Spec.interval` is the spec-side meaning of a bound pair). -/
theorem C16_convertRange_ok (maxV : Nat) (lo hi : Bound) (hlo : Bound.fits maxV lo) (hhi : Bound.fits maxV hi)
    (a b : Nat) : convertRange maxV lo hi = .ok (a, b) ↔ Spec.interval maxV lo hi = some (a, b) := by
  have hl : Roaring.Bound.le maxV lo := by cases lo <;> exact hlo
  have hh : Roaring.Bound.le maxV hi := by cases hi <;> exact hhi
  have := convertRange_interval maxV lo hi hl hh
  cases hc : convertRange maxV lo hi with
  | ok r => rw [hc] at this; simp only [Except.ok.injEq]; rw [← this]; simp
  | error e => rw [hc] at this; rw [← this]; simp

/-- Non-vacuity: `(Excluded 3, Included 10)` is `[4, 10]`, `..` is the whole universe. -/
example : convertRange u32Max (.excl 3) (.incl 10) = .ok (4, 10) ∧ convertRange u32Max .unb .unb = .ok (0, u32Max) :=
  ⟨rfl, rfl⟩

/-- The conversion fails exactly when the interval is empty. -/
theorem C16_convertRange_error (maxV : Nat) (lo hi : Bound) (hlo : Bound.fits maxV lo) (hhi : Bound.fits maxV hi) :
    (∃ e, convertRange maxV lo hi = .error e) ↔ Spec.interval maxV lo hi = none := by
  constructor
  · rintro ⟨e, he⟩
    cases hi' : Spec.interval maxV lo hi with
    | none => rfl
    | some p =>
      have := (C16_convertRange_ok maxV lo hi hlo hhi p.1 p.2).2 hi'
      rw [he] at this; cases this
  · intro hn
    cases hc : convertRange maxV lo hi with
    | error e => exact ⟨e, rfl⟩
    | ok p =>
      have := (C16_convertRange_ok maxV lo hi hlo hhi p.1 p.2).1 hc
      rw [hn] at this; cases this

/-- `convert_range_to_inclusive` never fails on a non-empty range: if some `x ≤ maxV` lies within the
    bounds, the conversion succeeds and `x` is inside the resulting inclusive interval. -/
theorem C16_convertRange_nonempty (maxV : Nat) (lo hi : Bound) (hlo : Bound.fits maxV lo) (hhi : Bound.fits maxV hi)
    (x : Nat) (hx : x ≤ maxV) (hm : Spec.Bound.mem lo hi x) :
    ∃ a b, convertRange maxV lo hi = .ok (a, b) ∧ a ≤ x ∧ x ≤ b := by
  suffices h : ∃ a b, Spec.interval maxV lo hi = some (a, b) ∧ a ≤ x ∧ x ≤ b by
    obtain ⟨a, b, h1, h2, h3⟩ := h
    exact ⟨a, b, (C16_convertRange_ok maxV lo hi hlo hhi a b).2 h1, h2, h3⟩
  cases hi' : Spec.interval maxV lo hi with
  | none => exact absurd ⟨hm, hx⟩ (Spec.interval_none maxV lo hi hi' x)
  | some p =>
    obtain ⟨a, b⟩ := p
    have := (Spec.interval_some maxV lo hi a b hi').2.2 x
    exact ⟨a, b, rfl, (this.mpr ⟨hm, hx⟩).1, (this.mpr ⟨hm, hx⟩).2⟩

/-- Non-vacuity: 7 lies in `(Excluded 3, Excluded 8)`. -/
example : Spec.Bound.mem (.excl 3) (.excl 8) 7 := by decide

/-- `Debug` formatting is total: for a well-formed bitmap neither `unwrap()` of `fmt.rs` can fail
    (`min()` / `max()` are `Some` whenever the summary branch `len() >= 16` is taken); for fewer than 16
    values the list branch has no partial operation at all. -/
theorem C16_debug_total (b : Bitmap) (h : BitmapWF b) : (Bitmap.debugFmt b).isSome = true := by
  unfold Bitmap.debugFmt
  split
  · rfl
  · rename_i hlen
    cases b with
    | nil => simp [Bitmap.len] at hlen
    | cons c cs =>
      have hmin : (Bitmap.min? (c :: cs)).isSome = true := by
        have := (store_minmax_isSome c.store (h.2 c (by simp)).2).1
        simp only [Bitmap.min?, List.head?_cons, Container.min?]
        cases hm : c.store.min? with
        | none => rw [hm] at this; simp at this
        | some v => rfl
      have hmax : (Bitmap.max? (c :: cs)).isSome = true := by
        cases hl : (c :: cs).getLast? with
        | none => simp at hl
        | some c' =>
          have hmem : c' ∈ c :: cs := List.mem_of_getLast? hl
          have := (store_minmax_isSome c'.store (h.2 c' hmem).2).2
          simp only [Bitmap.max?, hl, Container.max?]
          cases hm : c'.store.max? with
          | none => rw [hm] at this; simp at this
          | some v => rfl
      cases h1 : Bitmap.min? (c :: cs) with
      | none => rw [h1] at hmin; simp at hmin
      | some lo =>
        cases h2 : Bitmap.max? (c :: cs) with
        | none => rw [h2] at hmax; simp at hmax
        | some hi => rfl

/-- Non-vacuity: a well-formed 17-element bitmap takes the summary branch. -/
example : BitmapWF [⟨0, .array (List.range 17)⟩] ∧
    Bitmap.debugFmt [⟨0, .array (List.range 17)⟩] = some "RoaringBitmap<17 values between 0 and 16>" := by
  refine ⟨⟨by decide, ?_⟩, by decide⟩
  intro c hc
  simp at hc
  subst hc
  exact ⟨by decide, by decide, by decide, by decide⟩

end Roaring.C16
