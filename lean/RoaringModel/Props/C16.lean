import RoaringModel.Bitmap
import RoaringModel.Spec
import RoaringModel.Fmt
import RoaringModel.Lemmas.MiscFmt
import RoaringModel.Lemmas.SpecFacts
import RoaringModel.Lemmas.BitmapQuery
import RoaringModel.Props.C01
import RoaringModel.Props.C03
import RoaringModel.Props.C17
/-!
# C16 — public operations are total: only the documented panics (property theorems)

The model makes every Rust panic site an explicit `none` (outer `Option`); C16 collects, in one place, the facts
that for a well-formed value (`Bitmap.WF`) and arguments of the right integer type none of these is reached except
at the documented panics:
* range conversion: `C16_ranges`, `C16_convertRange_*` (empty / inverted ranges are the empty set, never a panic);
* `Debug`: `C16_debug_total`, `C16_debug_spec`;
* every mutator, in both build configurations: `C16_mutators_total`, `C16_history_total` (thin corollaries of C01);
* `range` / `into_range` panic exactly on the two documented inputs: `C16_range_panics` (corollary of C03);
* `from_lsb0_bytes` panics only past `2^32`, and exactly then for a multiple-of-8 offset: `C16_lsb0_panics`
  (corollary of C17);
* the `Option`-valued queries return `None` exactly when the set has no such element: `C16_select_total`,
  `C16_min_max_total`.
-/
namespace Roaring.C16
open Roaring Roaring.MiscLemmas

/-- Empty, inverted and equal-excluded ranges are the empty set for the four range operations, and the
    bitmap is left unchanged — for every bitmap (no well-formedness needed) and every bound pair that
    `convert_range_to_inclusive` rejects. -/
theorem C16_ranges (b : Bitmap) (lo hi : Bound) (e : ConvErr)
    (h : convertRange u32Max lo hi = .error e) :
    Bitmap.insertRange b lo hi = (b, 0) ∧ Bitmap.removeRange b lo hi = (b, 0) ∧
    Bitmap.rangeCardinality b lo hi = 0 ∧ Bitmap.containsRange b lo hi = true := by
  simp [Bitmap.insertRange, Bitmap.removeRange, Bitmap.rangeCardinality, Bitmap.containsRange, h]

/-- Non-vacuity of `C16_ranges`: `5..5`, `7..=3`, `(Excluded 9, Excluded 9)`, `(Excluded MAX, Unbounded)`, `..0`. -/
example : convertRange u32Max (.incl 5) (.excl 5) = .error .empty
    ∧ convertRange u32Max (.incl 7) (.incl 3) = .error .startGreaterThanEnd
    ∧ convertRange u32Max (.excl 9) (.excl 9) = .error .startAndEndEqualExcluded
    ∧ convertRange u32Max (.excl u32Max) .unb = .error .empty
    ∧ convertRange u32Max .unb (.excl 0) = .error .empty := ⟨rfl, rfl, rfl, rfl, rfl⟩

/-- a bound whose value fits the integer type -/
def Bound.fits (maxV : Nat) : Bound → Prop
  | .incl n => n ≤ maxV
  | .excl n => n ≤ maxV
  | .unb => True

/-- `convert_range_to_inclusive` succeeds exactly on the non-empty intervals, with the interval's end points
    (`Spec.interval` is the spec-side meaning of a bound pair). -/
theorem C16_convertRange_ok (maxV : Nat) (lo hi : Bound) (hlo : Bound.fits maxV lo) (hhi : Bound.fits maxV hi)
    (a b : Nat) : convertRange maxV lo hi = .ok (a, b) ↔ Spec.interval maxV lo hi = some (a, b) := by
  have hl : Roaring.Bound.le maxV lo := by cases lo <;> exact hlo
  have hh : Roaring.Bound.le maxV hi := by cases hi <;> exact hhi
  have := convertRange_interval maxV lo hi hl hh
  cases hc : convertRange maxV lo hi with
  | ok r => rw [hc] at this; simp only [Except.ok.injEq]; rw [← this]; simp
  | error e => rw [hc] at this; rw [← this]; simp

/-- Non-vacuity: `(Excluded 3, Included 10)` is `[4, 10]`, `..` is the whole universe. -/
example : convertRange u32Max (.excl 3) (.incl 10) = .ok (4, 10) ∧ convertRange u32Max .unb .unb = .ok (0, u32Max) :=
  ⟨rfl, rfl⟩

/-- The conversion fails exactly when the interval is empty. -/
theorem C16_convertRange_error (maxV : Nat) (lo hi : Bound) (hlo : Bound.fits maxV lo) (hhi : Bound.fits maxV hi) :
    (∃ e, convertRange maxV lo hi = .error e) ↔ Spec.interval maxV lo hi = none := by
  constructor
  · rintro ⟨e, he⟩
    cases hi' : Spec.interval maxV lo hi with
    | none => rfl
    | some p =>
      have := (C16_convertRange_ok maxV lo hi hlo hhi p.1 p.2).2 hi'
      rw [he] at this; cases this
  · intro hn
    cases hc : convertRange maxV lo hi with
    | error e => exact ⟨e, rfl⟩
    | ok p =>
      have := (C16_convertRange_ok maxV lo hi hlo hhi p.1 p.2).1 hc
      rw [hn] at this; cases this

/-- `convert_range_to_inclusive` never fails on a non-empty range: if some `x ≤ maxV` lies within the
    bounds, the conversion succeeds and `x` is inside the resulting inclusive interval. -/
theorem C16_convertRange_nonempty (maxV : Nat) (lo hi : Bound) (hlo : Bound.fits maxV lo) (hhi : Bound.fits maxV hi)
    (x : Nat) (hx : x ≤ maxV) (hm : Spec.Bound.mem lo hi x) :
    ∃ a b, convertRange maxV lo hi = .ok (a, b) ∧ a ≤ x ∧ x ≤ b := by
  suffices h : ∃ a b, Spec.interval maxV lo hi = some (a, b) ∧ a ≤ x ∧ x ≤ b by
    obtain ⟨a, b, h1, h2, h3⟩ := h
    exact ⟨a, b, (C16_convertRange_ok maxV lo hi hlo hhi a b).2 h1, h2, h3⟩
  cases hi' : Spec.interval maxV lo hi with
  | none => exact absurd ⟨hm, hx⟩ (Spec.interval_none maxV lo hi hi' x)
  | some p =>
    obtain ⟨a, b⟩ := p
    have := (Spec.interval_some maxV lo hi a b hi').2.2 x
    exact ⟨a, b, rfl, (this.mpr ⟨hm, hx⟩).1, (this.mpr ⟨hm, hx⟩).2⟩

/-- Non-vacuity: 7 lies in `(Excluded 3, Excluded 8)`. -/
example : Spec.Bound.mem (.excl 3) (.excl 8) 7 := by decide

/-- `Debug` formatting is total: for a well-formed bitmap neither `unwrap()` of `fmt.rs` can fail
    (`min()` / `max()` are `Some` whenever the summary branch `len() >= 16` is taken); for fewer than 16
    values the list branch has no partial operation at all. -/
theorem C16_debug_total (b : Bitmap) (hwf : Bitmap.WF b) : (Bitmap.debugFmt b).isSome = true := by
  have h := (bitmapWF_iff b).2 hwf
  unfold Bitmap.debugFmt
  split
  · rfl
  · rename_i hlen
    cases b with
    | nil => simp [Bitmap.len] at hlen
    | cons c cs =>
      have hmin : (Bitmap.min? (c :: cs)).isSome = true := by
        have := (store_minmax_isSome c.store (h.2 c (by simp)).2).1
        simp only [Bitmap.min?, List.head?_cons, Container.min?]
        cases hm : c.store.min? with
        | none => rw [hm] at this; simp at this
        | some v => rfl
      have hmax : (Bitmap.max? (c :: cs)).isSome = true := by
        cases hl : (c :: cs).getLast? with
        | none => simp at hl
        | some c' =>
          have hmem : c' ∈ c :: cs := List.mem_of_getLast? hl
          have := (store_minmax_isSome c'.store (h.2 c' hmem).2).2
          simp only [Bitmap.max?, hl, Container.max?]
          cases hm : c'.store.max? with
          | none => rw [hm] at this; simp at this
          | some v => rfl
      cases h1 : Bitmap.min? (c :: cs) with
      | none => rw [h1] at hmin; simp at hmin
      | some lo =>
        cases h2 : Bitmap.max? (c :: cs) with
        | none => rw [h2] at hmax; simp at hmax
        | some hi => rfl

/-- Non-vacuity: a well-formed 17-element bitmap takes the summary branch. -/
example : Bitmap.WF [⟨0, .array (List.range 17)⟩] ∧
    Bitmap.debugFmt [⟨0, .array (List.range 17)⟩] = some "RoaringBitmap<17 values between 0 and 16>" := by
  refine ⟨(bitmapWF_iff _).1 ⟨by decide, ?_⟩, by decide⟩
  intro c hc
  simp at hc
  subst hc
  exact ⟨by decide, by decide, by decide, by decide⟩

/-- `Debug` output is determined by the element set: it is the SPEC string (`Spec.debugString`). -/
theorem C16_debug_spec (b : Bitmap) (hwf : Bitmap.WF b) :
    Bitmap.debugFmt b = some (Spec.debugString (Bitmap.elems b)) := by
  unfold Bitmap.debugFmt Spec.debugString
  rw [Bitmap.len_spec b hwf, Bitmap.min?_spec b hwf, Bitmap.max?_spec b hwf]
  unfold Spec.min? Spec.max?
  split
  · rfl
  · rename_i hlen
    cases hs : Bitmap.elems b with
    | nil => rw [hs] at hlen; simp at hlen
    | cons x xs =>
      have hne : x :: xs ≠ [] := by simp
      rw [List.getLast?_eq_some_getLast hne]
      rfl

/-! ### the panic sites of the other operations (thin corollaries of C01 / C03 / C17 / C07's library) -/

/-- **Mutators are total.**  `insert`, `remove`, `insert_range`, `remove_range`, `push`, `append`, `extend`,
    `clear`, `remove_smallest`, `remove_biggest` on a well-formed value with `u32` arguments never panic, in
    either build configuration (no debug validation fires), and the value stays well-formed — so the next call
    cannot panic either. -/
theorem C16_mutators_total (dbg : Bool) (b : Bitmap) (h : Bitmap.WF b) (op : Op32) (hv : op.Valid) :
    ∃ b' r, Bitmap.step dbg b op = some (b', r) ∧ Bitmap.WF b' := by
  obtain ⟨b', h1, h2, _⟩ := C01.C01_step dbg b h op hv
  exact ⟨b', _, h1, h2⟩

/-- ... along every history starting from `new()`. -/
theorem C16_history_total (dbg : Bool) (ops : List Op32) (hv : ∀ op ∈ ops, op.Valid) :
    (Bitmap.run dbg Bitmap.new ops).isSome = true := by
  obtain ⟨b', h1, _⟩ := C01.C01_run dbg ops Bitmap.new C01.C01_new.1 hv
  rw [h1]; rfl

/-- the part of well-formedness that iteration relies on -/
theorem bitmapOK_of_wf (b : Bitmap) (h : Bitmap.WF b) : C03.BitmapOK b := by
  refine ⟨⟨h.1, ?_⟩, fun c hc => (h.2 c hc).1⟩
  intro c hc
  have hst := (h.2 c hc).2
  unfold Container.IterOK Store.IterOK
  cases hs : c.store with
  | array v => rw [hs] at hst; exact hst.1
  | bitmap bs => rw [hs] at hst; exact ⟨hst.1.length, hst.1.words, hst.1.len⟩

/-- **`range` / `into_range` panic exactly on the two documented inputs** (both bounds given and start > end, or
    both excluded and equal — `Bound.inverted`); on every other bound pair the cursor is created. -/
theorem C16_range_panics (b : Bitmap) (h : Bitmap.WF b) (lo hi : Bound)
    (hlo : C03.BoundU32 lo) (hhi : C03.BoundU32 hi) :
    Bitmap.range b lo hi = none ↔ Spec.Bound.inverted lo hi = true := by
  rw [(C03.C03_range b (bitmapOK_of_wf b h) lo hi hlo hhi).1]
  unfold Spec.range
  split <;> simp_all

/-- **`from_lsb0_bytes`**: no panic whenever `offset + 8·len ≤ 2^32` (any offset); a panic only past `2^32`; and
    for a multiple-of-8 offset a panic exactly for a non-empty slice that extends past `2^32` (the documented
    one). -/
theorem C16_lsb0_panics (dbg : Bool) (off : Nat) (bytes : List Nat) (hb : ∀ b ∈ bytes, b < 256) :
    (off + 8 * bytes.length ≤ 4294967296 → (Lsb0.fromLsb0 dbg off bytes).isSome = true) ∧
    (Lsb0.fromLsb0 dbg off bytes = none → off + 8 * bytes.length > 4294967296) ∧
    (off % 8 = 0 → (Lsb0.fromLsb0 dbg off bytes = none ↔ bytes ≠ [] ∧ off + 8 * bytes.length > 4294967296)) := by
  refine ⟨?_, C17.C17_panic_only_outside dbg off bytes hb, C17.C17_panics_iff_aligned dbg off bytes hb⟩
  intro hfit
  obtain ⟨b, h1, _⟩ := C17.C17 dbg off bytes hb hfit
  rw [h1]; rfl

/-- **`select(n)`** is `None` exactly when `n ≥ len()`: the store-level `select` inside never comes back empty
    for an index the container claims to have. -/
theorem C16_select_total (b : Bitmap) (h : Bitmap.WF b) (n : Nat) :
    (Bitmap.select b n = none ↔ (Bitmap.elems b).length ≤ n) ∧
    (n < Bitmap.len b → (Bitmap.select b n).isSome = true) := by
  rw [Bitmap.select_spec b h n, Bitmap.len_spec b h]
  unfold Spec.select
  refine ⟨by simp, ?_⟩
  intro hn
  rw [List.getElem?_eq_getElem hn]; rfl

/-- **`min()` / `max()`** are `None` exactly for the empty set. -/
theorem C16_min_max_total (b : Bitmap) (h : Bitmap.WF b) :
    (Bitmap.min? b = none ↔ Bitmap.elems b = []) ∧ (Bitmap.max? b = none ↔ Bitmap.elems b = []) := by
  rw [Bitmap.min?_spec b h, Bitmap.max?_spec b h]
  unfold Spec.min? Spec.max?
  exact ⟨List.head?_eq_none_iff, List.getLast?_eq_none_iff⟩

end Roaring.C16
