import RoaringModel.Bitmap
import RoaringModel.Spec
import RoaringModel.Fmt
import RoaringModel.Lemmas.MiscFmt
import RoaringModel.Lemmas.SpecFacts
import RoaringModel.Lemmas.BitmapQuery
import RoaringModel.Props.C01
import RoaringModel.Props.C03
import RoaringModel.Props.C17
import RoaringModel.Safe
import RoaringModel.Lemmas.SafeLemmas
import RoaringModel.Lemmas.FidelityFmt
import RoaringModel.Props.C10
import RoaringModel.SafeCodec
import RoaringModel.Lemmas.SafeCodecLemmas
import RoaringModel.SafeCompose
import RoaringModel.Lemmas.SafeComposeLemmas
import RoaringModel.SafeMulti
import RoaringModel.Lemmas.SafeMultiLemmas
import RoaringModel.SafeTreemapIter
import RoaringModel.Lemmas.SafeTreemapIterLemmas
import RoaringModel.SafeBinOps
import RoaringModel.Lemmas.SafeBinOpsLemmas
/-!
# C16 — public operations are total: only the documented panics (property theorems)

The model makes every Rust panic site an explicit `none` (outer `Option`); C16 collects, in one place, the facts
that for a well-formed value (`Bitmap.WF`) and arguments of the right integer type none of these is reached except
at the documented panics:
* range conversion: `C16_ranges`, `C16_convertRange_*` (empty / inverted ranges are the empty set, never a panic);
* `Debug`: `C16_debug_total`, `C16_debug_spec`;
* every mutator, in both build configurations: `C16_mutators_total`, `C16_history_total` (thin corollaries of C01);
* `range` / `into_range` panic exactly on the two documented inputs: `C16_range_panics` (corollary of C03);
* `from_lsb0_bytes` panics only past `2^32`, and exactly then for a multiple-of-8 offset: `C16_lsb0_panics`
  (corollary of C17);
* the `Option`-valued queries return `None` exactly when the set has no such element: `C16_select_total`,
  `C16_min_max_total`;
* **no arithmetic panic / wrap**: the `C16_safe_*` theorems (second half of the file).  `RoaringModel/Safe.lean` states,
  for every `-`, `+=`, `<<`, `>>`, slice index / slice range and narrowing `as` cast of `bitmap_store.rs`,
  `array_store/mod.rs`, `container.rs`, `inherent.rs`, `util.rs`, `serialization.rs` (writer), `statistics.rs` and of
  the treemap's `len/rank/select/split/join`, the side condition under which the Rust expression (which panics with
  overflow checks on and wraps with them off; indexing panics in both) and the model's total `Nat` expression agree —
  a decidable predicate `Safe_*` with the `file:line` of every conjunct; the theorems here derive each of them from
  the invariant of the receiver (`BStore.Inv` / `Arr.Inv` / `Store.Inv` / `Bitmap.WF`) and the integer type of the
  arguments.  The only side conditions that are NOT consequences of well-formedness are caller obligations of
  crate-private functions (`ArrayStore::remove_smallest/remove_biggest`: `n ≤ len`, discharged at the public entry
  points in `C16_safe_removeSmallest/Biggest`) and the `u64` sums of a treemap holding all `2^64` values
  (`C16_safe_treemap_len_iff`, `C16_treemap_len_2p64_observation`).
* **codec area** (last section; predicates in `RoaringModel/SafeCodec.lean`): `deserialize_from_impl` on arbitrary input
  bytes over any reader (`C16_safe_deserialize*`), `intersection_with_serialized_unchecked` on arbitrary bytes
  (`C16_safe_interSer`), `from_lsb0_bytes` with its store constructors on the documented domain (`C16_safe_fromLsb0`,
  `C16_safe_lsb0_store`), the treemap `serialized_size` / `serialize_into` / `deserialize_from`
  (`C16_safe_treemap_serialize`, `C16_safe_treemap_deserialize*`).
-/
namespace Roaring.C16
open Roaring Roaring.MiscLemmas

/-- Empty, inverted and equal-excluded ranges are the empty set for the four range operations, and the
    bitmap is left unchanged — for every bitmap (no well-formedness needed) and every bound pair that
    `convert_range_to_inclusive` rejects. -/
theorem C16_ranges (b : Bitmap) (lo hi : Bound) (e : ConvErr)
    (h : convertRange u32Max lo hi = .error e) :
    Bitmap.insertRange b lo hi = (b, 0) ∧ Bitmap.removeRange b lo hi = (b, 0) ∧
    Bitmap.rangeCardinality b lo hi = 0 ∧ Bitmap.containsRange b lo hi = true := by
  simp [Bitmap.insertRange, Bitmap.removeRange, Bitmap.rangeCardinality, Bitmap.containsRange, h]

/-- Non-vacuity of `C16_ranges`: `5..5`, `7..=3`, `(Excluded 9, Excluded 9)`, `(Excluded MAX, Unbounded)`, `..0`. -/
example : convertRange u32Max (.incl 5) (.excl 5) = .error .empty
    ∧ convertRange u32Max (.incl 7) (.incl 3) = .error .startGreaterThanEnd
    ∧ convertRange u32Max (.excl 9) (.excl 9) = .error .startAndEndEqualExcluded
    ∧ convertRange u32Max (.excl u32Max) .unb = .error .empty
    ∧ convertRange u32Max .unb (.excl 0) = .error .empty := ⟨rfl, rfl, rfl, rfl, rfl⟩

/-- a bound whose value fits the integer type -/
def Bound.fits (maxV : Nat) : Bound → Prop
  | .incl n => n ≤ maxV
  | .excl n => n ≤ maxV
  | .unb => True

/-- `convert_range_to_inclusive` succeeds exactly on the non-empty intervals, with the interval's end points
    (`Spec.interval` is the spec-side meaning of a bound pair). -/
theorem C16_convertRange_ok (maxV : Nat) (lo hi : Bound) (hlo : Bound.fits maxV lo) (hhi : Bound.fits maxV hi)
    (a b : Nat) : convertRange maxV lo hi = .ok (a, b) ↔ Spec.interval maxV lo hi = some (a, b) := by
  have hl : Roaring.Bound.le maxV lo := by cases lo <;> exact hlo
  have hh : Roaring.Bound.le maxV hi := by cases hi <;> exact hhi
  have := convertRange_interval maxV lo hi hl hh
  cases hc : convertRange maxV lo hi with
  | ok r => rw [hc] at this; simp only [Except.ok.injEq]; rw [← this]; simp
  | error e => rw [hc] at this; rw [← this]; simp

/-- Non-vacuity: `(Excluded 3, Included 10)` is `[4, 10]`, `..` is the whole universe. -/
example : convertRange u32Max (.excl 3) (.incl 10) = .ok (4, 10) ∧ convertRange u32Max .unb .unb = .ok (0, u32Max) :=
  ⟨rfl, rfl⟩

/-- The conversion fails exactly when the interval is empty. -/
theorem C16_convertRange_error (maxV : Nat) (lo hi : Bound) (hlo : Bound.fits maxV lo) (hhi : Bound.fits maxV hi) :
    (∃ e, convertRange maxV lo hi = .error e) ↔ Spec.interval maxV lo hi = none := by
  constructor
  · rintro ⟨e, he⟩
    cases hi' : Spec.interval maxV lo hi with
    | none => rfl
    | some p =>
      have := (C16_convertRange_ok maxV lo hi hlo hhi p.1 p.2).2 hi'
      rw [he] at this; cases this
  · intro hn
    cases hc : convertRange maxV lo hi with
    | error e => exact ⟨e, rfl⟩
    | ok p =>
      have := (C16_convertRange_ok maxV lo hi hlo hhi p.1 p.2).1 hc
      rw [hn] at this; cases this

/-- `convert_range_to_inclusive` never fails on a non-empty range: if some `x ≤ maxV` lies within the
    bounds, the conversion succeeds and `x` is inside the resulting inclusive interval. -/
theorem C16_convertRange_nonempty (maxV : Nat) (lo hi : Bound) (hlo : Bound.fits maxV lo) (hhi : Bound.fits maxV hi)
    (x : Nat) (hx : x ≤ maxV) (hm : Spec.Bound.mem lo hi x) :
    ∃ a b, convertRange maxV lo hi = .ok (a, b) ∧ a ≤ x ∧ x ≤ b := by
  suffices h : ∃ a b, Spec.interval maxV lo hi = some (a, b) ∧ a ≤ x ∧ x ≤ b by
    obtain ⟨a, b, h1, h2, h3⟩ := h
    exact ⟨a, b, (C16_convertRange_ok maxV lo hi hlo hhi a b).2 h1, h2, h3⟩
  cases hi' : Spec.interval maxV lo hi with
  | none => exact absurd ⟨hm, hx⟩ (Spec.interval_none maxV lo hi hi' x)
  | some p =>
    obtain ⟨a, b⟩ := p
    have := (Spec.interval_some maxV lo hi a b hi').2.2 x
    exact ⟨a, b, rfl, (this.mpr ⟨hm, hx⟩).1, (this.mpr ⟨hm, hx⟩).2⟩

/-- Non-vacuity: 7 lies in `(Excluded 3, Excluded 8)`. -/
example : Spec.Bound.mem (.excl 3) (.excl 8) 7 := by decide

/-- `Debug` formatting is total: for a well-formed bitmap neither `unwrap()` of `fmt.rs` can fail
    (`min()` / `max()` are `Some` whenever the summary branch `len() >= 16` is taken); for fewer than 16
    values the list branch has no partial operation at all. -/
theorem C16_debug_total (b : Bitmap) (hwf : Bitmap.WF b) : (Bitmap.debugFmt b).isSome = true := by
  have h := (bitmapWF_iff b).2 hwf
  unfold Bitmap.debugFmt
  split
  · rfl
  · rename_i hlen
    cases b with
    | nil => simp [Bitmap.len] at hlen
    | cons c cs =>
      have hmin : (Bitmap.min? (c :: cs)).isSome = true := by
        have := (store_minmax_isSome c.store (h.2 c (by simp)).2).1
        simp only [Bitmap.min?, List.head?_cons, Container.min?]
        cases hm : c.store.min? with
        | none => rw [hm] at this; simp at this
        | some v => rfl
      have hmax : (Bitmap.max? (c :: cs)).isSome = true := by
        cases hl : (c :: cs).getLast? with
        | none => simp at hl
        | some c' =>
          have hmem : c' ∈ c :: cs := List.mem_of_getLast? hl
          have := (store_minmax_isSome c'.store (h.2 c' hmem).2).2
          simp only [Bitmap.max?, hl, Container.max?]
          cases hm : c'.store.max? with
          | none => rw [hm] at this; simp at this
          | some v => rfl
      cases h1 : Bitmap.min? (c :: cs) with
      | none => rw [h1] at hmin; simp at hmin
      | some lo =>
        cases h2 : Bitmap.max? (c :: cs) with
        | none => rw [h2] at hmax; simp at hmax
        | some hi => rfl

/-- Non-vacuity: a well-formed 17-element bitmap takes the summary branch. -/
example : Bitmap.WF [⟨0, .array (List.range 17)⟩] ∧
    Bitmap.debugFmt [⟨0, .array (List.range 17)⟩] = some "RoaringBitmap<17 values between 0 and 16>" := by
  refine ⟨(bitmapWF_iff _).1 ⟨by decide, ?_⟩, by decide⟩
  intro c hc
  simp at hc
  subst hc
  exact ⟨by decide, by decide, by decide, by decide⟩

/-- `Debug` output is determined by the element set: it is the SPEC string (`Spec.debugString`). -/
theorem C16_debug_spec (b : Bitmap) (hwf : Bitmap.WF b) :
    Bitmap.debugFmt b = some (Spec.debugString (Bitmap.elems b)) := by
  unfold Bitmap.debugFmt Spec.debugString
  rw [Bitmap.len_spec b hwf, Bitmap.min?_spec b hwf, Bitmap.max?_spec b hwf]
  unfold Spec.min? Spec.max?
  split
  · rfl
  · rename_i hlen
    cases hs : Bitmap.elems b with
    | nil => rw [hs] at hlen; simp at hlen
    | cons x xs =>
      have hne : x :: xs ≠ [] := by simp
      rw [List.getLast?_eq_some_getLast hne]
      rfl

/-! ### `Debug` as the driver executes it: the list branch runs the mirrored iterators (fidelity audit)

`Bitmap.debugFmtM` / `Treemap.debugFmtM` (Fmt.lean, TreemapFmt.lean) print `self.iter().collect::<Vec<_>>()` by
driving the mirrored `bitmap::Iter` / `treemap::Iter` with `next()` until `None`, as `Vec::from_iter` does; the
definitions above (`debugFmt`) print the abstraction `elems`.  They agree on every well-formed value. -/

/-- **mirror (32-bit).** -/
theorem C16_debug_mirror_eq (b : Bitmap) (hwf : Bitmap.WF b) : Bitmap.debugFmtM b = Bitmap.debugFmt b :=
  Fidelity.debugFmtM_eq b ⟨⟨hwf.1, by
    intro c hc
    have hst := (hwf.2 c hc).2
    unfold Container.IterOK Store.IterOK
    cases hs : c.store with
    | array v => rw [hs] at hst; exact hst.1
    | bitmap bs => rw [hs] at hst; exact ⟨hst.1.length, hst.1.words, hst.1.len⟩⟩, fun c hc => (hwf.2 c hc).1⟩

/-- `Debug` formatting — the executed definition — is total and is the SPEC string of the element set. -/
theorem C16_debug_mirror_total (b : Bitmap) (hwf : Bitmap.WF b) : (Bitmap.debugFmtM b).isSome = true := by
  rw [C16_debug_mirror_eq b hwf]; exact C16_debug_total b hwf

theorem C16_debug_mirror_spec (b : Bitmap) (hwf : Bitmap.WF b) :
    Bitmap.debugFmtM b = some (Spec.debugString (Bitmap.elems b)) := by
  rw [C16_debug_mirror_eq b hwf]; exact C16_debug_spec b hwf

/-- Non-vacuity: both branches of the executed definition on concrete well-formed values
    (3 values: the iterator is drained; 17 values: the summary). -/
example : Bitmap.debugFmtM [⟨0, .array [1, 2, 70]⟩] = some "RoaringBitmap<[1, 2, 70]>"
    ∧ Bitmap.debugFmtM [⟨0, .array (List.range 17)⟩] = some "RoaringBitmap<17 values between 0 and 16>" := by
  refine ⟨?_, by decide⟩
  rw [C16_debug_mirror_eq]
  · decide
  · refine (bitmapWF_iff _).1 ⟨by decide, ?_⟩
    intro c hc
    simp at hc
    subst hc
    exact ⟨by decide, by decide, by decide, by decide⟩

/-- **mirror (64-bit).** -/
theorem C16_tdebug_mirror_eq (t : Treemap) (h : Treemap.TWF t) : Treemap.debugFmtM t = Treemap.debugFmt t :=
  Fidelity.tdebugFmtM_eq t h

/-- **`Debug` of a `RoaringTreemap` is total and determined by the element set** — stated for the executed
    definition (`debugFmtM`): for a well-formed treemap neither `unwrap()` of treemap/fmt.rs can fail and the
    output is the SPEC string. -/
theorem C16_tdebug_spec (t : Treemap) (h : Treemap.TWF t) :
    Treemap.debugFmtM t = some (Spec.debugString64 (Treemap.elems t)) := by
  rw [C16_tdebug_mirror_eq t h]
  unfold Treemap.debugFmt Spec.debugString64
  rw [C10.C10_len t h, C10.C10_min t h, C10.C10_max t h]
  unfold Spec.min? Spec.max?
  split
  · rfl
  · rename_i hlen
    cases hs : Treemap.elems t with
    | nil => rw [hs] at hlen; simp at hlen
    | cons x xs =>
      have hne : x :: xs ≠ [] := by simp
      rw [List.getLast?_eq_some_getLast hne]
      rfl

theorem C16_tdebug_total (t : Treemap) (h : Treemap.TWF t) : (Treemap.debugFmtM t).isSome = true := by
  rw [C16_tdebug_spec t h]; rfl

/-- Non-vacuity: the three-partition treemap of C12 is well-formed; the executed formatter drains its iterator. -/
example : Treemap.TWF C12.tEx ∧
    Treemap.debugFmtM C12.tEx = some "RoaringTreemap<[1, 5, 8589934595, 8589934642, 17179869191]>" := by
  refine ⟨C12.tEx_TWF, ?_⟩
  rw [C16_tdebug_spec _ C12.tEx_TWF]
  decide

/-! ### the panic sites of the other operations (thin corollaries of C01 / C03 / C17 / C07's library) -/

/-- **Mutators are total.**  `insert`, `remove`, `insert_range`, `remove_range`, `push`, `append`, `extend`,
    `clear`, `remove_smallest`, `remove_biggest` on a well-formed value with `u32` arguments never panic, in
    either build configuration (no debug validation fires), and the value stays well-formed — so the next call
    cannot panic either. -/
theorem C16_mutators_total (dbg : Bool) (b : Bitmap) (h : Bitmap.WF b) (op : Op32) (hv : op.Valid) :
    ∃ b' r, Bitmap.step dbg b op = some (b', r) ∧ Bitmap.WF b' := by
  obtain ⟨b', h1, h2, _⟩ := C01.C01_step dbg b h op hv
  exact ⟨b', _, h1, h2⟩

/-- ... along every history starting from `new()`. -/
theorem C16_history_total (dbg : Bool) (ops : List Op32) (hv : ∀ op ∈ ops, op.Valid) :
    (Bitmap.run dbg Bitmap.new ops).isSome = true := by
  obtain ⟨b', h1, _⟩ := C01.C01_run dbg ops Bitmap.new C01.C01_new.1 hv
  rw [h1]; rfl

/-- the part of well-formedness that iteration relies on -/
theorem bitmapOK_of_wf (b : Bitmap) (h : Bitmap.WF b) : C03.BitmapOK b := by
  refine ⟨⟨h.1, ?_⟩, fun c hc => (h.2 c hc).1⟩
  intro c hc
  have hst := (h.2 c hc).2
  unfold Container.IterOK Store.IterOK
  cases hs : c.store with
  | array v => rw [hs] at hst; exact hst.1
  | bitmap bs => rw [hs] at hst; exact ⟨hst.1.length, hst.1.words, hst.1.len⟩

/-- **`range` / `into_range` panic exactly on the two documented inputs** (both bounds given and start > end, or
    both excluded and equal — `Bound.inverted`); on every other bound pair the cursor is created. -/
theorem C16_range_panics (b : Bitmap) (h : Bitmap.WF b) (lo hi : Bound)
    (hlo : C03.BoundU32 lo) (hhi : C03.BoundU32 hi) :
    Bitmap.range b lo hi = none ↔ Spec.Bound.inverted lo hi = true := by
  rw [(C03.C03_range b (bitmapOK_of_wf b h) lo hi hlo hhi).1]
  unfold Spec.range
  split <;> simp_all

/-- **`from_lsb0_bytes`**: no panic whenever `offset + 8·len ≤ 2^32` (any offset); a panic only past `2^32`; and
    for a multiple-of-8 offset a panic exactly for a non-empty slice that extends past `2^32` (the documented
    one). -/
theorem C16_lsb0_panics (dbg : Bool) (off : Nat) (bytes : List Nat) (hb : ∀ b ∈ bytes, b < 256) :
    (off + 8 * bytes.length ≤ 4294967296 → (Lsb0.fromLsb0 dbg off bytes).isSome = true) ∧
    (Lsb0.fromLsb0 dbg off bytes = none → off + 8 * bytes.length > 4294967296) ∧
    (off % 8 = 0 → (Lsb0.fromLsb0 dbg off bytes = none ↔ bytes ≠ [] ∧ off + 8 * bytes.length > 4294967296)) := by
  refine ⟨?_, C17.C17_panic_only_outside dbg off bytes hb, C17.C17_panics_iff_aligned dbg off bytes hb⟩
  intro hfit
  obtain ⟨b, h1, _⟩ := C17.C17 dbg off bytes hb hfit
  rw [h1]; rfl

/-- **`select(n)`** is `None` exactly when `n ≥ len()`: the store-level `select` inside never comes back empty
    for an index the container claims to have. -/
theorem C16_select_total (b : Bitmap) (h : Bitmap.WF b) (n : Nat) :
    (Bitmap.select b n = none ↔ (Bitmap.elems b).length ≤ n) ∧
    (n < Bitmap.len b → (Bitmap.select b n).isSome = true) := by
  rw [Bitmap.select_spec b h n, Bitmap.len_spec b h]
  unfold Spec.select
  refine ⟨by simp, ?_⟩
  intro hn
  rw [List.getElem?_eq_getElem hn]; rfl

/-- **`min()` / `max()`** are `None` exactly for the empty set. -/
theorem C16_min_max_total (b : Bitmap) (h : Bitmap.WF b) :
    (Bitmap.min? b = none ↔ Bitmap.elems b = []) ∧ (Bitmap.max? b = none ↔ Bitmap.elems b = []) := by
  rw [Bitmap.min?_spec b h, Bitmap.max?_spec b h]
  unfold Spec.min? Spec.max?
  exact ⟨List.head?_eq_none_iff, List.getLast?_eq_none_iff⟩


/-! ## No arithmetic overflow / underflow / out-of-range index on well-formed values (`Safe_*`, Safe.lean)

Running examples: `exBits` (a `BitmapStore` holding 0..=65535), `exB` (one array chunk, one full bitset chunk). -/

/-- (for the examples only) strict sortedness and bound-fitting of concrete values are decidable -/
local instance (l : List Nat) : Decidable (Sorted l) := by unfold Sorted; infer_instance
local instance (v : List Nat) : Decidable (Arr.Inv v) := by unfold Arr.Inv; infer_instance
local instance (m : Nat) (b : Bound) : Decidable (Roaring.Bound.le m b) := by
  cases b <;> unfold Roaring.Bound.le <;> infer_instance

/-- a well-formed two-chunk bitmap: chunk 0 = array `{1,2,3}`, chunk 2 = full bitset -/
def exB : Bitmap := [⟨0, .array [1, 2, 3]⟩, ⟨2, .bitmap BStore.full⟩]

theorem exB_wf : Bitmap.WF exB := by
  refine ⟨by decide, ?_⟩
  intro c hc
  simp only [exB, List.mem_cons, List.not_mem_nil, or_false] at hc
  rcases hc with rfl | rfl
  · exact ⟨by decide, by decide, by decide, by decide⟩
  · exact ⟨by decide, BStore.inv_full, by decide⟩

/-! ### (a) `BitmapStore` (bitmap_store.rs) -/

/-- `insert`: `self.bits[key]`, `1 << bit`, `>> bit`, `self.len += inserted` (bitmap_store.rs:106-114). -/
theorem C16_safe_bstore_insert (b : BStore) (hb : b.Inv) (i : Nat) (hi : i < 65536) : b.Safe_insert i :=
  BStore.safe_insert b hb i hi
example : BStore.full.Safe_insert 65535 := C16_safe_bstore_insert _ BStore.inv_full _ (by decide)
/-- the predicate has teeth: on a store whose cached `len` is wrong (`u64::MAX`) `self.len += 1` overflows -/
example : ¬ BStore.Safe_insert { len := wMax, bits := BStore.zeros } 5 := by decide +kernel

/-- `remove`: `self.bits[key]`, `1 << bit`, `self.len -= removed` (bitmap_store.rs:188-196). -/
theorem C16_safe_bstore_remove (b : BStore) (hb : b.Inv) (i : Nat) (hi : i < 65536) : b.Safe_remove i :=
  BStore.safe_remove b hb i hi
example : BStore.full.Safe_remove 0 := C16_safe_bstore_remove _ BStore.inv_full _ (by decide)
/-- teeth: with a cached `len` of 0 over a non-empty word, `self.len -= 1` underflows -/
example : ¬ BStore.Safe_remove { len := 0, bits := List.replicate 1024 wMax } 5 := by decide +kernel

/-- `contains`: `self.bits[key(index)] & (1 << bit(index))` (bitmap_store.rs:237-239). -/
theorem C16_safe_bstore_contains (b : BStore) (hb : b.Inv) (i : Nat) (hi : i < 65536) : b.Safe_contains i :=
  BStore.safe_contains b hb i hi
example : BStore.new.Safe_contains 65535 := C16_safe_bstore_contains _ BStore.inv_new _ (by decide)

/-- `insert_range`: word indexing, `1 << start_bit`, `1 << (end_bit + 1)`, `end - start + 1` in `u16`, the `u32` counter
    `existed`, `u64::from(end - start + 1) - u64::from(existed)`, `end as u64 - start as u64 + 1 - existed as u64`,
    `self.len += inserted` (bitmap_store.rs:116-161). -/
theorem C16_safe_bstore_insertRange (b : BStore) (hb : b.Inv) (s e : Nat) (hse : s ≤ e) (he : e < 65536) :
    b.Safe_insertRange s e := BStore.safe_insertRange b hb s e hse he
example : BStore.full.Safe_insertRange 0 65535 := C16_safe_bstore_insertRange _ BStore.inv_full _ _ (by decide) (by decide)
example : BStore.new.Safe_insertRange 63 64 := by decide +kernel

/-- `remove_range`: word indexing, the slices `self.bits[start_key + 1..end_key]`, `u64::MAX << start_bit`,
    `u64::MAX >> (63 - end_bit)`, the `u32` counter `removed`, `self.len -= removed` (bitmap_store.rs:198-235). -/
theorem C16_safe_bstore_removeRange (b : BStore) (hb : b.Inv) (s e : Nat) (hse : s ≤ e) (he : e < 65536) :
    b.Safe_removeRange s e := BStore.safe_removeRange b hb s e hse he
example : BStore.full.Safe_removeRange 1 65534 := C16_safe_bstore_removeRange _ BStore.inv_full _ _ (by decide) (by decide)

/-- `contains_range`: `end - start`, `1 << start_bit`, `64 - (end_bit + 1)` and the shift by it, the slice
    `self.bits[start_i..=end_i]` is in range and non-empty (`[] => unreachable!()`) (bitmap_store.rs:241-270). -/
theorem C16_safe_bstore_containsRange (b : BStore) (hb : b.Inv) (s e : Nat) (hse : s ≤ e) (he : e < 65536) :
    b.Safe_containsRange s e := BStore.safe_containsRange b hb s e hse he
example : BStore.full.Safe_containsRange 64 127 := C16_safe_bstore_containsRange _ BStore.inv_full _ _ (by decide) (by decide)

/-- `min` / `max` / `to_array_store`: `63 - bit.leading_zeros()` only on a non-zero word; the casts
    `(index * 64 + …) as u16`, `(trailing_zeros + 64 * index as u32) as u16` are lossless (bitmap_store.rs:280-315). -/
theorem C16_safe_bstore_min_max_toArray (b : BStore) (hb : b.Inv) : b.Safe_min ∧ b.Safe_max ∧ b.Safe_toArray :=
  ⟨BStore.safe_min b hb, BStore.safe_max b hb, BStore.safe_toArray b hb⟩
example : BStore.full.Safe_min ∧ BStore.full.Safe_max ∧ BStore.full.Safe_toArray :=
  C16_safe_bstore_min_max_toArray _ BStore.inv_full

/-- `rank`: `self.bits[..key]`, `self.bits[key]`, `63 - bit`, `<< (63 - bit)`, the `u64` sum (bitmap_store.rs:317-322). -/
theorem C16_safe_bstore_rank (b : BStore) (hb : b.Inv) (i : Nat) (hi : i < 65536) : b.Safe_rank i :=
  BStore.safe_rank b hb i hi
example : BStore.full.Safe_rank 65535 := C16_safe_bstore_rank _ BStore.inv_full _ (by decide)

/-- the word loops `value &= value - 1` (`select(value, n)`, `remove_smallest`) and
    `*word &= !(1 << (63 - word.leading_zeros()))` (`remove_biggest`) may run up to `count_ones()` times:
    the word is non-zero at every iteration (bitmap_store.rs:384, :407, :425). -/
theorem C16_safe_word_loops (w : Nat) (hw : w < 2^64) (n : Nat) (hn : n ≤ popcount w) :
    Safe_popLowN w n ∧ Safe_popHighN w n := ⟨safe_popLowN n w hw hn, safe_popHighN n w hw hn⟩
example : Safe_popLowN 0b1011 3 ∧ Safe_popHighN 0b1011 3 := by decide
/-- teeth: a fourth iteration would compute `0 - 1` / `63 - 64` -/
example : ¬ Safe_popLowN 0b1011 4 ∧ ¬ Safe_popHighN 0b1011 4 := by decide

/-- `select` (every `n : u16`, also `n ≥ len`): `select(value, n)` runs `value &= value - 1` only `n < count_ones`
    times, `n -= len` is guarded, `(64 * key as u64 + index) as u16` is lossless (bitmap_store.rs:324-337, :422-428). -/
theorem C16_safe_bstore_select (b : BStore) (hb : b.Inv) (n : Nat) : b.Safe_select n := BStore.safe_select b hb n
example : BStore.full.Safe_select 65535 := C16_safe_bstore_select _ BStore.inv_full _

/-- `remove_smallest` / `remove_biggest` (every `n : u64`): `self.len -= clear_bits` behind the early return,
    `clear_bits -= count`, `*word - 1` and `63 - word.leading_zeros()` only on non-zero words
    (bitmap_store.rs:374-417). -/
theorem C16_safe_bstore_removeSmallest_Biggest (b : BStore) (hb : b.Inv) (n : Nat) :
    b.Safe_removeSmallest n ∧ b.Safe_removeBiggest n :=
  ⟨BStore.safe_removeSmallest b hb n, BStore.safe_removeBiggest b hb n⟩
example : BStore.full.Safe_removeSmallest 100 ∧ BStore.full.Safe_removeBiggest 100 :=
  C16_safe_bstore_removeSmallest_Biggest _ BStore.inv_full _

/-- `op_bitmaps` (`|=`, `&=`, `-=`, `^=` with a bitset): `bits1.len += index1.count_ones() as u64`
    (bitmap_store.rs:634-640). -/
theorem C16_safe_bstore_opBitmaps (f : Nat → Nat → Nat) (hf : ∀ x y, x < 2^64 → y < 2^64 → f x y < 2^64)
    (a b : BStore) (ha : a.Inv) (hb : b.Inv) : BStore.Safe_opBitmaps f a b := BStore.safe_opBitmaps f hf a b ha hb
example : BStore.Safe_opBitmaps (· ||| ·) BStore.full BStore.new :=
  C16_safe_bstore_opBitmaps _ (fun _ _ hx hy => Nat.or_lt_two_pow hx hy) _ _ BStore.inv_full BStore.inv_new

/-- `BitOrAssign<&ArrayStore>`: `self.len += (old_w ^ new_w) >> bit` at every step (bitmap_store.rs:648-657). -/
theorem C16_safe_bstore_orArr (b : BStore) (hb : b.Inv) (v : List Nat) (hv : ∀ x ∈ v, x < 65536) :
    BStore.Safe_orArr b v := BStore.safe_orArr v b hb hv
example : BStore.Safe_orArr BStore.full [0, 5, 65535] := C16_safe_bstore_orArr _ BStore.inv_full _ (by decide)

/-- `SubAssign<&ArrayStore>`: `self.len -= (old_w ^ new_w) >> bit` at every step (bitmap_store.rs:673-683). -/
theorem C16_safe_bstore_subArr (b : BStore) (hb : b.Inv) (v : List Nat) (hv : ∀ x ∈ v, x < 65536) :
    BStore.Safe_subArr b v := BStore.safe_subArr v b hb hv
example : BStore.Safe_subArr BStore.new [0, 5, 65535] := C16_safe_bstore_subArr _ BStore.inv_new _ (by decide)

/-- `BitXorAssign<&ArrayStore>`: `self.len as i64`, `len += 1 - 2 * (…) as i64` stays within `0..=65536` at every
    step, so `len as u64` is lossless (bitmap_store.rs:692-703). -/
theorem C16_safe_bstore_xorArr (b : BStore) (hb : b.Inv) (v : List Nat) (hv : ∀ x ∈ v, x < 65536) :
    BStore.Safe_xorArr b v := BStore.safe_xorArr b hb v hv
example : BStore.Safe_xorArr BStore.new [7, 7, 7] := C16_safe_bstore_xorArr _ BStore.inv_new _ (by decide)

/-- `intersection_len_bitmap` / `intersection_len_array`: indexing, `1 << bit`, the `u64` sums
    (bitmap_store.rs:339-353). -/
theorem C16_safe_bstore_interLen (a b : BStore) (ha : a.Inv) (hb : b.Inv) (v : List Nat) (hv : Arr.Inv v) :
    a.Safe_interLenBitmap b ∧ b.Safe_interLenArray v :=
  ⟨BStore.safe_interLenBitmap a b ha hb, BStore.safe_interLenArray b hb v hv⟩
example : BStore.full.Safe_interLenBitmap BStore.full ∧ BStore.full.Safe_interLenArray [1, 2] :=
  C16_safe_bstore_interLen _ _ BStore.inv_full BStore.inv_full _ ⟨by decide, by decide⟩

/-- `BitmapIter::next` / `next_back` / `advance_to` / `advance_back_to`: `self.key + 1`, the yielded
    `64 * self.key + index` / `64 * self.key_back + index` fit `u16`; `1 << bit`, `u64::MAX >> (64 - bit - 1)`
    (bitmap_store.rs:481-618; `value - 1`, `key_back -= 1`, `63 - leading_zeros` sit behind explicit tests that the
    model's `BIter.next` / `nextBack` repeat). -/
theorem C16_safe_biter (it : BIter) (hi : it.Inv) (index : Nat) :
    it.Safe_next ∧ it.Safe_nextBack ∧ BIter.Safe_advance index :=
  ⟨BIter.safe_next it hi, BIter.safe_nextBack it hi, BIter.safe_advance index⟩
example : (BIter.new BStore.full.bits).Safe_next ∧ (BIter.new BStore.full.bits).Safe_nextBack ∧ BIter.Safe_advance 65535 :=
  C16_safe_biter _ (BIter.new_inv _ BStore.inv_full.words) _

/-! ### (b) `ArrayStore` (array_store/mod.rs) -/

/-- `insert` / `remove`: `Vec::insert(loc, …)` gets `loc ≤ len`, `Vec::remove(loc)` gets `loc < len`
    (array_store/mod.rs:85-87, :134-136) — for every vector. -/
theorem C16_safe_array_bsearch (v : List Nat) (x : Nat) : Arr.Safe_bsearch v x := Arr.safe_bsearch v x

/-- `insert_range`: `self.vec[pos_start..]`, `splice(pos_start..pos_end, …)` with `pos_start ≤ pos_end ≤ len`,
    `end as u64 - start as u64 + 1 - dropped.len() as u64` (array_store/mod.rs:89-107). -/
theorem C16_safe_array_insertRange (v : List Nat) (hv : Arr.Inv v) (s e : Nat) (hse : s ≤ e) :
    Arr.Safe_insertRange v s e := Arr.safe_insertRange v hv s e hse
example : Arr.Safe_insertRange [1, 5, 9, 65535] 4 9 := C16_safe_array_insertRange _ ⟨by decide, by decide⟩ _ _ (by decide)
/-- teeth: on a vector with a duplicate the subtraction `… + 1 - dropped.len()` underflows -/
example : ¬ Arr.Safe_insertRange [1, 2, 2, 2, 3] 2 3 := by decide

/-- `remove_range`: `self.vec[pos_start..]`, `drain(pos_start..pos_end)`, `pos_end - pos_start`
    (array_store/mod.rs:138-151). -/
theorem C16_safe_array_removeRange (v : List Nat) (hv : Arr.Inv v) (s e : Nat) : Arr.Safe_removeRange v s e :=
  Arr.safe_removeRange v hv s e
example : Arr.Safe_removeRange [1, 5, 9, 65535] 4 9 := C16_safe_array_removeRange _ ⟨by decide, by decide⟩ _ _

/-- `contains_range`: `end - start`, `start_i + range_count - 1` (array_store/mod.rs:166-181). -/
theorem C16_safe_array_containsRange (v : List Nat) (s e : Nat) (hse : s ≤ e) : Arr.Safe_containsRange v s e :=
  Arr.safe_containsRange v s e hse
example : Arr.Safe_containsRange [1, 2, 3] 0 65535 := C16_safe_array_containsRange _ _ _ (by decide)

/-- `to_bitmap_store`: `bits[key(index)] |= 1 << bit(index)` and, in a debug build, the `unwrap()` of
    `BitmapStore::from_unchecked` (array_store/mod.rs:224-232, bitmap_store.rs:99). -/
theorem C16_safe_array_toBitmap (v : List Nat) (hv : Arr.Inv v) : Arr.Safe_toBitmap v := Arr.safe_toBitmap v hv
example : Arr.Safe_toBitmap [0, 64, 65535] := C16_safe_array_toBitmap _ ⟨by decide, by decide⟩

/-- `ArrayStore::remove_smallest` / `remove_biggest` (`rotate_left(n)`, `self.vec.len() - n as usize`,
    array_store/mod.rs:153-160) are safe exactly for `n ≤ len`; this is NOT implied by the vector's invariant
    (they are crate-private: see `C16_safe_removeSmallest` for the callers). -/
theorem C16_safe_array_removeN_iff (v : List Nat) (n : Nat) : Arr.Safe_removeN v n ↔ n ≤ v.length := Iff.rfl
example : Arr.Safe_removeN [1, 2] 2 ∧ ¬ Arr.Safe_removeN [1, 2] 3 := by decide

/-! ### (c) `Store` / `Container` / `RoaringBitmap` (store/mod.rs, container.rs, inherent.rs, util.rs) -/

/-- Store dispatch: every `Store::{insert, remove, insert_range, remove_range, contains_range, rank, select}` call on a
    structurally valid store with `u16` arguments (`s ≤ e` for the ranges: the callers never pass an empty one). -/
theorem C16_safe_store (st : Store) (h : st.Inv) (i s e n : Nat) (hi : i < 65536) (hse : s ≤ e) (he : e < 65536) :
    st.Safe_insert i ∧ st.Safe_remove i ∧ st.Safe_insertRange s e ∧ st.Safe_removeRange s e ∧
    st.Safe_containsRange s e ∧ st.Safe_rank i ∧ st.Safe_select n :=
  ⟨Store.safe_insert st h i hi, Store.safe_remove st h i hi, Store.safe_insertRange st h s e hse he,
   Store.safe_removeRange st h s e hse he, Store.safe_containsRange st h s e hse he, Store.safe_rank st h i hi,
   Store.safe_select st h n⟩
example : (Store.bitmap BStore.full).Safe_insertRange 3 70 ∧ (Store.array [1, 2]).Safe_removeRange 3 70 :=
  ⟨(C16_safe_store (.bitmap BStore.full) BStore.inv_full 0 3 70 0 (by decide) (by decide) (by decide)).2.2.1,
   (C16_safe_store (.array [1, 2]) ⟨by decide, by decide⟩ 0 3 70 0 (by decide) (by decide) (by decide)).2.2.2.1⟩

/-- `Container::insert_range`: `range.len() as u64`, the early `to_bitmap_store`, the store call
    (container.rs:59-69); `ensure_correct_store` (container.rs:177-190). -/
theorem C16_safe_container_insertRange (c : Container) (h : c.store.Inv) (s e : Nat) (hse : s ≤ e) (he : e < 65536) :
    c.Safe_insertRange s e ∧ c.Safe_ensureCorrectStore :=
  ⟨Container.safe_insertRange c h s e hse he, Container.safe_ensureCorrectStore c h⟩
example : (Container.mk 7 (.array [1, 2, 3])).Safe_insertRange 0 65535 :=
  (C16_safe_container_insertRange ⟨7, .array [1, 2, 3]⟩ ⟨by decide, by decide⟩ _ _ (by decide) (by decide)).1

/-- `Container::remove_smallest` / `remove_biggest`: `bits.len() - n` and the store calls are safe for `n ≤ len`
    (container.rs:110-138). -/
theorem C16_safe_container_removeN (c : Container) (h : c.store.Inv) (n : Nat) (hn : n ≤ c.len) :
    c.Safe_removeSmallest n ∧ c.Safe_removeBiggest n :=
  ⟨Container.safe_removeSmallest c h n hn, Container.safe_removeBiggest c h n hn⟩
example : (Container.mk 2 (.bitmap BStore.full)).Safe_removeSmallest 65000 :=
  (C16_safe_container_removeN ⟨2, .bitmap BStore.full⟩ BStore.inv_full 65000 (by decide)).1

/-- `util::split` / `util::join`: `(value >> 16) as u16` is lossless, `(u32::from(high) << 16) + u32::from(low)` does
    not overflow (bitmap/util.rs:6-15). -/
theorem C16_safe_split_join (v k i : Nat) (hv : v < 4294967296) (hk : k < 65536) (hi : i < 65536) :
    Bitmap.Safe_split v ∧ Bitmap.Safe_join k i := ⟨Bitmap.safe_split v hv, Bitmap.safe_join k i hk hi⟩
example : Bitmap.Safe_split 4294967295 ∧ Bitmap.Safe_join 65535 65535 := by decide

/-- `binary_search_by_key` results used as indices (`self.containers[loc]`, `get_unchecked(i)`, `containers[..i]`,
    `containers[i..]`) and `find_container_by_key` (`Vec::insert(loc, …)`, then `self.containers[loc]`) are in range
    — for every container vector (inherent.rs:190-213, :248, :263, :272, :352, :426, :466, :529, :542, :699-702). -/
theorem C16_safe_search (b : Bitmap) (key : Nat) : Bitmap.Safe_search b key ∧ Bitmap.Safe_findContainerByKey b key :=
  ⟨Bitmap.safe_search b key, Bitmap.safe_findContainerByKey b key⟩
example : Bitmap.Safe_findContainerByKey exB 1 := by decide +kernel

/-- `len`: the `u64` sum (inherent.rs:629-631); it is at most `2^32`. -/
theorem C16_safe_len (b : Bitmap) (h : b.WF) : Bitmap.Safe_len b ∧ Bitmap.len b ≤ 4294967296 :=
  ⟨Bitmap.safe_len b h, Bitmap.wf_len_le b h⟩
example : Bitmap.Safe_len exB := (C16_safe_len exB exB_wf).1

/-- `rank`: `get_unchecked(i)`, `self.containers[..i]`, `rank(index) + sum::<u64>()` (inherent.rs:687-704). -/
theorem C16_safe_rank (b : Bitmap) (h : b.WF) (v : Nat) (hv : v < 4294967296) : Bitmap.Safe_rank b v :=
  Bitmap.safe_rank b h v hv
example : Bitmap.Safe_rank exB 4294967295 := C16_safe_rank exB exB_wf _ (by decide)

/-- `select`: `n -= len` only when `len ≤ n`, `n as u16` only when `n < len ≤ 65536` (inherent.rs:724-739). -/
theorem C16_safe_select (b : Bitmap) (h : b.WF) (n : Nat) : Bitmap.Safe_select b n :=
  Bitmap.safe_select b n h.storesInv
example : Bitmap.Safe_select exB 65000 := C16_safe_select exB exB_wf _

/-- `range_cardinality`: `&self.containers[i]`, `start_low - 1` behind `start_low != 0`,
    `cardinality -= container.rank(start_low - 1)` (at most what was just added), the `u64` sums, `&self.containers[i..]`
    (inherent.rs:512-556). -/
theorem C16_safe_rangeCardinality (b : Bitmap) (h : b.WF) (lo hi : Bound)
    (hlo : Bound.le u32Max lo) (hhi : Bound.le u32Max hi) : Bitmap.Safe_rangeCardinality b lo hi :=
  Bitmap.safe_rangeCardinality b h lo hi hlo hhi
example : Bitmap.Safe_rangeCardinality exB (.incl 2) (.excl 140000) :=
  C16_safe_rangeCardinality exB exB_wf _ _ (by decide) (by decide)

/-- `contains_range`: `end_high - start_high`, `&self.containers[i..]`, `containers[0]`, the `[first, rest @ .., last]`
    pattern (never `unreachable!`), the container calls (inherent.rs:451-490). -/
theorem C16_safe_containsRange (b : Bitmap) (h : b.WF) (lo hi : Bound)
    (hlo : Bound.le u32Max lo) (hhi : Bound.le u32Max hi) : Bitmap.Safe_containsRange b lo hi :=
  Bitmap.safe_containsRange b h lo hi hlo hhi
example : Bitmap.Safe_containsRange exB (.incl 2) .unb := C16_safe_containsRange exB exB_wf _ _ (by decide) (by decide)

/-- `insert_range`, the whole method: `util::split`, every `find_container_by_key` index is valid, the loop
    `start_container_key..end_container_key`, every `Container::insert_range(low..=u16::MAX)` / `(0..=end_index)` call on
    the evolving container vector, `inserted += …` (inherent.rs:230-275 with container.rs:59-69 and the store code
    below it). -/
theorem C16_safe_insertRange (b : Bitmap) (h : b.WF) (lo hi : Bound)
    (hlo : Bound.le u32Max lo) (hhi : Bound.le u32Max hi) : Bitmap.Safe_insertRange b lo hi :=
  Bitmap.safe_insertRange b h lo hi hlo hhi
example : Bitmap.Safe_insertRange exB (.excl 2) (.incl 400000) :=
  C16_safe_insertRange exB exB_wf _ _ (by decide) (by decide)

/-- `insert_range` / `remove_range`: the `u64` counters `inserted += …`, `removed += …`
    (inherent.rs:263, :272, :398); the indices come from `find_container_by_key` (`C16_safe_search`), the container
    calls get `s ≤ e ≤ u16::MAX` (`C16_safe_container_insertRange`, `C16_safe_store`). -/
theorem C16_safe_range_counters (b : Bitmap) (h : b.WF) (lo hi : Bound)
    (hlo : Bound.le u32Max lo) (hhi : Bound.le u32Max hi) :
    Bitmap.Safe_insertRangeCount b lo hi ∧ Bitmap.Safe_removeRangeCount b lo hi :=
  ⟨Bitmap.safe_insertRangeCount b h lo hi hlo hhi, Bitmap.safe_removeRangeCount b h lo hi hlo hhi⟩
example : Bitmap.Safe_insertRangeCount exB .unb .unb := (C16_safe_range_counters exB exB_wf _ _ (by decide) (by decide)).1

/-- `remove_smallest` (every `n : u64`): `n -= container_len` is guarded and `Container::remove_smallest` is only called
    with `0 < n < container.len()`, which discharges `bits.len() - n` (container.rs:113) and
    `rotate_left(n)` / `self.vec.len() - n as usize` (array_store/mod.rs:154-155) (inherent.rs:756-776). -/
theorem C16_safe_removeSmallest (b : Bitmap) (h : b.WF) (n : Nat) : Bitmap.Safe_removeSmallest b n :=
  Bitmap.safe_removeSmallest b n h.storesInv
example : Bitmap.Safe_removeSmallest exB 5 := C16_safe_removeSmallest exB exB_wf _

/-- `remove_biggest` (every `n : u64`), same for the scan from the back (inherent.rs:791-811, container.rs:128,
    array_store/mod.rs:159). -/
theorem C16_safe_removeBiggest (b : Bitmap) (h : b.WF) (n : Nat) : Bitmap.Safe_removeBiggest b n :=
  Bitmap.safe_removeBiggest b n h.storesInv
example : Bitmap.Safe_removeBiggest exB 65537 := C16_safe_removeBiggest exB exB_wf _

/-- `serialize_into`: `self.containers.len() as u32`, `(container.len() - 1) as u16` (`1 ≤ len ≤ 65536`), and the
    running `offset: u32` (`8 + 8·n + Σ sizes ≤ 8 + 8200·65536 < 2^32`) (serialization.rs:66-86);
    `serialized_size` fits even a 32-bit `usize` (serialization.rs:35-47). -/
theorem C16_safe_serialize (b : Bitmap) (h : b.WF) : Bitmap.Safe_serialize b ∧ Bitmap.Safe_serializedSize b :=
  ⟨Bitmap.safe_serialize b h, Bitmap.safe_serializedSize b h⟩
example : Bitmap.Safe_serialize exB := (C16_safe_serialize exB exB_wf).1
/-- teeth: an empty container would make `(container.len() - 1) as u16` underflow -/
example : ¬ Bitmap.Safe_serialize [⟨0, .array []⟩] := by decide

/-- `statistics`: the `u32` counters and `n_values_array_containers += array.len() as u32`
    (`≤ 65536 · 4096 = 2^28`), the `u64` sums (statistics.rs:27-70). -/
theorem C16_safe_statistics (b : Bitmap) (h : b.WF) : Bitmap.Safe_statistics b := Bitmap.safe_statistics b h
example : Bitmap.Safe_statistics exB := C16_safe_statistics exB exB_wf

/-! ### `RoaringTreemap` (treemap/inherent.rs, treemap/util.rs) -/

/-- treemap `util::split` / `util::join`: `(value >> 32) as u32` lossless, `u64::from(high) << 32` loses no bit
    (treemap/util.rs:4-11). -/
theorem C16_safe_treemap_split_join (v hi lo : Nat) (hv : v < 2^64) (hhi : hi < 4294967296) (hlo : lo < 4294967296) :
    Treemap.Safe_split v ∧ Treemap.Safe_join hi lo := ⟨Treemap.safe_split v hv, Treemap.safe_join hi lo hhi hlo⟩
example : Treemap.Safe_split 18446744073709551615 ∧ Treemap.Safe_join 4294967295 4294967295 := by decide

/-- treemap `insert_range` over an existing inner partition: `full_bitmap.len() - entry.insert(full_bitmap).len()` does
    not underflow, a well-formed partition holds at most `2^32 = full().len()` values (treemap/inherent.rs:100). -/
theorem C16_safe_treemap_insertRange_full (old : Bitmap) (h : old.WF) : Treemap.Safe_insertRangeFull old :=
  Treemap.safe_insertRangeFull old h
example : Treemap.Safe_insertRangeFull exB := C16_safe_treemap_insertRange_full exB exB_wf

/-- `RoaringTreemap::len` (`.map(RoaringBitmap::len).sum()`, treemap/inherent.rs:327-329) does not overflow `u64`
    exactly when the treemap holds fewer than `2^64` values … -/
theorem C16_safe_treemap_len_iff (t : Treemap) (h : Treemap.PartsWF t) :
    Treemap.Safe_len t ↔ (Treemap.elems t).length < 2^64 := Treemap.safe_len_iff t h

/-- … in particular whenever it has fewer than `2^32` partitions (a treemap with all `2^32` partitions needs at
    least `2^32` heap allocations). -/
theorem C16_safe_treemap_len (t : Treemap) (h : Treemap.PartsWF t) (hl : t.length < 4294967296) : Treemap.Safe_len t :=
  Treemap.safe_len t h hl
example : Treemap.Safe_len [(0, exB), (4294967295, exB)] := by
  refine C16_safe_treemap_len _ ?_ (by decide)
  intro p hp
  simp only [List.mem_cons, List.not_mem_nil, or_false] at hp
  rcases hp with rfl | rfl <;> exact ⟨by decide, exB_wf⟩

/-- **Observation (not reachable in memory).**  For the one treemap that holds all `2^64` values the sum in `len()` is
    exactly `2^64`: it overflows `u64` (panic with overflow checks, `0` without).  The same value is reached by
    `rank(u64::MAX)` and by the counter of `insert_range(..)` into an empty treemap (treemap/inherent.rs:86, :328, :398).
    It needs `2^32` full partitions (`2^32 × 65536 × 8 KiB = 2^61` bytes), so it is excluded by the property's
    "fits in memory" clause. -/
theorem C16_treemap_len_2p64_observation (t : Treemap) (h : Treemap.PartsWF t)
    (hall : (Treemap.elems t).length = 2^64) : ¬ Treemap.Safe_len t := by
  rw [C16_safe_treemap_len_iff t h, hall]; exact Nat.lt_irrefl _

/-- `RoaringTreemap::rank`: the `u64` sum (treemap/inherent.rs:389-399), for fewer than `2^32` partitions. -/
theorem C16_safe_treemap_rank (t : Treemap) (h : Treemap.PartsWF t) (hl : t.length < 4294967296) (v : Nat)
    (hv : v < 2^64) : Treemap.Safe_rank t v := Treemap.safe_rank t h hl v hv

/-- `RoaringTreemap::select`: `n -= len` guarded, `n as u32` lossless, `bitmap.select(n as u32).unwrap()` never
    panics, `(key as u64) << 32 | …` loses no bit (treemap/inherent.rs:418-428). -/
theorem C16_safe_treemap_select (t : Treemap) (h : Treemap.PartsWF t) (n : Nat) : Treemap.Safe_select t n :=
  Treemap.safe_select t n h
example : Treemap.Safe_select [(0, exB), (4294967295, exB)] 65540 := by
  refine C16_safe_treemap_select _ ?_ _
  intro p hp
  simp only [List.mem_cons, List.not_mem_nil, or_false] at hp
  rcases hp with rfl | rfl <;> exact ⟨by decide, exB_wf⟩

/-! ## Codec area (SafeCodec.lean)

The decoders, the intersection with a serialized bitmap, `from_lsb0_bytes` and the treemap codec: every `+`, `-`, `*`,
`<<`, `>>`, index / slice range and narrowing cast of these functions, listed with `file:line` in
`RoaringModel/SafeCodec.lean`.  The decoder theorems quantify over ARBITRARY input bytes (no conformance hypothesis):
the arithmetic executed before the decoder returns — with a value or with an `Err` — is panic-free on every input.

Running examples: `runStream` (a conformant stream with one run chunk: cookie `12347`, run bitmap `[1]`, one
description, no offset table, the run `10..=14`), `arrStream` (two array chunks, cookie `12346`, with offsets). -/

/-- cookie `12347 | (1-1) << 16`, run bitmap `0b1`, description `(key 0, card-1 = 4)`, `runs = 1`, run `(10, 4)` -/
def runStream : List Nat := [59, 48, 0, 0,  1,  0, 0, 4, 0,  1, 0,  10, 0, 4, 0]

/-- the serialization of `{1, 2, 3} ∪ {5·65536 + 7}` -/
def arrStream : List Nat := Bitmap.serialize [⟨0, .array [1, 2, 3]⟩, ⟨5, .array [7]⟩]

example : deserialize true true runStream = .ok ([⟨0, .array [10, 11, 12, 13, 14]⟩], []) := by rfl

/-- **`deserialize_from` / `deserialize_unchecked_from` (`deserialize_from_impl`, bitmap/serialization.rs:170-271)** on
    ANY byte string, in both build profiles: `(cookie >> 16) + 1`, `(size + 7) / 8`, `size * 4`, `u64::from(card) + 1`,
    `bm[i / 8] & (1 << (i % 8))`, `cardinality as usize`, the `usize` sum of the run lengths, every
    `Store::insert_range` of the run replay on the evolving store (array_store/mod.rs:89-107, bitmap_store.rs:116-161),
    the `u64` sum of `BitmapStore::try_from`, `ensure_correct_store` — none overflows, indexes out of range or loses
    bits in a cast. -/
theorem C16_safe_deserialize (chk dbg : Bool) (bs : List Nat) (hb : ∀ x ∈ bs, x < 256) :
    Safe_deserialize readN chk dbg bs := safe_deserialize readerOK_readN chk dbg bs hb
example : Safe_deserialize readN true true runStream := C16_safe_deserialize _ _ _ (by decide)
example : Safe_deserialize readN false false (arrStream.take 21) := C16_safe_deserialize _ _ _ (by decide)
/-- the predicates are evaluable on concrete streams (this is what the driver does) -/
example : Safe_deserialize readN true true runStream ∧ Safe_deserialize readN true false arrStream := by decide +kernel
/-- teeth: a run-flag lookup for container 8 in a 1-byte run bitmap is out of range; replaying a run into an array
    store that is not sorted underflows `… + 1 - dropped.len()`; a cardinality field that is not a `u16` -/
example : ¬ Safe_descr (some [1]) 8 4 ∧ ¬ Safe_replayRuns (.array [5, 5, 5, 4]) [(4, 2)]
    ∧ ¬ Safe_descr none 0 18446744073709551615 := by decide

/-- … over every reader that honours the `read_exact` contract (`ReaderOK`: a successful `read_exact(n)` returns `n`
    bytes), from every reader state; instances: the slice reader, the `Cursor` of `SerOps.lean` and … -/
theorem C16_safe_deserialize_reader {σ : Type} (Good : σ → Prop) (R : Nat → Parser σ (List Nat))
    (hR : ReaderOK Good R) (chk dbg : Bool) (s : σ) (hs : Good s) : Safe_deserialize R chk dbg s :=
  safe_deserialize hR chk dbg s hs

/-- … the scheduled reader of `IO.lean` (C14): any chunking of the stream, any number of `Interrupted` results. -/
theorem C16_safe_deserialize_sched (chk dbg : Bool) (data : List Nat) (hb : ∀ x ∈ data, x < 256) (sched : List IoEv) :
    Safe_deserialize SReader.readExact chk dbg ⟨data, sched⟩ :=
  safe_deserialize readerOK_sched chk dbg ⟨data, sched⟩ hb
example : Safe_deserialize SReader.readExact true true ⟨runStream, [.chunk 3, .intr, .chunk 1]⟩ :=
  C16_safe_deserialize_sched _ _ _ (by decide) _

/-- **`intersection_with_serialized_unchecked` (bitmap/ops_with_serialized.rs:44-277)** for any receiver and ANY bytes
    in a `Cursor` (`bytes.len() < 2^63`: a Rust slice / `Vec` never exceeds `isize::MAX` bytes): the header arithmetic,
    `offsets[i]`, `descriptions[i]`, `bm[i / 8]`, `u64::from(len_minus_one) + 1`, the chunk readers, and on the
    sequential path the skip sizes `size_of::<u16>() * 2 * runs as usize`, `size_of::<u16>() * cardinality as usize`,
    `size_of::<u64>() * BITMAP_LENGTH`, their `as i64` casts and the resulting cursor position.  (The in-memory
    `other_container &= container` is outside these predicates, see SafeCodec.lean.) -/
theorem C16_safe_interSer (dbg : Bool) (a : Bitmap) (bytes : List Nat) (hb : ∀ x ∈ bytes, x < 256)
    (hlen : bytes.length < 9223372036854775808) : Safe_interSer dbg a bytes := safe_interSer dbg a bytes hb hlen
/-- sequential path (run cookie, fewer than 4 containers), once reading and once skipping the run chunk -/
example : Safe_interSer true [⟨0, .array [12]⟩] runStream ∧ Safe_interSer true exB.tail runStream :=
  ⟨C16_safe_interSer _ _ _ (by decide) (by decide), C16_safe_interSer _ _ _ (by decide) (by decide)⟩
/-- offset path -/
example : Safe_interSer false exB arrStream := C16_safe_interSer _ _ _ (by decide) (by decide)
example : Safe_interSer true [⟨0, .array [12]⟩] runStream ∧ Safe_interSer false exB arrStream := by decide +kernel
/-- teeth: a skip from a cursor position at the very end of the `u64` range; an offset table shorter than the
    descriptions -/
example : ¬ Safe_seekCur ⟨[], 18446744073709551615⟩ 8192
    ∧ ¬ Safe_interOffsets true ⟨1, true, none, [(0, 0)], []⟩ [⟨0, .array [1]⟩] ⟨[], 0⟩ := by decide

/-- **`from_lsb0_bytes` (bitmap/inherent.rs:87-171) on the documented domain `offset + 8·len ≤ 2^32`**, with
    `Container::from_lsb0_bytes` → `Store::from_lsb0_bytes` (store/mod.rs:54-81) → `ArrayStore::from_lsb0_bytes`
    (array_store/mod.rs:57-82) / `BitmapStore::from_lsb0_bytes_unchecked` (bitmap_store.rs:44-88): the shifts of
    `shift_bytes` (`byte << amount`, `8 - amount`, `byte >> (8 - amount)` with `amount = offset % 8 ∈ 1..=7`),
    `offset - shift as u32`, `len_bits - 1`, `>> 16`, `end_container_inc + 1 - start_container`,
    `end_byte - start_offset`, the three `split_at`s, the three `as u16` key casts (lossless),
    `start_container += 1`; at store level the `assert!`s, the `u64` bit count, `(byte_offset + index * 8) * 8`,
    `bit_index as u32`, `(trailing_zeros + bit_index as u32) as u16` (lossless), `bytes.len() - remainder.len()`,
    `dst[byte_offset..][..bytes.len()]`. -/
theorem C16_safe_fromLsb0 (dbg : Bool) (off : Nat) (bytes : List Nat) (hb : ∀ b ∈ bytes, b < 256)
    (hfit : off + 8 * bytes.length ≤ 4294967296) : Lsb0.Safe_fromLsb0 dbg off bytes :=
  Lsb0.safe_fromLsb0 dbg off bytes hb hfit
/-- the doc-test of the crate (`offset = 3`, unaligned), and the last byte of the universe -/
example : Lsb0.Safe_fromLsb0 true 3 [5, 2, 0, 128] ∧ Lsb0.Safe_fromLsb0 true 4294967288 [128] :=
  ⟨C16_safe_fromLsb0 _ _ _ (by decide) (by decide), C16_safe_fromLsb0 _ _ _ (by decide) (by decide)⟩
example : Lsb0.Safe_fromLsb0 true 65531 [255, 255, 1] := by decide +kernel
/-- teeth: `shift_bytes` with `amount = 0` would evaluate `byte >> 8` on a `u8`; one byte past the domain the
    predicate holds only vacuously (documented `expect` panic), while a store-level call that does not fit its chunk
    fails the `assert!` -/
example : ¬ Lsb0.Safe_shiftBytes [1] 0 ∧ ¬ Lsb0.Safe_storeFromLsb0 true [1] 8192
    ∧ ¬ Lsb0.Safe_arrWords 8185 0 [9223372036854775808] := by decide +kernel

/-- the store-level constructor alone, for every piece that fits its chunk (`byte_offset + len ≤ 8192`, the
    `assert!` of store/mod.rs:55 — the callers' obligation, discharged in `C16_safe_fromLsb0`). -/
theorem C16_safe_lsb0_store (dbg : Bool) (bytes : List Nat) (bo : Nat) (hb : ∀ b ∈ bytes, b < 256)
    (hfit : bo + bytes.length ≤ 8192) : Lsb0.Safe_storeFromLsb0 dbg bytes bo :=
  Lsb0.safe_storeFromLsb0 dbg bytes bo hb hfit
example : Lsb0.Safe_storeFromLsb0 true [255, 0, 0, 0, 0, 0, 0, 0, 129] 8183 :=
  C16_safe_lsb0_store _ _ _ (by decide) (by decide)

/-- **`RoaringTreemap::serialized_size` / `serialize_into` (treemap/serialization.rs:22-52)** for well-formed partitions
    (at most `2^32` of them — the keys are distinct `u32`s): the `usize` fold `acc + size_of::<u32>() +
    bitmap.serialized_size()` (`≤ 8 + 2^32 · (4 + 8 + 65536 · 8200) < 2^62`), `self.map.len() as u64`, and per
    partition the 32-bit `serialized_size` / `serialize_into` (`C16_safe_serialize`). -/
theorem C16_safe_treemap_serialize (t : Treemap) (h : Treemap.PartsWF t) (hl : t.length ≤ 4294967296) :
    Treemap.Safe_serializedSize t ∧ Treemap.Safe_serialize t :=
  ⟨Treemap.safe_serializedSize t h hl, Treemap.safe_serialize t h hl⟩
example : Treemap.Safe_serializedSize [(0, exB), (4294967295, exB)] ∧ Treemap.Safe_serialize [(0, exB), (4294967295, exB)] := by
  refine C16_safe_treemap_serialize _ ?_ (by decide)
  intro p hp
  simp only [List.mem_cons, List.not_mem_nil, or_false] at hp
  rcases hp with rfl | rfl <;> exact ⟨by decide, exB_wf⟩
/-- teeth: a key that is not a `u32`; a partition with an empty container (`(container.len() - 1) as u16`) -/
example : ¬ Treemap.Safe_serialize [(4294967296, [])] ∧ ¬ Treemap.Safe_serialize [(0, [⟨0, .array []⟩])] := by decide

/-- **`RoaringTreemap::deserialize_from` / `deserialize_unchecked_from` (treemap/serialization.rs:71-119)** on ANY byte
    string: the `u64` count, the loop `for _ in 0..size`, the `u32` keys, and inside every iteration the whole 32-bit
    decoder (`C16_safe_deserialize`) from the reader state the previous iterations left. -/
theorem C16_safe_treemap_deserialize (chk dbg : Bool) (bs : List Nat) (hb : ∀ x ∈ bs, x < 256) :
    Treemap.Safe_deserialize readN chk dbg bs := Treemap.safe_deserialize readerOK_readN chk dbg bs hb
/-- two partitions (keys 0 and 7), the second one a run stream; and a count of `2^64 - 1` over a 12-byte input -/
example : Treemap.Safe_deserialize readN true true
      ([2, 0, 0, 0, 0, 0, 0, 0] ++ [0, 0, 0, 0] ++ arrStream ++ [7, 0, 0, 0] ++ runStream)
    ∧ Treemap.Safe_deserialize readN true true ([255, 255, 255, 255, 255, 255, 255, 255] ++ [1, 0, 0, 0]) :=
  ⟨C16_safe_treemap_deserialize _ _ _ (by decide), C16_safe_treemap_deserialize _ _ _ (by decide)⟩
example : Treemap.Safe_deserialize readN true true
    ([2, 0, 0, 0, 0, 0, 0, 0] ++ [0, 0, 0, 0] ++ arrStream ++ [7, 0, 0, 0] ++ runStream) := by decide +kernel

/-- … over every reader that honours `read_exact`, e.g. the scheduled reader. -/
theorem C16_safe_treemap_deserialize_reader {σ : Type} (Good : σ → Prop) (R : Nat → Parser σ (List Nat))
    (hR : ReaderOK Good R) (chk dbg : Bool) (s : σ) (hs : Good s) : Treemap.Safe_deserialize R chk dbg s :=
  Treemap.safe_deserialize hR chk dbg s hs
/-! ## Compositions (SafeCompose.lean)

One predicate and one theorem per PUBLIC method: the method's own arithmetic / indexing together with the side
conditions of every callee on the value it is actually called with (the index a binary search returned, the container
just created, the container vector after the iterations before, the running counter).  Loop predicates recurse over the
list the model's loop recurses over and carry the loop state, so they speak about every iteration. -/

/-- `RoaringBitmap::insert` (inherent.rs:188-198): `util::split`, `self.containers[loc]` on `Ok(loc)`,
    `self.containers.insert(loc, …)` + `self.containers[loc]` on `Err(loc)`, then `Container::insert`
    (container.rs:50-57: the store call and `ensure_correct_store` on the store it produced). -/
theorem C16_safe_bitmap_insert (b : Bitmap) (h : b.WF) (v : Nat) (hv : v < 4294967296) : Bitmap.Safe_insert b v :=
  Bitmap.safe_bitmap_insert b h.storesInv v hv
example : Bitmap.Safe_insert exB 70000 ∧ Bitmap.Safe_insert exB 131072 :=
  ⟨C16_safe_bitmap_insert exB exB_wf _ (by decide), C16_safe_bitmap_insert exB exB_wf _ (by decide)⟩
/-- teeth: a bitset chunk whose cached `len` is `u64::MAX` makes `self.len += 1` overflow inside `insert` -/
example : ¬ Bitmap.Safe_insert [⟨0, .bitmap { len := wMax, bits := BStore.zeros }⟩] 5 := by decide +kernel

/-- `RoaringBitmap::remove` (inherent.rs:348-363): `self.containers[loc]` (:352, :353), `Container::remove`
    (container.rs:95-102), `self.containers.remove(loc)` (:354). -/
theorem C16_safe_bitmap_remove (b : Bitmap) (h : b.WF) (v : Nat) (hv : v < 4294967296) : Bitmap.Safe_remove b v :=
  Bitmap.safe_bitmap_remove b h.storesInv v hv
example : Bitmap.Safe_remove exB 2 ∧ Bitmap.Safe_remove exB 196607 :=
  ⟨C16_safe_bitmap_remove exB exB_wf _ (by decide), C16_safe_bitmap_remove exB exB_wf _ (by decide)⟩
/-- teeth: with a cached `len` of 0 over non-empty words `self.len -= 1` underflows inside `remove` -/
example : ¬ Bitmap.Safe_remove [⟨2, .bitmap { len := 0, bits := List.replicate 1024 wMax }⟩] 131072 := by
  decide +kernel

/-- `RoaringBitmap::contains` (inherent.rs:423-429). -/
theorem C16_safe_bitmap_contains (b : Bitmap) (h : b.WF) (v : Nat) (hv : v < 4294967296) : Bitmap.Safe_contains b v :=
  Bitmap.safe_bitmap_contains b h.storesInv v hv
example : Bitmap.Safe_contains exB 131073 := C16_safe_bitmap_contains exB exB_wf _ (by decide)
/-- teeth: a bitset chunk with too few words makes `self.bits[key(index)]` go out of range -/
example : ¬ Bitmap.Safe_contains [⟨0, .bitmap { len := 5000, bits := [1, 2, 3] }⟩] 4000 := by decide

/-- `RoaringBitmap::min` / `max` (inherent.rs:648-650, :667-669): the store call and `util::join`. -/
theorem C16_safe_bitmap_min_max (b : Bitmap) (h : b.WF) : Bitmap.Safe_min b ∧ Bitmap.Safe_max b :=
  ⟨Bitmap.safe_bitmap_min b h, Bitmap.safe_bitmap_max b h⟩
example : Bitmap.Safe_min exB ∧ Bitmap.Safe_max exB := C16_safe_bitmap_min_max exB exB_wf

/-- `RoaringBitmap::push` (inherent.rs:295-309): `Container::push` on the last container or on a new one
    (container.rs:74-81; `BitmapStore::push` evaluates `self.max()` and calls `insert`). -/
theorem C16_safe_bitmap_push (b : Bitmap) (h : b.WF) (v : Nat) (hv : v < 4294967296) : Bitmap.Safe_push b v :=
  Bitmap.safe_bitmap_push b h.storesInv v hv
example : Bitmap.Safe_push exB 4294967295 ∧ Bitmap.Safe_push exB 196607 ∧ Bitmap.Safe_push exB 7 :=
  ⟨C16_safe_bitmap_push exB exB_wf _ (by decide), C16_safe_bitmap_push exB exB_wf _ (by decide),
   C16_safe_bitmap_push exB exB_wf _ (by decide)⟩

/-- `RoaringBitmap::push_unchecked` (inherent.rs:318-333, crate-private) under its documented precondition
    (`value` above every element): neither the explicit `panic!("last container key > key of value")` nor the
    store-level `assert!(index > max)` fires (they are conjuncts of the predicate), and the store / container calls
    are safe. -/
theorem C16_safe_bitmap_pushUnchecked (dbg : Bool) (b : Bitmap) (h : b.WF) (v : Nat) (hv : v < 4294967296)
    (hmax : ∀ x ∈ Bitmap.elems b, x < v) : Bitmap.Safe_pushUnchecked dbg b v :=
  Bitmap.safe_bitmap_pushUnchecked dbg b h v hv hmax
example : Bitmap.Safe_pushUnchecked true [⟨0, .array [1, 2, 3]⟩] 9 :=
  C16_safe_bitmap_pushUnchecked true _ ((bitmapWF_iff _).1 ⟨by decide, fun c hc => by
    simp at hc; subst hc; exact ⟨by decide, by decide, by decide, by decide⟩⟩) 9 (by decide) (by decide)
/-- teeth: the precondition is needed — below the maximum the debug assertion fires (and only in a debug build) -/
example : ¬ Bitmap.Safe_pushUnchecked true [⟨0, .array [1, 2, 3]⟩] 2
    ∧ Bitmap.Safe_pushUnchecked false [⟨0, .array [1, 2, 3]⟩] 2 := by decide

/-- `RoaringBitmap::remove_range`, the whole method (inherent.rs:379-407): `util::split`; at EVERY iteration of
    `while index < self.containers.len()` — on the container vector as the iterations before left it — the index is
    below the length (:393, :397, :398, :399 `self.containers.remove(index)`), the container call receives
    `a ≤ b ≤ u16::MAX` and is safe (container.rs:104-108, store/mod.rs:134-143 and the store code below it,
    `ensure_correct_store` on the store it produced), `removed += …` fits `u64`, `index += 1` fits `usize`. -/
theorem C16_safe_bitmap_removeRange (b : Bitmap) (h : b.WF) (lo hi : Bound)
    (hlo : Bound.le u32Max lo) (hhi : Bound.le u32Max hi) : Bitmap.Safe_removeRange b lo hi :=
  Bitmap.safe_bitmap_removeRange b h lo hi hlo hhi
example : Bitmap.Safe_removeRange exB (.incl 2) (.excl 140000) ∧ Bitmap.Safe_removeRange exB .unb .unb :=
  ⟨C16_safe_bitmap_removeRange exB exB_wf _ _ (by decide) (by decide),
   C16_safe_bitmap_removeRange exB exB_wf _ _ (by decide) (by decide)⟩
/-- teeth: on a chunk whose cached `len` is too small, `self.len -= removed` underflows inside the loop -/
example : ¬ Bitmap.Safe_removeRange [⟨2, .bitmap { len := 0, bits := List.replicate 1024 wMax }⟩]
    (.incl 131072) (.incl 131080) := by decide +kernel

/-- the iteration states that `Bitmap.Safe_removeRangeLoop` visits are the model's: the state-passing loop it follows
    (`done` = `self.containers[..index]`, counter `removed`) ends in the result of the model's `removeRangeLoop`. -/
theorem C16_safe_bitmap_removeRange_follows_model (sk si ek ei : Nat) (b : Bitmap) :
    Bitmap.removeRangeIter sk si ek ei [] b 0 = Bitmap.removeRangeLoop sk si ek ei b := by
  rw [Bitmap.removeRangeIter_eq]; simp

/-- `Extend<u32>::extend` / `FromIterator` (iter.rs:736-760, :702-706): per value the whole of `insert`
    (`util::split`, `find_container_by_key`, `self.containers[index]`, `Container::insert`) on the bitmap as the values
    before it left it. -/
theorem C16_safe_bitmap_extend (b : Bitmap) (h : b.WF) (vs : List Nat) (hvs : ∀ v ∈ vs, v < 4294967296) :
    Bitmap.Safe_extend b vs := Bitmap.safe_bitmap_extend vs b h hvs
example : Bitmap.Safe_extend exB [5, 70000, 1, 4294967295] := C16_safe_bitmap_extend exB exB_wf _ (by decide)

/-- `RoaringBitmap::append` / `from_sorted_iter` (iter.rs:843-876, :817-823), for an iterator of any length:
    `self.max()`, every `push_unchecked` (whose precondition `append` establishes, so no debug assertion fires),
    `count += 1` (`count ≤ prev + 1 ≤ 2^32`). -/
theorem C16_safe_bitmap_append (dbg : Bool) (b : Bitmap) (h : b.WF) (vs : List Nat)
    (hvs : ∀ v ∈ vs, v < 4294967296) : Bitmap.Safe_append dbg b vs := Bitmap.safe_bitmap_append dbg b h vs hvs
example : Bitmap.Safe_append true exB [200000, 200001, 4294967295] ∧ Bitmap.Safe_append true exB [200000, 7] :=
  ⟨C16_safe_bitmap_append true exB exB_wf _ (by decide), C16_safe_bitmap_append true exB exB_wf _ (by decide)⟩

/-! ### `RoaringTreemap` as a whole (treemap/inherent.rs, treemap/iter.rs) -/

/-- `RoaringTreemap::insert` / `remove` / `contains` (treemap/inherent.rs:50-53, :177-192, :253-259): `util::split` and
    the whole 32-bit method on the partition (`entry(hi).or_default()`: the existing partition or `new()`). -/
theorem C16_safe_treemap_insert_remove_contains (t : Treemap) (hw : Treemap.TWF t) (v : Nat) (hv : v < 2^64) :
    Treemap.Safe_insert t v ∧ Treemap.Safe_remove t v ∧ Treemap.Safe_contains t v :=
  ⟨Treemap.safe_tm_insert t hw v hv, Treemap.safe_tm_remove t hw v hv, Treemap.safe_tm_contains t hw v hv⟩
example : Treemap.Safe_insert C12.tEx 8589934595 ∧ Treemap.Safe_remove C12.tEx 8589934595 ∧
    Treemap.Safe_contains C12.tEx 8589934595 :=
  C16_safe_treemap_insert_remove_contains C12.tEx C12.tEx_TWF _ (by decide)

/-- `RoaringTreemap::push` (treemap/inherent.rs:126-139). -/
theorem C16_safe_treemap_push (t : Treemap) (hw : Treemap.TWF t) (v : Nat) (hv : v < 2^64) : Treemap.Safe_push t v :=
  Treemap.safe_tm_push t hw v hv
example : Treemap.Safe_push C12.tEx 18446744073709551615 := C16_safe_treemap_push C12.tEx C12.tEx_TWF _ (by decide)

/-- `RoaringTreemap::push_unchecked` (treemap/inherent.rs:147-162) under its precondition: the explicit
    `panic!("last bitmap key > key of value")` does not fire and the 32-bit `push_unchecked` is safe. -/
theorem C16_safe_treemap_pushUnchecked (dbg : Bool) (t : Treemap) (hw : Treemap.TWF t) (v : Nat) (hv : v < 2^64)
    (hmax : ∀ x ∈ Treemap.elems t, x < v) : Treemap.Safe_pushUnchecked dbg t v :=
  Treemap.safe_tm_pushUnchecked dbg t hw v hv hmax
example : Treemap.Safe_pushUnchecked true C12.tEx 17179869192 :=
  C16_safe_treemap_pushUnchecked true C12.tEx C12.tEx_TWF _ (by decide) (by decide)
/-- teeth: a value in an earlier partition hits the explicit `panic!` in a debug build -/
example : ¬ Treemap.Safe_pushUnchecked true C12.tEx 4294967296 := by decide

/-- `RoaringTreemap::max` (treemap/inherent.rs:366-372): every `rb.max()` the scan evaluates, `util::join`. -/
theorem C16_safe_treemap_max (t : Treemap) (hw : Treemap.TWF t) : Treemap.Safe_max t := Treemap.safe_tm_max t hw
example : Treemap.Safe_max C12.tEx := C16_safe_treemap_max C12.tEx C12.tEx_TWF

/-- `RoaringTreemap::insert_range`, the whole method (treemap/inherent.rs:70-107; one, two and three or more
    partitions): `util::split`; at EVERY iteration of `for hi in start_hi..=end_hi`, on the map as the iterations before
    left it, the whole 32-bit `insert_range` on the partition (`C16_safe_insertRange`) resp. `full_bitmap.len()`,
    `entry.insert(full_bitmap).len()` and their difference for a whole interior partition (:96-101), and
    `counter += …` in `u64`.  The only excluded input is `insert_range(..)` (all `2^64` values) into the EMPTY treemap,
    where `counter` reaches exactly `2^64` (`C16_treemap_len_2p64_observation`: `2^61` bytes, not reachable). -/
theorem C16_safe_treemap_insertRange (t : Treemap) (hw : Treemap.TWF t) (lo hi : Bound)
    (hlo : Bound.le u64Max lo) (hhi : Bound.le u64Max hi)
    (hnf : t ≠ [] ∨ convertRange64 lo hi ≠ some (0, u64Max)) : Treemap.Safe_insertRange t lo hi :=
  Treemap.safe_tm_insertRange t hw lo hi hlo hhi hnf
/-- one partition, two partitions, five partitions (three whole interior ones, one of them existing), everything -/
example : Treemap.Safe_insertRange C12.tEx (.incl 7) (.incl 4294967295)
    ∧ Treemap.Safe_insertRange C12.tEx (.incl 7) (.excl 4294967300)
    ∧ Treemap.Safe_insertRange C12.tEx (.excl 4294967000) (.incl 21474836480)
    ∧ Treemap.Safe_insertRange C12.tEx .unb .unb :=
  ⟨C16_safe_treemap_insertRange _ C12.tEx_TWF _ _ (by decide) (by decide) (Or.inl (by decide)),
   C16_safe_treemap_insertRange _ C12.tEx_TWF _ _ (by decide) (by decide) (Or.inl (by decide)),
   C16_safe_treemap_insertRange _ C12.tEx_TWF _ _ (by decide) (by decide) (Or.inl (by decide)),
   C16_safe_treemap_insertRange _ C12.tEx_TWF _ _ (by decide) (by decide) (Or.inl (by decide))⟩
/-- into the empty treemap every range but the whole universe -/
example : Treemap.Safe_insertRange [] (.incl 1) .unb :=
  C16_safe_treemap_insertRange [] Treemap.WFd.nil _ _ (by decide) (by decide) (Or.inr (by decide))

/-- the hypothesis of `C16_safe_treemap_insertRange` is exactly what `counter` needs: for every well-formed treemap
    and range the final `counter` is below `2^64` unless the range is everything and the treemap is empty. -/
theorem C16_safe_treemap_insertRange_counter (t : Treemap) (hw : Treemap.TWF t) (lo hi : Bound)
    (hlo : Bound.le u64Max lo) (hhi : Bound.le u64Max hi)
    (hnf : t ≠ [] ∨ convertRange64 lo hi ≠ some (0, u64Max)) : (Treemap.insertRange t lo hi).2 < 2^64 :=
  Treemap.insertRange_count_lt t hw lo hi hlo hhi hnf

/-- `RoaringTreemap::remove_range`, the whole method (treemap/inherent.rs:207-238): `util::split`; for every partition
    in the key range the WHOLE 32-bit `remove_range` (`C16_safe_bitmap_removeRange`) with `a ≤ u32::MAX`, `b ≤ u32::MAX`,
    and `removed += …` in `u64` — for fewer than `2^32` partitions (with all `2^32` partitions full the counter of
    `remove_range(..)` reaches `2^64`, the same unreachable value as in `C16_treemap_len_2p64_observation`). -/
theorem C16_safe_treemap_removeRange (t : Treemap) (hw : Treemap.TWF t) (hl : t.length < 4294967296) (lo hi : Bound)
    (hlo : Bound.le u64Max lo) (hhi : Bound.le u64Max hi) : Treemap.Safe_removeRange t lo hi :=
  Treemap.safe_tm_removeRange t hw hl lo hi hlo hhi
example : Treemap.Safe_removeRange C12.tEx (.incl 5) (.excl 17179869191) ∧ Treemap.Safe_removeRange C12.tEx .unb .unb :=
  ⟨C16_safe_treemap_removeRange _ C12.tEx_TWF (by decide) _ _ (by decide) (by decide),
   C16_safe_treemap_removeRange _ C12.tEx_TWF (by decide) _ _ (by decide) (by decide)⟩

/-- `RoaringTreemap::append` / `from_sorted_iter` (treemap/iter.rs:522-552): `self.max()`, every `push_unchecked` (its
    precondition holds, so no panic in either build), `count += 1` (for an iterator of fewer than `2^64` items). -/
theorem C16_safe_treemap_append (dbg : Bool) (t : Treemap) (hw : Treemap.TWF t) (vs : List Nat)
    (hvs : ∀ v ∈ vs, v < 2^64) (hcnt : vs.length < 2^64) : Treemap.Safe_append dbg t vs :=
  Treemap.safe_tm_append dbg t hw (C10.C10_max t hw) vs hvs hcnt
example : Treemap.Safe_append true C12.tEx [17179869192, 18446744073709551615, 3] :=
  C16_safe_treemap_append true C12.tEx C12.tEx_TWF _ (by decide) (by decide)

/-! ### iterators and MultiOps: the size arithmetic and the indexings (bitmap/iter.rs, treemap/iter.rs, multiops.rs) -/

/-- `bitmap::Iter` / `IntoIter` `size_hint` and `count` (bitmap/iter.rs:250-265, :305-313) at EVERY cursor state
    (`C03.IterWF` is preserved by every iterator call, `C03_step`): `it.len()` of the front / back iterators never trips
    the `ExactSizeIterator` assertion, `first_size + last_size` (a plain `usize` `+`), `container.len() as usize`, the
    `usize` sums of `count`. -/
theorem C16_safe_iter_sizeHint_count (it : Iter) (h : C03.IterWF it) : Iter.Safe_sizeHint it ∧ Iter.Safe_count it :=
  Iter.safe_sizeHint_count it h
example : Iter.Safe_sizeHint (Bitmap.iter exB) ∧ Iter.Safe_count (Bitmap.iter exB) :=
  C16_safe_iter_sizeHint_count _ (C03.C03_init_WF exB exB_wf).1
example : Iter.Safe_sizeHint (Bitmap.iter exB).next.1 ∧ Iter.Safe_count (Bitmap.iter exB).next.1 := by decide +kernel

/-- `nth` / `nth_back` (bitmap/iter.rs:315-341, :374-400), every `n : usize`: `n -= len` only when `len ≤ n`,
    `container.len() as usize`, `it.len()`. -/
theorem C16_safe_iter_nth (it : Iter) (h : it.Inv) (n : Nat) : Iter.Safe_nth it n ∧ Iter.Safe_nthBack it n :=
  ⟨Iter.safe_nth it h n, Iter.safe_nthBack it h n⟩
example : Iter.Safe_nth (Bitmap.iter exB) 65000 ∧ Iter.Safe_nthBack (Bitmap.iter exB) 18446744073709551615 :=
  ⟨(C16_safe_iter_nth _ (C03.C03_init_WF exB exB_wf).1.1 _).1, (C16_safe_iter_nth _ (C03.C03_init_WF exB exB_wf).1.1 _).2⟩

/-- `treemap::Iter`: `To64Iter::fold`'s `((self.hi as u64) << 32) + (lo as u64)` (treemap/iter.rs:42, :57, :82, :97) for
    every partition key and yielded `u32`; `BitmapIter::remaining` (:593-596, a plain `u64` sum read by `size_hint`) and
    the sum of `IntoIter::new` (:235) for fewer than `2^32` remaining partitions (with all `2^32` partitions full it is
    the `2^64` of `C16_treemap_len_2p64_observation`).  The other additions of the two `size_hint`s saturate. -/
theorem C16_safe_treemap_iter (hi lo : Nat) (hhi : hi < 4294967296) (hlo : lo < 4294967296)
    (p : TIter.PIter) (h : Treemap.PartsWF p.range) (hl : p.range.length < 4294967296) :
    TIter.Safe_foldJoin hi lo ∧ TIter.PIter.Safe_remaining p ∧ TIter.Safe_intoIterNew p.range :=
  ⟨TIter.safe_foldJoin hi lo hhi hlo, TIter.PIter.safe_remaining p h hl, Treemap.safe_len p.range h hl⟩
example : TIter.Safe_foldJoin 4294967295 4294967295 ∧ TIter.PIter.Safe_remaining (TIter.PIter.new C12.tEx) := by
  decide +kernel

/-- MultiOps (multiops.rs): `lhs.insert(loc, rhs)` / `&mut lhs[loc]` (:280, :281) and `containers.insert(loc, …)` /
    `&mut containers[loc]` (:398, :401) are in range at every iteration of the merge loops — for EVERY accumulator
    (the `binary_search_by_key` contract), so also for the not yet canonical containers in the middle of a multi-op.
    There is no other partial operation in `multiops.rs` (see `SafeCompose.lean`). -/
theorem C16_safe_multiops_merge (op : Store → Store → Store) (lhs rhs : List Container) (cs : List Multi.Cow) :
    Multi.Safe_mergeContainerOwned op lhs rhs ∧ Multi.Safe_mergeContainerRef op cs rhs :=
  ⟨Multi.safe_mergeContainerOwned op rhs lhs, Multi.safe_mergeContainerRef op rhs cs⟩
example : Multi.Safe_mergeContainerOwned Store.orAssignOwned exB [⟨1, .array [7]⟩, ⟨2, .array [9]⟩] :=
  (C16_safe_multiops_merge _ _ _ []).1

end Roaring.C16

/-! ## `treemap::Iter::advance_to` / `advance_back_to` (SafeTreemapIter.lean) -/
namespace Roaring.C16
open Roaring

/-- **`treemap::Iter::advance_to(n)` / `advance_back_to(n)` (treemap/iter.rs:145-230) with
    `BitmapIter::advance_to` / `advance_back_to` (:569-591)**, at EVERY iterator state (any `front` / `back` / untouched
    range — no invariant is needed) and for every `n : u64`, over every inner 32-bit cursor `K`: `util::split(n)` is
    lossless, and the four `BTreeMap::range` calls get well-ordered bounds — `range(last..last)` / `range(first..first)`
    (`Included(x) .. Excluded(x)`: allowed, empty), `range(new_front_idx..=last)` with `new_front_idx ≤ last`,
    `range(first..=new_back_idx)` with `first ≤ new_back_idx` — so std's "range start is greater than range end" /
    "range start and end are equal and excluded" panics are unreachable.  (The 32-bit `advance_to(index)` the method
    forwards to is outside the predicate, see SafeTreemapIter.lean.) -/
theorem C16_safe_treemap_iter_advance {K : TIter.Inner} (it : TIter.Iter K) (n : Nat) (hn : n < 2^64) :
    it.Safe_advanceTo n ∧ it.Safe_advanceBackTo n :=
  ⟨TIter.Iter.safe_advanceTo it n hn, TIter.Iter.safe_advanceBackTo it n hn⟩
/-- the fresh iterator over the three-partition treemap of C12, towards a key between two partitions, past the last
    one, and before the first one -/
example : (TIter.Iter.new (K := TIter.Inner.list) C12.tEx).Safe_advanceTo 12884901888
    ∧ (TIter.Iter.new (K := TIter.Inner.list) C12.tEx).Safe_advanceTo 18446744073709551615
    ∧ (TIter.Iter.new (K := TIter.Inner.list) C12.tEx).Safe_advanceBackTo 0 :=
  ⟨(C16_safe_treemap_iter_advance _ _ (by decide)).1, (C16_safe_treemap_iter_advance _ _ (by decide)).1,
   (C16_safe_treemap_iter_advance _ _ (by decide)).2⟩
example : (TIter.Iter.new (K := TIter.Inner.list) C12.tEx).Safe_advanceTo 12884901888
    ∧ (TIter.PIter.new C12.tEx).Safe_advanceTo 4294967295 ∧ (TIter.PIter.new C12.tEx).Safe_advanceBackTo 0 := by
  decide +kernel
/-- teeth: the conditions std checks — an inverted inclusive pair, equal excluded bounds — and an argument that is not
    a `u64` -/
example : ¬ TIter.Safe_btreeRange (.incl 5) (.incl 4) ∧ ¬ TIter.Safe_btreeRange (.excl 3) (.excl 3)
    ∧ TIter.Safe_btreeRange (.incl 3) (.excl 3)
    ∧ ¬ (TIter.Iter.new (K := TIter.Inner.list) C12.tEx).Safe_advanceTo 18446744073709551616 := by decide

end Roaring.C16

/-! ## Multi-operand merges (SafeMulti.lean) -/
namespace Roaring.C16
open Roaring Roaring.Multi Roaring.Spec

/-! The store-level `|=` / `^=` INSIDE `merge_container_owned` / `merge_container_ref` (bitmap/multiops.rs:272-291,
:388-425) and the loops calling them (`try_multi_or_owned/_ref`, `try_multi_xor_owned/_ref`, :208-270, :294-386), followed
iteration by iteration on the accumulator the iterations before left.  That accumulator is NOT canonical — `array | array`
is computed in a bitset store however small the result, `a ^ a` leaves an EMPTY bitset store — so the hypotheses of the
step theorems are only the invariant the C09 proofs maintain for it: ascending keys below `2^16` and `Store.Inv` of every
store (`Multi.Acc`).  The whole-function theorems start from well-formed operands (`Bitmap.WF`) and carry that invariant
through every call.

Running examples: `accEx` (an accumulator in the middle of a multi-op: key 0 holds the three values of `[1,2,3] | [2,3]`
in a BITSET store, key 1 an EMPTY bitset store as `x ^ x` leaves it, key 4 a borrowed array), `exB` (well-formed, from
above). -/

/-- (for the examples only, as above) -/
local instance (l : List Nat) : Decidable (Sorted l) := by unfold Sorted; infer_instance
local instance (v : List Nat) : Decidable (Arr.Inv v) := by unfold Arr.Inv; infer_instance

/-- chunk 0: a bitset store with 3 values; chunk 1: a bitset store with no value; chunk 4: an array — valid stores, none
    of the first two canonical -/
def accEx : List Container :=
  [⟨0, .bitmap (Store.arrToBitmap [1, 2, 3])⟩, ⟨1, .bitmap BStore.new⟩, ⟨4, .array [7, 9]⟩]

theorem accEx_keys : (accEx.map (·.key)).Pairwise (· < ·) := by decide

theorem accEx_inv : ∀ c ∈ accEx, c.key < 65536 ∧ c.store.Inv := by
  intro c hc
  simp only [accEx, List.mem_cons, List.not_mem_nil, or_false] at hc
  rcases hc with rfl | rfl | rfl
  · exact ⟨by decide, (BStore.arrToBitmap_spec [1, 2, 3] ⟨by decide, by decide⟩).1⟩
  · exact ⟨by decide, BStore.inv_new⟩
  · exact ⟨by decide, by decide, by decide⟩

/-- the accumulator invariant of the C09 proofs, in the vocabulary of `Inv.lean` -/
theorem acc_of_inv {cs : List Container} (hk : (cs.map (·.key)).Pairwise (· < ·))
    (hi : ∀ c ∈ cs, c.key < 65536 ∧ c.store.Inv) : Multi.Acc cs :=
  ⟨hk, fun c hc => ⟨(hi c hc).1, (storeValid_iff_inv _).2 (hi c hc).2⟩⟩

/-- **store level**: `recv |= arg` / `recv ^= arg` with a `Bitmap` receiver (store/mod.rs:287-327, :456-496 → the
    `(Bitmap, Array)` arms bitmap_store.rs:648-657 / :692-703 and the `(Bitmap, Bitmap)` arms → `op_bitmaps` :634-640) —
    the only form in which multiops.rs calls them — for ANY receiver and argument with the structural invariant, whatever
    their cardinalities: `self.bits[key]`, `1 << bit`, `self.len += (old_w ^ new_w) >> bit`, the `i64` counter of `^=`
    (`self.len as i64`, `len += 1 - 2 * …` never negative, `len as u64`), `bits1.len += count_ones`. -/
theorem C16_safe_multiops_storeOp (k : MergeOp) (recv : BStore) (hr : recv.Inv) (arg : Store) (ha : arg.Inv) :
    Safe_storeOp k recv arg := safe_storeOp k recv hr arg ((storeValid_iff_inv _).2 ha)
/-- an EMPTY bitset receiver (what `x ^ x` leaves) `^=` an array, `|=` a full bitset -/
example : Safe_storeOp .xor BStore.new (.array [5, 65535]) ∧ Safe_storeOp .or BStore.new (.bitmap BStore.full) :=
  ⟨C16_safe_multiops_storeOp _ _ BStore.inv_new _ ⟨by decide, by decide⟩,
   C16_safe_multiops_storeOp _ _ BStore.inv_new _ BStore.inv_full⟩
example : Safe_storeOp .xor BStore.new (.array [5, 65535]) := by decide +kernel
/-- teeth: a receiver whose cached length is wrong — `^=` drives the `i64` counter below zero, `|=` overflows `len +=` -/
example : ¬ Safe_storeOp .xor { len := 0, bits := List.replicate 1024 wMax } (.array [5])
    ∧ ¬ Safe_storeOp .or { len := wMax, bits := BStore.zeros } (.array [5]) := by decide +kernel

/-- **`merge_container_owned` (multiops.rs:272-291)** on EVERY accumulator with the invariant and every right-hand side
    with valid stores (any order, repeated keys allowed): at every iteration `lhs.insert(loc, rhs)` / `&mut lhs[loc]`,
    and in the `Ok(loc)` arm `lhs.store.to_bitmap()` (`ArrayStore::to_bitmap_store`: `bits[key(index)] |= 1 << bit(index)`
    and the debug `try_from(len, bits).unwrap()`), then the store-level `op` on the promoted / swapped / unchanged bitset
    receiver (`C16_safe_multiops_storeOp`) — each on the `lhs` that the iterations before produced. -/
theorem C16_safe_multiops_mergeOwned (k : MergeOp) (lhs rhs : List Container)
    (hk : (lhs.map (·.key)).Pairwise (· < ·)) (hl : ∀ c ∈ lhs, c.key < 65536 ∧ c.store.Inv)
    (hr : ∀ r ∈ rhs, r.key < 65536 ∧ r.store.Inv) : Safe_mergeOwned k lhs rhs :=
  safe_mergeOwned k rhs lhs (acc_of_inv hk hl) (fun r h => ⟨(hr r h).1, (storeValid_iff_inv _).2 (hr r h).2⟩)
/-- all five arms: bitset–array (key 0), bitset–bitset on the empty bitset (key 1), insert (key 3), array–bitset with
    the swap (key 4), and array–array with the promotion (key 4 of a second right-hand side after an insert at key 5) -/
example : Safe_mergeOwned .xor accEx [⟨0, .array [2, 8]⟩, ⟨1, .bitmap BStore.full⟩, ⟨3, .array [1]⟩, ⟨4, .bitmap BStore.full⟩]
    ∧ Safe_mergeOwned .or accEx [⟨5, .array [1]⟩, ⟨5, .array [1, 2]⟩, ⟨4, .array [8]⟩] := by
  refine ⟨C16_safe_multiops_mergeOwned _ _ _ accEx_keys accEx_inv ?_, C16_safe_multiops_mergeOwned _ _ _ accEx_keys accEx_inv ?_⟩
  · intro r hr
    simp only [List.mem_cons, List.not_mem_nil, or_false] at hr
    rcases hr with rfl | rfl | rfl | rfl
    · exact ⟨by decide, by decide, by decide⟩
    · exact ⟨by decide, BStore.inv_full⟩
    · exact ⟨by decide, by decide, by decide⟩
    · exact ⟨by decide, BStore.inv_full⟩
  · intro r hr
    simp only [List.mem_cons, List.not_mem_nil, or_false] at hr
    rcases hr with rfl | rfl | rfl <;> exact ⟨by decide, by decide, by decide⟩
/-- the predicate is evaluable: `[1,2,3] ^ [1,2,3]` (promotion, then an empty bitset store) `^ [5]` -/
example : Safe_mergeOwned .xor [⟨0, .array [1, 2, 3]⟩] [⟨0, .array [1, 2, 3]⟩, ⟨0, .array [5]⟩] := by decide +kernel
/-- teeth: an accumulator entry that is not sorted fails the debug `try_from(len, bits).unwrap()` of the promotion
    (`len = 3`, two distinct bits); one with a wrong cached length fails in the store-level `^=` -/
example : ¬ Safe_mergeOwned .or [⟨0, .array [2, 2, 3]⟩] [⟨0, .array [7]⟩]
    ∧ ¬ Safe_mergeOwned .xor [⟨0, .bitmap { len := 0, bits := List.replicate 1024 wMax }⟩] [⟨0, .array [7]⟩] := by
  decide +kernel

/-- it refines the indexing-only predicate of `SafeCompose.lean` (`C16_safe_multiops_merge`): same loop, same states -/
theorem C16_safe_multiops_mergeOwned_refines (k : MergeOp) : ∀ (rhs lhs : List Container),
    Safe_mergeOwned k lhs rhs → Safe_mergeContainerOwned k.owned lhs rhs
  | [], _, _ => trivial
  | r :: rs, lhs, h => by
    unfold Safe_mergeOwned at h
    unfold Safe_mergeContainerOwned
    exact ⟨h.1, C16_safe_multiops_mergeOwned_refines k rs _ h.2.2⟩

/-- **`merge_container_ref` (multiops.rs:388-425)** on every `Vec<Cow<Container>>` whose underlying containers have the
    invariant: `containers.insert(loc, Cow::Borrowed(rhs))` / `&mut containers[loc]`, and in the `Ok(loc)` arm
    `lhs.store.to_bitmap()` + `op(&mut store, &rhs.store)` (:406-407), `rhs.store.clone()` + `op(&mut store, &lhs.store)`
    (:412-413), `op(&mut lhs.to_mut().store, &rhs.store)` (:419). -/
theorem C16_safe_multiops_mergeRef (k : MergeOp) (cs : List Cow) (rhs : List Container)
    (hk : ((cs.map Cow.get).map (·.key)).Pairwise (· < ·)) (hl : ∀ c ∈ cs.map Cow.get, c.key < 65536 ∧ c.store.Inv)
    (hr : ∀ r ∈ rhs, r.key < 65536 ∧ r.store.Inv) : Safe_mergeRef k cs rhs :=
  safe_mergeRef k rhs cs (acc_of_inv hk hl) (fun r h => ⟨(hr r h).1, (storeValid_iff_inv _).2 (hr r h).2⟩)
example : Safe_mergeRef .or (accEx.map Cow.borrowed) [⟨0, .array [2, 8]⟩, ⟨4, .array [8]⟩, ⟨4, .bitmap BStore.full⟩] := by
  refine C16_safe_multiops_mergeRef _ _ _ ?_ ?_ ?_
  · rw [map_get_map_borrowed]; exact accEx_keys
  · rw [map_get_map_borrowed]; exact accEx_inv
  · intro r hr
    simp only [List.mem_cons, List.not_mem_nil, or_false] at hr
    rcases hr with rfl | rfl | rfl
    · exact ⟨by decide, by decide, by decide⟩
    · exact ⟨by decide, by decide, by decide⟩
    · exact ⟨by decide, BStore.inv_full⟩
example : Safe_mergeRef .xor [.borrowed ⟨0, .array [1, 2, 3]⟩] [⟨0, .array [1, 2, 3]⟩, ⟨0, .array [5]⟩] := by decide +kernel
example : ¬ Safe_mergeRef .or [.borrowed ⟨0, .array [2, 2, 3]⟩] [⟨0, .array [7]⟩] := by decide +kernel

/-- **`MultiOps::union`** — `try_multi_or_owned` (multiops.rs:208-244) and `try_multi_or_ref` (:294-345) as a whole, for
    `Result` items, every `size_hint`, every permutation the unstable sort may produce, all `Ok` operands well-formed:
    every `merge_container_*` call of the loop over the operands on the accumulator the calls before left (which is no
    longer a well-formed bitmap after the first one), and `ensure_correct_store` (container.rs:177-190) on every
    non-empty container of the final accumulator.  An `Err` item ends the function (`?`); nothing is evaluated after. -/
theorem C16_safe_multiops_union (sort : List Bitmap → List Bitmap) (hs : ∀ l, (sort l).Perm l) (h : Hint) {ε : Type}
    (xs : List (Except ε Bitmap)) (hwf : ∀ b ∈ okValues xs, Bitmap.WF b) :
    Safe_tryMultiOrOwnedWith sort h xs ∧ Safe_tryMultiOrRefWith sort h xs :=
  ⟨safe_tryMultiOrOwnedWith hs h xs hwf, safe_tryMultiOrRefWith hs h xs hwf⟩

/-- three well-formed operands: `exB`, a bitmap sharing key 0 (array–array promotion, then bitset–array) and key 2
    (bitset–array on the full bitset), and `exB` again (bitset–array on the promoted store, bitset–bitset) -/
def exOps : List (Except Nat Bitmap) :=
  [.ok exB, .ok [⟨0, .array [2, 70]⟩, ⟨2, .array [9]⟩, ⟨3, .array [1]⟩], .ok exB]

theorem exOps_wf : ∀ b ∈ okValues exOps, Bitmap.WF b := by
  intro b hb
  simp only [exOps, okValues, List.mem_cons, List.not_mem_nil, or_false] at hb
  rcases hb with rfl | rfl | rfl
  · exact exB_wf
  · refine ⟨by decide, ?_⟩
    intro c hc
    simp only [List.mem_cons, List.not_mem_nil, or_false] at hc
    rcases hc with rfl | rfl | rfl <;> exact ⟨by decide, ⟨by decide, by decide⟩, by decide, by decide⟩
  · exact exB_wf

example : Safe_tryMultiOrOwnedWith sortDesc .exact exOps ∧ Safe_tryMultiOrRefWith sortDesc (.upper 51) exOps :=
  ⟨(C16_safe_multiops_union sortDesc sortDesc_isSortDesc.perm .exact exOps exOps_wf).1,
   (C16_safe_multiops_union sortDesc sortDesc_isSortDesc.perm (.upper 51) exOps exOps_wf).2⟩
/-- … evaluable, also with an `Err` item in the middle -/
example : Safe_tryMultiOrRefWith sortDesc .exact
    ([.ok [⟨0, .array [1, 2, 3]⟩], .ok [⟨0, .array [3, 4]⟩], .error 7, .ok [⟨0, .array [2, 2]⟩]] : List (Except Nat Bitmap)) := by
  decide +kernel
/-- teeth: an ill-formed operand (an unsorted array that gets promoted) -/
example : ¬ Safe_tryMultiOrOwnedWith sortDesc .exact
    ([.ok [⟨0, .array [2, 2, 3]⟩], .ok [⟨0, .array [7]⟩]] : List (Except Nat Bitmap)) := by decide +kernel

/-- **`MultiOps::symmetric_difference`** — `try_multi_xor_owned` (multiops.rs:247-270) and `try_multi_xor_ref`
    (:348-386) as a whole: as for the union; here the intermediate stores may also be EMPTY (`a ^ a`), which is where
    the `i64` counter of `BitmapStore ^= &ArrayStore` starts from `0`. -/
theorem C16_safe_multiops_symmetric_difference {ε : Type} (xs : List (Except ε Bitmap))
    (hwf : ∀ b ∈ okValues xs, Bitmap.WF b) : Safe_tryMultiXorOwned xs ∧ Safe_tryMultiXorRef xs :=
  ⟨safe_tryMultiXorOwned xs hwf, safe_tryMultiXorRef xs hwf⟩
example : Safe_tryMultiXorOwned exOps ∧ Safe_tryMultiXorRef exOps := C16_safe_multiops_symmetric_difference exOps exOps_wf
/-- `a ^ a ^ b`: the store of key 0 is an empty bitset store when `b` arrives -/
example : Safe_tryMultiXorOwned
    ([.ok [⟨0, .array [1, 2, 3]⟩], .ok [⟨0, .array [1, 2, 3]⟩], .ok [⟨0, .array [5]⟩]] : List (Except Nat Bitmap)) := by
  decide +kernel
example : ¬ Safe_tryMultiXorRef
    ([.ok [⟨0, .bitmap { len := 0, bits := List.replicate 1024 wMax }⟩], .ok [⟨0, .array [7]⟩]] : List (Except Nat Bitmap)) := by
  decide +kernel

/-! ## By-reference `&=` / `-=` and the multi-operand folds over them (`SafeBinOps.lean`) -/

/-- **`a &= &b`, `a -= &b` at store level** (store/mod.rs:373-401, :417-434) for ANY two structurally valid stores (no
    kind / cardinality assumption): `op_bitmaps`' `len +=`, the `bits[key]` / `1 << bit` of every `contains` inside the two
    `retain` closures, and the `SubAssign<&ArrayStore>` loop. -/
theorem C16_safe_store_and_sub (s t : Store) (hs : s.Inv) (ht : t.Inv) :
    s.Safe_andAssignRef t ∧ s.Safe_subAssignRef t :=
  ⟨Store.safe_andAssignRef s t hs ht, Store.safe_subAssignRef s t hs ht⟩
example : (Store.bitmap BStore.full).Safe_andAssignRef (.array [1, 2, 65535]) ∧
    (Store.bitmap BStore.full).Safe_subAssignRef (.array [1, 2, 65535]) :=
  C16_safe_store_and_sub _ _ BStore.inv_full ⟨by decide, by decide⟩
/-- teeth: a value that does not fit `u16` indexes past the 1024 words -/
example : ¬ (Store.array [70000]).Safe_andAssignRef (.bitmap BStore.full) := by decide +kernel
/-- teeth: a bitset store whose cached length is too small underflows in `len -=` -/
example : ¬ (Store.bitmap { len := 0, bits := List.replicate 1024 wMax }).Safe_subAssignRef (.array [7]) := by decide +kernel

/-- **`RoaringBitmap &= &RoaringBitmap`** (ops.rs:259-273) **and `RoaringBitmap -= &RoaringBitmap`** (ops.rs:336-349; `a -= b`,
    `a - b`, `a - &b` forward to it) as a whole: at every call of the `retain_mut` closure the `binary_search_by_key` result
    indexes `rhs.containers`, the container-level operation (container.rs:236-241 / :254-259) runs its store-level op and
    `ensure_correct_store` on what that op left. -/
theorem C16_safe_bitmap_and_sub_assign (a b : Bitmap) (ha : a.WF) (hb : b.WF) :
    Bitmap.Safe_andAR a b ∧ Bitmap.Safe_subAR a b :=
  ⟨Bitmap.safe_andAR a b ha.storesInv hb.storesInv, Bitmap.safe_subAR a b ha.storesInv hb.storesInv⟩
example : Bitmap.Safe_andAR exB exB ∧ Bitmap.Safe_subAR exB exB := C16_safe_bitmap_and_sub_assign exB exB exB_wf exB_wf
example : Bitmap.Safe_subAR exB [⟨0, .array [2]⟩, ⟨2, .array [9]⟩] := by decide +kernel
example : ¬ Bitmap.Safe_subAR [⟨0, .bitmap { len := 0, bits := List.replicate 1024 wMax }⟩] [⟨0, .array [7]⟩] := by
  decide +kernel

/-- **`MultiOps::difference`** — `try_multi_sub_owned` / `try_multi_sub_ref` (multiops.rs:169-205) **and
    `MultiOps::intersection` by reference** — `try_multi_and_ref` (multiops.rs:144-166) as a whole: the predicate of the `-=` /
    `&=` at EVERY iteration, on the accumulator the iterations before left, for `Result` items (an `Err` ends the function),
    every size hint and every permutation the unstable sort may produce.  The loop invariant is only `Store.Inv` of every
    store, so the statement does not depend on the accumulator staying canonical. -/
theorem C16_safe_multiops_difference_intersection {ε : Type} (sort : List Bitmap → List Bitmap) (hs : ∀ l, (sort l).Perm l)
    (h : Hint) (xs : List (Except ε Bitmap)) (hwf : ∀ b ∈ okValues xs, Bitmap.WF b) :
    Safe_tryMultiSub xs ∧ Safe_tryMultiAndRefWith sort h xs :=
  ⟨safe_tryMultiSub xs (fun r hr => (hwf r (mem_okValues hr)).storesInv),
   safe_tryMultiAndRefWith hs h xs (fun b hb => (hwf b hb).storesInv)⟩
example : Safe_tryMultiSub exOps ∧ Safe_tryMultiAndRefWith sortDesc .exact exOps :=
  C16_safe_multiops_difference_intersection sortDesc sortDesc_isSortDesc.perm .exact exOps exOps_wf
/-- teeth: an ill-formed second operand met by the fold -/
example : ¬ Safe_tryMultiSub
    ([.ok [⟨0, .bitmap BStore.full⟩], .ok [⟨0, .array [70000]⟩]] : List (Except Nat Bitmap)) := by decide +kernel

/-- **`RoaringBitmap &= RoaringBitmap`** (owned, ops.rs:236-257: swap to the operand with fewer containers, then `retain_mut`
    with the matched `rhs` container moved out by `mem::replace`) **and `MultiOps::intersection` by value** —
    `try_multi_and_owned` (multiops.rs:118-141) as a whole: every call of the closure on the `rhs` the calls before left, the
    container-level `&=` incl. `ensure_correct_store`; every iteration of the fold on the accumulator left so far. -/
theorem C16_safe_bitmap_and_owned (a b : Bitmap) (ha : a.WF) (hb : b.WF) : Safe_andAO a b :=
  safe_andAO a b ha.storesInv hb.storesInv
theorem C16_safe_multiops_intersection_owned {ε : Type} (sort : List Bitmap → List Bitmap) (hs : ∀ l, (sort l).Perm l)
    (h : Hint) (xs : List (Except ε Bitmap)) (hwf : ∀ b ∈ okValues xs, Bitmap.WF b) :
    Safe_tryMultiAndOwnedWith sort h xs :=
  safe_tryMultiAndOwnedWith hs h xs (fun b hb => (hwf b hb).storesInv)
example : Safe_andAO exB exB := C16_safe_bitmap_and_owned exB exB exB_wf exB_wf
example : Safe_tryMultiAndOwnedWith sortDesc (.upper 51) exOps :=
  C16_safe_multiops_intersection_owned sortDesc sortDesc_isSortDesc.perm (.upper 51) exOps exOps_wf
/-- teeth: the ill-formed operand is the one searched IN (more containers), met through `rhs.containers[loc]` -/
example : ¬ Safe_andAO [⟨0, .bitmap BStore.full⟩] [⟨0, .array [70000]⟩, ⟨1, .array [1]⟩] := by decide +kernel

/-- **`RoaringBitmap |= &RoaringBitmap`** (ops.rs:174-185; `a | &b` and `&a | b` forward to it) as a whole: every iteration of
    `for container in &rhs.containers` on the `self` the iterations before left — `Vec::insert(loc, …)` with `loc ≤ len`,
    `&mut self.containers[loc]` with `loc < len`, the container-level `|=` (container.rs:211-216) with its store-level cell
    (store/mod.rs:307-327: `BitmapStore |= &ArrayStore`'s `bits[key]`, `1 << bit`, `len +=`; `op_bitmaps`) and
    `ensure_correct_store` on what that left. -/
theorem C16_safe_bitmap_or_assign_ref (a b : Bitmap) (ha : a.WF) (hb : b.WF) : Bitmap.Safe_orAR a b :=
  Bitmap.safe_orAR b a ha.storesInv hb.storesInv
example : Bitmap.Safe_orAR exB exB := C16_safe_bitmap_or_assign_ref exB exB exB_wf exB_wf
example : Bitmap.Safe_orAR exB [⟨0, .array [2, 70]⟩, ⟨1, .array [9]⟩, ⟨2, .array [1]⟩] := by decide +kernel
/-- teeth: a bitset store whose cached length is 2^64 - 1 overflows in `len +=` -/
example : ¬ Bitmap.Safe_orAR [⟨0, .bitmap { len := 2^64 - 1, bits := List.replicate 1024 0 }⟩] [⟨0, .array [7]⟩] := by
  decide +kernel

end Roaring.C16
