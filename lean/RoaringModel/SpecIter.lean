import RoaringModel.Spec
/-!
# SPEC — a double-ended cursor is the list of the remaining elements

`Cursor` = the elements not yet yielded from either end, strictly ascending.  Every iterator call is a
one-line list operation; nothing here refers to chunks, words or the model.
-/
namespace Roaring
namespace Spec

abbrev Cursor := List Nat

namespace Cursor

/-- smallest remaining element, removed -/
def next (c : Cursor) : Cursor × Option Nat := (c.tail, c.head?)
/-- largest remaining element, removed -/
def nextBack (c : Cursor) : Cursor × Option Nat := (c.dropLast, c.getLast?)
/-- skip `n` from the front, then `next` (everything is discarded when fewer than `n+1` remain) -/
def nth (c : Cursor) (n : Nat) : Cursor × Option Nat := next (c.drop n)
/-- skip `n` from the back, then `next_back` -/
def nthBack (c : Cursor) (n : Nat) : Cursor × Option Nat := nextBack (c.take (c.length - n))
/-- discards exactly the remaining elements `< n` -/
def advanceTo (c : Cursor) (n : Nat) : Cursor := c.filter (fun x => decide (n ≤ x))
/-- discards exactly the remaining elements `> n` -/
def advanceBackTo (c : Cursor) (n : Nat) : Cursor := c.filter (fun x => decide (x ≤ n))
/-- exact: `(len, Some(len))` -/
def sizeHint (c : Cursor) : Nat × Option Nat := (c.length, some c.length)
def count (c : Cursor) : Nat := c.length
/-- the remaining elements are visited in ascending order -/
def fold {β : Type} (c : Cursor) (init : β) (f : β → Nat → β) : β := c.foldl f init
/-- the remaining elements are visited in descending order -/
def rfold {β : Type} (c : Cursor) (init : β) (f : β → Nat → β) : β := c.reverse.foldl f init

end Cursor

/-- the documented panics of `range` / `into_range`: both bounds given and start > end, or both
    excluded and equal -/
def Bound.inverted : Bound → Bound → Bool
  | .excl s, .excl e => decide (e ≤ s)
  | .incl s, .incl e => decide (e < s)
  | .incl s, .excl e => decide (e < s)
  | .excl s, .incl e => decide (e < s)
  | _, _ => false

/-- `range(r)`: `none` = documented panic; otherwise a cursor over the elements inside the bounds -/
def range (s : Set) (lo hi : Bound) : Option Cursor :=
  if Bound.inverted lo hi then none else some (s.filter (fun x => decide (Bound.mem lo hi x)))

/-! ### the operation alphabet of C03 -/

inductive ItOp where
  | next | nextBack
  | nth (n : Nat) | nthBack (n : Nat)
  | advanceTo (v : Nat) | advanceBackTo (v : Nat)
  | sizeHint | count | fold | rfold
deriving Repr, DecidableEq

/-- what a call shows to its caller -/
inductive ItOut where
  | item (x : Option Nat)             -- next / next_back / nth / nth_back
  | unit                              -- advance_to / advance_back_to
  | size (lo : Nat) (hi : Option Nat) -- size_hint
  | num (n : Nat)                     -- count
  | visited (xs : List Nat)           -- fold / rfold: the arguments the closure received, in call order
deriving Repr, DecidableEq

/-- One call on the cursor.  `count`, `fold`, `rfold` take `self` by value; as steps of a history they
    act on a clone (the iterator types are `Clone`), i.e. they observe and leave the cursor unchanged. -/
def Cursor.step (c : Cursor) : ItOp → Cursor × ItOut
  | .next => let r := Cursor.next c; (r.1, .item r.2)
  | .nextBack => let r := Cursor.nextBack c; (r.1, .item r.2)
  | .nth n => let r := Cursor.nth c n; (r.1, .item r.2)
  | .nthBack n => let r := Cursor.nthBack c n; (r.1, .item r.2)
  | .advanceTo v => (Cursor.advanceTo c v, .unit)
  | .advanceBackTo v => (Cursor.advanceBackTo c v, .unit)
  | .sizeHint => (c, .size (Cursor.sizeHint c).1 (Cursor.sizeHint c).2)
  | .count => (c, .num (Cursor.count c))
  | .fold => (c, .visited c)
  | .rfold => (c, .visited c.reverse)

def Cursor.run (c : Cursor) : List ItOp → Cursor × List ItOut
  | [] => (c, [])
  | op :: ops => let r := Cursor.step c op; let q := Cursor.run r.1 ops; (q.1, r.2 :: q.2)

end Spec
end Roaring
