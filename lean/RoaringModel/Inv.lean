import RoaringModel.Bitmap
/-!
# Invariants and abstraction (definitions only; the lemmas are in `Lemmas/`)

* `Sorted` — strictly ascending.
* `Arr.Inv`, `BStore.Inv`, `Store.Inv` — *structural* invariants of a store (any cardinality);
* `Store.WF`, `Container.WF`, `Bitmap.WF` — the full well-formedness of reachable values (kind decided by the
  4096 threshold, no empty chunk, keys strictly ascending).
* the abstraction is `Store.elems` / `Container.elems` / `Bitmap.elems` (defined next to the model).
-/
namespace Roaring

def Sorted (l : List Nat) : Prop := l.Pairwise (· < ·)

/-- a sorted `Vec<u16>` without duplicates -/
def Arr.Inv (v : List Nat) : Prop := Sorted v ∧ ∀ x ∈ v, x < 65536

/-- 1024 words below 2^64 and a correct cached cardinality -/
structure BStore.Inv (b : BStore) : Prop where
  length : b.bits.length = 1024
  words : ∀ w ∈ b.bits, w < 2^64
  len : b.len = BStore.popSum b.bits

/-- bit `i` of the bitset -/
def BStore.test (b : BStore) (i : Nat) : Bool := (BStore.word b.bits (i / 64)).testBit (i % 64)

def Store.Inv : Store → Prop
  | .array v => Arr.Inv v
  | .bitmap b => b.Inv

/-- reachable stores: arrays hold 1..=4096 values, bitsets more than 4096 -/
def Store.WF : Store → Prop
  | .array v => Arr.Inv v ∧ 0 < v.length ∧ v.length ≤ 4096
  | .bitmap b => b.Inv ∧ 4096 < b.len

/-- a store in the kind its cardinality demands (possibly empty: the state right after
    `ensure_correct_store`, before the bitmap level drops empty chunks) -/
def Store.Canon : Store → Prop
  | .array v => Arr.Inv v ∧ v.length ≤ 4096
  | .bitmap b => b.Inv ∧ 4096 < b.len

def Container.WF (c : Container) : Prop := c.key < 65536 ∧ c.store.WF

def Bitmap.WF (b : Bitmap) : Prop :=
  (b.map Container.key).Pairwise (· < ·) ∧ ∀ c ∈ b, Container.WF c

def Bitmap.keys (b : Bitmap) : List Nat := b.map Container.key

end Roaring
