import RoaringModel.Bitmap
import RoaringModel.Iter
/-!
# `impl Debug for RoaringBitmap` (bitmap/fmt.rs)

`{:?}` of a `Vec<u32>` is `[a, b, c]`; `{:?}` of `u64`/`u32` is the decimal number.
`none` = one of the two `unwrap()`s panics (`min()` / `max()` of a bitmap whose `len()` is ≥ 16).
-/
namespace Roaring
namespace Bitmap

/-- fmt.rs:9 `fmt` (non-alternate `{:?}`) -/
def debugFmt (b : Bitmap) : Option String :=
  if len b < 16 then
    some ("RoaringBitmap<[" ++ ", ".intercalate ((elems b).map toString) ++ "]>")
  else
    match min? b, max? b with
    | some lo, some hi => some s!"RoaringBitmap<{len b} values between {lo} and {hi}>"
    | _, _ => none

/-! ### Mirrored form (fidelity audit)

`debugFmt` lists the abstraction `elems b`; the Rust lists `self.iter().collect::<Vec<u32>>()`, i.e. whatever the
iterator yields.  `debugFmtM` runs the mirrored iterator (`Iter.lean`); it is what the driver executes;
`Lemmas/FidelityFmt.lean` proves `debugFmtM b = debugFmt b` for every `Bitmap.WF` value. -/

/-- `iter.collect::<Vec<u32>>()`: `Vec::from_iter` (`SpecFromIterNested` + `extend_desugared`; the bitmap iterators
    are not `TrustedLen`) drives the iterator with `next()` until the first `None`; `size_hint` only sizes the
    allocation.  `fuel` bounds the number of yielded values. -/
def collectFuel : Nat → Iter → List Nat
  | 0, _ => []
  | fuel + 1, it =>
    match it.next with
    | (_, none) => []
    | (it', some x) => x :: collectFuel fuel it'

/-- a `u32` cursor yields at most `2^32` values -/
def collectFuelMax : Nat := 4294967296 + 1

/-- fmt.rs:9 `fmt` (non-alternate `{:?}`; the inner `{:?}` of `write!` does not inherit `{:#?}`) -/
def debugFmtM (b : Bitmap) : Option String :=
  if len b < 16 then                                    -- :10 `self.len() < 16`
    -- :11 `self.iter().collect::<Vec<u32>>()`
    some ("RoaringBitmap<[" ++ ", ".intercalate ((collectFuel collectFuelMax (iter b)).map toString) ++ "]>")
  else
    -- :13-19 `self.len()`, `self.min().unwrap()`, `self.max().unwrap()`
    match min? b, max? b with
    | some lo, some hi => some s!"RoaringBitmap<{len b} values between {lo} and {hi}>"
    | _, _ => none

end Bitmap
end Roaring
