import RoaringModel.Bitmap
/-!
# `impl Debug for RoaringBitmap` (bitmap/fmt.rs)

`{:?}` of a `Vec<u32>` is `[a, b, c]`; `{:?}` of `u64`/`u32` is the decimal number.
`none` = one of the two `unwrap()`s panics (`min()` / `max()` of a bitmap whose `len()` is ≥ 16).
-/
namespace Roaring
namespace Bitmap

/-- fmt.rs:9 `fmt` (non-alternate `{:?}`) -/
def debugFmt (b : Bitmap) : Option String :=
  if len b < 16 then
    some ("RoaringBitmap<[" ++ ", ".intercalate ((elems b).map toString) ++ "]>")
  else
    match min? b, max? b with
    | some lo, some hi => some s!"RoaringBitmap<{len b} values between {lo} and {hi}>"
    | _, _ => none

end Bitmap
end Roaring
