import RoaringModel.Spec
/-!
# SPEC of the multi-operand operations (C09)

The left fold of the binary set operation; `difference` is "first minus all others"; the empty sequence
gives the empty set.  With `Result` items: all-`Ok` ↦ `Ok(fold)`; for `∪`/`⊕` the first error anywhere is
returned; for `∩`/`−` only an error in the *first* item is pinned by the property — a later error may be
returned or may be skipped by the early exit (the accumulator is then necessarily empty), so the spec
answers with the *set* of admissible outcomes.
-/
namespace Roaring
namespace Spec

inductive MOp where
  | or | and | sub | xor
deriving Repr, BEq, DecidableEq

def MOp.bin : MOp → Set → Set → Set
  | .or => sOr
  | .and => sAnd
  | .sub => sSub
  | .xor => sXor

/-- the fold: `∪`/`⊕` start from `∅`, `∩`/`−` from the first operand; empty sequence ↦ `∅` -/
def multi (op : MOp) (xs : List Set) : Set :=
  match op with
  | .or => xs.foldl sOr []
  | .xor => xs.foldl sXor []
  | .and => match xs with
    | [] => []
    | x :: r => r.foldl sAnd x
  | .sub => match xs with
    | [] => []
    | x :: r => r.foldl sSub x

/-- the first `Err` of a sequence of `Result`s -/
def firstError {ε α : Type} : List (Except ε α) → Option ε
  | [] => none
  | .error e :: _ => some e
  | .ok _ :: r => firstError r

/-- the `Ok` payloads (used only when there is no error) -/
def okValues {ε α : Type} : List (Except ε α) → List α
  | [] => []
  | .error _ :: r => okValues r
  | .ok a :: r => a :: okValues r

/-- admissible outcomes of a multi-op over `Result` items (a one- or two-element list):
    * no error: exactly `Ok(fold)`;
    * `∪`, `⊕`: exactly the first error;
    * `∩`, `−`: an error in the first item is returned; a later error is either returned or skipped by the
      early exit on an empty accumulator, in which case the value is `∅`. -/
def multiRes {ε : Type} (op : MOp) (xs : List (Except ε Set)) : List (Except ε Set) :=
  match firstError xs with
  | none => [.ok (multi op (okValues xs))]
  | some e =>
    match op, xs with
    | .or, _ => [.error e]
    | .xor, _ => [.error e]
    | _, .error _ :: _ => [.error e]
    | _, _ => [.error e, .ok []]

end Spec
end Roaring
