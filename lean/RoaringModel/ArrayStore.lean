import RoaringModel.Word
/-!
# `ArrayStore` — sorted `Vec<u16>` (array_store/mod.rs, scalar.rs, visitor.rs)

The vector is a `List Nat`.  `binary_search` on a sorted, duplicate-free vector is modelled by its
contract (`Ok(i)` with `v[i] = x`, else `Err(lower bound)`).
-/
namespace Roaring
namespace Arr

/-- number of elements `< x` at the front: the `Err` position of `binary_search` on sorted input -/
def lowerBound (v : List Nat) (x : Nat) : Nat := (v.takeWhile (· < x)).length

/-- `vec.binary_search(&x)`: `(true, i)` for `Ok(i)`, `(false, i)` for `Err(i)` -/
def bsearch (v : List Nat) (x : Nat) : Bool × Nat :=
  let i := lowerBound v x
  (v[i]? == some x, i)

/-- array_store/mod.rs:85 `insert` -/
def insert (v : List Nat) (x : Nat) : List Nat × Bool :=
  match bsearch v x with
  | (true, _) => (v, false)
  | (false, loc) => (v.take loc ++ x :: v.drop loc, true)

/-- array_store/mod.rs:89 `insert_range` (callers guarantee `s ≤ e`) -/
def insertRange (v : List Nat) (s e : Nat) : List Nat × Nat :=
  let ps := (bsearch v s).2
  let pe := ps + (match bsearch (v.drop ps) e with
    | (true, x) => x + 1
    | (false, x) => x)
  (v.take ps ++ List.range' s (e - s + 1) ++ v.drop pe, e - s + 1 - (pe - ps))

def max? (v : List Nat) : Option Nat := v.getLast?
def min? (v : List Nat) : Option Nat := v.head?

/-- array_store/mod.rs:109 `push` -/
def push (v : List Nat) (x : Nat) : List Nat × Bool :=
  match max? v with
  | none => (v ++ [x], true)
  | some m => if m < x then (v ++ [x], true) else (v, false)

/-- array_store/mod.rs:125 `push_unchecked`; `none` = the debug assertion fired -/
def pushUnchecked (dbg : Bool) (v : List Nat) (x : Nat) : Option (List Nat) :=
  if dbg then
    match max? v with
    | some m => if x > m then some (v ++ [x]) else none
    | none => some (v ++ [x])
  else some (v ++ [x])

/-- array_store/mod.rs:134 `remove` -/
def remove (v : List Nat) (x : Nat) : List Nat × Bool :=
  match bsearch v x with
  | (true, loc) => (v.take loc ++ v.drop (loc + 1), true)
  | (false, _) => (v, false)

/-- array_store/mod.rs:138 `remove_range` (callers guarantee `s ≤ e`) -/
def removeRange (v : List Nat) (s e : Nat) : List Nat × Nat :=
  let ps := (bsearch v s).2
  let pe := ps + (match bsearch (v.drop ps) e with
    | (true, x) => x + 1
    | (false, x) => x)
  (v.take ps ++ v.drop pe, pe - ps)

/-- array_store/mod.rs:153 `remove_smallest`: `rotate_left(n); truncate(len - n)` (callers guarantee `n ≤ len`) -/
def removeSmallest (v : List Nat) (n : Nat) : List Nat :=
  (v.drop n ++ v.take n).take (v.length - n)

/-- array_store/mod.rs:158 `remove_biggest` -/
def removeBiggest (v : List Nat) (n : Nat) : List Nat := v.take (v.length - n)

def contains (v : List Nat) (x : Nat) : Bool := (bsearch v x).1

/-- array_store/mod.rs:166 `contains_range` (callers guarantee `s ≤ e`) -/
def containsRange (v : List Nat) (s e : Nat) : Bool :=
  let rangeCount := e - s + 1
  if v.length < rangeCount then false
  else match bsearch v s with
    | (false, _) => false
    | (true, i) => v[i + rangeCount - 1]? == some e

/-- array_store/mod.rs:183 `is_disjoint` -/
def isDisjoint : List Nat → List Nat → Bool
  | [], _ => true
  | _, [] => true
  | a :: l, b :: r =>
    if a = b then false
    else if a < b then isDisjoint l (b :: r)
    else isDisjoint (a :: l) r
termination_by l r => l.length + r.length

/-- array_store/mod.rs:196 `is_subset` -/
def isSubset : List Nat → List Nat → Bool
  | [], _ => true
  | _ :: _, [] => false
  | a :: l, b :: r =>
    if a = b then isSubset l r
    else if a < b then false
    else isSubset (a :: l) r
termination_by l r => l.length + r.length

/-- scalar.rs `or` -/
def or : List Nat → List Nat → List Nat
  | [], r => r
  | l, [] => l
  | a :: l, b :: r =>
    if a < b then a :: or l (b :: r)
    else if b < a then b :: or (a :: l) r
    else a :: or l r
termination_by l r => l.length + r.length

/-- scalar.rs `and` -/
def and : List Nat → List Nat → List Nat
  | [], _ => []
  | _, [] => []
  | a :: l, b :: r =>
    if a < b then and l (b :: r)
    else if b < a then and (a :: l) r
    else a :: and l r
termination_by l r => l.length + r.length

/-- scalar.rs `sub` -/
def sub : List Nat → List Nat → List Nat
  | [], _ => []
  | l, [] => l
  | a :: l, b :: r =>
    if a < b then a :: sub l (b :: r)
    else if b < a then sub (a :: l) r
    else sub l r
termination_by l r => l.length + r.length

/-- scalar.rs `xor` -/
def xor : List Nat → List Nat → List Nat
  | [], r => r
  | l, [] => l
  | a :: l, b :: r =>
    if a < b then a :: xor l (b :: r)
    else if b < a then b :: xor (a :: l) r
    else xor l r
termination_by l r => l.length + r.length

/-- array_store/mod.rs:215 `intersection_len` = `scalar::and` into a `CardinalityCounter` -/
def interLen : List Nat → List Nat → Nat
  | [], _ => 0
  | _, [] => 0
  | a :: l, b :: r =>
    if a < b then interLen l (b :: r)
    else if b < a then interLen (a :: l) r
    else 1 + interLen l r
termination_by l r => l.length + r.length

/-- `i += rhs.iter().skip(i).position(|y| *y >= x).unwrap_or(rhs.len())` — the galloping index of the
    in-place `&=` / `-=`; `rest` is `rhs[i..]`, the result is the new `rhs[i..]`.
    (When `position` is `None`, `i` becomes `≥ rhs.len()` and `rhs.get(i)` is `None`: same as `[]`.) -/
def gallop (rest : List Nat) (x : Nat) : List Nat := rest.dropWhile (· < x)

/-- array_store/mod.rs:374 `bitand_assign(&Self)` (scalar path): `retain` with the galloping index -/
def andAssign : List Nat → List Nat → List Nat
  | [], _ => []
  | x :: l, rest =>
    let rest' := gallop rest x
    if rest'.head? == some x then x :: andAssign l rest' else andAssign l rest'

/-- array_store/mod.rs:413 `sub_assign(&Self)` (scalar path) -/
def subAssign : List Nat → List Nat → List Nat
  | [], _ => []
  | x :: l, rest =>
    let rest' := gallop rest x
    if rest'.head? == some x then subAssign l rest' else x :: subAssign l rest'

def rank (v : List Nat) (x : Nat) : Nat :=
  match bsearch v x with
  | (true, i) => i + 1
  | (false, i) => i

def select (v : List Nat) (n : Nat) : Option Nat := v[n]?

/-- `TryFrom<Vec<u16>>`: strictly ascending check -/
def isStrictlySorted : List Nat → Bool
  | [] => true
  | [_] => true
  | a :: b :: l => a < b && isStrictlySorted (b :: l)

/-- `from_vec_unchecked`: with debug assertions the vector is validated (`none` = panic) -/
def fromVecUnchecked (dbg : Bool) (v : List Nat) : Option (List Nat) :=
  if dbg then (if isStrictlySorted v then some v else none) else some v


/-! ### `scalar.rs` / `visitor.rs` as the ONE generic function per operator that the Rust has (fidelity audit)

`Arr.or/and/sub/xor` above are the merges specialised to the `VecWriter` visitor (result = the written vector) and
`Arr.interLen` is `and` specialised to the `CardinalityCounter` visitor.  Below, the visitor is a parameter, as in the
Rust; the equalities `scalar*_vecWriter` / `scalarAnd_cardCounter` are unconditional and the `@[csimp]` equations make
the compiled driver execute the generic code with the respective visitor wherever the model calls
`Arr.or/and/sub/xor/interLen`.  The theorems stay about the specialised definitions. -/

/-- visitor.rs:14-19 `BinaryOperationVisitor` (without the `simd`-only `visit_vector`): the visitor's state `σ` and its
    two callbacks, state-passing -/
structure Visitor (σ : Type) where
  visitScalar : σ → Nat → σ
  visitSlice : σ → List Nat → σ

/-- visitor.rs:23-63 `VecWriter`: `visit_scalar` = `vec.push(value)`, `visit_slice` = `vec.extend_from_slice(values)` -/
def vecWriter : Visitor (Array Nat) :=
  { visitScalar := fun vec x => vec.push x, visitSlice := fun vec xs => vec ++ xs.toArray }

/-- visitor.rs:65-92 `CardinalityCounter`: `count += 1`, `count += values.len()` -/
def cardCounter : Visitor Nat :=
  { visitScalar := fun count _ => count + 1, visitSlice := fun count xs => count + xs.length }

/-- scalar.rs:7-38 `or`, generic in the visitor; the two lists are `lhs[i..]` and `rhs[j..]` -/
def scalarOr {σ : Type} (V : Visitor σ) : List Nat → List Nat → σ → σ
  | [], r, st => V.visitSlice (V.visitSlice st []) r                 -- visit_slice(&lhs[i..]); visit_slice(&rhs[j..])
  | a :: l, [], st => V.visitSlice (V.visitSlice st (a :: l)) []
  | a :: l, b :: r, st =>
    if a < b then scalarOr V l (b :: r) (V.visitScalar st a)         -- Less
    else if b < a then scalarOr V (a :: l) r (V.visitScalar st b)    -- Greater
    else scalarOr V l r (V.visitScalar st a)                         -- Equal
termination_by l r => l.length + r.length

/-- scalar.rs:41-62 `and` -/
def scalarAnd {σ : Type} (V : Visitor σ) : List Nat → List Nat → σ → σ
  | [], _, st => st
  | _ :: _, [], st => st
  | a :: l, b :: r, st =>
    if a < b then scalarAnd V l (b :: r) st
    else if b < a then scalarAnd V (a :: l) r st
    else scalarAnd V l r (V.visitScalar st a)
termination_by l r => l.length + r.length

/-- scalar.rs:65-91 `sub` -/
def scalarSub {σ : Type} (V : Visitor σ) : List Nat → List Nat → σ → σ
  | [], _, st => V.visitSlice st []                                  -- visit_slice(&lhs[i..])
  | a :: l, [], st => V.visitSlice st (a :: l)
  | a :: l, b :: r, st =>
    if a < b then scalarSub V l (b :: r) (V.visitScalar st a)
    else if b < a then scalarSub V (a :: l) r st
    else scalarSub V l r st
termination_by l r => l.length + r.length

/-- scalar.rs:94-124 `xor` -/
def scalarXor {σ : Type} (V : Visitor σ) : List Nat → List Nat → σ → σ
  | [], r, st => V.visitSlice (V.visitSlice st []) r
  | a :: l, [], st => V.visitSlice (V.visitSlice st (a :: l)) []
  | a :: l, b :: r, st =>
    if a < b then scalarXor V l (b :: r) (V.visitScalar st a)
    else if b < a then scalarXor V (a :: l) r (V.visitScalar st b)
    else scalarXor V l r st
termination_by l r => l.length + r.length

theorem scalarOr_vecWriter (l r : List Nat) : ∀ acc : Array Nat,
    (scalarOr vecWriter l r acc).toList = acc.toList ++ or l r := by
  fun_induction or l r <;> intro acc
  all_goals first
    | (rename_i l' hne; cases l' with
        | nil => exact absurd rfl hne
        | cons a l' => simp [scalarOr, vecWriter])
    | (simp [*, scalarOr]; try simp [vecWriter])

theorem scalarAnd_vecWriter (l r : List Nat) : ∀ acc : Array Nat,
    (scalarAnd vecWriter l r acc).toList = acc.toList ++ and l r := by
  fun_induction and l r <;> intro acc
  all_goals first
    | (rename_i l' hne; cases l' with
        | nil => exact absurd rfl hne
        | cons a l' => simp [scalarAnd, vecWriter])
    | (simp [*, scalarAnd]; try simp [vecWriter])

theorem scalarSub_vecWriter (l r : List Nat) : ∀ acc : Array Nat,
    (scalarSub vecWriter l r acc).toList = acc.toList ++ sub l r := by
  fun_induction sub l r <;> intro acc
  all_goals first
    | (rename_i l' hne; cases l' with
        | nil => exact absurd rfl hne
        | cons a l' => simp [scalarSub, vecWriter])
    | (simp [*, scalarSub]; try simp [vecWriter])

theorem scalarXor_vecWriter (l r : List Nat) : ∀ acc : Array Nat,
    (scalarXor vecWriter l r acc).toList = acc.toList ++ xor l r := by
  fun_induction xor l r <;> intro acc
  all_goals first
    | (rename_i l' hne; cases l' with
        | nil => exact absurd rfl hne
        | cons a l' => simp [scalarXor, vecWriter])
    | (simp [*, scalarXor]; try simp [vecWriter])

theorem scalarAnd_cardCounter (l r : List Nat) : ∀ n : Nat,
    scalarAnd cardCounter l r n = n + interLen l r := by
  fun_induction interLen l r <;> intro n
  all_goals first
    | (rename_i l' hne; cases l' with
        | nil => exact absurd rfl hne
        | cons a l' => simp [scalarAnd, cardCounter])
    | (simp [*, scalarAnd]; try simp [cardCounter]; try omega)

/-- `VecWriter::new(cap)`, `scalar::or(.., &mut visitor)`, `visitor.into_inner()` (array_store/mod.rs:353-359, before
    `from_vec_unchecked`) -/
def orVisit (a b : List Nat) : List Nat := (scalarOr vecWriter a b #[]).toList
def andVisit (a b : List Nat) : List Nat := (scalarAnd vecWriter a b #[]).toList
def subVisit (a b : List Nat) : List Nat := (scalarSub vecWriter a b #[]).toList
def xorVisit (a b : List Nat) : List Nat := (scalarXor vecWriter a b #[]).toList
/-- array_store/mod.rs:215-222 `intersection_len`: `CardinalityCounter::new()`, `scalar::and`, `into_inner()` -/
def interLenVisit (a b : List Nat) : Nat := scalarAnd cardCounter a b 0

@[csimp] theorem or_eq_visit : @or = @orVisit := by funext a b; simp [orVisit, scalarOr_vecWriter]
@[csimp] theorem and_eq_visit : @and = @andVisit := by funext a b; simp [andVisit, scalarAnd_vecWriter]
@[csimp] theorem sub_eq_visit : @sub = @subVisit := by funext a b; simp [subVisit, scalarSub_vecWriter]
@[csimp] theorem xor_eq_visit : @xor = @xorVisit := by funext a b; simp [xorVisit, scalarXor_vecWriter]
@[csimp] theorem interLen_eq_visit : @interLen = @interLenVisit := by
  funext a b; simp [interLenVisit, scalarAnd_cardCounter]

/-! #### the four `&ArrayStore ∘ &ArrayStore` operator impls with their closing `from_vec_unchecked` (fidelity audit)

`Store.orRef` etc. use the bare merge result `Arr.or a b`; the Rust wraps it in `ArrayStore::from_vec_unchecked`, which
validates the vector in a debug build (`none` = the `unwrap()` panics).  `Lemmas/MirrorLemmas.lean` proves
`orOp dbg a b = some (Arr.or a b)` for strictly ascending operands (what `Store.Inv` provides): the validation never
fires, so dropping it in `Store.*` loses nothing on well-formed values. -/

/-- array_store/mod.rs:348-361 `BitOr for &ArrayStore` -/
def orOp (dbg : Bool) (a b : List Nat) : Option (List Nat) := fromVecUnchecked dbg (orVisit a b)
/-- array_store/mod.rs:363-374 `BitAnd for &ArrayStore` -/
def andOp (dbg : Bool) (a b : List Nat) : Option (List Nat) := fromVecUnchecked dbg (andVisit a b)
/-- array_store/mod.rs:402-413 `Sub for &ArrayStore` -/
def subOp (dbg : Bool) (a b : List Nat) : Option (List Nat) := fromVecUnchecked dbg (subVisit a b)
/-- array_store/mod.rs:441-454 `BitXor for &ArrayStore` -/
def xorOp (dbg : Bool) (a b : List Nat) : Option (List Nat) := fromVecUnchecked dbg (xorVisit a b)

end Arr
end Roaring
