import RoaringModel.Word
/-!
# `ArrayStore` — sorted `Vec<u16>` (array_store/mod.rs, scalar.rs, visitor.rs)

The vector is a `List Nat`.  `binary_search` on a sorted, duplicate-free vector is modelled by its
contract (`Ok(i)` with `v[i] = x`, else `Err(lower bound)`).
-/
namespace Roaring
namespace Arr

/-- number of elements `< x` at the front: the `Err` position of `binary_search` on sorted input -/
def lowerBound (v : List Nat) (x : Nat) : Nat := (v.takeWhile (· < x)).length

/-- `vec.binary_search(&x)`: `(true, i)` for `Ok(i)`, `(false, i)` for `Err(i)` -/
def bsearch (v : List Nat) (x : Nat) : Bool × Nat :=
  let i := lowerBound v x
  (v[i]? == some x, i)

/-- array_store/mod.rs:85 `insert` -/
def insert (v : List Nat) (x : Nat) : List Nat × Bool :=
  match bsearch v x with
  | (true, _) => (v, false)
  | (false, loc) => (v.take loc ++ x :: v.drop loc, true)

/-- array_store/mod.rs:89 `insert_range` (callers guarantee `s ≤ e`) -/
def insertRange (v : List Nat) (s e : Nat) : List Nat × Nat :=
  let ps := (bsearch v s).2
  let pe := ps + (match bsearch (v.drop ps) e with
    | (true, x) => x + 1
    | (false, x) => x)
  (v.take ps ++ List.range' s (e - s + 1) ++ v.drop pe, e - s + 1 - (pe - ps))

def max? (v : List Nat) : Option Nat := v.getLast?
def min? (v : List Nat) : Option Nat := v.head?

/-- array_store/mod.rs:109 `push` -/
def push (v : List Nat) (x : Nat) : List Nat × Bool :=
  match max? v with
  | none => (v ++ [x], true)
  | some m => if m < x then (v ++ [x], true) else (v, false)

/-- array_store/mod.rs:125 `push_unchecked`; `none` = the debug assertion fired -/
def pushUnchecked (dbg : Bool) (v : List Nat) (x : Nat) : Option (List Nat) :=
  if dbg then
    match max? v with
    | some m => if x > m then some (v ++ [x]) else none
    | none => some (v ++ [x])
  else some (v ++ [x])

/-- array_store/mod.rs:134 `remove` -/
def remove (v : List Nat) (x : Nat) : List Nat × Bool :=
  match bsearch v x with
  | (true, loc) => (v.take loc ++ v.drop (loc + 1), true)
  | (false, _) => (v, false)

/-- array_store/mod.rs:138 `remove_range` (callers guarantee `s ≤ e`) -/
def removeRange (v : List Nat) (s e : Nat) : List Nat × Nat :=
  let ps := (bsearch v s).2
  let pe := ps + (match bsearch (v.drop ps) e with
    | (true, x) => x + 1
    | (false, x) => x)
  (v.take ps ++ v.drop pe, pe - ps)

/-- array_store/mod.rs:153 `remove_smallest`: `rotate_left(n); truncate(len - n)` (callers guarantee `n ≤ len`) -/
def removeSmallest (v : List Nat) (n : Nat) : List Nat :=
  (v.drop n ++ v.take n).take (v.length - n)

/-- array_store/mod.rs:158 `remove_biggest` -/
def removeBiggest (v : List Nat) (n : Nat) : List Nat := v.take (v.length - n)

def contains (v : List Nat) (x : Nat) : Bool := (bsearch v x).1

/-- array_store/mod.rs:166 `contains_range` (callers guarantee `s ≤ e`) -/
def containsRange (v : List Nat) (s e : Nat) : Bool :=
  let rangeCount := e - s + 1
  if v.length < rangeCount then false
  else match bsearch v s with
    | (false, _) => false
    | (true, i) => v[i + rangeCount - 1]? == some e

/-- array_store/mod.rs:183 `is_disjoint` -/
def isDisjoint : List Nat → List Nat → Bool
  | [], _ => true
  | _, [] => true
  | a :: l, b :: r =>
    if a = b then false
    else if a < b then isDisjoint l (b :: r)
    else isDisjoint (a :: l) r
termination_by l r => l.length + r.length

/-- array_store/mod.rs:196 `is_subset` -/
def isSubset : List Nat → List Nat → Bool
  | [], _ => true
  | _ :: _, [] => false
  | a :: l, b :: r =>
    if a = b then isSubset l r
    else if a < b then false
    else isSubset (a :: l) r
termination_by l r => l.length + r.length

/-- scalar.rs `or` -/
def or : List Nat → List Nat → List Nat
  | [], r => r
  | l, [] => l
  | a :: l, b :: r =>
    if a < b then a :: or l (b :: r)
    else if b < a then b :: or (a :: l) r
    else a :: or l r
termination_by l r => l.length + r.length

/-- scalar.rs `and` -/
def and : List Nat → List Nat → List Nat
  | [], _ => []
  | _, [] => []
  | a :: l, b :: r =>
    if a < b then and l (b :: r)
    else if b < a then and (a :: l) r
    else a :: and l r
termination_by l r => l.length + r.length

/-- scalar.rs `sub` -/
def sub : List Nat → List Nat → List Nat
  | [], _ => []
  | l, [] => l
  | a :: l, b :: r =>
    if a < b then a :: sub l (b :: r)
    else if b < a then sub (a :: l) r
    else sub l r
termination_by l r => l.length + r.length

/-- scalar.rs `xor` -/
def xor : List Nat → List Nat → List Nat
  | [], r => r
  | l, [] => l
  | a :: l, b :: r =>
    if a < b then a :: xor l (b :: r)
    else if b < a then b :: xor (a :: l) r
    else xor l r
termination_by l r => l.length + r.length

/-- array_store/mod.rs:215 `intersection_len` = `scalar::and` into a `CardinalityCounter` -/
def interLen : List Nat → List Nat → Nat
  | [], _ => 0
  | _, [] => 0
  | a :: l, b :: r =>
    if a < b then interLen l (b :: r)
    else if b < a then interLen (a :: l) r
    else 1 + interLen l r
termination_by l r => l.length + r.length

/-- `i += rhs.iter().skip(i).position(|y| *y >= x).unwrap_or(rhs.len())` — the galloping index of the
    in-place `&=` / `-=`; `rest` is `rhs[i..]`, the result is the new `rhs[i..]`.
    (When `position` is `None`, `i` becomes `≥ rhs.len()` and `rhs.get(i)` is `None`: same as `[]`.) -/
def gallop (rest : List Nat) (x : Nat) : List Nat := rest.dropWhile (· < x)

/-- array_store/mod.rs:374 `bitand_assign(&Self)` (scalar path): `retain` with the galloping index -/
def andAssign : List Nat → List Nat → List Nat
  | [], _ => []
  | x :: l, rest =>
    let rest' := gallop rest x
    if rest'.head? == some x then x :: andAssign l rest' else andAssign l rest'

/-- array_store/mod.rs:413 `sub_assign(&Self)` (scalar path) -/
def subAssign : List Nat → List Nat → List Nat
  | [], _ => []
  | x :: l, rest =>
    let rest' := gallop rest x
    if rest'.head? == some x then subAssign l rest' else x :: subAssign l rest'

def rank (v : List Nat) (x : Nat) : Nat :=
  match bsearch v x with
  | (true, i) => i + 1
  | (false, i) => i

def select (v : List Nat) (n : Nat) : Option Nat := v[n]?

/-- `TryFrom<Vec<u16>>`: strictly ascending check -/
def isStrictlySorted : List Nat → Bool
  | [] => true
  | [_] => true
  | a :: b :: l => a < b && isStrictlySorted (b :: l)

/-- `from_vec_unchecked`: with debug assertions the vector is validated (`none` = panic) -/
def fromVecUnchecked (dbg : Bool) (v : List Nat) : Option (List Nat) :=
  if dbg then (if isStrictlySorted v then some v else none) else some v

end Arr
end Roaring
