import RoaringModel.Bitmap
/-!
# SPEC — finite sets of naturals as strictly ascending lists

Every operation is a one-liner on the sorted list and shares no code with the model (apart from the
`Bound` type used to carry range arguments).  These are the definitions the property theorems are stated
against; keep them short enough to be read in minutes.
-/
namespace Roaring
namespace Spec

abbrev Set := List Nat   -- strictly ascending

def Sorted (s : List Nat) : Prop := s.Pairwise (· < ·)

/-- `x` is admitted by a lower bound -/
def Bound.admitsLo : Bound → Nat → Prop
  | .incl s, x => s ≤ x
  | .excl s, x => s < x
  | .unb, _ => True

/-- `x` is admitted by an upper bound -/
def Bound.admitsHi : Bound → Nat → Prop
  | .incl e, x => x ≤ e
  | .excl e, x => x < e
  | .unb, _ => True

/-- membership of `x` in the range described by two bounds -/
def Bound.mem (lo hi : Bound) (x : Nat) : Prop := Bound.admitsLo lo x ∧ Bound.admitsHi hi x

instance (lo : Bound) (x : Nat) : Decidable (Bound.admitsLo lo x) := by
  cases lo <;> unfold Bound.admitsLo <;> exact inferInstance
instance (hi : Bound) (x : Nat) : Decidable (Bound.admitsHi hi x) := by
  cases hi <;> unfold Bound.admitsHi <;> exact inferInstance
instance (lo hi : Bound) (x : Nat) : Decidable (Bound.mem lo hi x) := by
  unfold Bound.mem; exact inferInstance

/-- smallest value admitted by a lower bound -/
def lower : Bound → Nat
  | .incl s => s
  | .excl s => s + 1
  | .unb => 0

/-- largest value `≤ maxV` admitted by an upper bound (`none`: nothing is admitted) -/
def upper (maxV : Nat) : Bound → Option Nat
  | .incl e => some (min e maxV)
  | .excl 0 => none
  | .excl (e + 1) => some (min e maxV)
  | .unb => some maxV

/-- the inclusive interval `[a, b]` of values `≤ maxV` selected by the bounds, `none` if empty -/
def interval (maxV : Nat) (lo hi : Bound) : Option (Nat × Nat) :=
  match upper maxV hi with
  | none => none
  | some b => if lower lo ≤ b then some (lower lo, b) else none

def contains (s : Set) (v : Nat) : Bool := s.contains v
def insert (s : Set) (v : Nat) : Set × Bool :=
  (if s.contains v then s else s.filter (· < v) ++ v :: s.filter (v < ·), !s.contains v)
def remove (s : Set) (v : Nat) : Set × Bool := (s.filter (· != v), s.contains v)

/-- add every value of `[a, b]`; returns how many were new -/
def insertIv (s : Set) (a b : Nat) : Set × Nat :=
  (s.filter (· < a) ++ List.range' a (b - a + 1) ++ s.filter (b < ·),
   (b - a + 1) - (s.filter (fun x => a ≤ x && x ≤ b)).length)
/-- remove every value of `[a, b]`; returns how many were present -/
def removeIv (s : Set) (a b : Nat) : Set × Nat :=
  (s.filter (fun x => x < a || b < x), (s.filter (fun x => a ≤ x && x ≤ b)).length)

def insertRange (maxV : Nat) (s : Set) (lo hi : Bound) : Set × Nat :=
  match interval maxV lo hi with
  | none => (s, 0)
  | some (a, b) => insertIv s a b
def removeRange (maxV : Nat) (s : Set) (lo hi : Bound) : Set × Nat :=
  match interval maxV lo hi with
  | none => (s, 0)
  | some (a, b) => removeIv s a b

/-- push succeeds only above the current maximum -/
def push (s : Set) (v : Nat) : Set × Bool :=
  match s.getLast? with
  | none => ([v], true)
  | some m => if m < v then (s ++ [v], true) else (s, false)

/-- the longest prefix of `vs` that is strictly ascending and starts above `prev?` -/
def ascPrefix : Option Nat → List Nat → List Nat
  | _, [] => []
  | none, v :: vs => v :: ascPrefix (some v) vs
  | some p, v :: vs => if p < v then v :: ascPrefix (some v) vs else []

/-- `append`: `Ok(n)` if all `n` values were accepted, else `Err(k)` with exactly the first `k` added -/
def append (s : Set) (vs : List Nat) : Set × Except Nat Nat :=
  let acc := ascPrefix s.getLast? vs
  (s ++ acc, if acc.length = vs.length then .ok acc.length else .error acc.length)

def extend (s : Set) (vs : List Nat) : Set := vs.foldl (fun s v => (insert s v).1) s
def removeSmallest (s : Set) (n : Nat) : Set := s.drop n
def removeBiggest (s : Set) (n : Nat) : Set := s.take (s.length - n)

def min? (s : Set) : Option Nat := s.head?
def max? (s : Set) : Option Nat := s.getLast?
def rank (s : Set) (v : Nat) : Nat := (s.filter (· ≤ v)).length
def select (s : Set) (n : Nat) : Option Nat := s[n]?
def rangeCardinality (maxV : Nat) (s : Set) (lo hi : Bound) : Nat :=
  match interval maxV lo hi with
  | none => 0
  | some (a, b) => (s.filter (fun x => a ≤ x && x ≤ b)).length
/-- every integer of the range is present (vacuously true for an empty range) -/
def containsRange (maxV : Nat) (s : Set) (lo hi : Bound) : Bool :=
  match interval maxV lo hi with
  | none => true
  | some (a, b) => (s.filter (fun x => a ≤ x && x ≤ b)).length == b - a + 1

def isFull (maxV : Nat) (s : Set) : Bool := s.length == maxV + 1

/-! Set algebra.  The *specification* of each operation is its membership law
    (`x ∈ sAnd a b ↔ x ∈ a ∧ x ∈ b`, … proved in `Lemmas/SpecLemmas.lean`) together with sortedness;
    the executable forms below are plain two-pointer merges so that the driver can evaluate them on
    sets with 10^5 elements. -/
def sOr : Set → Set → Set
  | [], r => r
  | l, [] => l
  | a :: l, b :: r =>
    if a < b then a :: sOr l (b :: r)
    else if b < a then b :: sOr (a :: l) r
    else a :: sOr l r
termination_by l r => l.length + r.length

def sAnd : Set → Set → Set
  | [], _ => []
  | _, [] => []
  | a :: l, b :: r =>
    if a < b then sAnd l (b :: r)
    else if b < a then sAnd (a :: l) r
    else a :: sAnd l r
termination_by l r => l.length + r.length

def sSub : Set → Set → Set
  | [], _ => []
  | l, [] => l
  | a :: l, b :: r =>
    if a < b then a :: sSub l (b :: r)
    else if b < a then sSub (a :: l) r
    else sSub l r
termination_by l r => l.length + r.length

def sXor (a b : Set) : Set := sOr (sSub a b) (sSub b a)

def isSubset (a b : Set) : Bool := (sSub a b).isEmpty
def isDisjoint (a b : Set) : Bool := (sAnd a b).isEmpty
def isSuperset (a b : Set) : Bool := isSubset b a

/-- cardinalities of the mathematical results (C08) -/
def interLen (a b : Set) : Nat := (sAnd a b).length
def unionLen (a b : Set) : Nat := (sOr a b).length
def diffLen (a b : Set) : Nat := (sSub a b).length
def xorLen (a b : Set) : Nat := (sXor a b).length

end Spec
end Roaring
