import RoaringModel.Bitmap
/-!
# `Pairs`, `is_disjoint`, `is_subset`, `is_superset` (bitmap/cmp.rs)
-/
namespace Roaring
namespace Bitmap

/-- cmp.rs:131-152 `Pairs::next`, unfolded into the whole list of pairs it yields
    (`(None, None)` is never yielded: `next` returns `None` there). -/
def pairs : List Container → List Container → List (Option Container × Option Container)
  | [], [] => []
  | l :: ls, [] => (some l, none) :: pairs ls []
  | [], r :: rs => (none, some r) :: pairs [] rs
  | l :: ls, r :: rs =>
    if l.key = r.key then (some l, some r) :: pairs ls rs
    else if l.key < r.key then (some l, none) :: pairs ls (r :: rs)
    else (none, some r) :: pairs (l :: ls) rs
termination_by l r => l.length + r.length

/-- cmp.rs:29 `is_disjoint`: `.filter_map(|(c1, c2)| c1.zip(c2)).all(|(c1, c2)| c1.is_disjoint(c2))` -/
def isDisjoint (a b : Bitmap) : Bool :=
  (pairs a b).all fun
    | (some c1, some c2) => c1.isDisjoint c2
    | _ => true

/-- cmp.rs:58 `is_subset` (the `for` loop with early `return false`) -/
def isSubset (a b : Bitmap) : Bool :=
  (pairs a b).all fun
    | (none, _) => true
    | (some _, none) => false
    | (some c1, some c2) => c1.isSubset c2

/-- cmp.rs:95 `is_superset` -/
def isSuperset (a b : Bitmap) : Bool := isSubset b a

end Bitmap
end Roaring
