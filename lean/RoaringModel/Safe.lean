import RoaringModel.Ser
import RoaringModel.Treemap
/-!
# `Safe_*` — the arithmetic side conditions of the Rust code, as decidable predicates over the model (C16)

The model computes with unbounded `Nat`, TRUNCATED subtraction, `List.getD` / `[i]?` defaults and `Nat` shifts exactly
where the Rust uses `u16/u32/u64/usize/i64` arithmetic, slice indexing and `<<`/`>>`, i.e. where a build with
`overflow-checks = true` panics and a build with `overflow-checks = false` wraps (indexing panics in both).
For every such site this file states the condition under which the Rust expression and the model expression
agree: no underflow of a `-`, no overflow of a `+`/`+=` in the stated integer type, shift amount below the bit
width, index below the length, slice range well-ordered and inside the slice, narrowing `as` cast lossless.

Each predicate is named after the model function (`BStore.Safe_insert` ↔ `BStore.insert` ↔ `BitmapStore::insert`);
each conjunct is followed by the line(s) of `/repo/roaring/src/…` it covers (file named in the doc comment).
All predicates are decidable (`decide` / `#eval` work on concrete values).  They depend on the model only
(no lemma file); the proofs that they follow from `BStore.Inv` / `Arr.Inv` / `Store.WF` / `Bitmap.WF` and the
argument ranges are in `Lemmas/SafeLemmas.lean`, the property theorems `C16_safe_*` in `Props/C16.lean`.
-/
namespace Roaring

/-- the value fits `u16` -/
abbrev U16 (n : Nat) : Prop := n < 2^16
/-- the value fits `u32` -/
abbrev U32 (n : Nat) : Prop := n < 2^32
/-- the value fits `u64` (and `usize` on a 64-bit target) -/
abbrev U64 (n : Nat) : Prop := n < 2^64
/-- the value fits `i64` -/
abbrev I64 (z : Int) : Prop := -(2^63 : Int) ≤ z ∧ z < (2^63 : Int)

/-! ## Word level (bitmap_store.rs) -/

/-- `value &= value - 1` executed `n` times (bitmap_store.rs:425 in `select(value, n)`, :384 in `remove_smallest`):
    every iteration needs `value != 0` (`0 - 1` underflows). -/
def Safe_popLowN (w : Nat) : Nat → Prop
  | 0 => True
  | n+1 => w ≠ 0 ∧ Safe_popLowN (popLow w) n

instance : ∀ (w n : Nat), Decidable (Safe_popLowN w n)
  | _, 0 => isTrue trivial
  | w, n+1 => by
    unfold Safe_popLowN
    have := instDecidableSafe_popLowN (popLow w) n
    infer_instance

/-- `*word &= !(1 << (63 - word.leading_zeros()))` executed `n` times (bitmap_store.rs:407 in `remove_biggest`):
    every iteration needs `word != 0` (`leading_zeros() = 64` makes `63 - 64` underflow) and the shift amount
    `63 - leading_zeros` (= `hiBit`) below 64. -/
def Safe_popHighN (w : Nat) : Nat → Prop
  | 0 => True
  | n+1 => w ≠ 0 ∧ hiBit w < 64 ∧ Safe_popHighN (popHigh w) n

instance : ∀ (w n : Nat), Decidable (Safe_popHighN w n)
  | _, 0 => isTrue trivial
  | w, n+1 => by
    unfold Safe_popHighN
    have := instDecidableSafe_popHighN (popHigh w) n
    infer_instance

namespace BStore

/-! ## `BitmapStore` (roaring/src/bitmap/store/bitmap_store.rs) -/

/-- bitmap_store.rs:106-114 `insert` -/
def Safe_insert (b : BStore) (i : Nat) : Prop :=
  let k := wkey i; let bit := wbit i
  let old := word b.bits k
  let new := old ||| (1 <<< bit)
  let inserted := (old ^^^ new) >>> bit
  k < b.bits.length            -- :108 :111 `self.bits[key]`
  ∧ bit < 64                   -- :109 `1 << bit`, :110 `>> bit`
  ∧ U64 (b.len + inserted)     -- :112 `self.len += inserted`

instance (b : BStore) (i : Nat) : Decidable (Safe_insert b i) := by unfold Safe_insert; infer_instance

/-- bitmap_store.rs:188-196 `remove` -/
def Safe_remove (b : BStore) (i : Nat) : Prop :=
  let k := wkey i; let bit := wbit i
  let old := word b.bits k
  let new := old &&& not64 (1 <<< bit)
  let removed := (old ^^^ new) >>> bit
  k < b.bits.length            -- :190 :193 `self.bits[key]`
  ∧ bit < 64                   -- :191 `1 << bit`, :192 `>> bit`
  ∧ removed ≤ b.len            -- :194 `self.len -= removed`

instance (b : BStore) (i : Nat) : Decidable (Safe_remove b i) := by unfold Safe_remove; infer_instance

/-- bitmap_store.rs:237-239 `contains` -/
def Safe_contains (b : BStore) (i : Nat) : Prop :=
  wkey i < b.bits.length       -- :238 `self.bits[key(index)]`
  ∧ wbit i < 64                -- :238 `1 << bit(index)`

instance (b : BStore) (i : Nat) : Decidable (Safe_contains b i) := by unfold Safe_contains; infer_instance

/-- the `existed` counter of `insert_range` at its last use (bitmap_store.rs:130, resp. :143 + :149 + :155);
    the same expression as in `BStore.insertRange` -/
def insertRangeExisted (b : BStore) (s e : Nat) : Nat :=
  let sk := wkey s; let sb := wbit s
  let ek := wkey e; let eb := wbit e
  if sk = ek then popcount (word b.bits sk &&& (maskLE eb &&& maskGE sb))
  else
    let bits := b.bits.set sk (word b.bits sk ||| maskGE sb)
    let existed := popcount (word b.bits sk &&& maskGE sb) + popSum ((bits.drop (sk + 1)).take (ek - (sk + 1)))
    let bits := fillWords bits (sk + 1) ek wMax
    existed + popcount (word bits ek &&& maskLE eb)

/-- bitmap_store.rs:116-161 `insert_range` -/
def Safe_insertRange (b : BStore) (s e : Nat) : Prop :=
  let sk := wkey s; let sb := wbit s
  let ek := wkey e; let eb := wbit e
  let existed := insertRangeExisted b s e
  sk < b.bits.length ∧ ek < b.bits.length   -- :130 :131 :143 :145 :155 :156 `self.bits[start_key]`, `self.bits[end_key]`;
                                            -- :149 :150 `self.bits[i]` for `i` in `(start_key + 1)..end_key`
  ∧ sb < 64                                 -- :128 :139 `1 << start_bit`
  ∧ (eb ≠ 63 → eb + 1 < 64)                 -- :126 :154 `1 << (end_bit + 1)` (and `(1 << …) - 1` with `1 << … ≥ 1`)
  ∧ s ≤ e                                   -- :133 `end - start` (u16), :158 `end as u64 - start as u64`
  ∧ (sk = ek → U16 (e - s + 1))             -- :133 `end - start + 1` is computed in `u16`
  ∧ U32 existed                             -- :143 :149 :155 `existed` is a `u32` accumulator
  ∧ existed ≤ e - s + 1                     -- :133 `u64::from(end - start + 1) - u64::from(existed)`, :158 `… + 1 - existed as u64`
  ∧ U64 (b.len + (e - s + 1 - existed))     -- :134 :159 `self.len += inserted`

instance (b : BStore) (s e : Nat) : Decidable (Safe_insertRange b s e) := by unfold Safe_insertRange; infer_instance

/-- bitmap_store.rs:198-235 `remove_range`; `removed` (a `u32` accumulator, :207 / :216 + :220 + :230) is the returned value -/
def Safe_removeRange (b : BStore) (s e : Nat) : Prop :=
  let sk := wkey s; let sb := wbit s
  let ek := wkey e; let eb := wbit e
  let removed := (b.removeRange s e).2
  sk < b.bits.length ∧ ek < b.bits.length   -- :207 :208 :216 :217 :230 :231 `self.bits[start_key]`, `self.bits[end_key]`
  ∧ (sk ≠ ek → sk + 1 ≤ ek)                 -- :219 :226 the slice `self.bits[start_key + 1..end_key]` (start ≤ end ≤ 1024)
  ∧ sb < 64                                 -- :206 :216 :217 `u64::MAX << start_bit`
  ∧ eb ≤ 63                                 -- :206 :230 :231 `63 - end_bit`; the amount of `>> (63 - end_bit)` is then < 64
  ∧ U32 removed                             -- :207 :216 :220 :230 `removed` accumulates in `u32`
  ∧ removed ≤ b.len                         -- :210 :233 `self.len -= removed`

instance (b : BStore) (s e : Nat) : Decidable (Safe_removeRange b s e) := by unfold Safe_removeRange; infer_instance

/-- bitmap_store.rs:241-270 `contains_range` -/
def Safe_containsRange (b : BStore) (s e : Nat) : Prop :=
  let si := wkey s; let sb := wbit s
  let ei := wkey e; let eb := wbit e
  s ≤ e                                     -- :244 `end - start` (u16)
  ∧ (¬ b.len < e - s + 1 →
      sb < 64                               -- :254 `1 << start_bit`
      ∧ eb + 1 ≤ 64                         -- :259 `64 - (end_bit + 1)`
      ∧ 64 - (eb + 1) < 64                  -- :259 `(!0) >> (…)`
      ∧ si ≤ ei ∧ ei < b.bits.length)       -- :261 `self.bits[start_i..=end_i]` is in range and non-empty (:262 `[] => unreachable!()`)

instance (b : BStore) (s e : Nat) : Decidable (Safe_containsRange b s e) := by unfold Safe_containsRange; infer_instance

/-- bitmap_store.rs:299-305 `min`: the narrowing cast `(index * 64 + trailing_zeros) as u16` is lossless -/
def Safe_min (b : BStore) : Prop :=
  match b.bits.zipIdx.find? (fun p => p.1 != 0) with
  | some (w, i) => U16 (i * 64 + tz w)      -- :304
  | none => True

instance (b : BStore) : Decidable (Safe_min b) := by unfold Safe_min; split <;> infer_instance

/-- bitmap_store.rs:308-315 `max`: `63 - bit.leading_zeros()` needs `bit != 0`; the cast to `u16` is lossless -/
def Safe_max (b : BStore) : Prop :=
  match b.bits.zipIdx.reverse.find? (fun p => p.1 != 0) with
  | some (w, i) => w ≠ 0 ∧ U16 (i * 64 + hiBit w)   -- :314
  | none => True

instance (b : BStore) : Decidable (Safe_max b) := by unfold Safe_max; split <;> infer_instance

/-- bitmap_store.rs:280-289 `to_array_store`: `bit &= bit - 1` runs under `while bit != 0` (explicit guard);
    `(trailing_zeros + 64 * index as u32) as u16` is lossless -/
def Safe_toArray (b : BStore) : Prop := ∀ x ∈ b.toArray, U16 x   -- :284

instance (b : BStore) : Decidable (Safe_toArray b) := by unfold Safe_toArray; infer_instance

/-- bitmap_store.rs:317-322 `rank` -/
def Safe_rank (b : BStore) (i : Nat) : Prop :=
  let k := wkey i; let bit := wbit i
  k < b.bits.length                         -- :320 `self.bits[..key]`, :321 `self.bits[key]`
  ∧ bit ≤ 63                                -- :321 `63 - bit`; the amount of `<< (63 - bit)` is then < 64
  ∧ U64 (popSum (b.bits.take k) + popcount ((word b.bits k <<< (63 - bit)) % W))   -- :320 `sum::<u64>() + …`

instance (b : BStore) (i : Nat) : Decidable (Safe_rank b i) := by unfold Safe_rank; infer_instance

/-- the loop of bitmap_store.rs:324-337 `select` over the words from index `k` on -/
def Safe_selectFrom : Nat → List Nat → Nat → Prop
  | _, [], _ => True
  | k, w :: ws, n =>
    if n < popcount w then
      Safe_popLowN w n                      -- :330 `select(value, n)` → :425 `value &= value - 1`, `n` times
      ∧ U16 (64 * k + selectBit w n)        -- :331 `(64 * key as u64 + index) as u16`
    else
      popcount w ≤ n                        -- :333 `n -= len` (guarded by :329)
      ∧ Safe_selectFrom (k + 1) ws (n - popcount w)

instance : ∀ (k : Nat) (ws : List Nat) (n : Nat), Decidable (Safe_selectFrom k ws n)
  | _, [], _ => isTrue trivial
  | k, w :: ws, n => by
    unfold Safe_selectFrom
    have := instDecidableSafe_selectFrom (k + 1) ws (n - popcount w)
    infer_instance

/-- bitmap_store.rs:324-337 `select` -/
def Safe_select (b : BStore) (n : Nat) : Prop := Safe_selectFrom 0 b.bits n

instance (b : BStore) (n : Nat) : Decidable (Safe_select b n) := by unfold Safe_select; infer_instance

/-- the `for word in self.bits.iter_mut()` loop of `remove_smallest` (bitmap_store.rs:380-393) -/
def Safe_rsLoop : List Nat → Nat → Prop
  | [], _ => True
  | w :: ws, n =>
    if n < popcount w then Safe_popLowN w n                 -- :384 `*word - 1`, `clear_bits` times
    else popcount w ≤ n                                     -- :389 `clear_bits -= count` (guarded by :382)
      ∧ (n - popcount w = 0 ∨ Safe_rsLoop ws (n - popcount w))

instance : ∀ (ws : List Nat) (n : Nat), Decidable (Safe_rsLoop ws n)
  | [], _ => isTrue trivial
  | w :: ws, n => by
    unfold Safe_rsLoop
    have := instDecidableSafe_rsLoop ws (n - popcount w)
    infer_instance

/-- bitmap_store.rs:374-394 `remove_smallest` -/
def Safe_removeSmallest (b : BStore) (n : Nat) : Prop :=
  ¬ b.len < n →
    n ≤ b.len                               -- :379 `self.len -= clear_bits` (guarded by :375)
    ∧ Safe_rsLoop b.bits n

instance (b : BStore) (n : Nat) : Decidable (Safe_removeSmallest b n) := by unfold Safe_removeSmallest; infer_instance

/-- the `for word in self.bits.iter_mut().rev()` loop of `remove_biggest` (bitmap_store.rs:403-416), on the reversed words -/
def Safe_rbLoop : List Nat → Nat → Prop
  | [], _ => True
  | w :: ws, n =>
    if n < popcount w then Safe_popHighN w n                -- :407 `63 - word.leading_zeros()`, `1 << …`, `clear_bits` times
    else popcount w ≤ n                                     -- :412 `clear_bits -= count` (guarded by :405)
      ∧ (n - popcount w = 0 ∨ Safe_rbLoop ws (n - popcount w))

instance : ∀ (ws : List Nat) (n : Nat), Decidable (Safe_rbLoop ws n)
  | [], _ => isTrue trivial
  | w :: ws, n => by
    unfold Safe_rbLoop
    have := instDecidableSafe_rbLoop ws (n - popcount w)
    infer_instance

/-- bitmap_store.rs:397-417 `remove_biggest` -/
def Safe_removeBiggest (b : BStore) (n : Nat) : Prop :=
  ¬ b.len < n →
    n ≤ b.len                               -- :402 `self.len -= clear_bits` (guarded by :398)
    ∧ Safe_rbLoop b.bits.reverse n

instance (b : BStore) (n : Nat) : Decidable (Safe_removeBiggest b n) := by unfold Safe_removeBiggest; infer_instance

/-- bitmap_store.rs:634-640 `op_bitmaps`: `bits1.len += index1.count_ones() as u64`, every prefix sum fits `u64`
    (the sums are monotone, so the last one is the largest) -/
def Safe_opBitmaps (f : Nat → Nat → Nat) (a b : BStore) : Prop :=
  U64 (popSum (List.zipWith f a.bits b.bits))   -- :638

instance (f : Nat → Nat → Nat) (a b : BStore) : Decidable (Safe_opBitmaps f a b) := by
  unfold Safe_opBitmaps; infer_instance

/-- bitmap_store.rs:648-657 `BitOrAssign<&ArrayStore>`: the loop body is `insert`'s
    (:652 :655 `self.bits[key]`, :653 `1 << bit`, :654 `self.len += (old_w ^ new_w) >> bit`) -/
def Safe_orArr : BStore → List Nat → Prop
  | _, [] => True
  | b, i :: v => Safe_insert b i ∧ Safe_orArr (b.insert i).1 v

instance : ∀ (b : BStore) (v : List Nat), Decidable (Safe_orArr b v)
  | _, [] => isTrue trivial
  | b, i :: v => by
    unfold Safe_orArr
    have := instDecidableSafe_orArr (b.insert i).1 v
    infer_instance

/-- bitmap_store.rs:673-683 `SubAssign<&ArrayStore>`: the loop body is `remove`'s
    (:678 :681 `self.bits[key]`, :679 `1 << bit`, :680 `self.len -= (old_w ^ new_w) >> bit`) -/
def Safe_subArr : BStore → List Nat → Prop
  | _, [] => True
  | b, i :: v => Safe_remove b i ∧ Safe_subArr (b.remove i).1 v

instance : ∀ (b : BStore) (v : List Nat), Decidable (Safe_subArr b v)
  | _, [] => isTrue trivial
  | b, i :: v => by
    unfold Safe_subArr
    have := instDecidableSafe_subArr (b.remove i).1 v
    infer_instance

/-- the loop of bitmap_store.rs:692-703 `BitXorAssign<&ArrayStore>` on the pair (`len : i64`, words) -/
def Safe_xorArrLoop : Int × List Nat → List Nat → Prop
  | _, [] => True
  | p, i :: v =>
    let k := wkey i; let bit := wbit i
    let old := word p.2 k
    let d : Int := 1 - 2 * ((((1 <<< bit) &&& old) >>> bit : Nat) : Int)
    k < p.2.length                          -- :697 :700 `self.bits[key]`
    ∧ bit < 64                              -- :698 :699 `1 << bit`, `>> bit`
    ∧ I64 d ∧ I64 (p.1 + d)                 -- :699 `len += 1 - 2 * (… as i64)`
    ∧ 0 ≤ p.1 + d                           -- the counter never goes negative (so :702 `len as u64` is lossless)
    ∧ Safe_xorArrLoop (p.1 + d, p.2.set k (old ^^^ (1 <<< bit))) v

instance : ∀ (p : Int × List Nat) (v : List Nat), Decidable (Safe_xorArrLoop p v)
  | _, [] => isTrue trivial
  | p, i :: v => by
    unfold Safe_xorArrLoop
    have := fun q => instDecidableSafe_xorArrLoop q v
    infer_instance

/-- bitmap_store.rs:692-703 `BitXorAssign<&ArrayStore>` -/
def Safe_xorArr (b : BStore) (v : List Nat) : Prop :=
  I64 (b.len : Int)                         -- :694 `self.len as i64` is lossless
  ∧ Safe_xorArrLoop ((b.len : Int), b.bits) v

instance (b : BStore) (v : List Nat) : Decidable (Safe_xorArr b v) := by unfold Safe_xorArr; infer_instance

/-- bitmap_store.rs:343-353 `intersection_len_array` -/
def Safe_interLenArray (b : BStore) (v : List Nat) : Prop :=
  (∀ i ∈ v, wkey i < b.bits.length ∧ wbit i < 64)   -- :348 `self.bits[key]`, :349 `1 << bit`, :350 `>> bit`
  ∧ U64 (b.interLenArray v)                         -- :352 `sum::<u64>()` (monotone prefix sums)

instance (b : BStore) (v : List Nat) : Decidable (Safe_interLenArray b v) := by unfold Safe_interLenArray; infer_instance

/-- bitmap_store.rs:339-341 `intersection_len_bitmap` -/
def Safe_interLenBitmap (a b : BStore) : Prop := U64 (a.interLenBitmap b)   -- :340 `sum()`

instance (a b : BStore) : Decidable (Safe_interLenBitmap a b) := by unfold Safe_interLenBitmap; infer_instance

end BStore

/-! ## `BitmapIter` (bitmap_store.rs:459-619) -/
namespace BIter

/-- bitmap_store.rs:551-576 `next`: `self.value - 1` (:574) runs only after `self.value != 0` was established (the model's
    `next` has the same explicit tests), `self.key + 1` (:557) only when `key < key_back`; the yielded
    `64 * self.key + index` (:575) is computed in `u16` -/
def Safe_next (it : BIter) : Prop :=
  (it.value = 0 → it.key < it.keyBack → U16 (it.key + 1))     -- :557 `self.key + 1..self.key_back`
  ∧ (match it.next.2 with
     | some x => U16 x                                         -- :575 `Some(64 * self.key + index)`
     | none => True)

instance (it : BIter) : Decidable (Safe_next it) := by
  unfold Safe_next
  refine @instDecidableAnd _ _ _ ?_
  split <;> infer_instance

/-- bitmap_store.rs:598-618 `next_back`: `self.key_back -= 1` (:606) only when `key < key_back` (explicit test),
    `63 - index_from_left` (:614) only on a non-zero word (explicit test); the yielded `64 * self.key_back + index`
    (:616) is computed in `u16` -/
def Safe_nextBack (it : BIter) : Prop :=
  match it.nextBack.2 with
  | some x => U16 x                                            -- :616
  | none => True

instance (it : BIter) : Decidable (Safe_nextBack it) := by unfold Safe_nextBack; split <;> infer_instance

/-- bitmap_store.rs:481-545 `advance_to` / `advance_back_to`: the shifts `1 << bit` (:507) and
    `u64::MAX >> (64 - bit - 1)` (:541) with `bit = index % 64` -/
def Safe_advance (index : Nat) : Prop :=
  wbit index < 64                                              -- :507 `(1 << bit) - 1` (and `1 << bit ≥ 1`)
  ∧ wbit index + 1 ≤ 64 ∧ 64 - wbit index - 1 < 64             -- :541 `64 - bit - 1`, `>>` amount

instance (index : Nat) : Decidable (Safe_advance index) := by unfold Safe_advance; infer_instance

end BIter

/-! ## `ArrayStore` (roaring/src/bitmap/store/array_store/mod.rs) -/
namespace Arr

/-- `pos_start` / `pos_end` of `insert_range` (:94-99) and `remove_range` (:143-148); the same expressions as in
    `Arr.insertRange` / `Arr.removeRange` -/
def rangePos (v : List Nat) (s e : Nat) : Nat × Nat :=
  let ps := (bsearch v s).2
  let pe := ps + (match bsearch (v.drop ps) e with
    | (true, x) => x + 1
    | (false, x) => x)
  (ps, pe)

/-- array_store/mod.rs:85-87 `insert`, :134-136 `remove`: the position handed to `Vec::insert` is `≤ len`, the one
    handed to `Vec::remove` is `< len` (this is std's `binary_search` contract; the model's `bsearch` satisfies it) -/
def Safe_bsearch (v : List Nat) (x : Nat) : Prop :=
  (bsearch v x).2 ≤ v.length                             -- :86 `self.vec.insert(loc, index)` on `Err(loc)`
  ∧ ((bsearch v x).1 = true → (bsearch v x).2 < v.length) -- :135 `self.vec.remove(loc)` on `Ok(loc)`

instance (v : List Nat) (x : Nat) : Decidable (Safe_bsearch v x) := by unfold Safe_bsearch; infer_instance

/-- array_store/mod.rs:89-107 `insert_range` -/
def Safe_insertRange (v : List Nat) (s e : Nat) : Prop :=
  let ps := (rangePos v s e).1; let pe := (rangePos v s e).2
  ps ≤ v.length                    -- :96 `self.vec[pos_start..]`
  ∧ ps ≤ pe ∧ pe ≤ v.length        -- :104 `self.vec.splice(pos_start..pos_end, …)`
  ∧ s ≤ e                          -- :106 `end as u64 - start as u64`
  ∧ pe - ps ≤ e - s + 1            -- :106 `… + 1 - dropped.len() as u64` (`dropped.len() = pos_end - pos_start`)

instance (v : List Nat) (s e : Nat) : Decidable (Safe_insertRange v s e) := by unfold Safe_insertRange; infer_instance

/-- array_store/mod.rs:138-151 `remove_range` -/
def Safe_removeRange (v : List Nat) (s e : Nat) : Prop :=
  let ps := (rangePos v s e).1; let pe := (rangePos v s e).2
  ps ≤ v.length                    -- :145 `self.vec[pos_start..]`
  ∧ ps ≤ pe ∧ pe ≤ v.length        -- :149 `self.vec.drain(pos_start..pos_end)`, :150 `pos_end - pos_start`

instance (v : List Nat) (s e : Nat) : Decidable (Safe_removeRange v s e) := by unfold Safe_removeRange; infer_instance

/-- array_store/mod.rs:153-156 `remove_smallest`, :158-160 `remove_biggest`.  NOT implied by `Arr.Inv`: it is the
    callers' obligation (`Container.Safe_removeSmallest`, `Bitmap.Safe_removeSmallest`). -/
def Safe_removeN (v : List Nat) (n : Nat) : Prop :=
  n ≤ v.length   -- :154 `rotate_left(n as usize)` (panics when `mid > len`), :155 :159 `self.vec.len() - n as usize`

instance (v : List Nat) (n : Nat) : Decidable (Safe_removeN v n) := by unfold Safe_removeN; infer_instance

/-- array_store/mod.rs:166-181 `contains_range` -/
def Safe_containsRange (v : List Nat) (s e : Nat) : Prop :=
  s ≤ e                                                  -- :169 `end - start` (u16)
  ∧ 1 ≤ (bsearch v s).2 + (e - s + 1)                    -- :180 `start_i + range_count - 1` (`Vec::get` is total)

instance (v : List Nat) (s e : Nat) : Decidable (Safe_containsRange v s e) := by unfold Safe_containsRange; infer_instance

/-- array_store/mod.rs:224-232 `to_bitmap_store`: indexing / shifts of the loop, and the `unwrap()` inside
    `BitmapStore::from_unchecked` in a debug build (bitmap_store.rs:99) -/
def Safe_toBitmap (v : List Nat) : Prop :=
  (∀ i ∈ v, wkey i < 1024 ∧ wbit i < 64)                                   -- :229 `bits[key(index)] |= 1 << bit(index)`
  ∧ (BStore.tryFrom v.length (Store.arrToBitmapBits v)).isSome = true       -- :231 → bitmap_store.rs:99 `try_from(len, bits).unwrap()`

instance (v : List Nat) : Decidable (Safe_toBitmap v) := by unfold Safe_toBitmap; infer_instance

end Arr

/-! ## `Store` / `Container` (store/mod.rs, container.rs) -/
namespace Store

def Safe_insert : Store → Nat → Prop
  | .array v, i => Arr.Safe_bsearch v i
  | .bitmap b, i => b.Safe_insert i
instance (st : Store) (i : Nat) : Decidable (Safe_insert st i) := by unfold Safe_insert; split <;> infer_instance

def Safe_remove : Store → Nat → Prop
  | .array v, i => Arr.Safe_bsearch v i
  | .bitmap b, i => b.Safe_remove i
instance (st : Store) (i : Nat) : Decidable (Safe_remove st i) := by unfold Safe_remove; split <;> infer_instance

/-- store/mod.rs `insert_range` (after the `range.is_empty()` early return) -/
def Safe_insertRange : Store → Nat → Nat → Prop
  | .array v, s, e => Arr.Safe_insertRange v s e
  | .bitmap b, s, e => b.Safe_insertRange s e
instance (st : Store) (s e : Nat) : Decidable (Safe_insertRange st s e) := by unfold Safe_insertRange; split <;> infer_instance

def Safe_removeRange : Store → Nat → Nat → Prop
  | .array v, s, e => Arr.Safe_removeRange v s e
  | .bitmap b, s, e => b.Safe_removeRange s e
instance (st : Store) (s e : Nat) : Decidable (Safe_removeRange st s e) := by unfold Safe_removeRange; split <;> infer_instance

def Safe_containsRange : Store → Nat → Nat → Prop
  | .array v, s, e => Arr.Safe_containsRange v s e
  | .bitmap b, s, e => b.Safe_containsRange s e
instance (st : Store) (s e : Nat) : Decidable (Safe_containsRange st s e) := by unfold Safe_containsRange; split <;> infer_instance

/-- array_store/mod.rs:251-256 `rank` (`i as u64 + 1` with `i < len`: no condition), bitmap_store.rs:317 -/
def Safe_rank : Store → Nat → Prop
  | .array _, _ => True
  | .bitmap b, i => b.Safe_rank i
instance (st : Store) (i : Nat) : Decidable (Safe_rank st i) := by unfold Safe_rank; split <;> infer_instance

/-- array_store/mod.rs:258 `select` (`Vec::get`: total), bitmap_store.rs:324 -/
def Safe_select : Store → Nat → Prop
  | .array _, _ => True
  | .bitmap b, n => b.Safe_select n
instance (st : Store) (n : Nat) : Decidable (Safe_select st n) := by unfold Safe_select; split <;> infer_instance

end Store

namespace Container

/-- container.rs:59-69 `insert_range` on a non-empty range: :61 `range.len() as u64` (`ExactSizeIterator::len` of a
    `RangeInclusive<u16>`: `e - s + 1 ≤ 65536` fits `usize`), :63 `to_bitmap_store`, :66 the store-level call -/
def Safe_insertRange (c : Container) (s e : Nat) : Prop :=
  s ≤ e ∧ e - s + 1 ≤ 65536                                     -- :61
  ∧ (match c.store with
     | .array v =>
       if e - s + 1 > ARRAY_LIMIT then Arr.Safe_toBitmap v ∧ (Store.arrToBitmap v).Safe_insertRange s e   -- :63 :66
       else Arr.Safe_insertRange v s e                                                                  -- :66
     | .bitmap b => b.Safe_insertRange s e)                                                             -- :66

instance (c : Container) (s e : Nat) : Decidable (Safe_insertRange c s e) := by
  unfold Safe_insertRange; split <;> infer_instance

/-- container.rs:110-123 `remove_smallest` -/
def Safe_removeSmallest (c : Container) (n : Nat) : Prop :=
  match c.store with
  | .bitmap b =>
    n ≤ b.len                                                   -- :113 :114 `bits.len() - n`
    ∧ (if b.len - n ≤ ARRAY_LIMIT then b.Safe_toArray           -- :115 the values pushed by `bits.iter()` are `u16`s
       else b.Safe_removeSmallest n)                            -- :118
  | .array v => Arr.Safe_removeN v n                            -- :121

instance (c : Container) (n : Nat) : Decidable (Safe_removeSmallest c n) := by
  unfold Safe_removeSmallest; split <;> infer_instance

/-- container.rs:125-138 `remove_biggest` -/
def Safe_removeBiggest (c : Container) (n : Nat) : Prop :=
  match c.store with
  | .bitmap b =>
    n ≤ b.len                                                   -- :128 :129 :130 `bits.len() - n`
    ∧ (if b.len - n ≤ ARRAY_LIMIT then b.Safe_toArray           -- :130
       else b.Safe_removeBiggest n)                             -- :133
  | .array v => Arr.Safe_removeN v n                            -- :136

instance (c : Container) (n : Nat) : Decidable (Safe_removeBiggest c n) := by
  unfold Safe_removeBiggest; split <;> infer_instance

/-- container.rs:177-190 `ensure_correct_store`: :181 `to_array_store`, :186 `to_bitmap_store` -/
def Safe_ensureCorrectStore (c : Container) : Prop :=
  match c.store with
  | .bitmap b => b.len ≤ ARRAY_LIMIT → b.Safe_toArray
  | .array v => v.length > ARRAY_LIMIT → Arr.Safe_toBitmap v

instance (c : Container) : Decidable (Safe_ensureCorrectStore c) := by
  unfold Safe_ensureCorrectStore; split <;> infer_instance

end Container

/-! ## `RoaringBitmap` (roaring/src/bitmap/inherent.rs, util.rs, serialization.rs, statistics.rs) -/
namespace Bitmap

/-- bitmap/util.rs:6-8 `split`: `(value >> 16) as u16` is lossless (`value as u16` truncates on purpose) -/
def Safe_split (v : Nat) : Prop := U16 (hi16 v)
instance (v : Nat) : Decidable (Safe_split v) := by unfold Safe_split; infer_instance

/-- bitmap/util.rs:13-15 `join`: `(u32::from(high) << 16) + u32::from(low)` (shift amount 16 < 32; no bit lost; no carry out) -/
def Safe_join (k i : Nat) : Prop := U32 (k <<< 16) ∧ U32 (join k i)
instance (k i : Nat) : Decidable (Safe_join k i) := by unfold Safe_join; infer_instance

/-- inherent.rs:205-213 `find_container_by_key`: the returned index is valid for the updated vector
    (:191 :194 `insert`, :248 :263 :272 `insert_range`: `self.containers[index]`), and `Vec::insert(loc, …)` gets `loc ≤ len` -/
def Safe_findContainerByKey (b : Bitmap) (key : Nat) : Prop :=
  (search b key).2 ≤ b.length                                              -- :193 :209 `self.containers.insert(loc, …)`
  ∧ (findContainerByKey b key).2 < (findContainerByKey b key).1.length     -- `self.containers[loc]` afterwards

instance (b : Bitmap) (key : Nat) : Decidable (Safe_findContainerByKey b key) := by
  unfold Safe_findContainerByKey; infer_instance

/-- `binary_search_by_key` results used as indices: `Ok(loc)` is `< len` (:352 :353 :354 `remove`, :426 `contains`,
    :466 :471 `contains_range`, :529 `range_cardinality`, :699 `rank`), `Err(i)` is `≤ len` (:542, :702 `containers[..i]`) -/
def Safe_search (b : Bitmap) (key : Nat) : Prop :=
  (search b key).2 ≤ b.length ∧ ((search b key).1 = true → (search b key).2 < b.length)

instance (b : Bitmap) (key : Nat) : Decidable (Safe_search b key) := by unfold Safe_search; infer_instance

/-- one `let index = self.find_container_by_key(key); self.containers[index].insert_range(s..=e)` step of
    `insert_range` (inherent.rs:243+248, :260+263, :270+272) -/
def Safe_insertRangeAt (b : Bitmap) (key s e : Nat) : Prop :=
  Safe_findContainerByKey b key                                             -- the index is valid
  ∧ (match (findContainerByKey b key).1[(findContainerByKey b key).2]? with
     | some c => c.Safe_insertRange s e                                     -- container.rs:59-69 and below
     | none => False)

instance (b : Bitmap) (key s e : Nat) : Decidable (Safe_insertRangeAt b key s e) := by
  unfold Safe_insertRangeAt
  refine @instDecidableAnd _ _ _ ?_
  split <;> infer_instance

/-- the `for i in start_container_key..end_container_key` loop of `insert_range` (inherent.rs:259-267) followed by the
    last container (:270-272), on the state `(containers, low, inserted)` of `Bitmap.insertRange` -/
def Safe_insertRangeLoop (ek ei : Nat) : List Nat → Bitmap × Nat × Nat → Prop
  | [], st =>
    Safe_insertRangeAt st.1 ek 0 ei                                         -- :270 :272
    ∧ U64 (st.2.2 + (let r := findContainerByKey st.1 ek
                     (modifyAt r.1 r.2 (fun c => c.insertRange 0 ei) 0).2))   -- :272 `inserted += …`
  | i :: ks, st =>
    let r := findContainerByKey st.1 i
    let m := modifyAt r.1 r.2 (fun c => c.insertRange st.2.1 65535) 0
    Safe_insertRangeAt st.1 i st.2.1 65535                                  -- :260 :263
    ∧ U64 (st.2.2 + m.2)                                                    -- :263 `inserted += …`
    ∧ Safe_insertRangeLoop ek ei ks (m.1, 0, st.2.2 + m.2)

instance (ek ei : Nat) : ∀ (ks : List Nat) (st : Bitmap × Nat × Nat), Decidable (Safe_insertRangeLoop ek ei ks st)
  | [], st => by unfold Safe_insertRangeLoop; infer_instance
  | i :: ks, st => by
    unfold Safe_insertRangeLoop
    have := fun st' => instDecidableSafe_insertRangeLoop ek ei ks st'
    infer_instance

/-- inherent.rs:230-275 `insert_range`, the whole method -/
def Safe_insertRange (b : Bitmap) (lo hi : Bound) : Prop :=
  match convertRange u32Max lo hi with
  | .error _ => True
  | .ok (start, en) =>
    let sk := hi16 start; let si := lo16 start
    let ek := hi16 en; let ei := lo16 en
    Safe_split start ∧ Safe_split en                                        -- :239 :240 `util::split`
    ∧ (if sk = ek then Safe_insertRangeAt b sk si ei                        -- :243 :248
       else
         sk ≤ ek                                                            -- :259 the `u16` range `start_container_key..end_container_key`
         ∧ Safe_findContainerByKey b sk                                     -- :243
         ∧ Safe_insertRangeLoop ek ei (List.range' sk (ek - sk)) ((findContainerByKey b sk).1, si, 0))

instance (b : Bitmap) (lo hi : Bound) : Decidable (Safe_insertRange b lo hi) := by
  unfold Safe_insertRange
  split <;> infer_instance

/-- inherent.rs:230-275 `insert_range`: the `u64` counter (:263 :272 `inserted += …`; partial sums are monotone) -/
def Safe_insertRangeCount (b : Bitmap) (lo hi : Bound) : Prop := U64 (insertRange b lo hi).2

instance (b : Bitmap) (lo hi : Bound) : Decidable (Safe_insertRangeCount b lo hi) := by
  unfold Safe_insertRangeCount; infer_instance

/-- inherent.rs:379-407 `remove_range`: the `u64` counter (:398 `removed += …`) -/
def Safe_removeRangeCount (b : Bitmap) (lo hi : Bound) : Prop := U64 (removeRange b lo hi).2

instance (b : Bitmap) (lo hi : Bound) : Decidable (Safe_removeRangeCount b lo hi) := by
  unfold Safe_removeRangeCount; infer_instance

/-- inherent.rs:451-490 `contains_range` -/
def Safe_containsRange (b : Bitmap) (lo hi : Bound) : Prop :=
  match convertRange u32Max lo hi with
  | .error _ => True
  | .ok (start, en) =>
    let sh := hi16 start; let sl := lo16 start
    let eh := hi16 en; let el := lo16 en
    sh ≤ eh                                             -- :462 `debug_assert!(start_high <= end_high)`, :474 `end_high - start_high`
    ∧ Safe_search b sh                                  -- :466 `&self.containers[i..]`
    ∧ (match search b sh with
       | (false, _) => True
       | (true, i) =>
         match b.drop i with
         | [] => False                                  -- :471 `containers[0]`
         | first :: _ =>
           if sh = eh then first.store.Safe_containsRange sl el          -- :471
           else
             first.store.Safe_containsRange sl 65535                     -- :484
             ∧ 1 ≤ eh - sh                                               -- :483 `[first, rest @ .., last]`: at least 2 items (:488 `unreachable!`)
             ∧ (match (b.drop i)[eh - sh]? with
                | some last => last.store.Safe_containsRange 0 el        -- :486 (:478 `&containers[..=high_span]` is in range: `get` was `Some`)
                | none => True))

instance (b : Bitmap) (lo hi : Bound) : Decidable (Safe_containsRange b lo hi) := by
  unfold Safe_containsRange
  split
  · infer_instance
  · simp only []
    refine @instDecidableAnd _ _ _ (@instDecidableAnd _ _ _ ?_)
    split
    · infer_instance
    · split
      · infer_instance
      · refine @instDecidableIte _ _ _ _ _ ?_
        refine @instDecidableAnd _ _ _ (@instDecidableAnd _ _ _ ?_)
        split <;> infer_instance

/-- the `for container in &self.containers[i..]` loop of `range_cardinality` (inherent.rs:542-553) -/
def Safe_rangeCardLoop (ek el : Nat) : List Container → Nat → Prop
  | [], _ => True
  | c :: cs, acc =>
    if c.key < ek then U64 (acc + c.len) ∧ Safe_rangeCardLoop ek el cs (acc + c.len)   -- :544 `cardinality += container.len()`
    else if c.key = ek then c.store.Safe_rank el ∧ U64 (acc + c.rank el)                -- :546 `cardinality += container.rank(end_low)`
    else True

instance (ek el : Nat) : ∀ (cs : List Container) (acc : Nat), Decidable (Safe_rangeCardLoop ek el cs acc)
  | [], _ => isTrue trivial
  | c :: cs, acc => by
    unfold Safe_rangeCardLoop
    have := instDecidableSafe_rangeCardLoop ek el cs (acc + c.len)
    infer_instance

/-- inherent.rs:512-556 `range_cardinality` -/
def Safe_rangeCardinality (b : Bitmap) (lo hi : Bound) : Prop :=
  match convertRange u32Max lo hi with
  | .error _ => True
  | .ok (start, en) =>
    let sk := hi16 start; let sl := lo16 start
    let ek := hi16 en; let el := lo16 en
    Safe_search b sk                                     -- :529 `&self.containers[i]`, :542 `&self.containers[i..]`
    ∧ (match search b sk with
       | (true, i) =>
         match b[i]? with
         | some c =>
           let card := if sk = ek then c.rank el else c.len
           (sk = ek → c.store.Safe_rank el)              -- :531
           ∧ (sl ≠ 0 →
                1 ≤ sl                                   -- :536 `start_low - 1` (guarded by :535)
                ∧ c.store.Safe_rank (sl - 1)
                ∧ c.rank (sl - 1) ≤ card)                -- :536 `cardinality -= container.rank(start_low - 1)`
           ∧ i + 1 ≤ b.length                            -- :538 :542 `&self.containers[i + 1..]`
           ∧ Safe_rangeCardLoop ek el (b.drop (i + 1)) (if sl ≠ 0 then card - c.rank (sl - 1) else card)
         | none => False                                 -- :529
       | (false, i) => Safe_rangeCardLoop ek el (b.drop i) 0)

instance (b : Bitmap) (lo hi : Bound) : Decidable (Safe_rangeCardinality b lo hi) := by
  unfold Safe_rangeCardinality
  split
  · infer_instance
  · simp only []
    refine @instDecidableAnd _ _ _ ?_
    split
    · split <;> infer_instance
    · infer_instance

/-- inherent.rs:629-631 `len`: `sum()` over `u64` (monotone partial sums) -/
def Safe_len (b : Bitmap) : Prop := U64 (len b)
instance (b : Bitmap) : Decidable (Safe_len b) := by unfold Safe_len; infer_instance

/-- inherent.rs:687-704 `rank` -/
def Safe_rank (b : Bitmap) (v : Nat) : Prop :=
  Safe_split v ∧ Safe_search b (hi16 v)                 -- :690, :699 `get_unchecked(i)`, :700 :702 `self.containers[..i]`
  ∧ (match search b (hi16 v) with
     | (true, i) =>
       (match b[i]? with
        | some c => c.store.Safe_rank (lo16 v) ∧ U64 (c.rank (lo16 v) + len (b.take i))   -- :699-700 `rank(index) + sum::<u64>()`
        | none => False)
     | (false, i) => U64 (len (b.take i)))              -- :702 `sum()`

instance (b : Bitmap) (v : Nat) : Decidable (Safe_rank b v) := by
  unfold Safe_rank
  refine @instDecidableAnd _ _ _ (@instDecidableAnd _ _ _ ?_)
  split
  · split <;> infer_instance
  · infer_instance

/-- inherent.rs:724-739 `select` -/
def Safe_select : Bitmap → Nat → Prop
  | [], _ => True
  | c :: cs, n =>
    if c.len > n then
      U16 n                                             -- :732 `n as u16` is lossless
      ∧ c.store.Safe_select n
    else
      c.len ≤ n                                         -- :735 `n -= len` (guarded by :729)
      ∧ Safe_select cs (n - c.len)

instance : ∀ (b : Bitmap) (n : Nat), Decidable (Safe_select b n)
  | [], _ => isTrue trivial
  | c :: cs, n => by
    unfold Safe_select
    have := instDecidableSafe_select cs (n - c.len)
    infer_instance

/-- inherent.rs:756-776 `remove_smallest`: the caller side of `Container::remove_smallest` / `ArrayStore::remove_smallest` -/
def Safe_removeSmallest : Bitmap → Nat → Prop
  | [], _ => True
  | c :: cs, n =>
    if c.len ≤ n then Safe_removeSmallest cs (n - c.len)      -- :761 `n -= container_len` (guarded by :760)
    else (n > 0 → c.Safe_removeSmallest n)                    -- :774 `self.containers[0].remove_smallest(n)` with `0 < n < container.len()`

instance : ∀ (b : Bitmap) (n : Nat), Decidable (Safe_removeSmallest b n)
  | [], _ => isTrue trivial
  | c :: cs, n => by
    unfold Safe_removeSmallest
    have := instDecidableSafe_removeSmallest cs (n - c.len)
    infer_instance

/-- the `rposition` scan of `remove_biggest` over the reversed container list -/
def Safe_removeBiggestRev : List Container → Nat → Prop
  | [], _ => True
  | c :: cs, n =>
    if c.len ≤ n then Safe_removeBiggestRev cs (n - c.len)    -- :796 `n -= container_len` (guarded by :795)
    else (n > 0 → c.Safe_removeBiggest n)                     -- :806 `self.containers[position].remove_biggest(n)`

instance : ∀ (b : List Container) (n : Nat), Decidable (Safe_removeBiggestRev b n)
  | [], _ => isTrue trivial
  | c :: cs, n => by
    unfold Safe_removeBiggestRev
    have := instDecidableSafe_removeBiggestRev cs (n - c.len)
    infer_instance

/-- inherent.rs:791-811 `remove_biggest` (:804 `drain(position + 1..)` with `position < len`) -/
def Safe_removeBiggest (b : Bitmap) (n : Nat) : Prop := Safe_removeBiggestRev b.reverse n
instance (b : Bitmap) (n : Nat) : Decidable (Safe_removeBiggest b n) := by unfold Safe_removeBiggest; infer_instance

/-- the running `offset: u32` of `serialize_into` (serialization.rs:75-86), including its value after the last container -/
def Safe_offsetLoop : Bitmap → Nat → Prop
  | [], _ => True
  | c :: cs, off =>
    let sz := match c.store with
      | .array v => v.length * 2
      | .bitmap _ => 8 * 1024
    (match c.store with
     | .array v => U32 v.length ∧ U32 (v.length * 2)    -- :80 `values.len() as u32 * 2`
     | .bitmap _ => True)
    ∧ U32 (off + sz)                                    -- :80 :83 `offset += …`
    ∧ Safe_offsetLoop cs (off + sz)

instance : ∀ (b : Bitmap) (off : Nat), Decidable (Safe_offsetLoop b off)
  | [], _ => isTrue trivial
  | c :: cs, off => by
    unfold Safe_offsetLoop
    have := fun o => instDecidableSafe_offsetLoop cs o
    simp only []
    refine @instDecidableAnd _ _ ?_ _
    split <;> infer_instance

/-- serialization.rs:66-101 `serialize_into` -/
def Safe_serialize (b : Bitmap) : Prop :=
  U32 b.length ∧ U32 (8 + 8 * b.length)                 -- :68 `self.containers.len() as u32`, :75 `8 + 8 * self.containers.len() as u32`
  ∧ (∀ c ∈ b, 1 ≤ c.len ∧ U16 (c.len - 1))             -- :72 `(container.len() - 1) as u16`
  ∧ Safe_offsetLoop b (8 + 8 * b.length)                -- :75-86

instance (b : Bitmap) : Decidable (Safe_serialize b) := by unfold Safe_serialize; infer_instance

/-- serialization.rs:35-47 `serialized_size`: the `usize` sum fits even a 32-bit `usize` -/
def Safe_serializedSize (b : Bitmap) : Prop := U32 (serializedSize b)   -- :40 :41 :43 :46
instance (b : Bitmap) : Decidable (Safe_serializedSize b) := by unfold Safe_serializedSize; infer_instance

/-- statistics.rs:27-70 `statistics` (the capacity-dependent `n_bytes_*` sums are not modelled) -/
def Safe_statistics (b : Bitmap) : Prop :=
  let s := Bitmap.statistics b
  U32 s.nContainers ∧ U32 s.nArray ∧ U32 s.nBitset      -- :43 :49 :52 `+= 1` on `u32` counters
  ∧ (∀ c ∈ b, match c.store with | .array v => U32 v.length | .bitmap _ => True)   -- :41 `array.len() as u32`
  ∧ U32 s.valuesArray                                   -- :41 `n_values_array_containers += array.len() as u32`
  ∧ U64 s.valuesBitset                                  -- :47
  ∧ U64 s.cardinality                                   -- :40 :46

instance (b : Bitmap) : Decidable (Safe_statistics b) := by
  unfold Safe_statistics
  simp only []
  refine @instDecidableAnd _ _ _ (@instDecidableAnd _ _ _ (@instDecidableAnd _ _ _ (@instDecidableAnd _ _ ?_ _)))
  refine @List.decidableBAll _ _ (fun c => ?_) _
  split <;> infer_instance

end Bitmap

/-! ## `RoaringTreemap` (roaring/src/treemap/inherent.rs, util.rs) -/
namespace Treemap

/-- treemap/util.rs:4-6 `split`: `(value >> 32) as u32` is lossless (shift amount 32 < 64) -/
def Safe_split (v : Nat) : Prop := U32 (v >>> 32)
instance (v : Nat) : Decidable (Safe_split v) := by unfold Safe_split; infer_instance

/-- treemap/util.rs:9-11 `join`: `u64::from(high) << 32` loses no bit -/
def Safe_join (hi lo : Nat) : Prop := U64 (hi <<< 32) ∧ U64 (join hi lo)
instance (hi lo : Nat) : Decidable (Safe_join hi lo) := by unfold Safe_join; infer_instance

/-- treemap/inherent.rs:96-101 `insert_range`, a partition strictly inside the range that already exists:
    `full_bitmap.len() - entry.insert(full_bitmap).len()` (`old` is the bitmap that was replaced) -/
def Safe_insertRangeFull (old : Bitmap) : Prop := Bitmap.len old ≤ Bitmap.len fullBitmap   -- :100
instance (old : Bitmap) : Decidable (Safe_insertRangeFull old) := by unfold Safe_insertRangeFull; infer_instance

/-- treemap/inherent.rs:327-329 `len`: `.map(RoaringBitmap::len).sum()` over `u64` -/
def Safe_len (t : Treemap) : Prop := U64 (Treemap.len t)
instance (t : Treemap) : Decidable (Safe_len t) := by unfold Safe_len; infer_instance

/-- treemap/inherent.rs:389-399 `rank`: the `u64` sum -/
def Safe_rank (t : Treemap) (v : Nat) : Prop := Safe_split v ∧ U64 (Treemap.rank t v)
instance (t : Treemap) (v : Nat) : Decidable (Safe_rank t v) := by unfold Safe_rank; infer_instance

/-- treemap/inherent.rs:418-428 `select` -/
def Safe_select : Treemap → Nat → Prop
  | [], _ => True
  | (key, bitmap) :: t, n =>
    if Bitmap.len bitmap > n then
      U32 n                                             -- :422 `n as u32` is lossless
      ∧ (Bitmap.select bitmap n).isSome = true          -- :422 `.unwrap()`
      ∧ Safe_join key ((Bitmap.select bitmap n).getD 0) -- :422 `(key as u64) << 32 | …`
    else
      Bitmap.len bitmap ≤ n                             -- :424 `n -= len` (guarded by :421)
      ∧ Safe_select t (n - Bitmap.len bitmap)

instance : ∀ (t : Treemap) (n : Nat), Decidable (Safe_select t n)
  | [], _ => isTrue trivial
  | (key, bitmap) :: t, n => by
    unfold Safe_select
    have := instDecidableSafe_select t (n - Bitmap.len bitmap)
    infer_instance

end Treemap
end Roaring
