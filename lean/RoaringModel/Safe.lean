import RoaringModel.Bitmap
/-!
# `Safe_*` — the arithmetic side conditions of the Rust code, as decidable predicates over the model (C16)

The model computes with unbounded `Nat`, TRUNCATED subtraction, `List.getD` / `[i]?` defaults and `Nat` shifts exactly
where the Rust uses `u16/u32/u64/usize/i64` arithmetic, slice indexing and `<<`/`>>`, i.e. where a build with
`overflow-checks = true` panics and a build with `overflow-checks = false` wraps (indexing panics in both).
For every such site this file states the condition under which the Rust expression and the model expression
agree: no underflow of a `-`, no overflow of a `+`/`+=` in the stated integer type, shift amount below the bit
width, index below the length, slice range well-ordered and inside the slice, narrowing `as` cast lossless.

Each predicate is named after the model function (`BStore.Safe_insert` ↔ `BStore.insert` ↔ `BitmapStore::insert`);
each conjunct is followed by the line(s) of `/repo/roaring/src/…` it covers (file named in the doc comment).
All predicates are decidable (`decide` / `#eval` work on concrete values).  They depend on the model only
(no lemma file); the proofs that they follow from `BStore.Inv` / `Arr.Inv` / `Store.WF` / `Bitmap.WF` and the
argument ranges are in `Lemmas/SafeLemmas.lean`, the property theorems `C16_safe_*` in `Props/C16.lean`.
-/
namespace Roaring

/-- the value fits `u16` -/
abbrev U16 (n : Nat) : Prop := n < 2^16
/-- the value fits `u32` -/
abbrev U32 (n : Nat) : Prop := n < 2^32
/-- the value fits `u64` (and `usize` on a 64-bit target) -/
abbrev U64 (n : Nat) : Prop := n < 2^64
/-- the value fits `i64` -/
abbrev I64 (z : Int) : Prop := -(2^63 : Int) ≤ z ∧ z < (2^63 : Int)

/-! ## Word level (bitmap_store.rs) -/

/-- `value &= value - 1` executed `n` times (bitmap_store.rs:425 in `select(value, n)`, :384 in `remove_smallest`):
    every iteration needs `value != 0` (`0 - 1` underflows). -/
def Safe_popLowN (w : Nat) : Nat → Prop
  | 0 => True
  | n+1 => w ≠ 0 ∧ Safe_popLowN (popLow w) n

instance : ∀ (w n : Nat), Decidable (Safe_popLowN w n)
  | _, 0 => isTrue trivial
  | w, n+1 => by
    unfold Safe_popLowN
    have := instDecidableSafe_popLowN (popLow w) n
    infer_instance

/-- `*word &= !(1 << (63 - word.leading_zeros()))` executed `n` times (bitmap_store.rs:407 in `remove_biggest`):
    every iteration needs `word != 0` (`leading_zeros() = 64` makes `63 - 64` underflow) and the shift amount
    `63 - leading_zeros` (= `hiBit`) below 64. -/
def Safe_popHighN (w : Nat) : Nat → Prop
  | 0 => True
  | n+1 => w ≠ 0 ∧ hiBit w < 64 ∧ Safe_popHighN (popHigh w) n

instance : ∀ (w n : Nat), Decidable (Safe_popHighN w n)
  | _, 0 => isTrue trivial
  | w, n+1 => by
    unfold Safe_popHighN
    have := instDecidableSafe_popHighN (popHigh w) n
    infer_instance

namespace BStore

/-! ## `BitmapStore` (roaring/src/bitmap/store/bitmap_store.rs) -/

/-- bitmap_store.rs:106-114 `insert` -/
def Safe_insert (b : BStore) (i : Nat) : Prop :=
  let k := wkey i; let bit := wbit i
  let old := word b.bits k
  let new := old ||| (1 <<< bit)
  let inserted := (old ^^^ new) >>> bit
  k < b.bits.length            -- :108 :111 `self.bits[key]`
  ∧ bit < 64                   -- :109 `1 << bit`, :110 `>> bit`
  ∧ U64 (b.len + inserted)     -- :112 `self.len += inserted`

instance (b : BStore) (i : Nat) : Decidable (Safe_insert b i) := by unfold Safe_insert; infer_instance

/-- bitmap_store.rs:188-196 `remove` -/
def Safe_remove (b : BStore) (i : Nat) : Prop :=
  let k := wkey i; let bit := wbit i
  let old := word b.bits k
  let new := old &&& not64 (1 <<< bit)
  let removed := (old ^^^ new) >>> bit
  k < b.bits.length            -- :190 :193 `self.bits[key]`
  ∧ bit < 64                   -- :191 `1 << bit`, :192 `>> bit`
  ∧ removed ≤ b.len            -- :194 `self.len -= removed`

instance (b : BStore) (i : Nat) : Decidable (Safe_remove b i) := by unfold Safe_remove; infer_instance

/-- bitmap_store.rs:237-239 `contains` -/
def Safe_contains (b : BStore) (i : Nat) : Prop :=
  wkey i < b.bits.length       -- :238 `self.bits[key(index)]`
  ∧ wbit i < 64                -- :238 `1 << bit(index)`

instance (b : BStore) (i : Nat) : Decidable (Safe_contains b i) := by unfold Safe_contains; infer_instance

/-- the `existed` counter of `insert_range` at its last use (bitmap_store.rs:130, resp. :143 + :149 + :155);
    the same expression as in `BStore.insertRange` -/
def insertRangeExisted (b : BStore) (s e : Nat) : Nat :=
  let sk := wkey s; let sb := wbit s
  let ek := wkey e; let eb := wbit e
  if sk = ek then popcount (word b.bits sk &&& (maskLE eb &&& maskGE sb))
  else
    let bits := b.bits.set sk (word b.bits sk ||| maskGE sb)
    let existed := popcount (word b.bits sk &&& maskGE sb) + popSum ((bits.drop (sk + 1)).take (ek - (sk + 1)))
    let bits := fillWords bits (sk + 1) ek wMax
    existed + popcount (word bits ek &&& maskLE eb)

/-- bitmap_store.rs:116-161 `insert_range` -/
def Safe_insertRange (b : BStore) (s e : Nat) : Prop :=
  let sk := wkey s; let sb := wbit s
  let ek := wkey e; let eb := wbit e
  let existed := insertRangeExisted b s e
  sk < b.bits.length ∧ ek < b.bits.length   -- :130 :131 :143 :145 :155 :156 `self.bits[start_key]`, `self.bits[end_key]`;
                                            -- :149 :150 `self.bits[i]` for `i` in `(start_key + 1)..end_key`
  ∧ sb < 64                                 -- :128 :139 `1 << start_bit`
  ∧ (eb ≠ 63 → eb + 1 < 64)                 -- :126 :154 `1 << (end_bit + 1)` (and `(1 << …) - 1` with `1 << … ≥ 1`)
  ∧ s ≤ e                                   -- :133 `end - start` (u16), :158 `end as u64 - start as u64`
  ∧ (sk = ek → U16 (e - s + 1))             -- :133 `end - start + 1` is computed in `u16`
  ∧ U32 existed                             -- :143 :149 :155 `existed` is a `u32` accumulator
  ∧ existed ≤ e - s + 1                     -- :133 `u64::from(end - start + 1) - u64::from(existed)`, :158 `… + 1 - existed as u64`
  ∧ U64 (b.len + (e - s + 1 - existed))     -- :134 :159 `self.len += inserted`

instance (b : BStore) (s e : Nat) : Decidable (Safe_insertRange b s e) := by unfold Safe_insertRange; infer_instance

/-- bitmap_store.rs:198-235 `remove_range`; `removed` (a `u32` accumulator, :207 / :216 + :220 + :230) is the returned value -/
def Safe_removeRange (b : BStore) (s e : Nat) : Prop :=
  let sk := wkey s; let sb := wbit s
  let ek := wkey e; let eb := wbit e
  let removed := (b.removeRange s e).2
  sk < b.bits.length ∧ ek < b.bits.length   -- :207 :208 :216 :217 :230 :231 `self.bits[start_key]`, `self.bits[end_key]`
  ∧ (sk ≠ ek → sk + 1 ≤ ek)                 -- :219 :226 the slice `self.bits[start_key + 1..end_key]` (start ≤ end ≤ 1024)
  ∧ sb < 64                                 -- :206 :216 :217 `u64::MAX << start_bit`
  ∧ eb ≤ 63                                 -- :206 :230 :231 `63 - end_bit`; the amount of `>> (63 - end_bit)` is then < 64
  ∧ U32 removed                             -- :207 :216 :220 :230 `removed` accumulates in `u32`
  ∧ removed ≤ b.len                         -- :210 :233 `self.len -= removed`

instance (b : BStore) (s e : Nat) : Decidable (Safe_removeRange b s e) := by unfold Safe_removeRange; infer_instance

/-- bitmap_store.rs:241-270 `contains_range` -/
def Safe_containsRange (b : BStore) (s e : Nat) : Prop :=
  let si := wkey s; let sb := wbit s
  let ei := wkey e; let eb := wbit e
  s ≤ e                                     -- :244 `end - start` (u16)
  ∧ (¬ b.len < e - s + 1 →
      sb < 64                               -- :254 `1 << start_bit`
      ∧ eb + 1 ≤ 64                         -- :259 `64 - (end_bit + 1)`
      ∧ 64 - (eb + 1) < 64                  -- :259 `(!0) >> (…)`
      ∧ si ≤ ei ∧ ei < b.bits.length)       -- :261 `self.bits[start_i..=end_i]` is in range and non-empty (:262 `[] => unreachable!()`)

instance (b : BStore) (s e : Nat) : Decidable (Safe_containsRange b s e) := by unfold Safe_containsRange; infer_instance

/-- bitmap_store.rs:299-305 `min`: the narrowing cast `(index * 64 + trailing_zeros) as u16` is lossless -/
def Safe_min (b : BStore) : Prop :=
  match b.bits.zipIdx.find? (fun p => p.1 != 0) with
  | some (w, i) => U16 (i * 64 + tz w)      -- :304
  | none => True

instance (b : BStore) : Decidable (Safe_min b) := by unfold Safe_min; split <;> infer_instance

/-- bitmap_store.rs:308-315 `max`: `63 - bit.leading_zeros()` needs `bit != 0`; the cast to `u16` is lossless -/
def Safe_max (b : BStore) : Prop :=
  match b.bits.zipIdx.reverse.find? (fun p => p.1 != 0) with
  | some (w, i) => w ≠ 0 ∧ U16 (i * 64 + hiBit w)   -- :314
  | none => True

instance (b : BStore) : Decidable (Safe_max b) := by unfold Safe_max; split <;> infer_instance

/-- bitmap_store.rs:280-289 `to_array_store`: `bit &= bit - 1` runs under `while bit != 0` (explicit guard);
    `(trailing_zeros + 64 * index as u32) as u16` is lossless -/
def Safe_toArray (b : BStore) : Prop := ∀ x ∈ b.toArray, U16 x   -- :284

instance (b : BStore) : Decidable (Safe_toArray b) := by unfold Safe_toArray; infer_instance

/-- bitmap_store.rs:317-322 `rank` -/
def Safe_rank (b : BStore) (i : Nat) : Prop :=
  let k := wkey i; let bit := wbit i
  k < b.bits.length                         -- :320 `self.bits[..key]`, :321 `self.bits[key]`
  ∧ bit ≤ 63                                -- :321 `63 - bit`; the amount of `<< (63 - bit)` is then < 64
  ∧ U64 (popSum (b.bits.take k) + popcount ((word b.bits k <<< (63 - bit)) % W))   -- :320 `sum::<u64>() + …`

instance (b : BStore) (i : Nat) : Decidable (Safe_rank b i) := by unfold Safe_rank; infer_instance

/-- the loop of bitmap_store.rs:324-337 `select` over the words from index `k` on -/
def Safe_selectFrom : Nat → List Nat → Nat → Prop
  | _, [], _ => True
  | k, w :: ws, n =>
    if n < popcount w then
      Safe_popLowN w n                      -- :330 `select(value, n)` → :425 `value &= value - 1`, `n` times
      ∧ U16 (64 * k + selectBit w n)        -- :331 `(64 * key as u64 + index) as u16`
    else
      popcount w ≤ n                        -- :333 `n -= len` (guarded by :329)
      ∧ Safe_selectFrom (k + 1) ws (n - popcount w)

instance : ∀ (k : Nat) (ws : List Nat) (n : Nat), Decidable (Safe_selectFrom k ws n)
  | _, [], _ => isTrue trivial
  | k, w :: ws, n => by
    unfold Safe_selectFrom
    have := instDecidableSafe_selectFrom (k + 1) ws (n - popcount w)
    infer_instance

/-- bitmap_store.rs:324-337 `select` -/
def Safe_select (b : BStore) (n : Nat) : Prop := Safe_selectFrom 0 b.bits n

instance (b : BStore) (n : Nat) : Decidable (Safe_select b n) := by unfold Safe_select; infer_instance

/-- the `for word in self.bits.iter_mut()` loop of `remove_smallest` (bitmap_store.rs:380-393) -/
def Safe_rsLoop : List Nat → Nat → Prop
  | [], _ => True
  | w :: ws, n =>
    if n < popcount w then Safe_popLowN w n                 -- :384 `*word - 1`, `clear_bits` times
    else popcount w ≤ n                                     -- :389 `clear_bits -= count` (guarded by :382)
      ∧ (n - popcount w = 0 ∨ Safe_rsLoop ws (n - popcount w))

instance : ∀ (ws : List Nat) (n : Nat), Decidable (Safe_rsLoop ws n)
  | [], _ => isTrue trivial
  | w :: ws, n => by
    unfold Safe_rsLoop
    have := instDecidableSafe_rsLoop ws (n - popcount w)
    infer_instance

/-- bitmap_store.rs:374-394 `remove_smallest` -/
def Safe_removeSmallest (b : BStore) (n : Nat) : Prop :=
  ¬ b.len < n →
    n ≤ b.len                               -- :379 `self.len -= clear_bits` (guarded by :375)
    ∧ Safe_rsLoop b.bits n

instance (b : BStore) (n : Nat) : Decidable (Safe_removeSmallest b n) := by unfold Safe_removeSmallest; infer_instance

/-- the `for word in self.bits.iter_mut().rev()` loop of `remove_biggest` (bitmap_store.rs:403-416), on the reversed words -/
def Safe_rbLoop : List Nat → Nat → Prop
  | [], _ => True
  | w :: ws, n =>
    if n < popcount w then Safe_popHighN w n                -- :407 `63 - word.leading_zeros()`, `1 << …`, `clear_bits` times
    else popcount w ≤ n                                     -- :412 `clear_bits -= count` (guarded by :405)
      ∧ (n - popcount w = 0 ∨ Safe_rbLoop ws (n - popcount w))

instance : ∀ (ws : List Nat) (n : Nat), Decidable (Safe_rbLoop ws n)
  | [], _ => isTrue trivial
  | w :: ws, n => by
    unfold Safe_rbLoop
    have := instDecidableSafe_rbLoop ws (n - popcount w)
    infer_instance

/-- bitmap_store.rs:397-417 `remove_biggest` -/
def Safe_removeBiggest (b : BStore) (n : Nat) : Prop :=
  ¬ b.len < n →
    n ≤ b.len                               -- :402 `self.len -= clear_bits` (guarded by :398)
    ∧ Safe_rbLoop b.bits.reverse n

instance (b : BStore) (n : Nat) : Decidable (Safe_removeBiggest b n) := by unfold Safe_removeBiggest; infer_instance

/-- bitmap_store.rs:634-640 `op_bitmaps`: `bits1.len += index1.count_ones() as u64`, every prefix sum fits `u64`
    (the sums are monotone, so the last one is the largest) -/
def Safe_opBitmaps (f : Nat → Nat → Nat) (a b : BStore) : Prop :=
  U64 (popSum (List.zipWith f a.bits b.bits))   -- :638

instance (f : Nat → Nat → Nat) (a b : BStore) : Decidable (Safe_opBitmaps f a b) := by
  unfold Safe_opBitmaps; infer_instance

/-- bitmap_store.rs:648-657 `BitOrAssign<&ArrayStore>`: the loop body is `insert`'s
    (:652 :655 `self.bits[key]`, :653 `1 << bit`, :654 `self.len += (old_w ^ new_w) >> bit`) -/
def Safe_orArr : BStore → List Nat → Prop
  | _, [] => True
  | b, i :: v => Safe_insert b i ∧ Safe_orArr (b.insert i).1 v

instance : ∀ (b : BStore) (v : List Nat), Decidable (Safe_orArr b v)
  | _, [] => isTrue trivial
  | b, i :: v => by
    unfold Safe_orArr
    have := instDecidableSafe_orArr (b.insert i).1 v
    infer_instance

/-- bitmap_store.rs:673-683 `SubAssign<&ArrayStore>`: the loop body is `remove`'s
    (:678 :681 `self.bits[key]`, :679 `1 << bit`, :680 `self.len -= (old_w ^ new_w) >> bit`) -/
def Safe_subArr : BStore → List Nat → Prop
  | _, [] => True
  | b, i :: v => Safe_remove b i ∧ Safe_subArr (b.remove i).1 v

instance : ∀ (b : BStore) (v : List Nat), Decidable (Safe_subArr b v)
  | _, [] => isTrue trivial
  | b, i :: v => by
    unfold Safe_subArr
    have := instDecidableSafe_subArr (b.remove i).1 v
    infer_instance

/-- the loop of bitmap_store.rs:692-703 `BitXorAssign<&ArrayStore>` on the pair (`len : i64`, words) -/
def Safe_xorArrLoop : Int × List Nat → List Nat → Prop
  | _, [] => True
  | p, i :: v =>
    let k := wkey i; let bit := wbit i
    let old := word p.2 k
    let d : Int := 1 - 2 * ((((1 <<< bit) &&& old) >>> bit : Nat) : Int)
    k < p.2.length                          -- :697 :700 `self.bits[key]`
    ∧ bit < 64                              -- :698 :699 `1 << bit`, `>> bit`
    ∧ I64 d ∧ I64 (p.1 + d)                 -- :699 `len += 1 - 2 * (… as i64)`
    ∧ 0 ≤ p.1 + d                           -- the counter never goes negative (so :702 `len as u64` is lossless)
    ∧ Safe_xorArrLoop (p.1 + d, p.2.set k (old ^^^ (1 <<< bit))) v

instance : ∀ (p : Int × List Nat) (v : List Nat), Decidable (Safe_xorArrLoop p v)
  | _, [] => isTrue trivial
  | p, i :: v => by
    unfold Safe_xorArrLoop
    have := fun q => instDecidableSafe_xorArrLoop q v
    infer_instance

/-- bitmap_store.rs:692-703 `BitXorAssign<&ArrayStore>` -/
def Safe_xorArr (b : BStore) (v : List Nat) : Prop :=
  I64 (b.len : Int)                         -- :694 `self.len as i64` is lossless
  ∧ Safe_xorArrLoop ((b.len : Int), b.bits) v

instance (b : BStore) (v : List Nat) : Decidable (Safe_xorArr b v) := by unfold Safe_xorArr; infer_instance

/-- bitmap_store.rs:343-353 `intersection_len_array` -/
def Safe_interLenArray (b : BStore) (v : List Nat) : Prop :=
  (∀ i ∈ v, wkey i < b.bits.length ∧ wbit i < 64)   -- :348 `self.bits[key]`, :349 `1 << bit`, :350 `>> bit`
  ∧ U64 (b.interLenArray v)                         -- :352 `sum::<u64>()` (monotone prefix sums)

instance (b : BStore) (v : List Nat) : Decidable (Safe_interLenArray b v) := by unfold Safe_interLenArray; infer_instance

/-- bitmap_store.rs:339-341 `intersection_len_bitmap` -/
def Safe_interLenBitmap (a b : BStore) : Prop := U64 (a.interLenBitmap b)   -- :340 `sum()`

instance (a b : BStore) : Decidable (Safe_interLenBitmap a b) := by unfold Safe_interLenBitmap; infer_instance

end BStore
end Roaring
