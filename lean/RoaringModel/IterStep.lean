import RoaringModel.Iter
import RoaringModel.SpecIter
/-!
# One iterator call as a function of the op alphabet `Spec.ItOp` (model side of `Spec.Cursor.step`)

`count`, `fold`, `rfold` consume `self` in Rust; as steps of a history they act on a clone (both iterator
types derive `Clone`), so the iterator is returned unchanged.  `fold`/`rfold` are observed through the most
general closure — the one that records its arguments in call order; `Lemmas/IterLemmas` also proves the
statement for every closure and initial value.
-/
namespace Roaring
open Spec (ItOp ItOut)

def Iter.step (it : Iter) : ItOp → Iter × ItOut
  | .next => let r := it.next; (r.1, .item r.2)
  | .nextBack => let r := it.nextBack; (r.1, .item r.2)
  | .nth n => let r := it.nth n; (r.1, .item r.2)
  | .nthBack n => let r := it.nthBack n; (r.1, .item r.2)
  | .advanceTo v => (it.advanceTo v, .unit)
  | .advanceBackTo v => (it.advanceBackTo v, .unit)
  | .sizeHint => (it, .size it.sizeHint.1 it.sizeHint.2)
  | .count => (it, .num it.count)
  | .fold => (it, .visited (it.fold [] (fun acc x => acc ++ [x])))
  | .rfold => (it, .visited (it.rfold [] (fun acc x => acc ++ [x])))

def Iter.run (it : Iter) : List ItOp → Iter × List ItOut
  | [] => (it, [])
  | op :: ops => let r := Iter.step it op; let q := Iter.run r.1 ops; (q.1, r.2 :: q.2)

end Roaring
