import RoaringModel.Cmp
/-!
# Binary set operations on `RoaringBitmap` in every form (bitmap/ops.rs)

For each operator the forms that are *different code* are modelled separately:
`…RR` = `&a op &b` (the `Pairs` loop), `…AO` = `a op= b` with an owned right-hand side (operand swaps),
`…AR` = `a op= &b`; the remaining operand forms are the wrappers of ops.rs and delegate exactly as
the Rust does.  The per-kind dispatch is `Container.*` / `Store.*` of `Store.lean`.
-/
namespace Roaring
namespace Bitmap

/-! ## cardinality-only operations (ops.rs:29-104) -/

/-- ops.rs:29 `intersection_len` -/
def interLen (a b : Bitmap) : Nat :=
  ((pairs a b).map fun
    | (some l, some r) => l.interLen r
    | _ => 0).foldl (· + ·) 0

/-- `x.wrapping_sub(y)` on `u64` -/
@[inline] def wrappingSub (x y : Nat) : Nat := (x + W - y % W) % W
/-- `x.wrapping_add(y)` on `u64` -/
@[inline] def wrappingAdd (x y : Nat) : Nat := (x + y) % W

/-- ops.rs:56 `union_len` = `len.wrapping_add(other.len).wrapping_sub(intersection_len)` -/
def unionLen (a b : Bitmap) : Nat := wrappingSub (wrappingAdd (len a) (len b)) (interLen a b)

/-- ops.rs:77 `difference_len` = `self.len() - self.intersection_len(other)`: a plain `-`;
    `none` = the subtraction overflows (panic with overflow checks, wrap-around without). -/
def diffLen (a b : Bitmap) : Option Nat :=
  if interLen a b ≤ len a then some (len a - interLen a b) else none

/-- ops.rs:98 `symmetric_difference_len` -/
def xorLen (a b : Bitmap) : Nat :=
  let i := interLen a b
  wrappingSub (wrappingSub (wrappingAdd (len a) (len b)) i) i

/-! ## `|` -/

/-- ops.rs:136-154 `&a | &b` -/
def orRR (a b : Bitmap) : Bitmap :=
  (pairs a b).filterMap fun
    | (some l, none) => some l
    | (none, some r) => some r
    | (some l, some r) => some (l.orRef r)
    | (none, none) => none

/-- one iteration of the `for container in rhs.containers` loop of `|=` (ops.rs:164-170 / 177-183);
    `f` is `Container |= Container` resp. `Container |= &Container` -/
def orStep (f : Container → Container → Container) (self : Bitmap) (c : Container) : Bitmap :=
  match search self c.key with
  | (false, loc) => self.take loc ++ c :: self.drop loc
  | (true, loc) =>
    match self[loc]? with
    | some x => self.set loc (f x c)
    | none => self

/-- ops.rs:156-172 `a |= b` (owned): the union is applied on the bigger map (`self.len() < rhs.len()`) -/
def orAO (a b : Bitmap) : Bitmap :=
  let p := if len a < len b then (b, a) else (a, b)
  p.2.foldl (orStep Container.orAssignOwned) p.1

/-- ops.rs:174-185 `a |= &b` -/
def orAR (a b : Bitmap) : Bitmap := b.foldl (orStep Container.orAssignRef) a

/-- ops.rs:107 `a | b` -/
def orOO (a b : Bitmap) : Bitmap := orAO a b
/-- ops.rs:117 `a | &b` -/
def orOR (a b : Bitmap) : Bitmap := orAR a b
/-- ops.rs:127 `&a | b` = `BitOr::bitor(rhs, self)` -/
def orRO (a b : Bitmap) : Bitmap := orOR b a

/-! ## `&` -/

/-- ops.rs:216-234 `&a & &b` -/
def andRR (a b : Bitmap) : Bitmap :=
  (pairs a b).filterMap fun
    | (some l, some r) => let c := l.andRef r; if !c.isEmpty then some c else none
    | _ => none

/-- the `retain_mut` closure of ops.rs:244-255: the matched `rhs` container is moved out
    (`mem::replace(rhs_cont, Container::new(key))`), so `rhs` is threaded through the loop -/
def andAOLoop : List Container → Bitmap → List Container
  | [], _ => []
  | cont :: cs, rhs =>
    match search rhs cont.key with
    | (true, loc) =>
      match rhs[loc]? with
      | some rc =>
        let rhs' := rhs.set loc (Container.new rc.key)
        let c' := cont.andAssignOwned rc
        if !c'.isEmpty then c' :: andAOLoop cs rhs' else andAOLoop cs rhs'
      | none => andAOLoop cs rhs
    | (false, _) => andAOLoop cs rhs

/-- ops.rs:236-257 `a &= b` (owned): applied on the map with fewer containers -/
def andAO (a b : Bitmap) : Bitmap :=
  let p := if b.length < a.length then (b, a) else (a, b)
  andAOLoop p.1 p.2

/-- ops.rs:259-273 `a &= &b` -/
def andAR (a b : Bitmap) : Bitmap :=
  a.filterMap fun cont =>
    match search b cont.key with
    | (true, loc) =>
      match b[loc]? with
      | some rc => let c' := cont.andAssignRef rc; if !c'.isEmpty then some c' else none
      | none => none
    | (false, _) => none

/-- ops.rs:187 -/
def andOO (a b : Bitmap) : Bitmap := andAO a b
/-- ops.rs:197 -/
def andOR (a b : Bitmap) : Bitmap := andAR a b
/-- ops.rs:207 `&a & b` = `BitAnd::bitand(rhs, self)` -/
def andRO (a b : Bitmap) : Bitmap := andOR b a

/-! ## `-` -/

/-- ops.rs:304-327 `&a - &b` -/
def subRR (a b : Bitmap) : Bitmap :=
  (pairs a b).filterMap fun
    | (some l, none) => some l
    | (none, some _) => none
    | (some l, some r) => let c := l.subRef r; if !c.isEmpty then some c else none
    | (none, none) => none

/-- ops.rs:336-349 `a -= &b` -/
def subAR (a b : Bitmap) : Bitmap :=
  a.filterMap fun cont =>
    match search b cont.key with
    | (true, loc) =>
      match b[loc]? with
      | some rc => let c' := cont.subAssignRef rc; if !c'.isEmpty then some c' else none
      | none => some cont
    | (false, _) => some cont

/-- ops.rs:329 `a -= b` = `a -= &b` -/
def subAO (a b : Bitmap) : Bitmap := subAR a b
/-- ops.rs:275 `a - b` = `a -= &b` -/
def subOO (a b : Bitmap) : Bitmap := subAR a b
/-- ops.rs:285 -/
def subOR (a b : Bitmap) : Bitmap := subAR a b
/-- ops.rs:295 `&a - b` = `Sub::sub(self, &rhs)` -/
def subRO (a b : Bitmap) : Bitmap := subRR a b

/-! ## `^` -/

/-- the three `Pairs` loops of `^` differ only in the container-level operation -/
def xorWith (f : Container → Container → Container) (a b : Bitmap) : Bitmap :=
  (pairs a b).filterMap fun
    | (some l, none) => some l
    | (none, some r) => some r
    | (some l, some r) => let c := f l r; if !c.isEmpty then some c else none
    | (none, none) => none

/-- ops.rs:380-403 `&a ^ &b` -/
def xorRR (a b : Bitmap) : Bitmap := xorWith Container.xorRef a b
/-- ops.rs:405-422 `a ^= b` -/
def xorAO (a b : Bitmap) : Bitmap := xorWith Container.xorAssignOwned a b
/-- ops.rs:424-441 `a ^= &b` -/
def xorAR (a b : Bitmap) : Bitmap := xorWith Container.xorAssignRef a b
/-- ops.rs:351 -/
def xorOO (a b : Bitmap) : Bitmap := xorAO a b
/-- ops.rs:361 -/
def xorOR (a b : Bitmap) : Bitmap := xorAR a b
/-- ops.rs:371 `&a ^ b` = `BitXor::bitxor(rhs, self)` -/
def xorRO (a b : Bitmap) : Bitmap := xorOR b a

/-! ## the protocol's view: operator × form -/

inductive BinOp where | or | and | sub | xor
deriving Repr, BEq, DecidableEq

/-- `oo` owned∘owned, `or_` owned∘ref, `ro` ref∘owned, `rr` ref∘ref, `ao` assign-owned, `ar` assign-ref -/
inductive Form where | oo | or_ | ro | rr | ao | ar
deriving Repr, BEq, DecidableEq

def binop : BinOp → Form → Bitmap → Bitmap → Bitmap
  | .or, .oo => orOO | .or, .or_ => orOR | .or, .ro => orRO | .or, .rr => orRR | .or, .ao => orAO | .or, .ar => orAR
  | .and, .oo => andOO | .and, .or_ => andOR | .and, .ro => andRO | .and, .rr => andRR | .and, .ao => andAO | .and, .ar => andAR
  | .sub, .oo => subOO | .sub, .or_ => subOR | .sub, .ro => subRO | .sub, .rr => subRR | .sub, .ao => subAO | .sub, .ar => subAR
  | .xor, .oo => xorOO | .xor, .or_ => xorOR | .xor, .ro => xorRO | .xor, .rr => xorRR | .xor, .ao => xorAO | .xor, .ar => xorAR

end Bitmap
end Roaring
