/-!
# SPEC — reference codec for the 32-bit Roaring format

Written from the format specification (https://github.com/RoaringBitmap/RoaringFormatSpec), **not** from
the crate; it imports nothing and shares no definition with the model.

Format (all integers little-endian):

1. *Cookie header.*  Either the 32-bit value `12346` (`SERIAL_COOKIE_NO_RUNCONTAINER`) followed by the
   32-bit number of containers `n`; or a 32-bit word whose low 16 bits are `12347` (`SERIAL_COOKIE`) and
   whose high 16 bits are `n - 1`, followed by a bitset of `⌈n/8⌉` bytes whose bit `i` (LSB first) says that
   container `i` is a run container.
2. *Descriptive header.*  Per container a 16-bit key (the high 16 bits of its values) and the 16-bit
   cardinality minus one.  Keys are strictly ascending.
3. *Offset header.*  Present iff the cookie is `12346` or `n ≥ 4` (`NO_OFFSET_THRESHOLD`): per container
   the 32-bit byte position of its payload, counted from the start of the stream.
4. *Containers*, in order.  A run container is a 16-bit number of runs followed by `(start, length - 1)`
   pairs of 16-bit values; "runs are non-overlapping and sorted".  A non-run container with cardinality
   `≤ 4096` is the sorted list of its 16-bit values; otherwise it is a bitset of 1024 64-bit words.

Decisions where the text leaves room (documented, and what `decode` enforces):
* runs must be strictly separated or *adjacent* (`start_{i+1} > start_i + len_i`, i.e. the next run starts
  after the last value of the previous one; `= last + 1` is accepted — the text forbids only overlap);
* `start + (length-1) ≤ 65535`;
* the declared cardinality of every container (run containers included) must be its real cardinality
  (hence ≥ 1: a run container with zero runs is not conformant);
* the offsets, when present, must be the true payload positions;
* unused high bits of the last run-bitset byte are ignored;
* the standard writer never emits run containers, so `encode` is the run-free encoding (cookie `12346`).
-/
namespace Roaring
namespace Spec

/-- `k` little-endian bytes of `n` -/
def leBytes : Nat → Nat → List Nat
  | 0, _ => []
  | k+1, n => n % 256 :: leBytes k (n / 256)

/-- value of little-endian bytes -/
def leNat : List Nat → Nat
  | [] => 0
  | b :: bs => b + 256 * leNat bs

/-- cut a byte list into `k`-byte little-endian integers -/
def leInts (k : Nat) : Nat → List Nat → List Nat
  | 0, _ => []
  | cnt+1, bs => leNat (bs.take k) :: leInts k cnt (bs.drop k)

/-! ## encode -/

/-- the distinct high halves of an ascending list, ascending -/
def keysOf : List Nat → List Nat
  | [] => []
  | [x] => [x / 65536]
  | x :: y :: l => if x / 65536 = y / 65536 then keysOf (y :: l) else x / 65536 :: keysOf (y :: l)

/-- low halves of the values with high half `k` -/
def chunkOf (s : List Nat) (k : Nat) : List Nat := (s.filter (· / 65536 = k)).map (· % 65536)

/-- the 64-bit words `i, i+1, …` (`cnt` of them) of the bitset of the ascending list `vals` (all `≥ 64·i`):
    word `i` has bit `v % 64` set for each `v` with `v / 64 = i` -/
def wordsOf : Nat → Nat → List Nat → List Nat
  | _, 0, _ => []
  | i, cnt+1, vals =>
    ((vals.takeWhile (· / 64 = i)).map (fun v => 2 ^ (v % 64))).sum
      :: wordsOf (i + 1) cnt (vals.dropWhile (· / 64 = i))

def payloadSize (vals : List Nat) : Nat := if vals.length ≤ 4096 then 2 * vals.length else 8192

def encodeChunk (vals : List Nat) : List Nat :=
  if vals.length ≤ 4096 then vals.flatMap (leBytes 2)
  else (wordsOf 0 1024 vals).flatMap (leBytes 8)

/-- offsets: running sum of payload sizes, starting after the headers -/
def encodeOffsets : Nat → List (List Nat) → List Nat
  | _, [] => []
  | pos, c :: cs => leBytes 4 pos ++ encodeOffsets (pos + payloadSize c) cs

/-- the standard (run-free) encoding of a strictly ascending list of `u32` -/
def encode (s : List Nat) : List Nat :=
  let ks := keysOf s
  let cs := ks.map (chunkOf s)
  leBytes 4 12346 ++ leBytes 4 ks.length
    ++ (ks.zip cs).flatMap (fun kc => leBytes 2 kc.1 ++ leBytes 2 (kc.2.length - 1))
    ++ encodeOffsets (8 + 8 * ks.length) cs
    ++ cs.flatMap encodeChunk

/-! ## decode (strict) -/

def takeN (n : Nat) (bs : List Nat) : Option (List Nat × List Nat) :=
  if n ≤ bs.length then some (bs.take n, bs.drop n) else none

def toPairs : List Nat → List (Nat × Nat)
  | a :: b :: l => (a, b) :: toPairs l
  | _ => []

def strictAsc : List Nat → Bool
  | a :: b :: l => a < b && strictAsc (b :: l)
  | _ => true

/-- runs `(start, len-1)`: inside `u16`, sorted, non-overlapping (adjacent allowed) -/
def runsOK : List (Nat × Nat) → Bool
  | [] => true
  | [(s, l)] => s + l ≤ 65535
  | (s, l) :: (s', l') :: rs => s + l ≤ 65535 && s + l < s' && runsOK ((s', l') :: rs)

/-- the values of a 1024-word bitset, ascending -/
def bitsetVals (words : List Nat) : List Nat :=
  words.zipIdx.flatMap fun (w, i) => ((List.range 64).filter (fun j => w.testBit j)).map (64 * i + ·)

/-- one container payload; `card` is the declared cardinality.  Returns its values and the rest. -/
def decodeChunk (isRun : Bool) (card : Nat) (bs : List Nat) : Option (List Nat × List Nat) :=
  if isRun then do
    let (nb, bs) ← takeN 2 bs
    let nr := leNat nb
    let (rb, bs) ← takeN (4 * nr) bs
    let runs := toPairs (leInts 2 (2 * nr) rb)
    guard (runsOK runs)
    let vals := runs.flatMap fun r => List.range' r.1 (r.2 + 1)
    guard (vals.length = card)
    pure (vals, bs)
  else if card ≤ 4096 then do
    let (vb, bs) ← takeN (2 * card) bs
    let vals := leInts 2 card vb
    guard (strictAsc vals)
    pure (vals, bs)
  else do
    let (wb, bs) ← takeN 8192 bs
    let vals := bitsetVals (leInts 8 1024 wb)
    guard (vals.length = card)
    pure (vals, bs)

/-- the containers in order.  `pos` = number of stream bytes consumed so far; `offs` = the remaining
    offset entries (`none` when the stream has no offset header). -/
def decodeChunks (flags : Option (List Nat)) :
    List (Nat × Nat) → Nat → Nat → Option (List Nat) → List Nat → Option (List Nat × List Nat)
  | [], _, _, _, bs => some ([], bs)
  | (key, cardM1) :: ds, i, pos, offs, bs => do
    let isRun := match flags with
      | some f => (f.getD (i / 8) 0).testBit (i % 8)
      | none => false
    let offs' ← match offs with
      | none => some none
      | some [] => none
      | some (o :: os) => if o = pos then some (some os) else none
    let (vals, rest) ← decodeChunk isRun (cardM1 + 1) bs
    let (more, rest') ← decodeChunks flags ds (i + 1) (pos + (bs.length - rest.length)) offs' rest
    pure (vals.map (key * 65536 + ·) ++ more, rest')

/-- strict decoder: `some (set, unread rest)` exactly for the streams that start with a conformant
    serialization -/
def decode (bs : List Nat) : Option (List Nat × List Nat) := do
  let (cb, r1) ← takeN 4 bs
  let cookie := leNat cb
  let (n, flags, r2) ←
    (if cookie = 12346 then do
        let (nb, r) ← takeN 4 r1
        pure (leNat nb, none, r)
      else if cookie % 65536 = 12347 then do
        let n := cookie / 65536 + 1
        let (fb, r) ← takeN ((n + 7) / 8) r1
        pure (n, some fb, r)
      else none : Option (Nat × Option (List Nat) × List Nat))
  guard (n ≤ 65536)
  let (db, r3) ← takeN (4 * n) r2
  let descr := toPairs (leInts 2 (2 * n) db)
  guard (strictAsc (descr.map (·.1)))
  let hasOffsets := cookie = 12346 ∨ n ≥ 4
  let (offs, r4) ← (if hasOffsets then do
        let (ob, r) ← takeN (4 * n) r3
        pure (some (leInts 4 n ob), r)
      else pure (none, r3) : Option (Option (List Nat) × List Nat))
  decodeChunks flags descr 0 (bs.length - r4.length) offs r4

end Spec
end Roaring
