import RoaringModel.Treemap
import RoaringModel.Iter
/-!
# `RoaringTreemap` iterators (treemap/iter.rs): `To64Iter`, `Iter`, `IntoIter`, `BitmapIter`

The inner 32-bit iterators (`bitmap::Iter`, `bitmap::IntoIter`) are a **parameter** here: the model is
parametrised by an `Inner` record of cursor operations, so that the partition-level proofs are independent of
the 32-bit layer.  `Inner.iter32` is the mirrored 32-bit iterator model (Iter.lean: one model for
`bitmap::Iter` and `bitmap::IntoIter`) — the instance the driver runs and the unconditional C12 theorems are
about.  `Inner.list` is the C03 *specification* of a 32-bit cursor — the list of remaining `u32` values with
`next = pop front`, `next_back = pop back`, `advance_to n = filter (n ≤ ·)`, `advance_back_to n =
filter (· ≤ n)`, `size_hint = length`.  The C12 theorems hold for every `Inner` that satisfies the C03 cursor
laws (`InnerSpec`, Lemmas/TreemapIterBase.lean); `InnerSpec.iter32` (Lemmas/TreemapIter32.lean) proves them
for `Inner.iter32` from the C03 theorems.
`btree_map::Range` / `btree_map::IntoIter` are the remaining sub-list; `iter::FlatMap` is std's
`FlattenCompat {iter, frontiter, backiter}` (trusted std behaviour).
-/
namespace Roaring
namespace TIter

/-- operations of an inner 32-bit double-ended cursor (`bitmap::Iter` / `bitmap::IntoIter`) -/
structure Inner where
  Cur : Type
  iter : Bitmap → Cur
  next : Cur → Cur × Option Nat
  nextBack : Cur → Cur × Option Nat
  advanceTo : Cur → Nat → Cur
  advanceBackTo : Cur → Nat → Cur
  sizeHint : Cur → Nat

/-- the C03 specification of a 32-bit cursor, used as the executable inner iterator -/
def Inner.list : Inner where
  Cur := List Nat
  iter := Bitmap.elems
  next := fun l => (l.tail, l.head?)
  nextBack := fun l => (l.dropLast, l.getLast?)
  advanceTo := fun l n => l.filter (fun x => decide (n ≤ x))
  advanceBackTo := fun l n => l.filter (fun x => decide (x ≤ n))
  sizeHint := List.length

/-- **the mirrored 32-bit iterator** (Iter.lean): `t.1.iter()` of `to64iter` (iter.rs:62) and
    `t.1.into_iter()` of `to64intoiter` (iter.rs:102) both start as `Iter.new` on the containers
    (`Bitmap.iter`); `Iter32` and `IntoIter32` run the same generic `next` / `next_back` /
    `advance_to_impl` / `advance_back_to_impl` / `size_hint_impl`.  `sizeHint` is the `.0` that
    `treemap::Iter::size_hint` reads (iter.rs:268-269) of `To64Iter::size_hint = self.inner.size_hint()`. -/
def Inner.iter32 : Inner where
  Cur := _root_.Roaring.Iter
  iter := Bitmap.iter
  next := _root_.Roaring.Iter.next
  nextBack := _root_.Roaring.Iter.nextBack
  advanceTo := _root_.Roaring.Iter.advanceTo
  advanceBackTo := _root_.Roaring.Iter.advanceBackTo
  sizeHint := fun it => (_root_.Roaring.Iter.sizeHint it).1

def usizeMax : Nat := 18446744073709551615

variable (K : Inner)

/-- iter.rs:11 `To64Iter` / iter.rs:65 `To64IntoIter` -/
structure To64 where
  hi : Nat
  inner : K.Cur

/-- iter.rs:61 `to64iter` / iter.rs:101 `to64intoiter` -/
def to64 (p : Nat × Bitmap) : To64 K := { hi := p.1, inner := K.iter p.2 }

namespace To64
variable {K}
/-- iter.rs:28 -/
def next (c : To64 K) : To64 K × Option Nat :=
  let r := K.next c.inner
  ({ c with inner := r.1 }, r.2.map (Treemap.join c.hi))
/-- iter.rs:47 -/
def nextBack (c : To64 K) : To64 K × Option Nat :=
  let r := K.nextBack c.inner
  ({ c with inner := r.1 }, r.2.map (Treemap.join c.hi))
/-- iter.rs:17 -/
def advanceTo (c : To64 K) (n : Nat) : To64 K := { c with inner := K.advanceTo c.inner n }
/-- iter.rs:21 -/
def advanceBackTo (c : To64 K) (n : Nat) : To64 K := { c with inner := K.advanceBackTo c.inner n }
/-- iter.rs:32 (`.0` of the inner size hint) -/
def sizeHint (c : To64 K) : Nat := K.sizeHint c.inner
end To64

/-- iter.rs:556 `BitmapIter {treemap, range}` (`bitmaps()` and the `outer` of `Iter`) -/
structure PIter where
  treemap : Treemap
  range : Treemap

namespace PIter
/-- iter.rs:562 -/
def new (t : Treemap) : PIter := { treemap := t, range := Treemap.range t .unb .unb }

/-- iter.rs:569 `advance_to`: drops the untouched partitions below `newFront`, returns the first key left -/
def advanceTo (p : PIter) (newFront : Nat) : PIter × Option Nat :=
  match p.range.head?, p.range.getLast? with
  | some (first, _), some (last, _) =>
    let range' :=
      if newFront > last then Treemap.range p.treemap (.incl last) (.excl last)
      else if newFront > first then Treemap.range p.treemap (.incl newFront) (.incl last)
      else p.range
    ({ p with range := range' }, range'.head?.map (·.1))
  | _, _ => (p, none)                                   -- the two `?`

/-- iter.rs:582 `advance_back_to` -/
def advanceBackTo (p : PIter) (newBack : Nat) : PIter × Option Nat :=
  match p.range.head?, p.range.getLast? with
  | some (first, _), some (last, _) =>
    let range' :=
      if newBack < first then Treemap.range p.treemap (.incl first) (.excl first)
      else if newBack < last then Treemap.range p.treemap (.incl first) (.incl newBack)
      else p.range
    ({ p with range := range' }, range'.getLast?.map (·.1))
  | _, _ => (p, none)

/-- iter.rs:593 `remaining` -/
def remaining (p : PIter) : Nat := p.range.foldl (fun acc q => acc + Bitmap.len q.2) 0
/-- iter.rs:602 -/
def next (p : PIter) : PIter × Option (Nat × Bitmap) := ({ p with range := p.range.tail }, p.range.head?)
/-- iter.rs:618 -/
def nextBack (p : PIter) : PIter × Option (Nat × Bitmap) := ({ p with range := p.range.dropLast }, p.range.getLast?)
end PIter

/-- iter.rs:112 `Iter {outer, front, back}` -/
structure Iter where
  outer : PIter
  front : Option (To64 K)
  back : Option (To64 K)

namespace Iter
variable {K}

/-- iter.rs:125 -/
def new (t : Treemap) : Iter K := { outer := PIter.new t, front := none, back := none }

/-- iter.rs:251-264: the part of `next` after the front iterator came up empty; the recursion
    `self.next()` is unfolded over the untouched partitions -/
def nextOuter (treemap : Treemap) (back : Option (To64 K)) : Treemap → Option (To64 K) → Iter K × Option Nat
  | [], front =>
    match back with
    | some b =>
      let r := b.next
      (⟨⟨treemap, []⟩, front, some r.1⟩, r.2)
    | none => (⟨⟨treemap, []⟩, front, none⟩, none)
  | p :: rest, _ =>
    let r := (to64 K p).next
    match r.2 with
    | some v => (⟨⟨treemap, rest⟩, some r.1, back⟩, some v)
    | none => nextOuter treemap back rest (some r.1)

/-- iter.rs:244 `next` -/
def next (it : Iter K) : Iter K × Option Nat :=
  match it.front with
  | some f =>
    let r := f.next
    match r.2 with
    | some v => ({ it with front := some r.1 }, some v)
    | none => nextOuter it.outer.treemap it.back it.outer.range (some r.1)
  | none => nextOuter it.outer.treemap it.back it.outer.range none

/-- iter.rs:287-300, over the *reversed* list of untouched partitions -/
def nextBackOuter (treemap : Treemap) (front : Option (To64 K)) : Treemap → Option (To64 K) → Iter K × Option Nat
  | [], back =>
    match front with
    | some f =>
      let r := f.nextBack
      (⟨⟨treemap, []⟩, some r.1, back⟩, r.2)
    | none => (⟨⟨treemap, []⟩, none, back⟩, none)
  | p :: rrest, _ =>
    let r := (to64 K p).nextBack
    match r.2 with
    | some v => (⟨⟨treemap, rrest.reverse⟩, front, some r.1⟩, some v)
    | none => nextBackOuter treemap front rrest (some r.1)

/-- iter.rs:280 `next_back` -/
def nextBack (it : Iter K) : Iter K × Option Nat :=
  match it.back with
  | some b =>
    let r := b.nextBack
    match r.2 with
    | some v => ({ it with back := some r.1 }, some v)
    | none => nextBackOuter it.outer.treemap it.front it.outer.range.reverse (some r.1)
  | none => nextBackOuter it.outer.treemap it.front it.outer.range.reverse none

/-- iter.rs:158-178: `advance_to` after the front iterator has been dealt with -/
def advanceRest (it : Iter K) (key index : Nat) : Iter K :=
  let r := it.outer.advanceTo key
  match r.2 with
  | some first =>
    if first = key then
      let q := r.1.next
      { it with outer := q.1, front := (q.2.map (to64 K)).map (fun f => f.advanceTo index) }
    else { it with outer := r.1 }
  | none =>
    let it := { it with outer := r.1 }
    match it.back with
    | some b =>
      if b.hi > key then it
      else if b.hi = key then { it with back := some (b.advanceTo index) }
      else { it with back := none }
    | none => it

/-- iter.rs:145 `advance_to` -/
def advanceTo (it : Iter K) (n : Nat) : Iter K :=
  let (key, index) := Treemap.split n
  match it.front with
  | some f =>
    if f.hi > key then it
    else if f.hi = key then { it with front := some (f.advanceTo index) }
    else advanceRest { it with front := none } key index
  | none => advanceRest it key index

/-- iter.rs:209-229 -/
def advanceBackRest (it : Iter K) (key index : Nat) : Iter K :=
  let r := it.outer.advanceBackTo key
  match r.2 with
  | some last =>
    if last = key then
      let q := r.1.nextBack
      { it with outer := q.1, back := (q.2.map (to64 K)).map (fun b => b.advanceBackTo index) }
    else { it with outer := r.1 }
  | none =>
    let it := { it with outer := r.1 }
    match it.front with
    | some f =>
      if f.hi < key then it
      else if f.hi = key then { it with front := some (f.advanceBackTo index) }
      else { it with front := none }
    | none => it

/-- iter.rs:196 `advance_back_to` -/
def advanceBackTo (it : Iter K) (n : Nat) : Iter K :=
  let (key, index) := Treemap.split n
  match it.back with
  | some b =>
    if b.hi < key then it
    else if b.hi = key then { it with back := some (b.advanceBackTo index) }
    else advanceBackRest { it with back := none } key index
  | none => advanceBackRest it key index

/-- iter.rs:267 `size_hint` (both components are equal; `saturating_add` on `usize`) -/
def sizeHint (it : Iter K) : Nat :=
  let f := match it.front with | some f => f.sizeHint | none => 0
  let b := match it.back with | some b => b.sizeHint | none => 0
  min (min (f + b) usizeMax + it.outer.remaining) usizeMax

end Iter

/-- iter.rs:119 `IntoIter {inner: FlatMap<btree_map::IntoIter, To64IntoIter>, size_hint}`;
    `FlatMap` = std `FlattenCompat {iter, frontiter, backiter}` -/
structure IntoIter where
  iter : Treemap
  front : Option (To64 K)
  back : Option (To64 K)
  sizeHint : Nat

namespace IntoIter
variable {K}

/-- iter.rs:234 -/
def new (t : Treemap) : IntoIter K :=
  { iter := t, front := none, back := none, sizeHint := Treemap.len t }

/-- `FlattenCompat::next` after `frontiter` came up empty (and was cleared) -/
def flatNext (back : Option (To64 K)) (sh : Nat) : Treemap → IntoIter K × Option Nat
  | [] =>
    match back with
    | some b =>
      let r := b.next
      (⟨[], none, if r.2.isSome then some r.1 else none, sh⟩, r.2)    -- `and_then_or_clear`
    | none => (⟨[], none, none, sh⟩, none)
  | p :: rest =>
    let r := (to64 K p).next
    match r.2 with
    | some v => (⟨rest, some r.1, back, sh⟩, some v)
    | none => flatNext back sh rest

/-- iter.rs:314 `next` -/
def next (it : IntoIter K) : IntoIter K × Option Nat :=
  let sh := it.sizeHint - 1                                  -- saturating_sub(1)
  match it.front with
  | some f =>
    let r := f.next
    match r.2 with
    | some v => ({ it with front := some r.1, sizeHint := sh }, some v)
    | none => flatNext it.back sh it.iter
  | none => flatNext it.back sh it.iter

/-- `FlattenCompat::next_back`, over the reversed remaining partitions -/
def flatNextBack (front : Option (To64 K)) (sh : Nat) : Treemap → IntoIter K × Option Nat
  | [] =>
    match front with
    | some f =>
      let r := f.nextBack
      (⟨[], if r.2.isSome then some r.1 else none, none, sh⟩, r.2)
    | none => (⟨[], none, none, sh⟩, none)
  | p :: rrest =>
    let r := (to64 K p).nextBack
    match r.2 with
    | some v => (⟨rrest.reverse, front, some r.1, sh⟩, some v)
    | none => flatNextBack front sh rrest

/-- iter.rs:338 `next_back` -/
def nextBack (it : IntoIter K) : IntoIter K × Option Nat :=
  let sh := it.sizeHint - 1
  match it.back with
  | some b =>
    let r := b.nextBack
    match r.2 with
    | some v => ({ it with back := some r.1, sizeHint := sh }, some v)
    | none => flatNextBack it.front sh it.iter.reverse
  | none => flatNextBack it.front sh it.iter.reverse

/-- iter.rs:319 `size_hint` -/
def sizeHintPair (it : IntoIter K) : Nat × Option Nat :=
  if it.sizeHint < usizeMax then (it.sizeHint, some it.sizeHint) else (usizeMax, none)

/-- iter.rs:353 `ExactSizeIterator::len` (64-bit targets only): `self.size_hint as usize` — *not*
    `size_hint().0` (the two agree because the counter is a `u64`, `exactLen_eq`) -/
def exactLen (it : IntoIter K) : Nat := it.sizeHint % 18446744073709551616

/-- core `Iterator::fold` default, `while let Some(x) = self.next() { acc = f(acc, x) }`: what `treemap::Iter`
    (which overrides neither `fold` nor `rfold`) runs, and the loop `IntoIter::fold` is proved equal to
    (`IntoIter.fold_mirror_eq`).  `fuel` bounds the number of `Some` results. -/
def foldNext {β : Type} (f : β → Nat → β) : Nat → IntoIter K → β → β
  | 0, _, acc => acc
  | fuel + 1, it, acc =>
    match it.next with
    | (it', some x) => foldNext f fuel it' (f acc x)
    | (_, none) => acc

/-- core `DoubleEndedIterator::rfold` default: `while let Some(x) = self.next_back()` -/
def rfoldNextBack {β : Type} (f : β → Nat → β) : Nat → IntoIter K → β → β
  | 0, _, acc => acc
  | fuel + 1, it, acc =>
    match it.nextBack with
    | (it', some x) => rfoldNextBack f fuel it' (f acc x)
    | (_, none) => acc

end IntoIter

/-! ### the specialised `fold` / `rfold` of `treemap::IntoIter` (iter.rs:328 / 344), over the mirrored 32-bit iterator

`IntoIter::fold(self, init, f) = self.inner.fold(init, f)` with `inner : FlatMap<btree_map::IntoIter, To64IntoIter, _>`,
i.e. std's `FlattenCompat::fold` (`iter_fold`): the `frontiter` if there is one, then every remaining partition
through `to64intoiter(p).fold`, then the `backiter`; `rfold` the other way round (`iter_rfold`).  Each
`To64IntoIter::fold` (iter.rs:77) hands the closure to the 32-bit `bitmap::IntoIter::fold` (bitmap/iter.rs:287,
`Iter.fold` of Iter.lean) and rebuilds the value as `((hi as u64) << 32) + (lo as u64)` — `+`, where `next` uses
`util::join`'s `|`. -/

namespace To64
/-- iter.rs:77 `To64IntoIter::fold` (iter.rs:37 `To64Iter::fold` is the same text) -/
def fold32 {β : Type} (c : To64 Inner.iter32) (init : β) (f : β → Nat → β) : β :=
  _root_.Roaring.Iter.fold (show _root_.Roaring.Iter from c.inner) init (fun b lo => f b ((c.hi <<< 32) + lo))
/-- iter.rs:92 `To64IntoIter::rfold` (iter.rs:52 `To64Iter::rfold`) -/
def rfold32 {β : Type} (c : To64 Inner.iter32) (init : β) (f : β → Nat → β) : β :=
  _root_.Roaring.Iter.rfold (show _root_.Roaring.Iter from c.inner) init (fun b lo => f b ((c.hi <<< 32) + lo))
end To64

namespace IntoIter
/-- iter.rs:328 `fold` (`FlattenCompat::iter_fold`) -/
def fold {β : Type} (it : IntoIter Inner.iter32) (init : β) (f : β → Nat → β) : β :=
  let acc := match it.front with | some fr => fr.fold32 init f | none => init
  let acc := it.iter.foldl (fun acc p => (to64 Inner.iter32 p).fold32 acc f) acc
  match it.back with | some bk => bk.fold32 acc f | none => acc

/-- iter.rs:344 `rfold` (`FlattenCompat::iter_rfold`) -/
def rfold {β : Type} (it : IntoIter Inner.iter32) (init : β) (f : β → Nat → β) : β :=
  let acc := match it.back with | some bk => bk.rfold32 init f | none => init
  let acc := it.iter.reverse.foldl (fun acc p => (to64 Inner.iter32 p).rfold32 acc f) acc
  match it.front with | some fr => fr.rfold32 acc f | none => acc
end IntoIter

end TIter
end Roaring
