import RoaringModel.BitmapStore
import RoaringModel.Unsafe
/-!
# `BitmapIter`: the four cursor functions with their unchecked word reads recorded (C15, sites 12–15)

`Roaring.BIter` (BitmapStore.lean) reads words with `word it.bits k` (a `getD`).  Here each of
`next / nextBack / advanceTo / advanceBackTo` is written once more, branch for branch, returning additionally
the `Access`es of its `bits.get_unchecked(k)` reads — `len` is the constant `BITMAP_LENGTH = 1024` of the
Rust type `[u64; 1024]`, *not* the length of the model's word list, so the bounds theorems do not depend on
the list being 1024 long.  `UnsafeLemmas` proves the erasure equations `(fT it).1 = f it`: the instrumented
functions compute exactly what the existing definitions compute, so the traces are the reads of those.
-/
namespace Roaring.BIter
open Roaring.Unsafe (Access Trace)
open BStore (word)

/-- the only memory-safety invariant of `BitmapIter`: `key_back` is a valid word index -/
def Inv (it : BIter) : Prop := it.keyBack ≤ 1023

/-- arithmetic side invariant (not needed for memory safety): `key` is a valid word index, so
    `64 * self.key + index` fits a `u16` -/
def KeyOk (it : BIter) : Prop := it.key ≤ 1023

/-- typing, not well-formedness: the cached words and the array elements are `u64`s -/
def U64 (it : BIter) : Prop := it.value < 2^64 ∧ it.valueBack < 2^64 ∧ ∀ w ∈ it.bits, w < 2^64

instance (it : BIter) : Decidable it.Inv := by unfold Inv; infer_instance
instance (it : BIter) : Decidable it.KeyOk := by unfold KeyOk; infer_instance

/-- the iterator states a safe caller can produce over the words `bits`: `new`, then any sequence of the four
    cursor functions with arbitrary `u16` arguments -/
inductive Reach (bits : List Nat) : BIter → Prop
  | new : Reach bits (BIter.new bits)
  | next {it : BIter} : Reach bits it → Reach bits it.next.1
  | nextBack {it : BIter} : Reach bits it → Reach bits it.nextBack.1
  | advanceTo {it : BIter} (index : Nat) : index < 65536 → Reach bits it → Reach bits (it.advanceTo index)
  | advanceBackTo {it : BIter} (index : Nat) : index < 65536 → Reach bits it → Reach bits (it.advanceBackTo index)

/-- `for key in self.key + 1..self.key_back { self.value = *bits.get_unchecked(key); if self.value != 0 { break } }`
    from `k`, `n` iterations remaining: the key it stops at, and one site-14 access per iteration executed -/
def scanT (bits : List Nat) : Nat → Nat → Option Nat × Trace
  | _, 0 => (none, [])
  | k, n + 1 =>
    if word bits k != 0 then (some k, [⟨14, k, 1024⟩])
    else
      let r := scanT bits (k + 1) n
      (r.1, ⟨14, k, 1024⟩ :: r.2)

/-- `next` (bitmap_store.rs:551) with its reads -/
def nextT (it : BIter) : (BIter × Option Nat) × Trace :=
  if it.value ≠ 0 then (it.emit, [])
  else if it.key ≥ it.keyBack then ((it, none), [])
  else
    let r := scanT it.bits (it.key + 1) (it.keyBack - it.key - 1)
    (match r.1 with
      | some k => BIter.emit { it with key := k, value := word it.bits k }
      | none =>
        let it' := { it with key := it.keyBack, value := it.valueBack }
        if it'.value = 0 then (it', none) else it'.emit,
     r.2)

/-- `x -= 1` on a `u16` as a release build computes it (wrapping; a debug build panics at `x = 0`).
    Used for `self.key_back -= 1`: had the decrement ever been executed at `key_back = 0`, the index recorded next
    would be 65535 and the trace unsafe — the bounds theorem therefore also excludes the underflow. -/
def dec16 (x : Nat) : Nat := if x = 0 then 65535 else x - 1

/-- `next_back` (bitmap_store.rs:598) with its reads: `self.key_back -= 1; bits.get_unchecked(self.key_back)` -/
def nextBackT (it : BIter) : (BIter × Option Nat) × Trace :=
  if it.keyBack ≤ it.key then
    if it.value = 0 then ((it, none), [])
    else (({ it with value := it.value &&& not64 (1 <<< hiBit it.value) }, some (64 * it.keyBack + hiBit it.value)), [])
  else
    if it.valueBack = 0 then
      let kb := dec16 it.keyBack
      let r := nextBackT { it with keyBack := kb, valueBack := word it.bits kb }
      (r.1, ⟨15, kb, 1024⟩ :: r.2)
    else (({ it with valueBack := it.valueBack &&& not64 (1 <<< hiBit it.valueBack) },
          some (64 * it.keyBack + hiBit it.valueBack)), [])
termination_by it.keyBack
decreasing_by simp only [dec16]; split <;> omega

/-- `advance_to` (bitmap_store.rs:481) with its read -/
def advanceToT (it : BIter) (index : Nat) : BIter × Trace :=
  let newKey := wkey index
  let lowBits := (1 <<< wbit index) - 1
  if newKey < it.key then (it, [])
  else if newKey = it.key then ({ it with key := newKey, value := it.value &&& not64 lowBits }, [])
  else if newKey < it.keyBack then
    ({ it with key := newKey, value := word it.bits newKey &&& not64 lowBits }, [⟨12, newKey, 1024⟩])
  else if newKey = it.keyBack then
    ({ it with key := newKey, value := it.valueBack &&& not64 lowBits }, [])
  else
    ({ it with key := it.keyBack, value := 0, valueBack := 0 }, [])

/-- `advance_back_to` (bitmap_store.rs:514) with its read -/
def advanceBackToT (it : BIter) (index : Nat) : BIter × Trace :=
  let newKey := wkey index
  let lowBits := shrMax' (wbit index)
  if newKey > it.keyBack then (it, [])
  else if newKey = it.keyBack then
    if it.keyBack ≤ it.key then ({ it with keyBack := newKey, value := it.value &&& lowBits }, [])
    else ({ it with keyBack := newKey, valueBack := it.valueBack &&& lowBits }, [])
  else if newKey > it.key then
    ({ it with keyBack := newKey, valueBack := word it.bits newKey &&& lowBits }, [⟨13, newKey, 1024⟩])
  else if newKey = it.key then
    ({ it with keyBack := newKey, value := it.value &&& lowBits }, [])
  else
    ({ it with keyBack := newKey, value := 0 }, [])

end Roaring.BIter
