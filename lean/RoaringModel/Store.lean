import RoaringModel.BitmapStore
/-!
# `Store` — kind dispatch (store/mod.rs) and `Container` (container.rs)
-/
namespace Roaring

def ARRAY_LIMIT : Nat := 4096

inductive Store where
  | array (v : List Nat)
  | bitmap (b : BStore)
deriving Repr, BEq, DecidableEq

namespace Store

def new : Store := .array []
/-- store/mod.rs:42 `with_capacity` -/
def withCapacity (cap : Nat) : Store := if cap ≤ ARRAY_LIMIT then .array [] else .bitmap BStore.new
def full : Store := .bitmap BStore.full

def insert : Store → Nat → Store × Bool
  | .array v, i => let r := Arr.insert v i; (.array r.1, r.2)
  | .bitmap b, i => let r := b.insert i; (.bitmap r.1, r.2)

/-- store/mod.rs:91 `insert_range` on `s..=e` (`RangeInclusive::is_empty` ⇔ `s > e`) -/
def insertRange (st : Store) (s e : Nat) : Store × Nat :=
  if s > e then (st, 0) else
  match st with
  | .array v => let r := Arr.insertRange v s e; (.array r.1, r.2)
  | .bitmap b => let r := b.insertRange s e; (.bitmap r.1, r.2)

def push : Store → Nat → Store × Bool
  | .array v, i => let r := Arr.push v i; (.array r.1, r.2)
  | .bitmap b, i => let r := b.push i; (.bitmap r.1, r.2)

def pushUnchecked (dbg : Bool) : Store → Nat → Option Store
  | .array v, i => (Arr.pushUnchecked dbg v i).map .array
  | .bitmap b, i => (b.pushUnchecked dbg i).map .bitmap

def remove : Store → Nat → Store × Bool
  | .array v, i => let r := Arr.remove v i; (.array r.1, r.2)
  | .bitmap b, i => let r := b.remove i; (.bitmap r.1, r.2)

def removeRange (st : Store) (s e : Nat) : Store × Nat :=
  if s > e then (st, 0) else
  match st with
  | .array v => let r := Arr.removeRange v s e; (.array r.1, r.2)
  | .bitmap b => let r := b.removeRange s e; (.bitmap r.1, r.2)

def removeSmallest : Store → Nat → Store
  | .array v, n => .array (Arr.removeSmallest v n)
  | .bitmap b, n => .bitmap (b.removeSmallest n)

def removeBiggest : Store → Nat → Store
  | .array v, n => .array (Arr.removeBiggest v n)
  | .bitmap b, n => .bitmap (b.removeBiggest n)

def contains : Store → Nat → Bool
  | .array v, i => Arr.contains v i
  | .bitmap b, i => b.contains i

def containsRange : Store → Nat → Nat → Bool
  | .array v, s, e => Arr.containsRange v s e
  | .bitmap b, s, e => b.containsRange s e

def len : Store → Nat
  | .array v => v.length
  | .bitmap b => b.len

def isEmpty : Store → Bool
  | .array v => v.isEmpty
  | .bitmap b => b.len == 0

def isFull (s : Store) : Bool := s.len == 65536

def min? : Store → Option Nat
  | .array v => Arr.min? v
  | .bitmap b => b.min?

def max? : Store → Option Nat
  | .array v => Arr.max? v
  | .bitmap b => b.max?

def rank : Store → Nat → Nat
  | .array v, i => Arr.rank v i
  | .bitmap b, i => b.rank i

def select : Store → Nat → Option Nat
  | .array v, n => Arr.select v n
  | .bitmap b, n => b.select n

/-- array_store/mod.rs:224 `to_bitmap_store` (before `from_unchecked`) -/
def arrToBitmapBits (v : List Nat) : List Nat :=
  v.foldl (fun bits i => bits.set (wkey i) (BStore.word bits (wkey i) ||| (1 <<< wbit i))) BStore.zeros

def arrToBitmap (v : List Nat) : BStore := { len := v.length, bits := arrToBitmapBits v }

/-- array_store/mod.rs:224-232 `to_bitmap_store` *with* its closing `BitmapStore::from_unchecked(len, bits)` (`none` =
    the debug `try_from(..).unwrap()` panics).  `Lemmas/MirrorLemmas.lean`: `= some (arrToBitmap v)` for every
    `Arr.Inv v` (this is the second conjunct of `Arr.Safe_toBitmap`, C16). (fidelity audit) -/
def arrToBitmapOp (dbg : Bool) (v : List Nat) : Option BStore :=
  BStore.fromUnchecked dbg v.length (arrToBitmapBits v)

def isDisjoint : Store → Store → Bool
  | .array a, .array b => Arr.isDisjoint a b
  | .bitmap a, .bitmap b => a.isDisjoint b
  | .array v, .bitmap b => v.all (fun i => !b.contains i)
  | .bitmap b, .array v => v.all (fun i => !b.contains i)

def isSubset : Store → Store → Bool
  | .array a, .array b => Arr.isSubset a b
  | .bitmap a, .bitmap b => a.isSubset b
  | .array v, .bitmap b => v.all (fun i => b.contains i)
  | .bitmap _, .array _ => false

def interLen : Store → Store → Nat
  | .array a, .array b => Arr.interLen a b
  | .bitmap a, .bitmap b => a.interLenBitmap b
  | .array v, .bitmap b => b.interLenArray v
  | .bitmap b, .array v => b.interLenArray v

/-- `ArrayStore &= &BitmapStore` : `retain(|x| rhs.contains(x))` -/
def arrAndBitmap (v : List Nat) (b : BStore) : List Nat := v.filter (fun x => b.contains x)
/-- `ArrayStore -= &BitmapStore` -/
def arrSubBitmap (v : List Nat) (b : BStore) : List Nat := v.filter (fun x => !b.contains x)

/-! ### `|` -/
/-- store/mod.rs:307 `BitOrAssign<&Store>` -/
def orAssignRef : Store → Store → Store
  | .array a, .array b => .array (Arr.or a b)
  | .bitmap a, .array v => .bitmap (a.orArr v)
  | .bitmap a, .bitmap b => .bitmap (a.orB b)
  | .array v, .bitmap b => .bitmap (b.orArr v)

/-- store/mod.rs:287 `BitOrAssign<Store>` (owned rhs; the `Array |= Bitmap` case swaps) -/
def orAssignOwned : Store → Store → Store
  | .array a, .array b => .array (Arr.or a b)
  | .bitmap a, .array v => .bitmap (a.orArr v)
  | .bitmap a, .bitmap b => .bitmap (a.orB b)
  | .array v, .bitmap b => .bitmap (b.orArr v)

/-- store/mod.rs:262 `&Store | &Store` -/
def orRef : Store → Store → Store
  | .array a, .array b => .array (Arr.or a b)
  | .bitmap a, .array v => .bitmap (a.orArr v)
  | .bitmap a, .bitmap b => .bitmap (a.orB b)
  | .array v, .bitmap b => .bitmap (b.orArr v)

/-! ### `&` -/
/-- store/mod.rs:373 `BitAndAssign<&Store>` -/
def andAssignRef : Store → Store → Store
  | .array a, .array b =>
    if b.length < a.length then .array (Arr.andAssign b a) else .array (Arr.andAssign a b)
  | .bitmap a, .bitmap b => .bitmap (a.andB b)
  | .array v, .bitmap b => .array (arrAndBitmap v b)
  | .bitmap b, .array v => .array (arrAndBitmap v b)

/-- store/mod.rs:349 `BitAndAssign<Store>` -/
def andAssignOwned : Store → Store → Store
  | .array a, .array b =>
    if b.length < a.length then .array (Arr.andAssign b a) else .array (Arr.andAssign a b)
  | .bitmap a, .bitmap b => .bitmap (a.andB b)
  | .array v, .bitmap b => .array (arrAndBitmap v b)
  | .bitmap b, .array v => .array (arrAndBitmap v b)

/-- store/mod.rs:329 `&Store & &Store` -/
def andRef : Store → Store → Store
  | .array a, .array b => .array (Arr.and a b)
  | .bitmap b, .array v => .array (arrAndBitmap v b)
  | l, r => andAssignRef l r

/-! ### `-` -/
/-- store/mod.rs:417 `SubAssign<&Store>` -/
def subAssignRef : Store → Store → Store
  | .array a, .array b => .array (Arr.subAssign a b)
  | .bitmap a, .array v => .bitmap (a.subArr v)
  | .bitmap a, .bitmap b => .bitmap (a.subB b)
  | .array v, .bitmap b => .array (arrSubBitmap v b)

/-- store/mod.rs:402 `&Store - &Store` -/
def subRef : Store → Store → Store
  | .array a, .array b => .array (Arr.sub a b)
  | l, r => subAssignRef l r

/-! ### `^` -/
/-- store/mod.rs:476 `BitXorAssign<&Store>` -/
def xorAssignRef : Store → Store → Store
  | .array a, .array b => .array (Arr.xor a b)
  | .bitmap a, .array v => .bitmap (a.xorArr v)
  | .bitmap a, .bitmap b => .bitmap (a.xorB b)
  | .array v, .bitmap b => .bitmap (b.xorArr v)

/-- store/mod.rs:456 `BitXorAssign<Store>` -/
def xorAssignOwned : Store → Store → Store
  | .array a, .array b => .array (Arr.xor a b)
  | .bitmap a, .array v => .bitmap (a.xorArr v)
  | .bitmap a, .bitmap b => .bitmap (a.xorB b)
  | .array v, .bitmap b => .bitmap (b.xorArr v)

/-- store/mod.rs:436 `&Store ^ &Store` -/
def xorRef : Store → Store → Store
  | .array a, .array b => .array (Arr.xor a b)
  | .array v, .bitmap b => .bitmap (b.xorArr v)
  | l, r => xorAssignRef l r

/-- store/mod.rs:520 `PartialEq` -/
def eq : Store → Store → Bool
  | .array a, .array b => a == b
  | .bitmap a, .bitmap b => a.len == b.len && a.bits == b.bits
  | _, _ => false

/-- the values of a store in ascending order (what `iter()` yields; C03 proves this for `BIter`) -/
def elems : Store → List Nat
  | .array v => v
  | .bitmap b => b.toArray

end Store

/-! ## `Container` (container.rs) -/

structure Container where
  key : Nat
  store : Store
deriving Repr, BEq, DecidableEq

namespace Container

def new (key : Nat) : Container := { key, store := Store.new }
def full (key : Nat) : Container := { key, store := Store.full }
def len (c : Container) : Nat := c.store.len
def isEmpty (c : Container) : Bool := c.store.isEmpty

/-- container.rs:177 `ensure_correct_store` -/
def ensureCorrectStore (c : Container) : Container :=
  match c.store with
  | .bitmap b => if b.len ≤ ARRAY_LIMIT then { c with store := .array b.toArray } else c
  | .array v => if v.length > ARRAY_LIMIT then { c with store := .bitmap (Store.arrToBitmap v) } else c

/-- container.rs:50 -/
def insert (c : Container) (i : Nat) : Container × Bool :=
  let r := c.store.insert i
  if r.2 then (ensureCorrectStore { c with store := r.1 }, true) else ({ c with store := r.1 }, false)

/-- container.rs:59; `range.len()` of a `RangeInclusive<u16>` is `e - s + 1` (0 when empty) -/
def insertRange (c : Container) (s e : Nat) : Container × Nat :=
  let rlen := if s ≤ e then e - s + 1 else 0
  let st := if rlen > ARRAY_LIMIT then
      (match c.store with
       | .array v => Store.bitmap (Store.arrToBitmap v)
       | st => st)
    else c.store
  let r := st.insertRange s e
  (ensureCorrectStore { c with store := r.1 }, r.2)

/-- container.rs:74 -/
def push (c : Container) (i : Nat) : Container × Bool :=
  let r := c.store.push i
  if r.2 then (ensureCorrectStore { c with store := r.1 }, true) else ({ c with store := r.1 }, false)

/-- container.rs:90 -/
def pushUnchecked (dbg : Bool) (c : Container) (i : Nat) : Option Container :=
  (c.store.pushUnchecked dbg i).map fun st => ensureCorrectStore { c with store := st }

/-- container.rs:95 -/
def remove (c : Container) (i : Nat) : Container × Bool :=
  let r := c.store.remove i
  if r.2 then (ensureCorrectStore { c with store := r.1 }, true) else ({ c with store := r.1 }, false)

/-- container.rs:104 -/
def removeRange (c : Container) (s e : Nat) : Container × Nat :=
  let r := c.store.removeRange s e
  (ensureCorrectStore { c with store := r.1 }, r.2)

/-- container.rs:110 (callers guarantee `n < len`) -/
def removeSmallest (c : Container) (n : Nat) : Container :=
  match c.store with
  | .bitmap b =>
    if b.len - n ≤ ARRAY_LIMIT then { c with store := .array (b.toArray.drop n) }
    else { c with store := c.store.removeSmallest n }
  | .array _ => { c with store := c.store.removeSmallest n }

/-- container.rs:125 -/
def removeBiggest (c : Container) (n : Nat) : Container :=
  match c.store with
  | .bitmap b =>
    if b.len - n ≤ ARRAY_LIMIT then { c with store := .array (b.toArray.take (b.len - n)) }
    else { c with store := c.store.removeBiggest n }
  | .array _ => { c with store := c.store.removeBiggest n }

def contains (c : Container) (i : Nat) : Bool := c.store.contains i
def containsRange (c : Container) (s e : Nat) : Bool := c.store.containsRange s e
def isFull (c : Container) : Bool := c.store.isFull
def isDisjoint (a b : Container) : Bool := a.store.isDisjoint b.store
/-- container.rs:156 (the `len` shortcut) -/
def isSubset (a b : Container) : Bool := a.len ≤ b.len && a.store.isSubset b.store
def interLen (a b : Container) : Nat := a.store.interLen b.store
def min? (c : Container) : Option Nat := c.store.min?
def max? (c : Container) : Option Nat := c.store.max?
def rank (c : Container) (i : Nat) : Nat := c.store.rank i

def orRef (a b : Container) : Container := ensureCorrectStore { key := a.key, store := a.store.orRef b.store }
def orAssignOwned (a b : Container) : Container := ensureCorrectStore { a with store := a.store.orAssignOwned b.store }
def orAssignRef (a b : Container) : Container := ensureCorrectStore { a with store := a.store.orAssignRef b.store }
def andRef (a b : Container) : Container := ensureCorrectStore { key := a.key, store := a.store.andRef b.store }
def andAssignOwned (a b : Container) : Container := ensureCorrectStore { a with store := a.store.andAssignOwned b.store }
def andAssignRef (a b : Container) : Container := ensureCorrectStore { a with store := a.store.andAssignRef b.store }
def subRef (a b : Container) : Container := ensureCorrectStore { key := a.key, store := a.store.subRef b.store }
def subAssignRef (a b : Container) : Container := ensureCorrectStore { a with store := a.store.subAssignRef b.store }
def xorRef (a b : Container) : Container := ensureCorrectStore { key := a.key, store := a.store.xorRef b.store }
def xorAssignOwned (a b : Container) : Container := ensureCorrectStore { a with store := a.store.xorAssignOwned b.store }
def xorAssignRef (a b : Container) : Container := ensureCorrectStore { a with store := a.store.xorAssignRef b.store }

/-- the `u32` values of a container, ascending -/
def elems (c : Container) : List Nat := c.store.elems.map (fun i => c.key * 65536 + i)

end Container
end Roaring
