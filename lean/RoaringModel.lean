import RoaringModel.Word
import RoaringModel.ArrayStore
import RoaringModel.BitmapStore
import RoaringModel.Store
import RoaringModel.Bitmap
import RoaringModel.Ser
import RoaringModel.Spec
import RoaringModel.Inv
