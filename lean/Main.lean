import RoaringModel.Driver.Ops32
import RoaringModel.Driver.Algebra
import RoaringModel.Driver.Iter32
import RoaringModel.Driver.Codec
import RoaringModel.Driver.Multi
import RoaringModel.Driver.Treemap
import RoaringModel.Driver.Lsb0
import RoaringModel.Driver.TreemapCodec
import RoaringModel.Driver.Extra
/-! Line-protocol driver: `driver [--dbg 0|1] < ops > out` -/
open Roaring Roaring.Driver

def handlers : List Handler := [ops32, opsAlgebra, opsIter32, opsCodec, opsMulti, opsTreemap, opsLsb0, opsTreemapCodec, opsExtra]

def dispatch (st : DState) (toks : List String) : DState × String :=
  let rec go : List Handler → DState × String
    | [] => (st, "bad-op")
    | h :: hs => match h st toks with
      | some r => r
      | none => go hs
  go handlers

partial def loop (h : IO.FS.Stream) (out : IO.FS.Stream) (st : DState) (dead : Bool) (last : String) : IO Unit := do
  let line ← h.getLine
  if line.isEmpty then return ()
  let l := line.trimAscii.toString
  if l.isEmpty || l.startsWith "#" then
    loop h out st dead last
  else
    let toks := (l.splitOn " ").filter (· ≠ "")
    match toks with
    | "case" :: _ =>
      out.putStrLn l
      loop h out { dbg := st.dbg } false ""
    | "expect" :: want =>
      if dead then
        out.putStrLn "skipped"
      else
        -- oracle line: the previous result must be exactly this text
        let w := " ".intercalate want
        out.putStrLn (if last == w then "ok" else s!"EXPECT-FAIL want={w} got={last}")
      loop h out st dead last
    | _ =>
      if dead then
        out.putStrLn "skipped"
        loop h out st dead last
      else
        let (st', o) := dispatch st toks
        out.putStrLn o
        -- a panic ends the case on both sides (the Rust value may be half-mutated)
        loop h out st' (o.startsWith "panic") o

def main (args : List String) : IO Unit := do
  let dbg := match args with
    | ["--dbg", "0"] => false
    | _ => true
  let out ← IO.getStdout
  loop (← IO.getStdin) out { dbg := dbg } false ""
