//! C10: `RoaringTreemap` histories of mixed mutators (a `tdump` after each) with query batches.
//! Partition keys come from {0, 1, 3, 4, u32::MAX} (absent partitions lie between present ones), low parts
//! from the 32-bit boundary pools; ranges straddle multiples of 2^32 but span <= ~70000 values (<= 2
//! partitions, never a whole partition: a 2^32-element value does not fit the list model).
use super::common::*;
use crate::rng::Rng;
use std::fmt::Write as _;

pub const PKEYS: [u64; 5] = [0, 1, 3, 4, 4294967295];
const P32: u64 = 1 << 32;

pub struct Ctx {
    pub pks: Vec<u64>,
    pub nkeys32: usize,
}

impl Ctx {
    pub fn new(r: &mut Rng) -> Ctx {
        let n = r.range(1, 5) as usize;
        let off = r.below(5) as usize;
        let pks = (0..n).map(|i| PKEYS[(off + i) % 5]).collect();
        Ctx { pks, nkeys32: r.range(1, 3) as usize }
    }
    pub fn pkey(&self, r: &mut Rng) -> u64 {
        *r.pick(&self.pks)
    }
}

pub fn low32(r: &mut Rng, nkeys32: usize) -> u64 {
    if r.chance(1, 4) {
        *r.pick(&[0u64, 1, 2, P32 - 1, P32 - 2, 65535, 65536, P32 - 65536])
    } else {
        value(r, nkeys32) as u64
    }
}

pub fn value64(r: &mut Rng, c: &Ctx) -> u64 {
    if r.chance(1, 30) {
        return *r.pick(&[
            0u64,
            u64::MAX,
            u64::MAX - 1,
            P32 - 1,
            P32,
            P32 + 1,
            3 * P32 - 1,
            3 * P32,
            4 * P32 - 1,
            4 * P32,
            5 * P32 - 1,
            0xFFFF_FFFF * P32,
            2 * P32 + 5,
        ]);
    }
    (c.pkey(r) << 32) | low32(r, c.nkeys32)
}

/// (lo, hi) tokens of a `u64` range. `wide` (remove_range only) also allows spans over many partitions.
pub fn range_tokens64(r: &mut Rng, c: &Ctx, wide: bool) -> (String, String) {
    let len = range_len(r);
    let mut start = value64(r, c);
    if r.chance(1, 3) {
        // straddle the upper edge of a partition (or end exactly at u64::MAX)
        let pk = c.pkey(r);
        let delta = match r.below(4) {
            0 => 10,
            1 => *r.pick(&[1u64, 2, 50, 64, 96, 4096, 65536]),
            _ => r.range(1, len),
        };
        start = if pk == 0xFFFF_FFFF { u64::MAX - delta + 1 } else { ((pk + 1) << 32) - delta };
    }
    let end_incl = start.saturating_add(len - 1);
    if wide && r.chance(1, 6) {
        return match r.below(5) {
            0 => ("un".to_string(), "un".to_string()),
            1 => (format!("in:{}", start), "un".to_string()),
            2 => ("un".to_string(), format!("in:{}", end_incl)),
            3 => (format!("in:{}", start), format!("in:{}", start.saturating_add(r.range(1, 3) * P32))),
            _ => (format!("ex:{}", start), format!("ex:{}", start.saturating_add(4 * P32))),
        };
    }
    match r.below(20) {
        0 => (format!("in:{}", start), format!("ex:{}", start)),
        1 => {
            let hi = end_incl.max(start.saturating_add(1));
            let lo = if start < hi { start } else { hi - 1 };
            (format!("in:{}", hi), format!("in:{}", lo))
        }
        2 => (format!("ex:{}", start), format!("ex:{}", start)),
        3 => ("un".to_string(), format!("in:{}", (len - 1).min(70000))),
        4 => (format!("ex:{}", u64::MAX), "un".to_string()),
        5 => ("un".to_string(), "ex:0".to_string()),
        6 => (format!("in:{}", u64::MAX - (len - 1).min(70000)), "un".to_string()),
        7 | 8 => {
            let s = start.saturating_sub(1);
            (format!("ex:{}", s), format!("in:{}", end_incl.max(s)))
        }
        9..=13 => (format!("in:{}", start), format!("ex:{}", end_incl.saturating_add(1))),
        _ => (format!("in:{}", start), format!("in:{}", end_incl)),
    }
}

pub fn queries(r: &mut Rng, out: &mut String, t: &str, c: &Ctx) {
    writeln!(out, "tlen {}", t).unwrap();
    writeln!(out, "tis_empty {}", t).unwrap();
    writeln!(out, "tmin {}", t).unwrap();
    writeln!(out, "tmax {}", t).unwrap();
    if r.chance(1, 4) {
        writeln!(out, "tis_full {}", t).unwrap();
    }
    for _ in 0..3 {
        let v = value64(r, c);
        writeln!(out, "tcontains {} {}", t, v).unwrap();
        writeln!(out, "trank {} {}", t, v).unwrap();
        if v > 0 {
            writeln!(out, "trank {} {}", t, v - 1).unwrap();
        }
    }
    // partition edges and an absent partition
    let pk = c.pkey(r);
    let edge = match r.below(4) {
        0 => pk << 32,
        1 => (pk << 32).saturating_sub(1),
        2 => (pk << 32) | (P32 - 1),
        _ => 2 * P32 + 5,
    };
    writeln!(out, "trank {} {}", t, edge).unwrap();
    writeln!(out, "tcontains {} {}", t, edge).unwrap();
    if r.chance(1, 3) {
        writeln!(out, "trank {} {}", t, u64::MAX).unwrap();
    }
    for _ in 0..3 {
        let n = match r.below(7) {
            0 => 0,
            1 => r.below(10),
            2 => *r.pick(&[63u64, 64, 4095, 4096, 4097, 65535, 65536]),
            3 => r.below(100000),
            4 => *r.pick(&[P32 - 1, P32, u64::MAX]),
            _ => r.below(3000),
        };
        writeln!(out, "tselect {} {}", t, n).unwrap();
    }
    // queries derived from the runs of the value itself
    writeln!(out, "tprobe {}", t).unwrap();
}

fn append_args(r: &mut Rng, c: &Ctx) -> String {
    // ascending run (steps that cross chunk and partition edges), sometimes with an out-of-order value
    let mut v = value64(r, c);
    let n = r.range(0, 10);
    let bad = if r.chance(1, 3) { r.below(n + 1) } else { u64::MAX };
    let mut s = String::new();
    for i in 0..n {
        if i == bad {
            v = v.saturating_sub(r.range(0, 3));
        } else if i > 0 {
            let step = *r.pick(&[1u64, 1, 2, 64, 65535, 65536, P32 - 1, P32, P32 + 1, 2 * P32]);
            match v.checked_add(step) {
                Some(x) => v = x,
                None => break,
            }
        }
        write!(s, " {}", v).unwrap();
    }
    s
}

/// the inclusive value a bound token stands for (`None` for `un` and for bounds that exclude everything)
fn tok_incl(t: &str, lower: bool) -> Option<u64> {
    if let Some(v) = t.strip_prefix("in:") {
        v.parse().ok()
    } else if let Some(v) = t.strip_prefix("ex:") {
        let v: u64 = v.parse().ok()?;
        if lower {
            v.checked_add(1)
        } else {
            v.checked_sub(1)
        }
    } else {
        None
    }
}

/// a removal whose bounds are taken from values that were inserted earlier (`marks`: single values and the two ends of
/// inserted ranges) and from the edges of their partitions: the range then ends EXACTLY on the largest / smallest value of a
/// partition, covers exactly a partition's population, or runs from a partition edge to such a value — the places where
/// "this partition is now empty" has to be decided
fn tight_remove(r: &mut Rng, marks: &[u64]) -> (String, String) {
    let a = *r.pick(marks);
    let b = *r.pick(marks);
    let (a, b) = if a <= b { (a, b) } else { (b, a) };
    let lo = match r.below(6) {
        0 => "un".to_string(),
        1 => format!("in:{}", a & !(P32 - 1)),                       // the start of a's partition
        2 => format!("in:{}", (a & !(P32 - 1)).saturating_sub(P32)), // the start of the partition below
        3 if a > 0 => format!("ex:{}", a - 1),
        _ => format!("in:{}", a),
    };
    let hi = match r.below(6) {
        0 => "un".to_string(),
        1 => format!("in:{}", b | (P32 - 1)), // the end of b's partition
        2 if b < u64::MAX => format!("ex:{}", b + 1),
        _ => format!("in:{}", b),
    };
    (lo, hi)
}

pub fn gen_case(r: &mut Rng, out: &mut String) {
    let c = Ctx::new(r);
    let nops = r.range(5, 30);
    let mut marks: Vec<u64> = Vec::new();
    writeln!(out, "tnew t0").unwrap();
    for _ in 0..nops {
        match r.below(26) {
            0..=4 => {
                let v = value64(r, &c);
                marks.push(v);
                writeln!(out, "tinsert t0 {}", v).unwrap()
            }
            5..=6 => writeln!(out, "tremove t0 {}", value64(r, &c)).unwrap(),
            7..=10 => {
                let (lo, hi) = range_tokens64(r, &c, false);
                if let (Some(a), Some(b)) = (tok_incl(&lo, true), tok_incl(&hi, false)) {
                    if a <= b {
                        marks.push(a);
                        marks.push(b);
                    }
                }
                writeln!(out, "tinsert_range t0 {} {}", lo, hi).unwrap()
            }
            11..=13 => {
                let (lo, hi) = if !marks.is_empty() && r.chance(2, 5) { tight_remove(r, &marks) } else { range_tokens64(r, &c, true) };
                writeln!(out, "tremove_range t0 {} {}", lo, hi).unwrap()
            }
            14..=15 => {
                // push: anywhere (often below the maximum, in a lower / the same / a higher partition)
                let v = match r.below(4) {
                    0 => u64::MAX - r.below(3),
                    1 => (c.pkey(r) << 32) | r.below(10),
                    _ => value64(r, &c),
                };
                writeln!(out, "tpush t0 {}", v).unwrap()
            }
            16..=17 => writeln!(out, "tappend t0{}", append_args(r, &c)).unwrap(),
            18 => {
                let s = join_vals(&structured_seq(r, 16, P32, u64::MAX, &mut |r| value64(r, &c)));
                writeln!(out, "textend t0{}", s).unwrap()
            }
            19 => {
                if r.chance(1, 3) {
                    writeln!(out, "tclear t0").unwrap()
                } else {
                    let s = join_vals(&structured_seq(r, 12, P32, u64::MAX, &mut |r| value64(r, &c)));
                    writeln!(out, "tfrom_iter t0{}", s).unwrap()
                }
            }
            20 => writeln!(out, "tfrom_sorted t0{}", append_args(r, &c)).unwrap(),
            21 => {
                // empty a whole partition (or all of them) so that it is removed from the map
                let pk = c.pkey(r);
                if r.chance(1, 2) {
                    writeln!(out, "tremove_range t0 in:{} in:{}", pk << 32, (pk << 32) | (P32 - 1)).unwrap()
                } else {
                    writeln!(out, "tremove_range t0 in:{} ex:{}", pk << 32, ((pk << 32) | (P32 - 1)).saturating_add(1))
                        .unwrap()
                }
            }
            22 => {
                // equality against a clone, before and after a divergence
                writeln!(out, "tclone t1 t0").unwrap();
                writeln!(out, "teq t0 t1").unwrap();
                let v = value64(r, &c);
                if r.chance(1, 2) {
                    writeln!(out, "tinsert t1 {}", v).unwrap();
                } else {
                    writeln!(out, "tremove t1 {}", v).unwrap();
                }
                writeln!(out, "teq t0 t1").unwrap();
                writeln!(out, "tdump t1").unwrap();
            }
            23 => {
                // from_bitmaps: 32-bit bitmaps (one possibly empty), possibly a repeated key
                let n = r.range(1, 4);
                let mut items = String::new();
                for i in 0..n {
                    writeln!(out, "new b{}", i).unwrap();
                    if !r.chance(1, 4) {
                        let (lo, hi) = range_tokens(r, c.nkeys32, 1);
                        writeln!(out, "insert_range b{} {} {}", i, lo, hi).unwrap();
                        writeln!(out, "insert b{} {}", i, value(r, c.nkeys32)).unwrap();
                        if r.chance(1, 4) {
                            writeln!(out, "clear b{}", i).unwrap();
                        }
                    }
                    let k = if r.chance(1, 4) { 3 } else { c.pkey(r) };
                    write!(items, " {} b{}", k, i).unwrap();
                }
                writeln!(out, "tfrom_bitmaps t0{}", items).unwrap();
            }
            24 => {
                writeln!(out, "tbitmaps t0").unwrap();
                writeln!(out, "tbitmaps_rev t0").unwrap();
            }
            _ => {
                // a single value next to a partition edge
                let pk = c.pkey(r);
                let v = match r.below(3) {
                    0 => pk << 32,
                    1 => (pk << 32) | (P32 - 1),
                    _ => (pk << 32).saturating_sub(1),
                };
                writeln!(out, "tinsert t0 {}", v).unwrap();
            }
        }
        writeln!(out, "tdump t0").unwrap();
        if r.chance(1, 3) {
            queries(r, out, "t0", &c);
        }
    }
    queries(r, out, "t0", &c);    // trait-impl glue: clone_from over a dirty destination, Default, Extend<&u64>, FromIterator<&u64>
    if r.chance(1, 3) {
        writeln!(out, "tnew t8").unwrap();
        writeln!(out, "tinsert_range t8 in:7 ex:5007").unwrap();
        writeln!(out, "tclone_from t8 t0").unwrap();
        writeln!(out, "teq t8 t0").unwrap();
        writeln!(out, "expect true").unwrap();
        writeln!(out, "tdefault t7").unwrap();
        let vs: Vec<String> = structured_seq(r, 8, P32, u64::MAX, &mut |r| (c.pkey(r) << 32) | r.below(70000))
            .iter()
            .map(|x| x.to_string())
            .collect();
        writeln!(out, "textend_ref t7 {}", vs.join(" ")).unwrap();
        writeln!(out, "tfrom_iter_ref t6 {}", vs.join(" ")).unwrap();
        writeln!(out, "teq t6 t7").unwrap();
        writeln!(out, "expect true").unwrap();
        writeln!(out, "tdump t7").unwrap();
        writeln!(out, "tdebug t7").unwrap();
        writeln!(out, "tdebug t0").unwrap();
    }
}
