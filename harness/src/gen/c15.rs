//! C15: ill-formed values injected through the unchecked decoders (corrupted / arbitrary bytes), then the
//! whole public API is driven over them (`api_sweep`). Only the harness side is meaningful (panics are
//! allowed, a fired bounds recorder is the violation).
use super::common::*;
use crate::rng::Rng;
use roaring::RoaringBitmap;
use std::fmt::Write as _;

fn random_bitmap(r: &mut Rng) -> RoaringBitmap {
    let mut b = RoaringBitmap::new();
    let nk = r.range(1, 4) as usize;
    for _ in 0..r.range(1, 6) {
        let k = key(r, nk) as u64;
        let base = k << 16;
        match r.below(4) {
            0 => {
                for _ in 0..r.range(1, 40) {
                    b.insert((base + low(r) as u64) as u32);
                }
            }
            1 => {
                let s = base + r.below(60000);
                let e = (s + r.range(1, 6000)).min(base + 65535);
                b.insert_range(s as u32..=e as u32);
            }
            2 => {
                // exactly around the array/bitset limit
                let n = *r.pick(&[4095u64, 4096, 4097]);
                b.insert_range(base as u32..(base + n) as u32);
            }
            _ => {
                let mut p = base + r.below(100);
                for _ in 0..r.range(10, 600) {
                    p += r.range(1, 90);
                    if p > base + 65535 {
                        break;
                    }
                    b.insert(p as u32);
                }
            }
        }
    }
    b
}

fn hex(bs: &[u8]) -> String {
    let mut s = String::with_capacity(bs.len() * 2 + 4);
    s.push_str("hex:");
    for b in bs {
        write!(s, "{:02x}", b).unwrap();
    }
    s
}

/// structured corruption of a valid stream produced by the crate's own serializer
fn corrupt(r: &mut Rng, bytes: &mut Vec<u8>) -> &'static str {
    let n = bytes.len();
    // the count is read back from the (possibly already corrupted: arm 5, 10) header; clamp it to the descriptors that
    // fit, otherwise arms 2/3 index past the end (seed 2 of the quick tier hit that)
    let ncont = if n >= 8 {
        (u32::from_le_bytes([bytes[4], bytes[5], bytes[6], bytes[7]]) as usize).min((n - 8) / 8)
    } else {
        0
    };
    let payload_start = 8 + 8 * ncont;
    match r.below(12) {
        0 if n > payload_start + 4 => {
            // swap two u16 payload values (unsorted array / shuffled bitset words)
            let i = payload_start + 2 * r.below(((n - payload_start) / 2 - 1) as u64) as usize;
            let j = payload_start + 2 * r.below(((n - payload_start) / 2 - 1) as u64) as usize;
            bytes.swap(i, j);
            bytes.swap(i + 1, j + 1);
            "swap-values"
        }
        1 if n > payload_start + 4 => {
            // duplicate a value
            let i = payload_start + 2 * r.below(((n - payload_start) / 2 - 1) as u64) as usize;
            bytes[i + 2] = bytes[i];
            bytes[i + 3] = bytes[i + 1];
            "duplicate-value"
        }
        2 if ncont > 0 => {
            // change a declared cardinality
            let c = r.below(ncont as u64) as usize;
            let p = 8 + 4 * c + 2;
            let d = *r.pick(&[1u8, 0xff, 0x10, 0x0f]);
            bytes[p] = bytes[p].wrapping_add(d);
            if r.chance(1, 3) {
                bytes[p + 1] ^= 0x10;
            }
            "cardinality"
        }
        3 if ncont > 0 => {
            // change a key (descending / duplicate keys)
            let c = r.below(ncont as u64) as usize;
            let p = 8 + 4 * c;
            bytes[p] = *r.pick(&[0u8, 1, 0xff, 7]);
            bytes[p + 1] = *r.pick(&[0u8, 0, 0xff]);
            "key"
        }
        4 if n > payload_start => {
            // flip bits in the payload (bitset words: cached len becomes wrong)
            for _ in 0..r.range(1, 8) {
                let i = payload_start + r.below((n - payload_start) as u64) as usize;
                bytes[i] ^= 1 << r.below(8);
            }
            "payload-bits"
        }
        5 if n > 8 => {
            // container count
            bytes[4] = bytes[4].wrapping_add(*r.pick(&[1u8, 0xff, 2]));
            "count"
        }
        6 => {
            let k = r.below(n as u64 + 1) as usize;
            bytes.truncate(k);
            "truncate"
        }
        7 => {
            for _ in 0..r.range(1, 64) {
                bytes.push(r.below(256) as u8);
            }
            "extend"
        }
        8 if n > 16 => {
            // offsets garbage
            let p = 8 + 4 * ncont + r.below((4 * ncont).max(1) as u64) as usize;
            if p < n {
                bytes[p] ^= 0xff;
            }
            "offsets"
        }
        9 => {
            // run cookie with the same body: the decoder interprets everything differently
            if n >= 4 {
                bytes[0] = 0x3b;
                bytes[1] = 0x30;
                bytes[2] = (ncont.max(1) - 1) as u8;
                bytes[3] = 0;
            }
            "run-cookie"
        }
        10 => {
            // several random byte edits anywhere
            for _ in 0..r.range(1, 6) {
                if n > 0 {
                    let i = r.below(n as u64) as usize;
                    bytes[i] = r.below(256) as u8;
                }
            }
            "random-edits"
        }
        _ => "none",
    }
}

pub fn gen_case(r: &mut Rng, out: &mut String) {
    // a well-formed second operand, built through the protocol so that both builds see the same value
    writeln!(out, "new b1").unwrap();
    for _ in 0..r.range(1, 4) {
        let (lo, hi) = range_tokens(r, 3, 1);
        writeln!(out, "insert_range b1 {} {}", lo, hi).unwrap();
    }
    for _ in 0..r.range(0, 10) {
        writeln!(out, "insert b1 {}", value(r, 3)).unwrap();
    }
    for round in 0..r.range(1, 3) {
        let mut bytes = Vec::new();
        if r.chance(1, 8) {
            // short arbitrary bytes behind a plausible cookie
            bytes.extend_from_slice(if r.chance(1, 2) { &[0x3a, 0x30, 0, 0] } else { &[0x3b, 0x30, 1, 0] });
            for _ in 0..r.range(0, 120) {
                bytes.push(r.below(256) as u8);
            }
            writeln!(out, "# arbitrary bytes").unwrap();
        } else {
            let b = random_bitmap(r);
            b.serialize_into(&mut bytes).unwrap();
            let mut kinds = Vec::new();
            for _ in 0..r.range(1, 3) {
                kinds.push(corrupt(r, &mut bytes));
            }
            writeln!(out, "# corruption {}", kinds.join("+")).unwrap();
        }
        let h = hex(&bytes);
        writeln!(out, "deser_raw b0 {}", h).unwrap();
        writeln!(out, "api_sweep b0 b1 {}", r.below(1 << 30)).unwrap();
        writeln!(out, "api_sweep b1 b0 {}", r.below(1 << 30)).unwrap();
        writeln!(out, "inter_raw b3 b1 {}", h).unwrap();
        if round == 0 {
            writeln!(out, "deser_raw b2 {}", h).unwrap();
        } else {
            // two ill-formed operands against each other
            writeln!(out, "api_sweep b0 b2 {}", r.below(1 << 30)).unwrap();
        }
    }
}
