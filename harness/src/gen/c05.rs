//! C05: values from C01-style histories (and from decoded conformant streams); serialise, compare with the
//! reference encoder, sizes, decode back with both decoders.
use super::stream;
use crate::rng::Rng;
use std::fmt::Write as _;

pub fn hex(bs: &[u8]) -> String {
    let mut s = String::with_capacity(bs.len() * 2 + 4);
    s.push_str("hex:");
    for b in bs {
        write!(s, "{:02x}", b).unwrap();
    }
    s
}

pub fn codec_block(out: &mut String, b: &str) {
    writeln!(out, "ser {}", b).unwrap();
    writeln!(out, "ser_size {}", b).unwrap();
    writeln!(out, "spec_encode {}", b).unwrap();
    // the same bytes through a sink that accepts them in small pieces (and interrupts): what is written does not depend on
    // how the writer takes it
    writeln!(out, "ser_fail {} limit:1000000000 mode:err sched:7,1,i,4096,3", b).unwrap();
    writeln!(out, "new b9").unwrap();
    writeln!(out, "deser_prefix chk b9 {} 100000000", b).unwrap();
    writeln!(out, "dump b9").unwrap();
    writeln!(out, "eq b9 {}", b).unwrap();
    writeln!(out, "new b8").unwrap();
    writeln!(out, "deser_prefix unchk b8 {} 100000000", b).unwrap();
    writeln!(out, "dump b8").unwrap();
    writeln!(out, "eq b8 {}", b).unwrap();
}

pub fn gen_case(r: &mut Rng, out: &mut String) {
    if r.chance(1, 5) {
        // a value of the shared catalogue (gen/zoo.rs)
        super::zoo::zoo_build(r, out, "b0");
        writeln!(out, "dump b0").unwrap();
        codec_block(out, "b0");
        return;
    }
    if r.chance(1, 3) {
        // the value comes from ANY public producer (the twelve producers of the C04 profile: shuffled inserts, ranges, carving,
        // sorted appends incl. one refused at its very end, trims, set algebra in every form, multi-operand operations,
        // bit-slice import, decoding, clone_from): the bytes must be the standard encoding of its set whichever way it was made
        let t = super::c04::target(r);
        let mut which = r.below(super::c04::N_PRODUCERS);
        // a chunk population next to the array limit: half of the time through set algebra (all six operand forms are
        // computed and dumped - the dump includes the serialised bytes)
        let mut per_chunk: std::collections::BTreeMap<u32, u64> = std::collections::BTreeMap::new();
        for &(s, l) in &t {
            *per_chunk.entry(s >> 16).or_insert(0) += l as u64;
        }
        if per_chunk.values().any(|&n| (4094..=4098).contains(&n)) && r.chance(4, 5) {
            which = *r.pick(&[8u64, 8, 8, 9]);
        }
        super::c04::produce(r, out, "b0", &t, which);
        writeln!(out, "dump b0").unwrap();
        codec_block(out, "b0");
        return;
    }
    match r.below(10) {
        0..=5 => {
            // a mutation history (with the 4096 steering of the C01 profile), then the codec block
            super::c01::gen_case(r, out, false);
            codec_block(out, "b0");
            // two more mutations and again: the bytes depend on the set alone, not on the history
            for _ in 0..2 {
                let v = super::common::value(r, 6);
                if r.chance(1, 2) {
                    writeln!(out, "insert b0 {}", v).unwrap();
                } else {
                    writeln!(out, "remove b0 {}", v).unwrap();
                }
            }
            codec_block(out, "b0");
        }
        6..=8 => {
            // a value obtained by decoding a conformant stream (run chunks normalised), then re-serialised
            let g = stream::gen_stream(r, false);
            writeln!(out, "new b0").unwrap();
            writeln!(out, "deser chk b0 {}", hex(&g.bytes)).unwrap();
            writeln!(out, "dump b0").unwrap();
            codec_block(out, "b0");
            // cross the array/bitset limit in both directions by single operations
            let v = super::common::value(r, 6);
            writeln!(out, "insert b0 {}", v).unwrap();
            writeln!(out, "remove b0 {}", g.chunks.first().map_or(0, |c| (c.key as u32) << 16 | c.vals[0] as u32)).unwrap();
            codec_block(out, "b0");
        }
        _ => {
            // the empty bitmap and tiny sets
            writeln!(out, "new b0").unwrap();
            for _ in 0..r.below(4) {
                writeln!(out, "insert b0 {}", super::common::value(r, 6)).unwrap();
            }
            codec_block(out, "b0");
        }
    }
}
