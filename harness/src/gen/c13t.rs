//! C13T: malformed 64-bit streams — corruptions of valid portable streams (count too small / too big / 2^63,
//! keys descending / duplicate / reordered, empty inner bitmaps, one inner stream corrupted by the 32-bit
//! single-field corruptions, truncation, extension, bit flips) and short random byte strings — against the
//! checked decoder; on `ok` the value is inspected by every observer (harness) / `WF` (model).
use super::c05::hex;
use super::stream64;
use crate::rng::Rng;
use std::fmt::Write as _;

pub fn gen_case(r: &mut Rng, out: &mut String) {
    if r.chance(1, 8) {
        for _ in 0..4 {
            let b = stream64::random_bytes64(r);
            let h = hex(&b);
            writeln!(out, "note random-bytes").unwrap();
            writeln!(out, "tnew t0").unwrap();
            writeln!(out, "tdeser chk t0 {}", h).unwrap();
            writeln!(out, "tdump t0").unwrap();
            writeln!(out, "tspec_decode {}", h).unwrap();
        }
        return;
    }
    if r.chance(1, 12) {
        // the stream of the OTHER type
        let g32 = super::stream::gen_stream(r, true);
        let h = hex(&g32.bytes);
        writeln!(out, "note 32-bit stream handed to the treemap decoder").unwrap();
        writeln!(out, "tnew t0").unwrap();
        writeln!(out, "tdeser chk t0 {}", h).unwrap();
        writeln!(out, "tdump t0").unwrap();
        writeln!(out, "tspec_decode {}", h).unwrap();
    }
    let small = r.chance(5, 6);
    let g = stream64::gen_stream64(r, small, false);
    let reps = if g.bytes.len() > 20000 { 2 } else { 4 };
    for _ in 0..reps {
        let (b, label) = stream64::corrupt64(r, &g);
        let h = hex(&b);
        writeln!(out, "note corruption={} of {}", label, g.describe()).unwrap();
        writeln!(out, "tnew t0").unwrap();
        writeln!(out, "tdeser chk t0 {}", h).unwrap();
        writeln!(out, "tdump t0").unwrap();
        writeln!(out, "tspec_decode {}", h).unwrap();
    }
}
