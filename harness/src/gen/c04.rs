//! C04: producer x producer — one target set reached through two different construction histories;
//! then `eq` (expected true), `dump` of both (representation part compared too), subset both ways.
use super::common::*;
use crate::rng::Rng;
use std::fmt::Write as _;

/// a target set as sorted, distinct runs `(start, len)`
pub fn target(r: &mut Rng) -> Vec<(u32, u32)> {
    let nkeys = r.range(1, 3) as usize;
    let mut runs: Vec<(u32, u32)> = Vec::new();
    for _ in 0..nkeys {
        let k = key(r, 6);
        let base = (k as u64) << 16;
        let mut pos = base + r.below(200);
        let shape = r.below(6);
        let (nruns, maxlen, gap): (u64, u64, u64) = match shape {
            0 => (r.range(1, 30), 1, 2000),   // sparse singles
            1 => (r.range(1, 6), 1500, 300),  // a few long runs
            2 => (1, 0, 0),                   // exactly around 4096 (set below)
            3 => (r.range(50, 400), 3, 60),   // many short runs
            4 => (r.range(1, 3), 6000, 100),  // dense: bitset
            _ => (r.range(1, 10), 200, 5000),
        };
        if shape == 2 {
            let n = *r.pick(&[4094u32, 4095, 4096, 4096, 4096, 4097, 4098]);
            // half as one run, half as every-other singles so that the chunk is not one interval
            // (short blocks rather than single values: a quarter of the runs, the same populations - carving thousands of
            // runs out of the operands of the algebra producers is quadratic in the list model)
            let first = n / 2;
            runs.push((pos as u32, first));
            pos += first as u64 + 1;
            let mut left = n - first;
            while left > 0 && pos + 4 < base + 65536 {
                let l = left.min(4);
                runs.push((pos as u32, l));
                pos += l as u64 + 2;
                left -= l;
            }
            continue;
        }
        for _ in 0..nruns {
            pos += r.range(1, gap.max(1));
            let len = r.range(1, maxlen.max(1));
            if pos + len > base + 65536 {
                break;
            }
            runs.push((pos as u32, len as u32));
            pos += len;
        }
    }
    runs.sort();
    // merge overlapping / adjacent runs so that the description is canonical
    let mut out: Vec<(u32, u32)> = Vec::new();
    for (s, l) in runs {
        if let Some(last) = out.last_mut() {
            let end = last.0 as u64 + last.1 as u64; // exclusive
            if (s as u64) <= end {
                let nend = (s as u64 + l as u64).max(end);
                last.1 = (nend - last.0 as u64) as u32;
                continue;
            }
        }
        out.push((s, l));
    }
    out
}

pub fn elems(t: &[(u32, u32)]) -> Vec<u32> {
    let mut v = Vec::new();
    for &(s, l) in t {
        for i in 0..l {
            v.push(s + i);
        }
    }
    v
}

/// emit ops that build the target set in slot `b` through producer `which`
pub fn produce(r: &mut Rng, out: &mut String, b: &str, t: &[(u32, u32)], which: u64) -> &'static str {
    let all = elems(t);
    match which {
        0 => {
            // single inserts in a shuffled order (chunks of <= 400 values per `extend`)
            writeln!(out, "new {}", b).unwrap();
            let mut v = all.clone();
            for i in (1..v.len()).rev() {
                let j = r.below(i as u64 + 1) as usize;
                v.swap(i, j);
            }
            for ch in v.chunks(400) {
                let s: Vec<String> = ch.iter().map(|x| x.to_string()).collect();
                writeln!(out, "extend {} {}", b, s.join(" ")).unwrap();
            }
            "shuffled-inserts"
        }
        1 => {
            // ranges (in random order), singles as inserts
            writeln!(out, "new {}", b).unwrap();
            let mut idx: Vec<usize> = (0..t.len()).collect();
            for i in (1..idx.len()).rev() {
                let j = r.below(i as u64 + 1) as usize;
                idx.swap(i, j);
            }
            for i in idx {
                let (s, l) = t[i];
                if l == 1 && r.chance(1, 2) {
                    writeln!(out, "insert {} {}", b, s).unwrap();
                } else {
                    writeln!(out, "insert_range {} in:{} in:{}", b, s, s as u64 + l as u64 - 1).unwrap();
                }
            }
            "ranges"
        }
        2 => {
            // superset (fill the gaps inside each chunk), then carve the gaps out again
            writeln!(out, "new {}", b).unwrap();
            if t.is_empty() {
                return "superset-carve";
            }
            let lo = t[0].0 as u64;
            let hi = t.last().unwrap().0 as u64 + t.last().unwrap().1 as u64 - 1;
            if hi - lo > 200_000 {
                // too wide: fall back to per-run ranges over a dirty start
                writeln!(out, "insert_range {} in:{} in:{}", b, lo, lo + 5000).unwrap();
                writeln!(out, "clear {}", b).unwrap();
                for &(s, l) in t {
                    writeln!(out, "insert_range {} in:{} ex:{}", b, s, s as u64 + l as u64).unwrap();
                }
                return "dirty-then-ranges";
            }
            writeln!(out, "insert_range {} in:{} in:{}", b, lo, hi).unwrap();
            let mut prev_end = lo; // exclusive end of previous run
            for (i, &(s, l)) in t.iter().enumerate() {
                if i > 0 && (s as u64) > prev_end {
                    if s as u64 - prev_end == 1 && r.chance(1, 2) {
                        writeln!(out, "remove {} {}", b, prev_end).unwrap();
                    } else {
                        writeln!(out, "remove_range {} in:{} ex:{}", b, prev_end, s).unwrap();
                    }
                }
                prev_end = s as u64 + l as u64;
            }
            "superset-carve"
        }
        3 => {
            // sorted append in a few batches
            writeln!(out, "new {}", b).unwrap();
            if !all.is_empty() && all.len() <= 12000 && r.chance(1, 2) {
                // one call that is refused at its very end (an out-of-order value after everything else): the
                // accepted prefix - the whole target - stays, as documented
                let mut s: Vec<String> = all.iter().map(|x| x.to_string()).collect();
                s.push(all[r.below(all.len() as u64) as usize].to_string());
                writeln!(out, "append {} {}", b, s.join(" ")).unwrap();
                return "append-refused-at-the-end";
            }
            for ch in all.chunks(500) {
                let s: Vec<String> = ch.iter().map(|x| x.to_string()).collect();
                writeln!(out, "append {} {}", b, s.join(" ")).unwrap();
            }
            "append"
        }
        4 => {
            // extra values below and above, trimmed with remove_smallest / remove_biggest
            writeln!(out, "new {}", b).unwrap();
            let below = r.range(0, 5000);
            let above = r.range(0, 5000);
            let lo = t.first().map(|x| x.0 as u64).unwrap_or(100_000);
            let hi = t.last().map(|x| x.0 as u64 + x.1 as u64).unwrap_or(100_000);
            let kf = lo >> 16;
            let kl = (hi.max(1) - 1) >> 16;
            if !t.is_empty() && kf > 0 && kl < 0xFFFF && r.chance(1, 2) {
                // the extra values live in chunks of their own (the chunk below the first / above the last target chunk):
                // remove_smallest / remove_biggest then take away EXACTLY whole chunks, which must disappear
                let nb = *r.pick(&[1u64, 2, 4096, 4097]);
                let na = *r.pick(&[1u64, 2, 4096, 4097]);
                let sb = ((kf - 1) << 16) + *r.pick(&[0u64, 7, 60000]);
                let sa = ((kl + 1) << 16) + *r.pick(&[0u64, 7, 60000]);
                writeln!(out, "insert_range {} in:{} in:{}", b, sb, sb + nb - 1).unwrap();
                for &(s, l) in t {
                    writeln!(out, "insert_range {} in:{} ex:{}", b, s, s as u64 + l as u64).unwrap();
                }
                writeln!(out, "insert_range {} in:{} in:{}", b, sa, sa + na - 1).unwrap();
                writeln!(out, "remove_smallest {} {}", b, nb).unwrap();
                writeln!(out, "remove_biggest {} {}", b, na).unwrap();
                return "trim-whole-chunks";
            }
            let nb = below.min(lo);
            let na = above.min(u32::MAX as u64 + 1 - hi);
            if nb > 0 {
                writeln!(out, "insert_range {} in:{} ex:{}", b, lo - nb, lo).unwrap();
            }
            for &(s, l) in t {
                writeln!(out, "insert_range {} in:{} ex:{}", b, s, s as u64 + l as u64).unwrap();
            }
            if na > 0 {
                writeln!(out, "insert_range {} in:{} ex:{}", b, hi, hi + na).unwrap();
            }
            writeln!(out, "remove_smallest {} {}", b, nb).unwrap();
            writeln!(out, "remove_biggest {} {}", b, na).unwrap();
            "trim-smallest-biggest"
        }
        5 => {
            // from_sorted_iter for small sets, push otherwise
            if all.len() <= 600 {
                let s: Vec<String> = all.iter().map(|x| x.to_string()).collect();
                writeln!(out, "from_sorted {} {}", b, s.join(" ")).unwrap();
                "from_sorted_iter"
            } else {
                writeln!(out, "new {}", b).unwrap();
                for &(s, l) in t {
                    if l > 3 {
                        writeln!(out, "insert_range {} in:{} in:{}", b, s, s as u64 + l as u64 - 1).unwrap();
                    } else {
                        for i in 0..l {
                            writeln!(out, "push {} {}", b, s + i).unwrap();
                        }
                    }
                }
                "push-and-ranges"
            }
        }
        7 => {
            // a sparse part of the target first (array chunks), then overlapping ranges over it
            writeln!(out, "new {}", b).unwrap();
            let pre: Vec<String> = all.iter().step_by(2).take(3000).map(|x| x.to_string()).collect();
            for ch in pre.chunks(500) {
                writeln!(out, "extend {} {}", b, ch.join(" ")).unwrap();
            }
            for &(s, l) in t {
                if l >= 6 {
                    // two overlapping pieces
                    let a_end = s as u64 + (2 * l as u64) / 3;
                    let b_start = s as u64 + l as u64 / 3;
                    writeln!(out, "insert_range {} in:{} in:{}", b, b_start, s as u64 + l as u64 - 1).unwrap();
                    writeln!(out, "insert_range {} in:{} in:{}", b, s, a_end - 1).unwrap();
                } else {
                    writeln!(out, "insert_range {} in:{} in:{}", b, s, s as u64 + l as u64 - 1).unwrap();
                }
            }
            "sparse-then-overlapping-ranges"
        }
        8 | 9 => {
            // set algebra (8: a binary operator in one of its six forms, 9: a multi-operand operation): operands
            // designed so that the result is exactly the target. Padding P lives in the target's chunks (a window
            // minus the target), so that chunks of the operands are bitsets whose result must shrink back
            writeln!(out, "new b10").unwrap();
            writeln!(out, "new b11").unwrap();
            writeln!(out, "new b12").unwrap();
            let mut keys: Vec<u64> = t.iter().map(|&(s, _)| (s >> 16) as u64).collect();
            keys.dedup();
            let runs_into = |out: &mut String, slot: &str, every: usize, phase: usize| {
                for (i, &(s, l)) in t.iter().enumerate() {
                    if every == 1 || i % every == phase {
                        writeln!(out, "insert_range {} in:{} in:{}", slot, s, s as u64 + l as u64 - 1).unwrap();
                    }
                }
            };
            let w = *r.pick(&[0u64, 3000, 5000, 32768, 32768]);
            // two disjoint windows per chunk; `carve` removes the target from a padding slot again
            let window = |out: &mut String, slot: &str, half: u64| {
                if w > 0 {
                    for &k in &keys {
                        let lo = (k << 16) + half * 32768;
                        writeln!(out, "insert_range {} in:{} in:{}", slot, lo, lo + w - 1).unwrap();
                    }
                }
            };
            let carve = |out: &mut String, slot: &str| {
                for &(s, l) in t {
                    writeln!(out, "remove_range {} in:{} in:{}", slot, s, s as u64 + l as u64 - 1).unwrap();
                }
            };
            let op = *r.pick(&["or", "and", "sub", "xor"]);
            let multi = which == 9;
            match op {
                "or" => {
                    // the runs dealt to two (three) operands, every fourth run to both
                    runs_into(out, "b10", 2, 0);
                    runs_into(out, "b11", 2, 1);
                    runs_into(out, "b11", 4, 0);
                    if multi {
                        runs_into(out, "b12", 3, 1);
                    }
                }
                "and" => {
                    window(out, "b10", 0);
                    window(out, "b11", 1);
                    runs_into(out, "b10", 1, 0);
                    runs_into(out, "b11", 1, 0);
                    if multi {
                        window(out, "b12", r.below(2));
                        runs_into(out, "b12", 1, 0);
                    }
                }
                _ => {
                    // sub / xor: (T + P) op P with P disjoint from T; multi: P split into its two windows
                    window(out, "b10", 0);
                    window(out, "b10", 1);
                    carve(out, "b10");
                    if multi {
                        window(out, "b11", 0);
                        window(out, "b12", 1);
                        carve(out, "b11");
                        carve(out, "b12");
                    } else {
                        writeln!(out, "clone b11 b10").unwrap();
                    }
                    runs_into(out, "b10", 1, 0);
                }
            }
            if multi {
                let kind = *r.pick(&["own", "ref", "res_own", "res_ref"]);
                let items = if op == "or" && r.chance(1, 2) { "b12 b10 b11" } else { "b10 b11 b12" };
                // `and` with an empty third operand would be empty: b12 always holds the target there
                writeln!(out, "new {}", b).unwrap();
                writeln!(out, "multi {} {} exact {} {}", op, kind, b, items).unwrap();
                "multi-op"
            } else {
                // one form produces the value, the five others must produce the very same value: the six forms run through
                // different code (and normalise their result in different places), so none of them is left to chance
                let forms = ["oo", "or", "ro", "rr", "ao", "ar"];
                let first = r.below(6) as usize;
                // (the assigning and the consuming forms use up their operands: every form gets clones)
                writeln!(out, "clone b14 b10").unwrap();
                writeln!(out, "clone b15 b11").unwrap();
                writeln!(out, "{} {} {} b14 b15", op, forms[first], b).unwrap();
                for (i, f) in forms.iter().enumerate() {
                    if i != first {
                        writeln!(out, "clone b14 b10").unwrap();
                        writeln!(out, "clone b15 b11").unwrap();
                        writeln!(out, "{} {} b13 b14 b15", op, f).unwrap();
                        writeln!(out, "eq b13 {}", b).unwrap();
                        writeln!(out, "expect true").unwrap();
                        writeln!(out, "dump b13").unwrap();
                    }
                }
                "binary-op"
            }
        }
        10 => {
            // bit-slice import, one slice per 16-bit prefix of the target, united with |=
            writeln!(out, "new {}", b).unwrap();
            let mut i = 0;
            while i < all.len() {
                let k = all[i] >> 16;
                let mut j = i;
                while j < all.len() && all[j] >> 16 == k {
                    j += 1;
                }
                let first = (all[i] & 0xFFFF) as usize;
                let last = (all[j - 1] & 0xFFFF) as usize;
                // byte-aligned start at or below the first value; sometimes the whole chunk
                let (b0, b1) = if r.chance(1, 3) { (0usize, 8192usize) } else { (first / 8, last / 8 + 1) };
                let mut bytes = vec![0u8; b1 - b0];
                for &x in &all[i..j] {
                    let lo = (x & 0xFFFF) as usize;
                    bytes[lo / 8 - b0] |= 1 << (lo % 8);
                }
                let mut h = String::with_capacity(bytes.len() * 2);
                for y in &bytes {
                    write!(h, "{:02x}", y).unwrap();
                }
                writeln!(out, "from_lsb0 b10 {} hex:{}", ((k as u64) << 16) + 8 * b0 as u64, h).unwrap();
                writeln!(out, "or ar {} {} b10", b, b).unwrap();
                i = j;
            }
            "from_lsb0_bytes"
        }
        11 => {
            // decoding of a conformant stream written by the harness's own encoder: array / bitset / run chunks
            let mut chunks: Vec<super::stream::Chunk> = Vec::new();
            for &x in &all {
                let k = (x >> 16) as u16;
                match chunks.last_mut() {
                    Some(c) if c.key == k => c.vals.push(x as u16),
                    _ => chunks.push(super::stream::Chunk { key: k, vals: vec![x as u16], runs: None }),
                }
            }
            for c in chunks.iter_mut() {
                if r.chance(1, 2) {
                    c.runs = Some(super::stream::maximal_runs(&c.vals));
                }
            }
            let (bytes, _) = super::stream::encode(&chunks, r.chance(1, 4));
            writeln!(out, "new {}", b).unwrap();
            writeln!(out, "deser {} {} {}", *r.pick(&["chk", "unchk"]), b, super::c05::hex(&bytes)).unwrap();
            "decoded-stream"
        }
        _ => {
            // clone of a value built by ranges, after the destination held something else
            writeln!(out, "new b9").unwrap();
            for &(s, l) in t {
                writeln!(out, "insert_range b9 in:{} in:{}", s, s as u64 + l as u64 - 1).unwrap();
            }
            // the destination holds something else first: chunks of either kind at the same keys / positions as the
            // source's chunks, with different cardinalities (Clone::clone_from reuses the destination's buffers)
            writeln!(out, "new {}", b).unwrap();
            if r.chance(1, 2) {
                writeln!(out, "insert_range {} in:0 ex:5000", b).unwrap();
            }
            let mut keys: Vec<u64> = t.iter().map(|&(s, _)| (s >> 16) as u64).collect();
            keys.dedup();
            for &k in keys.iter().take(4) {
                match r.below(4) {
                    0 => writeln!(out, "insert_range {} in:{} in:{}", b, k << 16, (k << 16) + r.range(4097, 9000)).unwrap(),
                    1 => writeln!(out, "insert_range {} in:{} in:{}", b, (k << 16) + 60000, (k << 16) + 65535).unwrap(),
                    2 => writeln!(out, "insert {} {}", b, (k << 16) + r.below(65536)).unwrap(),
                    _ => {}
                }
            }
            if r.chance(1, 4) {
                writeln!(out, "clone {} b9", b).unwrap();
            } else {
                writeln!(out, "clone_from {} b9", b).unwrap();
            }
            "clone-over-dirty"
        }
    }
}

pub const N_PRODUCERS: u64 = 12;

pub fn gen_case(r: &mut Rng, out: &mut String) {
    let t = target(r);
    let mut p1 = r.below(N_PRODUCERS);
    // a target with a chunk population next to the array limit: half of the time one producer is set algebra (the operators
    // shrink bitset operands back to it)
    let mut per_chunk: std::collections::BTreeMap<u32, u64> = std::collections::BTreeMap::new();
    for &(s, l) in &t {
        *per_chunk.entry(s >> 16).or_insert(0) += l as u64;
    }
    if per_chunk.values().any(|&n| (4094..=4098).contains(&n)) && r.chance(1, 3) {
        p1 = *r.pick(&[8u64, 8, 9]);
    }
    let mut p2 = r.below(N_PRODUCERS);
    if p2 == p1 {
        p2 = (p2 + 1) % N_PRODUCERS;
    }
    let n1 = produce(r, out, "b0", &t, p1);
    let n2 = produce(r, out, "b1", &t, p2);
    writeln!(out, "# producers {} x {}", n1, n2).unwrap();
    writeln!(out, "eq b0 b1").unwrap();
    writeln!(out, "expect true").unwrap();
    writeln!(out, "eq b1 b0").unwrap();
    writeln!(out, "expect true").unwrap();
    writeln!(out, "dump b0").unwrap();
    writeln!(out, "dump b1").unwrap();
    // a one-element difference must be visible, WHEREVER the element sits: the smallest value, the largest value (the other
    // side is then a prefix of this one), the end of a middle run, one value added above the maximum / below the minimum
    if let (Some(&(s, _)), Some(&(ls, ll))) = (t.first(), t.last()) {
        let last = ls as u64 + ll as u64 - 1;
        let mid = t[t.len() / 2];
        let v = match r.below(6) {
            0 | 1 => ("remove", last),
            2 => ("remove", s as u64),
            3 => ("remove", mid.0 as u64 + mid.1 as u64 - 1),
            4 if last < u32::MAX as u64 => ("insert", last + 1 + *r.pick(&[0u64, 1, 5000]).min(&(u32::MAX as u64 - last - 1))),
            _ if s > 0 => ("insert", s as u64 - 1),
            _ => ("remove", s as u64),
        };
        writeln!(out, "{} b1 {}", v.0, v.1).unwrap();
        writeln!(out, "eq b0 b1").unwrap();
        writeln!(out, "expect false").unwrap();
        writeln!(out, "eq b1 b0").unwrap();
        writeln!(out, "expect false").unwrap();
    }
}
