//! C09: multi-operand operations.  A pool of up to 40 small bitmaps (slots b0..b39) built by short
//! histories, then several `multi` ops over sequences drawn from the pool, each followed by a `dump`.
//!
//! What the profile is built to reach (measured by the targets of bin/propcfg/C09.py):
//! * sequence lengths on both sides of the 10- and 50-item collection thresholds, and 0/1/2/3;
//! * all three `size_hint` shapes, upper bounds on both sides of 50 and of the sequence length;
//! * operands sharing chunk keys so that array→bitset promotion happens across > 2 operands
//!   (disjoint 2000-value blocks in one chunk), bitset operands, identical operands (xor cancels a chunk,
//!   bitset → array at clean-up), operands with 0..3 chunks (the sort key);
//! * empty operands first / in the middle / last / everywhere;
//! * `err:E` at first / second / middle / last / around the collection boundary, several errors at once.
use super::common::*;
use crate::rng::Rng;
use std::fmt::Write as _;

const LENS: [usize; 12] = [0, 1, 2, 3, 9, 10, 11, 12, 49, 50, 51, 60];
const SMALL_LOWS: [u64; 10] = [0, 1, 2, 3, 5, 64, 1000, 4095, 4096, 65535];

struct Operand {
    slot: usize,
    heavy: bool, // has a bitset chunk (kept rare inside long sequences)
    empty: bool,
}

fn build_operand(r: &mut Rng, out: &mut String, slot: usize, keys: &[u64], pool: &[Operand]) -> Operand {
    let b = format!("b{}", slot);
    let k = *r.pick(keys) << 16;
    match r.below(100) {
        0..=9 => {
            writeln!(out, "new {}", b).unwrap();
            Operand { slot, heavy: false, empty: true }
        }
        10..=49 => {
            // tiny: a few values over the shared keys
            let n = r.range(1, 5);
            let mut s = String::new();
            for _ in 0..n {
                write!(s, " {}", (*r.pick(keys) << 16) + *r.pick(&SMALL_LOWS)).unwrap();
            }
            writeln!(out, "from_iter {}{}", b, s).unwrap();
            Operand { slot, heavy: false, empty: false }
        }
        50..=69 => {
            // a 2000-value block; blocks of different operands are disjoint (offset by slot), so that three of
            // them in one chunk exceed 4096 only *together*
            let off = 2000 * (slot as u64 % 8);
            writeln!(out, "new {}", b).unwrap();
            writeln!(out, "insert_range {} in:{} in:{}", b, k + off, k + off + 1999).unwrap();
            if r.chance(1, 3) {
                writeln!(out, "insert {} {}", b, (*r.pick(keys) << 16) + *r.pick(&SMALL_LOWS)).unwrap();
            }
            Operand { slot, heavy: false, empty: false }
        }
        70..=76 => {
            // the same block for everybody: xor cancels it, and/sub meet it
            writeln!(out, "new {}", b).unwrap();
            writeln!(out, "insert_range {} in:{} in:{}", b, k, k + 1999).unwrap();
            Operand { slot, heavy: false, empty: false }
        }
        77..=86 => {
            // a bitset chunk
            let a = *r.pick(&[0u64, 100, 3000, 60000]);
            let n = *r.pick(&[4097u64, 4100, 5000, 5536]);
            writeln!(out, "new {}", b).unwrap();
            writeln!(out, "insert_range {} in:{} in:{}", b, k + a, k + a + n - 1).unwrap();
            if r.chance(1, 2) {
                // a few holes / extras so that two bitsets differ in a handful of values
                writeln!(out, "remove {} {}", b, k + a + r.below(20)).unwrap();
            }
            Operand { slot, heavy: true, empty: false }
        }
        92..=93 => {
            // dozens of tiny chunks (chunk-count ordering of the operands, merges over long container lists)
            writeln!(out, "from_iter {}{}", b, super::common::many_chunk_values(r)).unwrap();
            Operand { slot, heavy: false, empty: false }
        }
        87..=91 => {
            // a FULL chunk (65536 values), or one a few values short of it, or one of two halves that are full only
            // together (evens / odds): xor and sub then start from / reach a completely full running chunk
            writeln!(out, "new {}", b).unwrap();
            match r.below(5) {
                0 | 1 => writeln!(out, "insert_range {} in:{} in:{}", b, k, k + 65535).unwrap(),
                2 => {
                    writeln!(out, "insert_range {} in:{} in:{}", b, k, k + 65535).unwrap();
                    for _ in 0..r.range(1, 3) {
                        writeln!(out, "remove {} {}", b, k + *r.pick(&[0u64, 1, 63, 64, 4096, 40000, 65534, 65535])).unwrap();
                    }
                }
                h => {
                    // evens (h == 3) or odds (h == 4) of the whole chunk
                    let byte = if h == 3 { "55" } else { "aa" };
                    writeln!(out, "from_lsb0 {} {} hex:{}", b, k, byte.repeat(8192)).unwrap();
                }
            }
            Operand { slot, heavy: true, empty: false }
        }
        _ => {
            // identical to an earlier operand
            if pool.is_empty() {
                writeln!(out, "from_iter {} {}", b, k + 1).unwrap();
                Operand { slot, heavy: false, empty: false }
            } else {
                let src = &pool[r.below(pool.len() as u64) as usize];
                writeln!(out, "clone {} b{}", b, src.slot).unwrap();
                Operand { slot, heavy: src.heavy, empty: src.empty }
            }
        }
    }
}

fn pick_len(r: &mut Rng) -> usize {
    if r.chance(3, 5) {
        *r.pick(&LENS)
    } else {
        r.below(9) as usize
    }
}

fn pick_hint(r: &mut Rng, len: usize) -> String {
    match r.below(10) {
        0..=3 => "exact".to_string(),
        4..=5 => "none".to_string(),
        _ => {
            let l = len as u64;
            let ks = [1, l.saturating_sub(1), l, l + 1, 9, 10, 11, 49, 50, 51, 52, 60, 61, 100, 1000];
            let mut k = *r.pick(&ks);
            // an upper bound of 0 on a non-empty iterator breaks the Iterator contract (and the property
            // does not apply): never generated
            if k == 0 && len > 0 {
                k = 1;
            }
            format!("upper:{}", k)
        }
    }
}

/// `to_collect` of multiops.rs for this hint and length (only used to aim errors at the collection boundary)
fn to_collect(hint: &str, len: usize) -> usize {
    let t = if hint == "exact" {
        len
    } else if hint == "none" {
        10
    } else {
        hint[6..].parse::<usize>().unwrap()
    };
    if t > 50 {
        10
    } else {
        t
    }
}

pub fn gen_case(r: &mut Rng, out: &mut String) {
    // 1-3 shared chunk keys
    let nkeys = r.range(1, 3) as usize;
    let mut keys: Vec<u64> = Vec::new();
    while keys.len() < nkeys {
        let k = KEYS[r.below(KEYS.len() as u64) as usize] as u64;
        if !keys.contains(&k) {
            keys.push(k);
        }
    }
    let npool = match r.below(8) {
        0 => r.range(1, 2),
        1..=4 => r.range(3, 8),
        5..=6 => r.range(8, 16),
        _ => r.range(16, 38),
    } as usize;
    let mut pool: Vec<Operand> = Vec::new();
    for i in 0..npool {
        let o = build_operand(r, out, i, &keys, &pool);
        pool.push(o);
    }
    // one guaranteed-empty operand
    writeln!(out, "new b{}", npool).unwrap();
    let empty_slot = npool;
    pool.push(Operand { slot: npool, heavy: false, empty: true });

    let nops = r.range(3, 8);
    for j in 0..nops {
        let op = *r.pick(&["or", "and", "sub", "xor"]);
        let kind = *r.pick(&["own", "ref", "res_own", "res_ref"]);
        let len = pick_len(r);
        let hint = pick_hint(r, len);
        // ---- the sequence of operand slots
        let mut seq: Vec<usize> = Vec::with_capacity(len);
        let shape = r.below(12);
        let mut heavy_left = if len > 12 { 3 } else { 12 };
        let light: Vec<usize> = pool.iter().filter(|o| !o.heavy).map(|o| o.slot).collect();
        for _ in 0..len {
            let mut o = &pool[r.below(pool.len() as u64) as usize];
            if shape == 0 {
                o = &pool[0]; // all identical
            }
            if o.heavy {
                if heavy_left == 0 {
                    seq.push(*r.pick(&light));
                    continue;
                }
                heavy_left -= 1;
            }
            seq.push(o.slot);
        }
        if len > 0 {
            match shape {
                1 => seq[0] = empty_slot,
                2 => seq[len / 2] = empty_slot,
                3 => seq[len - 1] = empty_slot,
                4 => {
                    // only empty operands (the "max is empty" shortcut of union)
                    let empties: Vec<usize> = pool.iter().filter(|o| o.empty).map(|o| o.slot).collect();
                    for s in seq.iter_mut() {
                        *s = *r.pick(&empties);
                    }
                }
                5 => {
                    // empty operands in the collected prefix only / everywhere but one place
                    let keep = r.below(len as u64) as usize;
                    for (i, s) in seq.iter_mut().enumerate() {
                        if i != keep && r.chance(2, 3) {
                            *s = empty_slot;
                        }
                    }
                }
                _ => {}
            }
        }
        let mut items: Vec<String> = seq.iter().map(|s| format!("b{}", s)).collect();
        // ---- boundary probe: the only place where the 10/50 collection thresholds are observable is ∩ over
        // `Result`s, with an empty operand at p and an error at q on different sides of `to_collect`
        if r.chance(1, 8) {
            let len = *r.pick(&[11usize, 12, 49, 50, 51, 52, 60]);
            let hint = (*r.pick(&["exact", "none", "upper:50", "upper:51", "upper:10", "upper:11", "upper:49", "upper:60"])).to_string();
            let kind = *r.pick(&["res_own", "res_ref"]);
            let mut items: Vec<String> = (0..len).map(|_| format!("b{}", r.pick(&light))).collect();
            let marks = [0usize, 1, 8, 9, 10, 11, 48, 49, 50, 51, len - 1];
            let p = (*r.pick(&marks)).min(len - 1);
            let q = (*r.pick(&marks)).min(len - 1);
            items[p] = format!("b{}", empty_slot);
            items[q] = format!("err:{}", q + 1);
            let d = 40 + j as usize;
            writeln!(out, "new b{}", d).unwrap();
            writeln!(out, "multi and {} {} b{} {}", kind, hint, d, items.join(" ")).unwrap();
            writeln!(out, "dump b{}", d).unwrap();
            continue;
        }
        // ---- errors
        if kind.starts_with("res") && len > 0 && r.chance(3, 5) {
            let t = to_collect(&hint, len);
            let cands = [0, 1, len / 2, len - 1, t.saturating_sub(1), t, t + 1, r.below(len as u64) as usize];
            let nerr = *r.pick(&[1usize, 1, 1, 2, 3]);
            for _ in 0..nerr {
                let p = *r.pick(&cands);
                if p < len {
                    items[p] = format!("err:{}", p + 1);
                }
            }
        }
        // the destination is created first so that it exists on both sides whatever the outcome (it stays
        // empty on `err`); it may then serve as an operand of the following ops of the case
        let d = 40 + j as usize;
        writeln!(out, "new b{}", d).unwrap();
        writeln!(out, "multi {} {} {} b{} {}", op, kind, hint, d, items.join(" ")).unwrap();
        writeln!(out, "dump b{}", d).unwrap();
        if r.chance(1, 3) {
            let heavy = seq.iter().any(|s| pool.iter().any(|o| o.slot == *s && o.heavy));
            pool.push(Operand { slot: d, heavy, empty: false });
        }
    }
}
