//! C13: the malformed stream — single-field corruptions of valid streams and short random byte strings —
//! against the checked decoder; on `ok` the value is inspected by every observer (harness) / `WF` (model).
use super::c05::hex;
use super::stream;
use crate::rng::Rng;
use std::fmt::Write as _;

pub fn gen_case(r: &mut Rng, out: &mut String) {
    if r.chance(1, 8) {
        for _ in 0..4 {
            let b = stream::random_bytes(r);
            let h = hex(&b);
            writeln!(out, "note random-bytes").unwrap();
            writeln!(out, "new b0").unwrap();
            writeln!(out, "deser chk b0 {}", h).unwrap();
            writeln!(out, "dump b0").unwrap();
            writeln!(out, "spec_decode {}", h).unwrap();
        }
        return;
    }
    if r.chance(1, 12) {
        // the stream of the OTHER type
        let g64 = super::stream64::gen_stream64(r, true, false);
        let h = hex(&g64.bytes);
        writeln!(out, "note treemap stream handed to the 32-bit decoder").unwrap();
        writeln!(out, "new b0").unwrap();
        writeln!(out, "deser chk b0 {}", h).unwrap();
        writeln!(out, "dump b0").unwrap();
        writeln!(out, "spec_decode {}", h).unwrap();
    }
    if r.chance(1, 10) {
        // not conformant, yet accepted by a decoder that merges runs: the accepted value must be a consistent one
        let (b, _, what) = stream::overlapping_runs_stream(r);
        let h = hex(&b);
        writeln!(out, "note {}", what).unwrap();
        writeln!(out, "new b0").unwrap();
        writeln!(out, "deser chk b0 {}", h).unwrap();
        writeln!(out, "dump b0").unwrap();
        writeln!(out, "stats b0").unwrap();
        writeln!(out, "spec_decode {}", h).unwrap();
    }
    // mostly small streams so that many corruptions fit in the budget; some with bitset chunks
    let small = r.chance(1, 2);
    let g = stream::gen_stream(r, small);
    let reps = if g.bytes.len() > 20000 { 2 } else { 4 };
    for _ in 0..reps {
        let (b, label) = stream::corrupt(r, &g);
        let h = hex(&b);
        writeln!(out, "note corruption={} of {}", label, g.describe()).unwrap();
        writeln!(out, "new b0").unwrap();
        writeln!(out, "deser chk b0 {}", h).unwrap();
        writeln!(out, "dump b0").unwrap();
        writeln!(out, "spec_decode {}", h).unwrap();
    }
}
