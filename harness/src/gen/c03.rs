//! C03: bitmaps with 1–4 chunks of both kinds, then 10–60 iterator calls on iter() / into_iter() / range() /
//! into_range(), with targets chosen relative to the *current* cursor: a remaining element, ±1, another
//! 64-bit word, another chunk, before the front, after the back, beyond both ends, 0, u32::MAX.
//!
//! The generator keeps its own copy of the set and of each cursor's remaining window (as plain sorted
//! vectors) purely to *aim* the arguments; it never looks at results of the implementation or the model.
use super::common::KEYS;
use crate::rng::Rng;
use std::fmt::Write as _;

/// low parts of an array chunk (≤ 4096 values)
fn array_chunk(r: &mut Rng) -> Vec<u32> {
    let mut v: Vec<u32> = Vec::new();
    match r.below(6) {
        0 => {
            // a handful of scattered values
            for _ in 0..r.range(1, 8) {
                v.push(r.below(65536) as u32);
            }
        }
        1 => {
            // boundary values
            for &x in &[0u32, 1, 63, 64, 65, 127, 128, 4095, 4096, 65471, 65534, 65535] {
                if r.chance(1, 2) {
                    v.push(x);
                }
            }
            v.push(*r.pick(&[0u32, 65535, 64]));
        }
        2 => {
            // one dense run
            let n = r.range(2, 3000) as u32;
            let s = r.below(65536 - n as u64) as u32;
            v.extend(s..s + n);
        }
        3 => {
            // a few short runs plus singles
            for _ in 0..r.range(1, 5) {
                let n = r.range(1, 300) as u32;
                let s = r.below(65536 - n as u64) as u32;
                v.extend(s..s + n);
            }
            for _ in 0..r.range(0, 5) {
                v.push(r.below(65536) as u32);
            }
        }
        4 => {
            // strided
            let stride = *r.pick(&[2u32, 3, 7, 63, 64, 65, 100]);
            let n = r.range(2, 900) as u32;
            let s = r.below(2000) as u32;
            v.extend((0..n).map(|i| s + i * stride).filter(|&x| x < 65536));
        }
        _ => {
            // both ends of the chunk
            v.extend(0..r.range(1, 70) as u32);
            v.extend(65536 - r.range(1, 70) as u32..65536);
        }
    }
    v.sort_unstable();
    v.dedup();
    v.truncate(4096);
    v
}

/// low parts of a bitset chunk (> 4096 values, kept below ~9000)
fn bitset_chunk(r: &mut Rng) -> Vec<u32> {
    let mut v: Vec<u32> = Vec::new();
    if r.chance(1, 9) {
        // a completely full chunk (all 65536 values), or a full chunk with a few holes: every word all-ones, the cached
        // cardinality at its maximum, seeks and nth land in the middle of a solid block
        v.extend(0..65536u32);
        for _ in 0..*r.pick(&[0u64, 0, 0, 1, 3]) {
            let h = *r.pick(&[0u32, 63, 64, 32767, 65535]);
            v.retain(|&x| x != h);
        }
        return v;
    }
    match r.below(5) {
        0 => {
            // one dense run somewhere
            let n = r.range(4100, 7000) as u32;
            let s = r.below(65536 - n as u64) as u32;
            v.extend(s..s + n);
        }
        1 => {
            // several ranges + single values: words differ, gaps of empty words in between
            let parts = r.range(2, 6);
            let per = 4400 / parts as u32 + r.range(1, 600) as u32;
            for _ in 0..parts {
                let s = r.below(65536 - per as u64) as u32;
                v.extend(s..s + per);
            }
            for _ in 0..r.range(0, 20) {
                v.push(r.below(65536) as u32);
            }
        }
        2 => {
            // strided: every word partially filled
            let stride = *r.pick(&[2u32, 3, 5, 7, 9, 13]);
            let n = r.range(4100, 6000) as u32;
            let s = r.below(64) as u32;
            v.extend((0..n).map(|i| s + i * stride).filter(|&x| x < 65536));
        }
        3 => {
            // first and last word populated, dense run in the middle
            v.extend(0..r.range(1, 64) as u32);
            v.extend(65536 - r.range(1, 64) as u32..65536);
            let n = r.range(4100, 5000) as u32;
            let s = 64 * r.range(2, 900) as u32;
            v.extend(s..(s + n).min(65400));
        }
        _ => {
            // pseudo-random words: each of ~160 consecutive words gets a random pattern
            let w0 = r.below(1024 - 170) as u32;
            for w in 0..170u32 {
                let pat = r.next() | r.next();
                for b in 0..64u32 {
                    if pat >> b & 1 == 1 {
                        v.push((w0 + w) * 64 + b);
                    }
                }
            }
        }
    }
    v.sort_unstable();
    v.dedup();
    // make sure it really is a bitset chunk
    let mut x = 30000u32;
    while v.len() <= 4100 {
        if v.binary_search(&x).is_err() {
            v.push(x);
        }
        x += 1;
    }
    v.sort_unstable();
    v.dedup();
    v
}

/// emit the ops that build the set `vals` (sorted) in `b`: maximal runs become `insert_range`, the rest `extend`
fn emit_build(out: &mut String, b: &str, vals: &[u32]) {
    writeln!(out, "new {}", b).unwrap();
    let mut singles: Vec<u32> = Vec::new();
    let mut i = 0;
    while i < vals.len() {
        let mut j = i;
        while j + 1 < vals.len() && vals[j + 1] == vals[j] + 1 {
            j += 1;
        }
        if j - i >= 3 {
            writeln!(out, "insert_range {} in:{} in:{}", b, vals[i], vals[j]).unwrap();
        } else {
            singles.extend_from_slice(&vals[i..=j]);
        }
        i = j + 1;
    }
    for ch in singles.chunks(400) {
        let mut s = String::new();
        for x in ch {
            write!(s, " {}", x).unwrap();
        }
        writeln!(out, "extend {}{}", b, s).unwrap();
    }
}

/// the generator's own picture of one cursor: the remaining window of the sorted element vector
struct Cur {
    lo: usize,
    hi: usize, // remaining = all[lo..hi]
    live: bool,
}

fn clampu32(x: i64) -> u32 {
    x.clamp(0, u32::MAX as i64) as u32
}

/// a target value chosen relative to the cursor's current window
fn target(r: &mut Rng, all: &[u32], c: &Cur) -> u32 {
    let rem = &all[c.lo.min(c.hi)..c.hi];
    let any = |r: &mut Rng| -> u32 {
        if all.is_empty() {
            r.below(200000) as u32
        } else {
            all[r.below(all.len() as u64) as usize]
        }
    };
    if rem.is_empty() {
        return match r.below(4) {
            0 => 0,
            1 => u32::MAX,
            2 => any(r),
            _ => ((*r.pick(&KEYS) as u64) << 16 | r.below(65536)) as u32,
        };
    }
    let front = rem[0] as i64;
    let back = rem[rem.len() - 1] as i64;
    let e = rem[r.below(rem.len() as u64) as usize] as i64;
    match r.below(20) {
        0 => e as u32,
        1 => clampu32(e + 1),
        2 => clampu32(e - 1),
        3 => clampu32(front + *r.pick(&[1i64, 2, 63, 64, 65, 128, 640])), // another word near the front
        4 => clampu32(back - *r.pick(&[1i64, 2, 63, 64, 65, 128, 640])),  // another word near the back
        5 => clampu32(front - *r.pick(&[1i64, 2, 64, 65536, 70000])),     // before the front
        6 => clampu32(back + *r.pick(&[1i64, 2, 63, 64, 65, 128, 1000])), // after the back, same chunk mostly
        7 => clampu32(back + *r.pick(&[65536i64, 131072, 70000])),        // after the back, another chunk
        8 => clampu32(front - 65536),
        9 => 0,
        10 => u32::MAX,
        11 => {
            // an already consumed element (before front / after back)
            if c.lo > 0 && r.chance(1, 2) {
                all[r.below(c.lo as u64) as usize]
            } else if c.hi < all.len() {
                all[c.hi + r.below((all.len() - c.hi) as u64) as usize]
            } else {
                any(r)
            }
        }
        12 => clampu32((e / 64) * 64 + *r.pick(&[0i64, 63, 64, -1])), // word edges
        13 => clampu32((e / 65536) * 65536 + *r.pick(&[0i64, 65535, 65536, -1])), // chunk edges
        14 => clampu32((front + back) / 2),
        15 => clampu32(back),
        16 => clampu32(front),
        17 => ((*r.pick(&KEYS) as u64) << 16 | r.below(65536)) as u32, // any chunk of the pool
        _ => any(r),
    }
}

/// a target near one end of the window (`from_front`: an element of the first eighth, else of the last
/// eighth) or just outside that end: consumes little of the window
fn target_near(r: &mut Rng, all: &[u32], c: &Cur, from_front: bool) -> u32 {
    let rem = &all[c.lo.min(c.hi)..c.hi];
    if rem.is_empty() {
        return target(r, all, c);
    }
    let span = (rem.len() as u64 / 8 + 2).min(rem.len() as u64);
    let off = r.below(span) as usize;
    let e = if from_front { rem[off] } else { rem[rem.len() - 1 - off] } as i64;
    let end = if from_front { rem[0] } else { rem[rem.len() - 1] } as i64;
    let out = if from_front { -1i64 } else { 1 };
    match r.below(14) {
        0 | 1 => e as u32,
        2 => clampu32(e + 1),
        3 => clampu32(e - 1),
        4 => clampu32((e / 64) * 64 + *r.pick(&[0i64, 63, 64, -1])), // word edges
        5 => clampu32((e / 65536) * 65536 + *r.pick(&[0i64, 65535, 65536, -1])), // chunk edges
        6 => clampu32(end - out * *r.pick(&[1i64, 2, 63, 64, 65, 128, 640])), // another word, inside
        7 => clampu32(end + out * *r.pick(&[1i64, 2, 64, 65536, 70000])),     // outside this end
        8 => {
            if from_front {
                0
            } else {
                u32::MAX
            }
        }
        9 => {
            // an already consumed element on this side
            if from_front && c.lo > 0 {
                all[r.below(c.lo as u64) as usize]
            } else if !from_front && c.hi < all.len() {
                all[c.hi + r.below((all.len() - c.hi) as u64) as usize]
            } else {
                e as u32
            }
        }
        10 => end as u32,
        _ => clampu32(e + *r.pick(&[-130i64, -64, -3, 3, 64, 130])),
    }
}

/// the generator's copy of convert_range_to_inclusive's *meaning*: the inclusive interval, or None if
/// empty; `Err(())` for the two documented panics
fn interval(lo: &str, hi: &str) -> Result<Option<(u64, u64)>, ()> {
    let p = |t: &str| -> (u8, u64) {
        if t == "un" {
            (0, 0)
        } else if let Some(v) = t.strip_prefix("in:") {
            (1, v.parse().unwrap())
        } else {
            (2, t[3..].parse().unwrap())
        }
    };
    let (lk, lv) = p(lo);
    let (hk, hv) = p(hi);
    if lk == 2 && hk == 2 && lv == hv {
        return Err(());
    }
    if lk != 0 && hk != 0 && lv > hv {
        return Err(());
    }
    let a = match lk {
        0 => 0,
        1 => lv,
        _ => lv + 1,
    };
    let b = match hk {
        0 => u32::MAX as u64,
        1 => hv,
        _ => {
            if hv == 0 {
                return Ok(None);
            }
            hv - 1
        }
    };
    if a > b || a > u32::MAX as u64 {
        Ok(None)
    } else {
        Ok(Some((a, b)))
    }
}

fn range_toks(r: &mut Rng, all: &[u32], allow_panic: bool) -> (String, String) {
    let whole = Cur { lo: 0, hi: all.len(), live: true };
    let a = target(r, all, &whole) as u64;
    let b = target(r, all, &whole) as u64;
    let (s, e) = if a <= b { (a, b) } else { (b, a) };
    let shape = r.below(if allow_panic { 16 } else { 13 });
    match shape {
        0 => ("un".into(), "un".into()),
        1 => (format!("in:{}", s), "un".into()),
        2 => ("un".into(), format!("in:{}", e)),
        3 => ("un".into(), format!("ex:{}", e)),
        4 => (format!("ex:{}", s), "un".into()),
        5 => (format!("ex:{}", s), format!("in:{}", e.max(s))),
        6 => (format!("ex:{}", s), format!("ex:{}", e.max(s + 1).min(u32::MAX as u64))),
        7 => (format!("in:{}", s), format!("ex:{}", s)), // empty x..x
        8 => ("un".into(), "ex:0".into()),               // empty
        9 => (format!("ex:{}", u32::MAX), "un".into()),  // empty
        10 => (format!("in:{}", s), format!("ex:{}", e)),
        11 | 12 => (format!("in:{}", s), format!("in:{}", e)),
        13 => (format!("in:{}", (e + 1).min(u32::MAX as u64)), format!("in:{}", s)), // inverted  -> panic
        14 => (format!("ex:{}", s), format!("ex:{}", s)),     // equal excluded -> panic
        _ => (format!("ex:{}", (e + 1).min(u32::MAX as u64)), format!("ex:{}", s)), // inverted -> panic
    }
}

/// create an iterator in slot `iK` (never a panicking range: a panic ends the case)
fn new_iter(r: &mut Rng, out: &mut String, all: &[u32], k: usize) -> Cur {
    let c = match r.below(6) {
        0 | 1 => {
            writeln!(out, "iter b0 i{}", k).unwrap();
            Cur { lo: 0, hi: all.len(), live: true }
        }
        2 => {
            writeln!(out, "into_iter b0 i{}", k).unwrap();
            Cur { lo: 0, hi: all.len(), live: true }
        }
        s => {
            let (mut lo, mut hi) = range_toks(r, all, false);
            if interval(&lo, &hi).is_err() {
                lo = "un".into();
                hi = "un".into();
            }
            let op = if s % 2 == 1 { "range" } else { "into_range" };
            writeln!(out, "{} b0 {} {} i{}", op, lo, hi, k).unwrap();
            let (a, b) = match interval(&lo, &hi) {
                Ok(Some(iv)) => iv,
                _ => (1, 0),
            };
            let l = all.partition_point(|&x| (x as u64) < a);
            let h = all.partition_point(|&x| (x as u64) <= b).max(l);
            Cur { lo: l, hi: if a > b { l } else { h }, live: true }
        }
    };
    writeln!(out, "size_hint i{}", k).unwrap();
    c
}

pub fn gen_case(r: &mut Rng, out: &mut String) {
    // ---- the set
    let nchunks = match r.below(11) {
        0..=2 => 1,
        3..=5 => 2,
        6..=7 => 3,
        10 => r.range(33, 70) as usize, // many tiny chunks: nth / advance_to skip over dozens of containers
        _ => 4,
    };
    let mut keys: Vec<u32> = Vec::new();
    if nchunks > 4 {
        let k0 = *r.pick(&[0u32, 5, 0xFFFF - nchunks as u32]);
        let mut k = k0;
        while keys.len() < nchunks {
            keys.push(k);
            k += if r.chance(1, 6) { 2 } else { 1 };
            if k > 0xFFFF {
                break;
            }
        }
    }
    let many = nchunks > 4;
    while keys.len() < nchunks.min(4) {
        let k = if r.chance(3, 4) { *r.pick(&KEYS) } else { r.below(65536) as u32 };
        if !keys.contains(&k) {
            keys.push(k);
        }
    }
    keys.sort_unstable();
    let mut all: Vec<u32> = Vec::new();
    let mut nbitset = 0;
    for &k in &keys {
        let bitset = nbitset < 2 && r.chance(1, if many { 30 } else { 2 });
        let lows = if many && !bitset {
            let mut v: Vec<u32> = (0..r.range(1, 3)).map(|_| *r.pick(&[0u32, 1, 63, 64, 4095, 65535])).collect();
            v.sort_unstable();
            v.dedup();
            v
        } else if bitset {
            nbitset += 1;
            bitset_chunk(r)
        } else {
            array_chunk(r)
        };
        all.extend(lows.iter().map(|&l| (k << 16) | l));
    }
    if r.chance(1, 40) {
        all.clear(); // the empty bitmap
    }
    if r.chance(1, 6) {
        // a set of the shared catalogue (gen/zoo.rs) instead
        let (t, _) = super::zoo::zoo_target(r);
        if super::zoo::card(&t) <= 140000 {
            all = super::c04::elems(&t);
        }
    }
    emit_build(out, "b0", &all);
    writeln!(out, "dump b0").unwrap();

    // ---- iterators
    let mut curs: Vec<Cur> = Vec::new();
    let niters = r.range(1, 3) as usize;
    for k in 0..niters {
        let c = new_iter(r, out, &all, k);
        curs.push(c);
    }

    let ncalls = r.range(10, 60);
    for _ in 0..ncalls {
        let k = r.below(curs.len() as u64) as usize;
        if !curs[k].live {
            continue;
        }
        let name = format!("i{}", k);
        let mut remlen = curs[k].hi.saturating_sub(curs[k].lo);
        if remlen == 0 && r.chance(1, 2) {
            // exhausted: start afresh in the same slot (the other half of the time: calls after exhaustion)
            curs[k] = new_iter(r, out, &all, k);
            remlen = curs[k].hi.saturating_sub(curs[k].lo);
        }
        // most calls are "gentle" (leave part of the window), one in seven may exhaust the cursor
        let gentle = !r.chance(1, 7);
        let mut quiet = false;
        match r.below(26) {
            0..=3 => {
                writeln!(out, "next {}", name).unwrap();
                if remlen > 0 {
                    curs[k].lo += 1;
                }
            }
            4..=7 => {
                writeln!(out, "next_back {}", name).unwrap();
                if remlen > 0 {
                    curs[k].hi -= 1;
                }
            }
            8..=10 => {
                let n = nth_arg(r, remlen, gentle);
                writeln!(out, "nth {} {}", name, n).unwrap();
                let d = (n.saturating_add(1)).min(remlen as u64) as usize;
                curs[k].lo += d;
            }
            11..=13 => {
                let n = nth_arg(r, remlen, gentle);
                writeln!(out, "nth_back {} {}", name, n).unwrap();
                let d = (n.saturating_add(1)).min(remlen as u64) as usize;
                curs[k].hi -= d;
            }
            14..=18 => {
                let t = if gentle { target_near(r, &all, &curs[k], true) } else { target(r, &all, &curs[k]) };
                writeln!(out, "advance_to {} {}", name, t).unwrap();
                let p = all.partition_point(|&x| x < t);
                curs[k].lo = curs[k].lo.max(p.min(curs[k].hi));
            }
            19..=23 => {
                let t = if gentle { target_near(r, &all, &curs[k], false) } else { target(r, &all, &curs[k]) };
                writeln!(out, "advance_back_to {} {}", name, t).unwrap();
                let p = all.partition_point(|&x| x <= t);
                curs[k].hi = curs[k].hi.min(p.max(curs[k].lo));
            }
            24 => {
                writeln!(out, "ilen {}", name).unwrap();
                quiet = true;
            }
            _ => {
                // clone into a scratch slot and consume the clone
                writeln!(out, "iclone {} i9", name).unwrap();
                let op = *r.pick(&["count", "fold", "rfold", "drain_fwd", "drain_rev"]);
                writeln!(out, "{} i9", op).unwrap();
                quiet = true;
            }
        }
        if !quiet && r.chance(4, 5) {
            writeln!(out, "size_hint {}", name).unwrap();
        }
        // every observer of the state just reached, not only size_hint: a clone consumed through one of the
        // overridden whole-iterator methods (fold / rfold / count) or step by step from either end
        if !quiet && r.chance(1, 3) {
            writeln!(out, "iclone {} i9", name).unwrap();
            let op = *r.pick(&["count", "fold", "rfold", "fold", "rfold", "drain_fwd", "drain_rev"]);
            writeln!(out, "{} i9", op).unwrap();
        }
    }
    // ---- calls after exhaustion on one cursor (fused), then drain everything
    for k in 0..curs.len() {
        if !curs[k].live {
            continue;
        }
        let name = format!("i{}", k);
        if r.chance(1, 4) {
            writeln!(out, "iclone {} i8", name).unwrap();
            writeln!(out, "advance_to i8 {}", u32::MAX).unwrap();
            writeln!(out, "next i8").unwrap();
            writeln!(out, "next i8").unwrap();
            writeln!(out, "next_back i8").unwrap();
            writeln!(out, "nth i8 0").unwrap();
            writeln!(out, "nth_back i8 3").unwrap();
            writeln!(out, "advance_to i8 {}", target(r, &all, &curs[k])).unwrap();
            writeln!(out, "advance_back_to i8 {}", target(r, &all, &curs[k])).unwrap();
            writeln!(out, "size_hint i8").unwrap();
            writeln!(out, "next i8").unwrap();
        }
        let op = *r.pick(&["drain_fwd", "drain_rev", "fold", "rfold", "count", "drain_fwd", "drain_rev"]);
        writeln!(out, "{} {}", op, name).unwrap();
        curs[k].live = false;
    }
    // ---- sometimes: a documented panic as the very last op
    if r.chance(1, 12) {
        let mut tries = 0;
        loop {
            let (lo, hi) = range_toks(r, &all, true);
            tries += 1;
            if interval(&lo, &hi).is_err() || tries > 40 {
                let op = if r.chance(1, 2) { "range" } else { "into_range" };
                writeln!(out, "{} b0 {} {} i7", op, lo, hi).unwrap();
                break;
            }
        }
    }
}

fn nth_arg(r: &mut Rng, remlen: usize, gentle: bool) -> u64 {
    let l = remlen as u64;
    if gentle {
        return match r.below(6) {
            0 => 0,
            1 => 1,
            2 => *r.pick(&[2u64, 63, 64, 65, 127, 128]).min(&(l / 3)),
            3 => r.below(70).min(l / 3),
            4 => r.below(l / 4 + 1),
            _ => r.below(l / 16 + 2).min(l / 2),
        };
    }
    match r.below(10) {
        0 => 0,
        1 => 1,
        2 => l.saturating_sub(1),
        3 => l,
        4 => l + 1,
        5 => *r.pick(&[63u64, 64, 65, 4095, 4096, 4097]),
        6 => r.below(l + 1),
        7 => r.below(70),
        8 => u64::MAX,
        _ => r.below(l / 4 + 2),
    }
}

/// C03W — window sweep: a bitset chunk whose interesting part is a 3-word window (random bits) plus a filler
/// run that makes it a bitset; the front cursor is moved `a` set bits into the window and the back cursor `b`
/// set bits into it (random pair per case), then **every** target in the window (±2) is tried with
/// `advance_to` or with `advance_back_to` (one direction per case), each on a fresh clone, followed by
/// `size_hint`, `next`, `next_back`.
pub fn gen_window_case(r: &mut Rng, out: &mut String) {
    let key: u32 = *r.pick(&[0u32, 3]);
    let base = key << 16;
    let (wb, fillers): (u32, Vec<(u32, u32)>) = match r.below(3) {
        0 => (0, vec![(20000, 24200)]),
        1 => (1021, vec![(20000, 24200)]),
        _ => (500, vec![(10000, 12100), (50000, 52100)]),
    };
    let lo = wb * 64;
    let hi = lo + 192; // exclusive
    let mut bits: Vec<u32> = Vec::new();
    let dens = *r.pick(&[1u64, 2, 3]);
    for i in lo..hi {
        if r.below(4) < dens {
            bits.push(i);
        }
    }
    // always populate the window's first and last bit sometimes: word-edge cases
    if r.chance(1, 2) && !bits.contains(&lo) {
        bits.insert(0, lo);
    }
    if r.chance(1, 2) && !bits.contains(&(hi - 1)) {
        bits.push(hi - 1);
    }
    writeln!(out, "new b0").unwrap();
    let mut pre = 0u64;
    let mut post = 0u64;
    for &(s, e) in &fillers {
        writeln!(out, "insert_range b0 in:{} ex:{}", base + s, base + e).unwrap();
        if e <= lo {
            pre += (e - s) as u64;
        } else {
            post += (e - s) as u64;
        }
    }
    let mut s = String::new();
    for x in &bits {
        write!(s, " {}", base + x).unwrap();
    }
    writeln!(out, "extend b0{}", s).unwrap();
    writeln!(out, "dump b0").unwrap();
    let nset = bits.len() as u64;
    let a = r.below(nset + 1);
    let b = r.below(nset - a + 2).min(nset);
    writeln!(out, "{} b0 i0", if r.chance(1, 2) { "iter" } else { "into_iter" }).unwrap();
    // move the cursors with next/next_back-based or nth-based calls
    if pre + a > 0 {
        writeln!(out, "nth i0 {}", pre + a - 1).unwrap();
    }
    if post + b > 0 {
        writeln!(out, "nth_back i0 {}", post + b - 1).unwrap();
    }
    if r.chance(1, 2) {
        // pull the cursors one more step with the single-step calls (exhausts a word exactly at word edges)
        writeln!(out, "next_back i0").unwrap();
        writeln!(out, "next i0").unwrap();
    }
    writeln!(out, "size_hint i0").unwrap();
    let t0 = lo.saturating_sub(2);
    let t1 = (hi + 1).min(65535);
    // one direction per case (keeps a case below ~1000 ops)
    let fwd = r.chance(1, 2);
    for t in t0..=t1 {
        let tv = base + t;
        writeln!(out, "iclone i0 i1").unwrap();
        // the state reached by the seek is looked at by every observer in turn (one whole-iterator observer per
        // target, on a clone of its own): size_hint, then fold / rfold / count, then the single steps
        let obs = ["fold", "rfold", "count", "drain_rev", "drain_fwd"][((t + key) % 5) as usize];
        if fwd {
            writeln!(out, "advance_to i1 {}", tv).unwrap();
            writeln!(out, "size_hint i1").unwrap();
            writeln!(out, "iclone i1 i2").unwrap();
            writeln!(out, "{} i2", obs).unwrap();
            writeln!(out, "next i1").unwrap();
            writeln!(out, "next_back i1").unwrap();
        } else {
            writeln!(out, "advance_back_to i1 {}", tv).unwrap();
            writeln!(out, "size_hint i1").unwrap();
            writeln!(out, "iclone i1 i2").unwrap();
            writeln!(out, "{} i2", obs).unwrap();
            writeln!(out, "next_back i1").unwrap();
            writeln!(out, "next i1").unwrap();
        }
    }
    writeln!(out, "drain_fwd i0").unwrap();
}
