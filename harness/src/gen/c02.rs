//! C02 / C08: operand *pairs* built by independent short histories, biased to share chunk keys, pushed
//! through all 4 operators × 6 forms with a `dump` of every result (C02) and through all relations and
//! cardinality-only operations in both directions (C08).
//!
//! Slots: `b0` = left operand, `b1` = right operand, `b2` = result, `b3` = scratch copy of the left operand
//! for the assigning forms.
use super::common::*;
use crate::rng::Rng;
use std::fmt::Write as _;

const OPS: [&str; 4] = ["or", "and", "sub", "xor"];
const FORMS: [&str; 6] = ["oo", "or", "ro", "rr", "ao", "ar"];

fn base(k: u32) -> u64 {
    (k as u64) << 16
}

/// a start offset inside a chunk for a block of `n` values
fn block_start(r: &mut Rng, n: u64) -> u64 {
    let room = 65536 - n;
    let s = match r.below(6) {
        0 => 0,
        1 => *r.pick(&[1u64, 63, 64, 65]),
        2 => room,
        3 => room.saturating_sub(*r.pick(&[1u64, 63, 64])),
        _ => r.below(room + 1),
    };
    s.min(room)
}

fn extend_stride(out: &mut String, b: &str, start: u64, stride: u64, n: u64) {
    let mut s = String::with_capacity(n as usize * 7);
    for i in 0..n {
        write!(s, " {}", start + i * stride).unwrap();
    }
    writeln!(out, "extend {}{}", b, s).unwrap();
}

/// Emit ops that populate chunk `k` of slot `b`; returns a few values known to be members afterwards.
fn chunk(r: &mut Rng, out: &mut String, b: &str, k: u32, kind: u64) -> Vec<u64> {
    let bs = base(k);
    let mut known = Vec::new();
    match kind {
        // sparse array
        0 => {
            let n = r.range(1, 20);
            let mut s = String::new();
            for _ in 0..n {
                let v = bs + low(r) as u64;
                write!(s, " {}", v).unwrap();
                known.push(v);
            }
            writeln!(out, "extend {}{}", b, s).unwrap();
        }
        // one block, array-sized (2100..4000) or next to the limit
        1 | 5 => {
            let n = if kind == 5 { *r.pick(&[4095u64, 4096, 4096, 4097]) } else { r.range(2100, 4000) };
            let s = block_start(r, n);
            writeln!(out, "insert_range {} in:{} in:{}", b, bs + s, bs + s + n - 1).unwrap();
            known.extend([bs + s, bs + s + n - 1, bs + s + n / 2]);
        }
        // one block, bitset-sized
        2 => {
            let n = r.range(4097, 7000);
            let s = block_start(r, n);
            writeln!(out, "insert_range {} in:{} in:{}", b, bs + s, bs + s + n - 1).unwrap();
            known.extend([bs + s, bs + s + n - 1, bs + s + n / 2]);
        }
        // striped array (2100..4000 values) / striped bitset (4100..6000 values): blocks of `bl` values every
        // `bl + gap` (cheap for the list model: one `insert_range` per block, at most ~100 of them); a finely
        // interleaved (stride 2..3) variant through `extend` is kept small because it is quadratic in the model
        3 | 4 => {
            if r.chance(1, 5) {
                let n = if kind == 3 { r.range(2100, 2400) } else { r.range(4100, 4300) };
                let stride = *r.pick(&[2u64, 2, 3]);
                let room = 65536 - ((n - 1) * stride + 1);
                let s = if r.chance(1, 2) { r.below(2) } else { r.below(room + 1) };
                extend_stride(out, b, bs + s, stride, n);
                known.extend([bs + s, bs + s + (n - 1) * stride, bs + s + (n / 2) * stride]);
            } else {
                let n = if kind == 3 { r.range(2100, 4000) } else { r.range(4100, 6000) };
                let bl = *r.pick(&[50u64, 64, 64, 100, 128]);
                let gap = *r.pick(&[1u64, 2, 64, 64, 100]);
                let nb = n / bl;
                let room = 65536 - nb * (bl + gap);
                let s = if r.chance(1, 2) { *r.pick(&[0u64, 1, 64]) } else { r.below(room + 1) };
                for i in 0..nb {
                    let lo = bs + s + i * (bl + gap);
                    writeln!(out, "insert_range {} in:{} in:{}", b, lo, lo + bl - 1).unwrap();
                }
                known.extend([bs + s, bs + s + bl - 1, bs + s + (nb - 1) * (bl + gap)]);
            }
        }
        // whole chunk
        6 => {
            writeln!(out, "insert_range {} in:{} in:{}", b, bs, bs + 65535).unwrap();
            known.extend([bs, bs + 65535, bs + 4096]);
        }
        // two blocks with a gap
        _ => {
            let n1 = r.range(100, 3000);
            let n2 = r.range(100, 3000);
            let s1 = r.below(20000);
            let s2 = s1 + n1 + *r.pick(&[1u64, 2, 64, 1000, 30000]);
            writeln!(out, "insert_range {} in:{} in:{}", b, bs + s1, bs + s1 + n1 - 1).unwrap();
            writeln!(out, "insert_range {} in:{} in:{}", b, bs + s2, bs + s2 + n2 - 1).unwrap();
            known.extend([bs + s1, bs + s1 + n1 - 1, bs + s2, bs + s2 + n2 - 1]);
        }
    }
    // holes and sprinkles: vary the construction history without changing the size class much
    for _ in 0..r.below(3) {
        match r.below(4) {
            0 => {
                if let Some(&v) = known.get(r.below(known.len() as u64) as usize) {
                    writeln!(out, "remove {} {}", b, v).unwrap();
                    known.retain(|&x| x != v);
                }
            }
            1 => {
                let v = bs + low(r) as u64;
                writeln!(out, "insert {} {}", b, v).unwrap();
                known.push(v);
            }
            2 => {
                let s = bs + low(r) as u64;
                let e = (s + *r.pick(&[0u64, 1, 63, 64, 200])).min(bs + 65535);
                writeln!(out, "remove_range {} in:{} in:{}", b, s, e).unwrap();
                known.retain(|&x| x < s || x > e);
            }
            _ => {
                let s = bs + low(r) as u64;
                let e = (s + *r.pick(&[0u64, 1, 63, 64, 200])).min(bs + 65535);
                writeln!(out, "insert_range {} in:{} in:{}", b, s, e).unwrap();
                known.push(s);
            }
        }
    }
    known
}

fn chunk_kind(r: &mut Rng) -> u64 {
    match r.below(40) {
        0..=9 => 0,
        10..=15 => 1,
        16..=21 => 2,
        22..=25 => 3,
        26..=28 => 4,
        29..=33 => 5,
        34 => 6,
        _ => 7,
    }
}

/// a few C01-style mutators on top (different construction histories for the same kind of value)
fn c01_tail(r: &mut Rng, out: &mut String, b: &str, nkeys: usize, n: u64) {
    for _ in 0..n {
        let mut tmp = String::new();
        super::c01::mutator(r, &mut tmp, nkeys);
        // `from_sorted` would replace the operand by a tiny set: keep everything else
        if tmp.starts_with("from_sorted") || tmp.starts_with("clear") {
            continue;
        }
        out.push_str(&tmp.replace(" b0", &format!(" {}", b)));
    }
}

/// a sorted selection of chunk keys from the shared pool
fn pick_keys(r: &mut Rng) -> Vec<u32> {
    let want = *r.pick(&[1usize, 2, 2, 3, 3, 4]);
    let mut ks: Vec<u32> = Vec::new();
    while ks.len() < want {
        let k = *r.pick(&KEYS);
        if !ks.contains(&k) {
            ks.push(k);
        }
    }
    ks.sort();
    ks
}

/// Build the operand pair in `b0`, `b1`; returns the name of the right-operand slot (`b1`, or `b0` when the
/// two operands are the very same slot).
fn build_pair(r: &mut Rng, out: &mut String, force_relation: bool) -> &'static str {
    writeln!(out, "new b0").unwrap();
    writeln!(out, "new b1").unwrap();
    let mode = if r.chance(1, 12) {
        203 // both operands from the shared catalogue
    } else if r.chance(1, 14) {
        202 // array chunk against an array chunk that holds all of its values but (at most) one
    } else if r.chance(1, 16) {
        97 // a completely full chunk on one side or on both
    } else if r.chance(1, 14) {
        95 // complements
    } else if r.chance(1, 14) {
        201 // array chunk against a bitset chunk that misses exactly one of its values
    } else if r.chance(1, 8) {
        200 // many chunks
    } else if force_relation {
        40 + r.below(35)
    } else {
        r.below(100)
    };
    match mode {
        // independent per-key recipes, keys shared / left-only / right-only
        0..=39 => {
            let ks = pick_keys(r);
            for &k in &ks {
                let side = r.below(4); // 0,1 both; 2 left only; 3 right only
                if side != 3 {
                    let kind = chunk_kind(r);
                    chunk(r, out, "b0", k, kind);
                }
                if side != 2 {
                    let kind = chunk_kind(r);
                    chunk(r, out, "b1", k, kind);
                }
            }
            if r.chance(1, 4) {
                let n = r.range(1, 3);
                c01_tail(r, out, "b0", 3, n);
            }
            if r.chance(1, 4) {
                let n = r.range(1, 3);
                c01_tail(r, out, "b1", 3, n);
            }
            "b1"
        }
        // identical operands (a clone, or literally the same slot)
        40..=47 => {
            for &k in &pick_keys(r) {
                let kind = chunk_kind(r);
                chunk(r, out, "b0", k, kind);
            }
            // ... sometimes emptied again: the empty set is disjoint from itself, a subset of itself, ...
            match r.below(8) {
                0 => writeln!(out, "clear b0").unwrap(),
                1 => writeln!(out, "remove_range b0 un un").unwrap(),
                2 => writeln!(out, "sub ar b0 b0 b0").unwrap(),
                _ => {}
            }
            if r.chance(1, 3) {
                "b0"
            } else {
                writeln!(out, "clone b1 b0").unwrap();
                "b1"
            }
        }
        // b derived from a: subset (removals), superset (insertions), or both
        48..=69 => {
            let mut known = Vec::new();
            let ks = pick_keys(r);
            for &k in &ks {
                let kind = chunk_kind(r);
                known.extend(chunk(r, out, "b0", k, kind));
            }
            writeln!(out, "clone b1 b0").unwrap();
            let shape = r.below(3); // 0: b ⊂ a, 1: b ⊃ a, 2: neither
            let nmod = r.range(1, 4);
            for _ in 0..nmod {
                let remove = match shape {
                    0 => true,
                    1 => false,
                    _ => r.chance(1, 2),
                };
                let k = *r.pick(&ks);
                let bs = base(k);
                if remove {
                    match r.below(5) {
                        0 => {
                            if !known.is_empty() {
                                let v = known[r.below(known.len() as u64) as usize];
                                writeln!(out, "remove b1 {}", v).unwrap();
                            }
                        }
                        1 => writeln!(out, "remove_smallest b1 {}", *r.pick(&[1u64, 2, 100, 2000, 4096, 5000])).unwrap(),
                        2 => writeln!(out, "remove_biggest b1 {}", *r.pick(&[1u64, 2, 100, 2000, 4096, 5000])).unwrap(),
                        3 => writeln!(out, "remove_range b1 in:{} in:{}", bs, bs + 65535).unwrap(), // a whole key disappears
                        _ => {
                            let v = if known.is_empty() { bs } else { known[r.below(known.len() as u64) as usize] };
                            let n = *r.pick(&[1u64, 64, 500, 3000]);
                            writeln!(out, "remove_range b1 in:{} ex:{}", v, (v + n).min(u32::MAX as u64)).unwrap();
                        }
                    }
                } else {
                    match r.below(4) {
                        0 => writeln!(out, "insert b1 {}", bs + low(r) as u64).unwrap(),
                        1 => {
                            let s = bs + low(r) as u64;
                            let n = *r.pick(&[1u64, 64, 500, 3000, 5000]);
                            writeln!(out, "insert_range b1 in:{} in:{}", s, (s + n - 1).min(bs + 65535)).unwrap();
                        }
                        2 => {
                            // a key that `a` does not have
                            let k2 = *r.pick(&KEYS);
                            let kind = *r.pick(&[0u64, 0, 1, 2]);
                            chunk(r, out, "b1", k2, kind);
                        }
                        _ => {
                            let v = if known.is_empty() { bs } else { known[r.below(known.len() as u64) as usize] };
                            writeln!(out, "insert b1 {}", (v + 1).min(u32::MAX as u64)).unwrap();
                        }
                    }
                }
            }
            if r.chance(1, 2) {
                "b1"
            } else {
                // swap roles so that the derived value is the left operand
                writeln!(out, "clone b3 b0").unwrap();
                writeln!(out, "clone b0 b1").unwrap();
                writeln!(out, "clone b1 b3").unwrap();
                "b1"
            }
        }
        // overlapping blocks in one shared key: results cross 4096 upward / downward / become empty
        70..=84 => {
            let k = *r.pick(&KEYS);
            let bs = base(k);
            let n1 = *r.pick(&[2100u64, 3000, 4000, 4096, 4097, 5000, 6000]);
            let n2 = *r.pick(&[2100u64, 3000, 4000, 4096, 4097, 5000, 6000]);
            let s = *r.pick(&[0u64, 1, 64, 10000, 50000]);
            let d = match r.below(8) {
                0 => 0,
                1 => 1,
                2 => n1 - 1,
                3 => n1,
                4 => n1 + 1,
                5 => n1.saturating_sub(*r.pick(&[100u64, 4095, 4096, 4097])),
                _ => r.below(n1 + 10),
            };
            writeln!(out, "insert_range b0 in:{} in:{}", bs + s, bs + s + n1 - 1).unwrap();
            writeln!(out, "insert_range b1 in:{} in:{}", bs + s + d, bs + s + d + n2 - 1).unwrap();
            // sometimes more chunks around (one-sided keys first / last)
            if r.chance(1, 2) {
                let k2 = *r.pick(&KEYS);
                if k2 != k {
                    let side = if r.chance(1, 2) { "b0" } else { "b1" };
                    chunk(r, out, side, k2, 0);
                }
            }
            if r.chance(1, 4) {
                "b1"
            } else if r.chance(1, 2) {
                // swap sides
                writeln!(out, "clone b3 b0").unwrap();
                writeln!(out, "clone b0 b1").unwrap();
                writeln!(out, "clone b1 b3").unwrap();
                "b1"
            } else {
                "b1"
            }
        }
        // interleaved disjoint arrays (evens / odds …): the union crosses 4096, the intersection is empty
        85..=94 => {
            let k = *r.pick(&KEYS);
            let bs = base(k);
            let stride = *r.pick(&[2u64, 2, 3, 4]);
            let n1 = r.range(2100, 2500);
            let n2 = r.range(2100, 2500);
            let s = r.below(1000);
            extend_stride(out, "b0", bs + s, stride, n1);
            extend_stride(out, "b1", bs + s + 1, stride, n2);
            if r.chance(1, 3) {
                // make them touch in a few points
                writeln!(out, "insert b1 {}", bs + s).unwrap();
                writeln!(out, "insert b1 {}", bs + s + stride * (n1 - 1)).unwrap();
            }
            "b1"
        }
        // exact complements inside one chunk (cardinalities add up to 65536, or miss it by one): dense/dense,
        // and (rarely in C02, because the operators materialise 65536 values) with small remainders
        95..=96 => {
            let k = *r.pick(&KEYS);
            let bs = base(k);
            let cut = *r.pick(&[4097u64, 5000, 30000, 32768, 60000, 61439]);
            let gap = *r.pick(&[0u64, 0, 1]); // 1: one value belongs to neither side
            let extra = *r.pick(&[0u64, 0, 1]); // 1: one value belongs to both sides
            writeln!(out, "insert_range b0 in:{} ex:{}", bs, bs + cut).unwrap();
            writeln!(out, "insert_range b1 in:{} in:{}", bs + cut + gap - extra.min(cut + gap), bs + 65535).unwrap();
            "b1"
        }
        // a completely FULL chunk (all 65536 values; cached cardinality at its maximum, every word all-ones) against: another
        // full chunk, a full chunk missing one value, a nearly full bitset (>= 61440 values, so that the xor / difference
        // with the full chunk has <= 4096 values), a small bitset, an array, and nothing — in either order
        97 => {
            let k = *r.pick(&KEYS);
            let bs = base(k);
            let (l, rr) = if r.chance(1, 2) { ("b0", "b1") } else { ("b1", "b0") };
            writeln!(out, "insert_range {} in:{} in:{}", l, bs, bs + 65535).unwrap();
            match r.below(7) {
                0 | 1 => writeln!(out, "insert_range {} in:{} in:{}", rr, bs, bs + 65535).unwrap(),
                2 => {
                    writeln!(out, "insert_range {} in:{} in:{}", rr, bs, bs + 65535).unwrap();
                    writeln!(out, "remove {} {}", rr, bs + *r.pick(&[0u64, 63, 64, 4096, 65535])).unwrap();
                }
                3 => {
                    // misses t values, t around the array limit
                    let t = *r.pick(&[1u64, 100, 4095, 4096, 4097]);
                    let s = *r.pick(&[0u64, 1, 64, 30000, 65536 - t]);
                    if s > 0 {
                        writeln!(out, "insert_range {} in:{} ex:{}", rr, bs, bs + s).unwrap();
                    }
                    if s + t < 65536 {
                        writeln!(out, "insert_range {} in:{} in:{}", rr, bs + s + t, bs + 65535).unwrap();
                    }
                }
                4 => {
                    let n = r.range(4097, 6000);
                    let s = r.below(65536 - n);
                    writeln!(out, "insert_range {} in:{} ex:{}", rr, bs + s, bs + s + n).unwrap();
                }
                5 => {
                    for _ in 0..r.range(1, 6) {
                        writeln!(out, "insert {} {}", rr, bs + *r.pick(&[0u64, 1, 63, 64, 4095, 4096, 65534, 65535])).unwrap();
                    }
                }
                _ => {}
            }
            // sometimes other chunks around it, on either side
            if r.chance(1, 2) {
                let k2 = *r.pick(&KEYS);
                if k2 != k {
                    writeln!(out, "insert {} {}", *r.pick(&["b0", "b1"]), base(k2) + 5).unwrap();
                }
            }
            "b1"
        }
        // many chunks on one side (33..70 tiny ones), a few on the other: chunk counts that differ by more than 16x,
        // right-hand chunks identical to / overlapping / absent from the left, adjacent in the left's chunk list, at
        // its first and last positions (paths chosen by the relative number of chunks; cursors that resume a search)
        200 => {
            // (ratios of 32x, 64x and more between the chunk counts: up to 140 chunks against 1..4)
            let n = if r.chance(1, 3) { r.range(70, 140) } else { r.range(33, 70) };
            let k0 = *r.pick(&[0u64, 0, 3, 0xFFFF - n]);
            let mut big = String::new();
            let mut vals: Vec<(u64, Vec<u64>)> = Vec::new();
            for i in 0..n {
                let k = k0 + i;
                let mut vs = Vec::new();
                for _ in 0..r.range(1, 3) {
                    vs.push((k << 16) + *r.pick(&[0u64, 1, 5, 63, 64, 4095, 65535]));
                }
                vs.sort_unstable();
                vs.dedup();
                for v in &vs {
                    write!(big, " {}", v).unwrap();
                }
                vals.push((k, vs));
            }
            let nsmall = r.range(1, 4);
            let at = match r.below(6) {
                0 | 1 => 0,
                2 | 3 => n - nsmall.min(n), // the right operand's chunks are the LAST chunks of the left
                _ => r.below(n - nsmall + 1),
            };
            let mut small = String::new();
            for j in 0..nsmall {
                let (k, vs) = &vals[(at + j) as usize];
                match r.below(5) {
                    0 | 1 => {
                        for v in vs {
                            write!(small, " {}", v).unwrap(); // identical chunk: cancels in xor / sub, stays in and
                        }
                    }
                    2 => write!(small, " {} {}", vs[0], (k << 16) + 7).unwrap(), // overlapping
                    3 => write!(small, " {}", (k << 16) + 9).unwrap(),           // disjoint inside the same chunk
                    _ => {}                                                       // not on the right at all
                }
            }
            if r.chance(1, 5) {
                write!(small, " {}", ((k0 + n) << 16).min(u32::MAX as u64)).unwrap(); // a chunk beyond the left's last
            }
            let (l, rr) = if r.chance(2, 3) { ("b0", "b1") } else { ("b1", "b0") };
            writeln!(out, "from_iter {}{}", l, big).unwrap();
            writeln!(out, "from_iter {}{}", rr, small).unwrap();
            "b1"
        }
        // near-subset across representations: b0 = an array chunk; b1 = the same values inside a bitset chunk, minus ONE value
        // of b0 (its last / first / a middle one, i.e. in the last / first / an inner 64-bit word the array touches) or
        // minus none: is_subset must notice a single missing value wherever it sits
        201 => {
            let k = *r.pick(&KEYS);
            let bs = base(k);
            let mut vals: Vec<u64> = Vec::new();
            let n = *r.pick(&[1u64, 2, 5, 40, 300]);
            let mut v = bs + r.below(3000);
            for _ in 0..n {
                vals.push(v);
                v += *r.pick(&[1u64, 2, 63, 64, 65, 200]);
            }
            let s: Vec<String> = vals.iter().map(|x| x.to_string()).collect();
            writeln!(out, "from_iter b0 {}", s.join(" ")).unwrap();
            writeln!(out, "clone b1 b0").unwrap();
            // the padding that makes b1's chunk a bitset: a block that covers all of b0's values, or none of them
            let last = *vals.last().unwrap();
            if r.chance(1, 2) {
                writeln!(out, "insert_range b1 in:{} in:{}", bs, (last + 5000).min(bs + 65535)).unwrap();
            } else {
                writeln!(out, "insert_range b1 in:{} in:{}", (last + 100).min(bs + 60000), (last + 100).min(bs + 60000) + 5000).unwrap();
            }
            match r.below(5) {
                0 | 1 => writeln!(out, "remove b1 {}", last).unwrap(),
                2 => writeln!(out, "remove b1 {}", vals[0]).unwrap(),
                3 => writeln!(out, "remove b1 {}", vals[vals.len() / 2]).unwrap(),
                _ => {}
            }
            "b1"
        }
        // both operands from the shared catalogue (gen/zoo.rs): an independent pair, or the second a variation of the first
        // (one run dropped / shortened by a value / one value added / every other run): subsets, supersets, near-equal sets
        203 => {
            let (mut t, _) = super::zoo::zoo_target(r);
            if super::zoo::card(&t) > 140000 {
                t.truncate(1);
            }
            let mut t2 = super::zoo::vary(r, &t);
            if super::zoo::card(&t2) > 140000 {
                t2.truncate(1);
            }
            let (l, rr) = if r.chance(1, 2) { ("b0", "b1") } else { ("b1", "b0") };
            super::zoo::build_target(r, out, l, &t);
            super::zoo::build_target(r, out, rr, &t2);
            "b1"
        }
        // near-subset inside one representation: b1 = an array chunk with values from the boundary pool (often 0 and/or 65535,
        // the extreme values of a chunk); b0 = a selection of b1's values plus at most ONE value that b1 lacks — below all of
        // b1, above all of it (the chunk's last value 65535 included), or in between — and never longer than b1, so that no
        // cardinality shortcut decides the relation
        202 => {
            let k = *r.pick(&KEYS);
            let bs = base(k);
            let n = *r.pick(&[1u64, 2, 3, 8, 40, 300]);
            let mut right: Vec<u64> = Vec::new();
            for _ in 0..n {
                right.push(match r.below(4) {
                    0 => *r.pick(&[0u64, 1, 2, 63, 64, 65, 4095, 4096, 65534]),
                    _ => r.below(65535),
                });
            }
            if r.chance(1, 4) {
                right.push(65535);
            }
            right.sort_unstable();
            right.dedup();
            let mut left: Vec<u64> = right.iter().copied().filter(|_| r.chance(2, 3)).collect();
            if left.len() == right.len() && left.len() > 1 {
                left.remove(r.below(left.len() as u64) as usize);
            }
            let extra = match r.below(6) {
                0 | 1 => Some(65535u64),
                2 => Some(0),
                3 => Some(right[right.len() / 2] + 1),
                4 => Some(right[right.len() - 1].saturating_add(1).min(65535)),
                _ => None,
            };
            if let Some(e) = extra {
                if !right.contains(&e) {
                    left.push(e);
                }
            }
            left.sort_unstable();
            left.dedup();
            let show = |v: &[u64]| v.iter().map(|x| (bs + x).to_string()).collect::<Vec<_>>().join(" ");
            let (l, rr) = if r.chance(3, 4) { ("b0", "b1") } else { ("b1", "b0") };
            if !left.is_empty() {
                writeln!(out, "from_iter {} {}", l, show(&left)).unwrap();
            }
            writeln!(out, "from_iter {} {}", rr, show(&right)).unwrap();
            "b1"
        }
        // one side empty (or both)
        _ => {
            let which = r.below(3);
            if which != 0 {
                for &k in &pick_keys(r) {
                    let kind = chunk_kind(r);
                    chunk(r, out, if which == 1 { "b0" } else { "b1" }, k, kind);
                }
            }
            "b1"
        }
    }
}

fn relations(out: &mut String, l: &str, r: &str) {
    for q in ["is_subset", "is_superset", "is_disjoint", "inter_len", "union_len", "diff_len", "xor_len"] {
        writeln!(out, "{} {} {}", q, l, r).unwrap();
    }
}

pub fn gen_case(r: &mut Rng, out: &mut String, c08: bool) {
    let force = c08 && r.chance(1, 2);
    let rslot = build_pair(r, out, force);
    writeln!(out, "dump b0").unwrap();
    if rslot != "b0" {
        writeln!(out, "dump b1").unwrap();
    }
    if c08 {
        relations(out, "b0", rslot);
        if rslot != "b0" {
            relations(out, rslot, "b0");
        }
        // the materialised operations, for the "hence the len() of the materialised operations" half
        for op in OPS {
            writeln!(out, "{} rr b2 b0 {}", op, rslot).unwrap();
            writeln!(out, "len b2").unwrap();
        }
        // a second, derived right operand: the intersection / union are sub- and supersets by construction
        writeln!(out, "and rr b2 b0 {}", rslot).unwrap();
        relations(out, "b2", "b0");
        relations(out, "b0", "b2");
        writeln!(out, "or rr b2 b0 {}", rslot).unwrap();
        relations(out, "b0", "b2");
        relations(out, "b2", rslot);
        return;
    }
    for op in OPS {
        for form in FORMS {
            if form == "ao" || form == "ar" {
                writeln!(out, "clone b3 b0").unwrap();
                writeln!(out, "{} {} b2 b3 {}", op, form, if rslot == "b0" { "b3" } else { rslot }).unwrap();
                writeln!(out, "dump b2").unwrap();
                writeln!(out, "eq b2 b3").unwrap();
            } else {
                writeln!(out, "{} {} b2 b0 {}", op, form, rslot).unwrap();
                writeln!(out, "dump b2").unwrap();
            }
        }
    }
    // the operands themselves, at the end
    writeln!(out, "dumpset b0").unwrap();
    writeln!(out, "dumpset b1").unwrap();
}
