//! C01 / C07: histories of mixed mutators (with a `dump` after each), optionally with query batches.
use super::common::*;
use crate::rng::Rng;
use std::fmt::Write as _;

fn steer_4096(r: &mut Rng, out: &mut String, b: &str, nkeys: usize) {
    // bring one chunk to a population next to 4096 with a range, then cross the limit with single ops
    let k = key(r, nkeys) as u64;
    let base = k << 16;
    let start = base + *r.pick(&[0u64, 1, 64, 1000, 61000]);
    let n = *r.pick(&[4094u64, 4095, 4096, 4097, 4098]);
    let end = (start + n).min(base + 65536);
    writeln!(out, "remove_range {} in:{} in:{}", b, base, base + 65535).unwrap();
    writeln!(out, "insert_range {} in:{} ex:{}", b, start, end).unwrap();
    writeln!(out, "dump {}", b).unwrap();
    writeln!(out, "probe {}", b).unwrap();
    for _ in 0..r.range(1, 5) {
        match r.below(6) {
            0 => writeln!(out, "insert {} {}", b, end.min(base + 65535)).unwrap(),
            1 => writeln!(out, "insert {} {}", b, (end + 1).min(base + 65535)).unwrap(),
            2 => writeln!(out, "remove {} {}", b, start).unwrap(),
            3 => writeln!(out, "remove {} {}", b, start + 1).unwrap(),
            4 => writeln!(out, "push {} {}", b, (end + 2).min(base + 65535)).unwrap(),
            _ => writeln!(out, "remove_range {} in:{} in:{}", b, start + 5, start + 5 + r.below(3)).unwrap(),
        }
        writeln!(out, "dump {}", b).unwrap();
    }
}

/// remove_smallest / remove_biggest with n EXACTLY the cardinality of the leading / trailing chunk(s): the emptied chunk
/// must disappear (is_empty, min, max, == afterwards), also when everything goes
fn steer_exact_trim(r: &mut Rng, out: &mut String, b: &str, nkeys: usize) {
    let k = key(r, nkeys) as u64;
    let base = k << 16;
    let smallest = r.chance(1, 2);
    // make chunk k the first (last) chunk, with a known population
    if smallest {
        writeln!(out, "remove_range {} un in:{}", b, base + 65535).unwrap();
    } else {
        writeln!(out, "remove_range {} in:{} un", b, base).unwrap();
    }
    let n = *r.pick(&[1u64, 2, 64, 4095, 4096, 4097, 5000]);
    let s = base + *r.pick(&[0u64, 1, 1000, 60000]);
    let n = n.min(base + 65536 - s);
    writeln!(out, "insert_range {} in:{} in:{}", b, s, s + n - 1).unwrap();
    // sometimes a second whole chunk goes with it
    let mut total = n;
    let k2 = if smallest { k.checked_sub(1) } else if k < 0xFFFF { Some(k + 1) } else { None };
    if let (Some(k2), true) = (k2, r.chance(1, 3)) {
        let m = *r.pick(&[1u64, 3, 4097]);
        writeln!(out, "insert_range {} in:{} in:{}", b, (k2 << 16) + 5, (k2 << 16) + 5 + m - 1).unwrap();
        total += m;
    }
    writeln!(out, "dump {}", b).unwrap();
    let n_arg = match r.below(6) {
        0 => total - 1,
        1 => total + 1,
        _ => total,
    };
    writeln!(out, "{} {} {}", if smallest { "remove_smallest" } else { "remove_biggest" }, b, n_arg).unwrap();
    writeln!(out, "dump {}", b).unwrap();
    writeln!(out, "is_empty {}", b).unwrap();
    writeln!(out, "min {}", b).unwrap();
    writeln!(out, "max {}", b).unwrap();
    writeln!(out, "len {}", b).unwrap();
    writeln!(out, "clone b8 {}", b).unwrap();
    writeln!(out, "eq b8 {}", b).unwrap();
}

/// remove_smallest / remove_biggest on a bitset chunk that stays a bitset, where the removal ends exactly on (or next to) a
/// 64-bit word boundary (the cached cardinality must follow)
fn steer_word_trim(r: &mut Rng, out: &mut String, b: &str, nkeys: usize) {
    let k = key(r, nkeys) as u64;
    let base = k << 16;
    let smallest = r.chance(1, 2);
    if smallest {
        writeln!(out, "remove_range {} un in:{}", b, base + 65535).unwrap();
    } else {
        writeln!(out, "remove_range {} in:{} un", b, base).unwrap();
    }
    let w0 = r.below(200) * 64;
    let n = r.range(9000, 12000) / 64 * 64 + *r.pick(&[0u64, 0, 1, 63]);
    writeln!(out, "insert_range {} in:{} in:{}", b, base + w0, base + w0 + n - 1).unwrap();
    let cut = r.range(1, 60) * 64 + *r.pick(&[0u64, 0, 0, 1, 63]);
    writeln!(out, "{} {} {}", if smallest { "remove_smallest" } else { "remove_biggest" }, b, cut).unwrap();
    writeln!(out, "dump {}", b).unwrap();
    writeln!(out, "len {}", b).unwrap();
    writeln!(out, "clone b8 {}", b).unwrap();
    writeln!(out, "eq b8 {}", b).unwrap();
}

/// a range query across a HOLE: chunks k and k+1 populated up to the chunk edge, chunk k+2 absent, chunk k+3 populated
/// from its first value (a lookup by position instead of by key finds the wrong chunk)
fn steer_hole(r: &mut Rng, out: &mut String, b: &str) {
    let k = *r.pick(&[0u64, 1, 5, 0xFFF0]);
    let base = k << 16;
    writeln!(out, "remove_range {} in:{} in:{}", b, base, base + 4 * 65536 + 65535).unwrap();
    let a = base + *r.pick(&[0u64, 100, 32768, 65000]);
    writeln!(out, "insert_range {} in:{} in:{}", b, a, base + 65535).unwrap();
    if r.chance(3, 4) {
        writeln!(out, "insert_range {} in:{} in:{}", b, base + 65536, base + 2 * 65536 - 1).unwrap();
    }
    let gap = r.range(1, 2); // absent chunks
    let far = base + (2 + gap) * 65536;
    let m = *r.pick(&[1u64, 0x100, 5000]);
    writeln!(out, "insert_range {} in:{} in:{}", b, far, far + m - 1).unwrap();
    writeln!(out, "dump {}", b).unwrap();
    for _ in 0..3 {
        let lo = a + r.below(3);
        let hi = match r.below(4) {
            0 => far,
            1 => far + m - 1,
            2 => far + m / 2,
            _ => far - 1 - r.below(65536),
        };
        writeln!(out, "contains_range {} in:{} in:{}", b, lo, hi).unwrap();
        writeln!(out, "range_cardinality {} in:{} in:{}", b, lo, hi).unwrap();
    }
}

/// a bitset chunk whose TOPMOST 64-bit word is completely set shrinks to <= 4096 values (bitset -> array conversion with
/// the word 65472..=65535 full)
fn steer_top_word(r: &mut Rng, out: &mut String, b: &str, nkeys: usize) {
    let base = (key(r, nkeys) as u64) << 16;
    let lo = base + 65536 - *r.pick(&[64u64, 128, 1000, 4000]);
    writeln!(out, "remove_range {} in:{} in:{}", b, base, base + 65535).unwrap();
    writeln!(out, "insert_range {} in:{} in:{}", b, lo, base + 65535).unwrap();
    let x = r.range(4097, 6000);
    writeln!(out, "insert_range {} in:{} in:{}", b, base + 10, base + 10 + x - 1).unwrap();
    writeln!(out, "dump {}", b).unwrap();
    match r.below(3) {
        0 => writeln!(out, "remove_range {} in:{} in:{}", b, base + 10, base + 10 + x - 100).unwrap(),
        1 => writeln!(out, "remove_smallest {} {}", b, x - r.below(50)).unwrap(),
        _ => {
            writeln!(out, "remove_range {} in:{} in:{}", b, base + 10, base + 10 + x - 4096 + (base + 65536 - lo)).unwrap();
            writeln!(out, "remove {} {}", b, base + 10 + x - 1).unwrap();
        }
    }
    writeln!(out, "dump {}", b).unwrap();
    writeln!(out, "len {}", b).unwrap();
    writeln!(out, "max {}", b).unwrap();
}

pub fn queries(r: &mut Rng, out: &mut String, b: &str, nkeys: usize) {
    writeln!(out, "len {}", b).unwrap();
    writeln!(out, "is_empty {}", b).unwrap();
    writeln!(out, "min {}", b).unwrap();
    writeln!(out, "max {}", b).unwrap();
    writeln!(out, "is_full {}", b).unwrap();
    for _ in 0..4 {
        let v = value(r, nkeys);
        writeln!(out, "contains {} {}", b, v).unwrap();
        writeln!(out, "rank {} {}", b, v).unwrap();
        if v > 0 {
            writeln!(out, "rank {} {}", b, v - 1).unwrap();
        }
    }
    for _ in 0..4 {
        let n = match r.below(6) {
            0 => 0,
            1 => r.below(10),
            2 => *r.pick(&[4095u64, 4096, 4097, 65535, 65536]),
            3 => r.below(200000),
            4 => u32::MAX as u64,
            _ => r.below(5000),
        };
        writeln!(out, "select {} {}", b, n).unwrap();
    }
    for _ in 0..4 {
        let (lo, hi) = range_tokens(r, nkeys, 3);
        writeln!(out, "range_cardinality {} {} {}", b, lo, hi).unwrap();
        writeln!(out, "contains_range {} {} {}", b, lo, hi).unwrap();
    }
    // queries derived from the runs of the value itself (exactly a run, one more on either side, ranks / selects at
    // its ends)
    writeln!(out, "probe {}", b).unwrap();
    // ranges spanning several chunks, and everything
    let a = value(r, nkeys) as u64;
    let z = (a + r.range(65536, 4 * 65536)).min(u32::MAX as u64);
    writeln!(out, "range_cardinality {} in:{} in:{}", b, a, z).unwrap();
    writeln!(out, "contains_range {} in:{} in:{}", b, a, z).unwrap();
    if r.chance(1, 3) {
        writeln!(out, "range_cardinality {} un un", b).unwrap();
        writeln!(out, "contains_range {} un un", b).unwrap();
        writeln!(out, "range_cardinality {} in:0 in:4294967295", b).unwrap();
    }
}

/// one random C01 mutator on slot `b0` (no `dump`); shared with the operand builders of other profiles
pub fn mutator(r: &mut Rng, out: &mut String, nkeys: usize) {
    {
        match r.below(30) {
            27 => {
                if r.chance(1, 2) {
                    steer_exact_trim(r, out, "b0", nkeys)
                } else {
                    steer_word_trim(r, out, "b0", nkeys)
                }
            }
            28 => steer_hole(r, out, "b0"),
            29 => steer_top_word(r, out, "b0", nkeys),
            24..=26 => {
                // a sparse chunk (no two adjacent values) big enough to be a bitset, or just below the limit
                let base = (key(r, nkeys) as u64) << 16;
                let step = *r.pick(&[2u64, 3, 5, 7, 11, 13]);
                let count = (*r.pick(&[4000u64, 4096, 4097, 4100, 4500, 5000, 6000])).min(65535 / step);
                let start = base + r.below(step);
                let count = count.min((base + 65536 - start + step - 1) / step);
                sparse_ops(out, "b0", "b9", start, step, count)
            }
            0..=4 => writeln!(out, "insert b0 {}", value(r, nkeys)).unwrap(),
            5..=6 => writeln!(out, "remove b0 {}", value(r, nkeys)).unwrap(),
            7..=10 => {
                let (lo, hi) = range_tokens(r, nkeys, 3);
                writeln!(out, "insert_range b0 {} {}", lo, hi).unwrap()
            }
            11..=13 => {
                let (lo, hi) = range_tokens(r, nkeys, 3);
                writeln!(out, "remove_range b0 {} {}", lo, hi).unwrap()
            }
            14 => writeln!(out, "push b0 {}", value(r, nkeys)).unwrap(),
            15 => {
                // append: ascending run starting somewhere, sometimes with an out-of-order value inside
                let mut v = value(r, nkeys) as u64;
                let n = r.range(0, 12);
                let bad = if r.chance(1, 3) { r.below(n + 1) } else { u64::MAX };
                let mut s = String::new();
                for i in 0..n {
                    if i == bad {
                        v = v.saturating_sub(r.range(0, 3));
                    } else {
                        v += *r.pick(&[1u64, 1, 2, 63, 64, 4096, 65535, 65536]);
                    }
                    if v > u32::MAX as u64 {
                        break;
                    }
                    write!(s, " {}", v).unwrap();
                }
                writeln!(out, "append b0{}", s).unwrap()
            }
            16 => {
                let s = join_vals(&structured_seq(r, 20, 65536, u32::MAX as u64, &mut |r| value(r, nkeys) as u64));
                writeln!(out, "extend b0{}", s).unwrap()
            }
            17 => {
                if r.chance(1, 4) {
                    writeln!(out, "clear b0").unwrap()
                } else {
                    writeln!(out, "push b0 {}", u32::MAX as u64 - r.below(3)).unwrap()
                }
            }
            18..=19 => {
                let n = match r.below(10) {
                    0 => 0,
                    1 => 1,
                    2 | 8 | 9 => r.below(100),
                    3 => *r.pick(&[4095u64, 4096, 4097, 65535, 65536, 65537]),
                    4 => r.below(200000),
                    5 => 1u64 << 40,
                    6 => u64::MAX,
                    _ => r.below(5000),
                };
                let which = if r.chance(1, 2) { "remove_smallest" } else { "remove_biggest" };
                writeln!(out, "{} b0 {}", which, n).unwrap()
            }
            20..=22 => steer_4096(r, out, "b0", nkeys),
            _ => {
                let n = r.range(0, 6);
                let mut s = String::new();
                let mut v = value(r, nkeys) as u64;
                for _ in 0..n {
                    write!(s, " {}", v).unwrap();
                    v = (v + r.range(1, 70000)).min(u32::MAX as u64);
                }
                writeln!(out, "from_sorted b0{}", s).unwrap()
            }
        }
    }
}

pub fn gen_case(r: &mut Rng, out: &mut String, with_queries: bool) {
    let nkeys = r.range(1, 6) as usize;
    let nops = r.range(5, 40);
    writeln!(out, "new b0").unwrap();
    if r.chance(1, 6) {
        // the history starts from a value of the shared catalogue (gen/zoo.rs) instead of the empty bitmap
        super::zoo::zoo_build(r, out, "b0");
        writeln!(out, "dump b0").unwrap();
        if with_queries {
            queries(r, out, "b0", nkeys);
        }
    }
    if r.chance(1, 10) {
        // dozens of tiny chunks around the ones the history works on
        writeln!(out, "extend b0{}", many_chunk_values(r)).unwrap();
        writeln!(out, "dump b0").unwrap();
    }
    // values known to have been inserted (single inserts and the two ends of inserted ranges), for removals / queries whose
    // bounds sit EXACTLY on such a value or on the edge of its chunk
    let mut marks: Vec<u64> = Vec::new();
    for _ in 0..nops {
        let from = out.len();
        mutator(r, out, nkeys);
        for line in out[from..].lines() {
            let t: Vec<&str> = line.split(' ').collect();
            match t.as_slice() {
                ["insert", "b0", v] => marks.extend(v.parse::<u64>().ok()),
                ["insert_range", "b0", lo, hi] => {
                    let inc = |x: &str, lower: bool| -> Option<u64> {
                        if let Some(v) = x.strip_prefix("in:") {
                            v.parse().ok()
                        } else if let Some(v) = x.strip_prefix("ex:") {
                            let v: u64 = v.parse().ok()?;
                            if lower { Some(v + 1) } else { v.checked_sub(1) }
                        } else {
                            None
                        }
                    };
                    if let (Some(a), Some(b)) = (inc(lo, true), inc(hi, false)) {
                        if a <= b && b <= u32::MAX as u64 {
                            marks.push(a);
                            marks.push(b);
                        }
                    }
                }
                _ => {}
            }
        }
        writeln!(out, "dump b0").unwrap();
        if !marks.is_empty() && r.chance(1, 8) {
            let a = *r.pick(&marks);
            let b = *r.pick(&marks);
            let (a, b) = if a <= b { (a, b) } else { (b, a) };
            let lo = match r.below(5) {
                0 => "un".to_string(),
                1 => format!("in:{}", a & !0xFFFF), // the start of a's chunk
                2 if a > 0 => format!("ex:{}", a - 1),
                _ => format!("in:{}", a),
            };
            let hi = match r.below(5) {
                0 => "un".to_string(),
                1 => format!("in:{}", b | 0xFFFF), // the end of b's chunk
                2 if b < u32::MAX as u64 => format!("ex:{}", b + 1),
                _ => format!("in:{}", b),
            };
            if with_queries {
                writeln!(out, "contains_range b0 {} {}", lo, hi).unwrap();
                writeln!(out, "range_cardinality b0 {} {}", lo, hi).unwrap();
            }
            if r.chance(1, 3) {
                // an insertion that STARTS (or ends) exactly on a value that is already there, of a length around the limits
                let len = range_len(r);
                if r.chance(1, 2) {
                    writeln!(out, "insert_range b0 in:{} in:{}", a, (a + len - 1).min(u32::MAX as u64)).unwrap();
                } else {
                    writeln!(out, "insert_range b0 in:{} in:{}", b.saturating_sub(len - 1), b).unwrap();
                }
            } else {
                writeln!(out, "remove_range b0 {} {}", lo, hi).unwrap();
            }
            writeln!(out, "dump b0").unwrap();
        }
        if with_queries && r.chance(1, 3) {
            queries(r, out, "b0", nkeys);
        }
    }
    if r.chance(1, 12) {
        // a range spanning three or more chunks whose interior chunk is (usually) already populated; kept for the
        // end of the case because the value then holds > 65536 elements
        let k0 = *r.pick(&[0u64, 0, 0xFFFD]);
        writeln!(out, "insert b0 {}", ((k0 + 1) << 16) + low(r) as u64).unwrap();
        if r.chance(1, 2) {
            let (lo, hi) = range_tokens(r, 1, 1);
            let _ = (lo, hi);
            writeln!(out, "insert_range b0 in:{} in:{}", ((k0 + 1) << 16) + 100, ((k0 + 1) << 16) + 100 + range_len(r).min(60000)).unwrap();
        }
        let s = (k0 << 16) + low(r) as u64;
        let e = ((k0 + 2) << 16) + low(r) as u64;
        writeln!(out, "insert_range b0 in:{} in:{}", s, e).unwrap();
        writeln!(out, "dump b0").unwrap();
        writeln!(out, "insert_range b0 in:{} in:{}", s, e).unwrap();
        if r.chance(1, 2) {
            writeln!(out, "remove_range b0 in:{} in:{}", s + 1, e - 1).unwrap();
            writeln!(out, "dump b0").unwrap();
        }
    }
    // trait-impl glue: clone_from over a dirty destination, Default, Extend<&u32>, FromIterator<&u32>, From<[u32; N]>,
    // `for x in &bitmap`
    if r.chance(1, 3) {
        writeln!(out, "new b8").unwrap();
        writeln!(out, "insert_range b8 in:3 ex:4500").unwrap();
        writeln!(out, "clone_from b8 b0").unwrap();
        writeln!(out, "eq b8 b0").unwrap();
        writeln!(out, "expect true").unwrap();
        writeln!(out, "default b7").unwrap();
        let vs: Vec<String> = structured_seq(r, 4, 65536, u32::MAX as u64, &mut |r| value(r, nkeys) as u64)
            .iter()
            .map(|x| x.to_string())
            .collect();
        writeln!(out, "extend_ref b7 {}", vs.join(" ")).unwrap();
        writeln!(out, "from_iter_ref b6 {}", vs.join(" ")).unwrap();
        writeln!(out, "from_arr b5 {}", vs.join(" ")).unwrap();
        writeln!(out, "eq b6 b7").unwrap();
        writeln!(out, "expect true").unwrap();
        writeln!(out, "eq b5 b7").unwrap();
        writeln!(out, "expect true").unwrap();
        writeln!(out, "dump b7").unwrap();
        writeln!(out, "for_ref b0").unwrap();
        writeln!(out, "first_last b0").unwrap();
    }
    if with_queries {
        queries(r, out, "b0", nkeys);
    }
}
