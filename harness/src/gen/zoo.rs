//! The value zoo: ONE catalogue of structurally interesting sets shared by the profiles.
//!
//! Every round of seeded changes showed the same kind of blind spot: profile X never built a shape that profile Y did
//! (full chunks in the multi-op profile but not in the iterator profile, producers of the equality profile but not of the
//! codec profile, …). The zoo is the cross product the profiles draw from instead of keeping private pools:
//! `zoo_target` = a set as canonical runs `(start, len)` made of per-chunk shapes (the special structures an
//! implementation may treat specially: empty, a single extreme value, exactly / one off the 4096 array limit, one-gap
//! runs, stripes, sparse and dense bitsets, the FULL chunk, full minus a value / a word / a half) laid out over 1–4 chunks
//! of the shared key pool, dozens of tiny chunks, or runs that cross chunk edges / cover whole chunks exactly;
//! `zoo_build` = that set built in a slot by one of the public producers of the C04 profile that is cheap enough for it.
use super::c04;
use super::common::KEYS;
use crate::rng::Rng;

/// the low parts of one chunk as runs `(start, len)` (ascending, disjoint, non-adjacent unless stated)
pub fn chunk_shape(r: &mut Rng) -> (Vec<(u32, u32)>, &'static str) {
    match r.below(22) {
        0 => (vec![(*r.pick(&[0u32, 1, 63, 64, 4095, 4096, 65534, 65535]), 1)], "single"),
        1 => (vec![(0, 1), (65535, 1)], "both-extremes"),
        2 => {
            // exactly / one off the array limit, one solid run placed at a start, a word edge, or up to the chunk's end
            let n = *r.pick(&[4095u32, 4096, 4096, 4097]);
            let s = *r.pick(&[0u32, 1, 64, 30000, 65536 - n]);
            (vec![(s, n)], "run~4096")
        }
        3 => {
            // exactly / one off the array limit, NOT contiguous: blocks of `bl` every `bl + gap`
            let n = *r.pick(&[4095u32, 4096, 4096, 4097]);
            let bl = *r.pick(&[1u32, 2, 63, 64, 65, 100]);
            let gap = *r.pick(&[1u32, 2, 64]);
            let s0 = *r.pick(&[0u32, 1, 64, 1000]);
            let mut v = Vec::new();
            let mut left = n;
            let mut pos = s0;
            while left > 0 && pos < 65536 {
                let l = bl.min(left).min(65536 - pos);
                v.push((pos, l));
                left -= l;
                pos += l + gap;
            }
            // blocks of length 1 would be thousands of runs: keep the run list short enough for the list model
            if v.len() > 700 {
                let keep: u32 = v[..700].iter().map(|x| x.1).sum();
                v.truncate(700);
                let last = v[699].0 + v[699].1 + gap;
                if n > keep && last + (n - keep) <= 65536 {
                    v.push((last, n - keep));
                }
            }
            (v, "blocks~4096")
        }
        4 => {
            // a run with exactly ONE gap inside (array- or bitset-sized)
            let n = *r.pick(&[64u32, 65, 200, 3000, 4097, 5000]);
            let s = *r.pick(&[0u32, 1, 63, 64, 10000, 65536 - n - 1]);
            let g = *r.pick(&[1u32, 63, 64, n / 2, n - 1]);
            (vec![(s, g), (s + g + 1, n - g)], "one-gap-run")
        }
        5 => (vec![(0, 65536)], "full"),
        6 => {
            // full minus one value
            let h = *r.pick(&[0u32, 1, 63, 64, 32768, 65534, 65535]);
            let mut v = Vec::new();
            if h > 0 {
                v.push((0, h));
            }
            if h < 65535 {
                v.push((h + 1, 65535 - h));
            }
            (v, "full-minus-one")
        }
        7 => {
            // full minus one aligned 64-bit word / minus t values around the array limit (the complement is tiny or ~4096)
            let t = *r.pick(&[64u32, 4095, 4096, 4097]);
            let s = *r.pick(&[0u32, 64, 65536 - t, 64 * 500]);
            let mut v = Vec::new();
            if s > 0 {
                v.push((0, s));
            }
            if s + t < 65536 {
                v.push((s + t, 65536 - s - t));
            }
            (v, "full-minus-block")
        }
        8 => (vec![(*r.pick(&[0u32, 32768]), 32768)], "half"),
        9 => {
            // stripes: 64 set / 64 clear over a window (every other word full)
            let w0 = *r.pick(&[0u32, 1, 400]) * 64;
            let nw = *r.pick(&[40u32, 100, 300]);
            ((0..nw).map(|i| (w0 + i * 128, 64)).filter(|x| x.0 + 64 <= 65536).collect(), "word-stripes")
        }
        10 => {
            // values at word edges
            let mut v = Vec::new();
            let mut k = r.below(8) as u32;
            for _ in 0..r.range(1, 6) {
                let w = k * 64;
                v.push((w.saturating_sub(1), if w == 0 { 1 } else { 3 }.min(65536 - w.saturating_sub(1))));
                k += r.range(2, 200) as u32;
                if k >= 1023 {
                    break;
                }
            }
            (v, "word-edges")
        }
        11 | 12 => {
            // sparse array
            let mut xs: Vec<u32> = (0..r.range(2, 50)).map(|_| r.below(65536) as u32).collect();
            xs.sort_unstable();
            xs.dedup();
            let mut v: Vec<(u32, u32)> = Vec::new();
            for x in xs {
                match v.last_mut() {
                    Some(l) if l.0 + l.1 == x => l.1 += 1,
                    _ => v.push((x, 1)),
                }
            }
            (v, "sparse-array")
        }
        13 | 14 => {
            // a few runs, array-sized
            let mut v = Vec::new();
            let mut pos = r.below(3000) as u32;
            for _ in 0..r.range(1, 8) {
                let l = *r.pick(&[1u32, 2, 3, 63, 64, 65, 300, 1000]);
                if pos + l > 65536 {
                    break;
                }
                v.push((pos, l));
                pos += l + *r.pick(&[1u32, 2, 64, 5000]);
            }
            if v.is_empty() {
                v.push((7, 1));
            }
            (v, "few-runs")
        }
        15 | 16 => {
            // bitset, sparse: ~70 blocks
            let mut v = Vec::new();
            let mut pos = r.below(500) as u32;
            let bl = *r.pick(&[60u32, 64, 70, 100]);
            for _ in 0..r.range(45, 90) {
                if pos + bl > 65536 {
                    break;
                }
                v.push((pos, bl));
                pos += bl + *r.pick(&[1u32, 30, 64, 600]);
            }
            (v, "bitset-blocks")
        }
        17 => {
            // bitset, one dense run + values at both ends of the chunk
            let n = r.range(4100, 9000) as u32;
            let s = 64 * r.range(2, 800) as u32;
            let mut v = vec![(0, r.range(1, 64) as u32)];
            v.push((s.max(200), n.min(65000 - s.max(200))));
            v.push((65536 - r.range(1, 64) as u32, 0));
            let last = v.len() - 1;
            v[last].1 = 65536 - v[last].0;
            (v, "bitset-run+ends")
        }
        18 => (vec![(65536 - *r.pick(&[1u32, 64, 4096, 4097]), 0)].into_iter().map(|(s, _)| (s, 65536 - s)).collect(), "tail"),
        19 => (vec![(0, *r.pick(&[1u32, 64, 4096, 4097]))], "head"),
        _ => {
            // two runs around the middle word boundary
            let m = 32768u32;
            (vec![(m - *r.pick(&[1u32, 64, 2000]), *r.pick(&[1u32, 64, 2000])), (m + 1, *r.pick(&[1u32, 63, 3000]))], "mid-edge")
        }
    }
}

fn canon(mut runs: Vec<(u32, u32)>) -> Vec<(u32, u32)> {
    runs.retain(|x| x.1 > 0);
    runs.sort_unstable();
    let mut out: Vec<(u32, u32)> = Vec::new();
    for (s, l) in runs {
        if let Some(last) = out.last_mut() {
            let end = last.0 as u64 + last.1 as u64;
            if (s as u64) <= end {
                let nend = (s as u64 + l as u64).max(end);
                last.1 = (nend - last.0 as u64) as u32;
                continue;
            }
        }
        out.push((s, l));
    }
    out
}

/// a set from the catalogue, as canonical runs over the `u32` universe, with a description
pub fn zoo_target(r: &mut Rng) -> (Vec<(u32, u32)>, String) {
    let mut runs: Vec<(u32, u32)> = Vec::new();
    let mut what = String::new();
    match r.below(12) {
        0 => {
            // dozens of tiny chunks (33..140) around one catalogue chunk
            let n = if r.chance(1, 3) { r.range(70, 140) } else { r.range(33, 70) } as u32;
            let k0 = *r.pick(&[0u32, 3, 0xFFFF - n]);
            for i in 0..n {
                if r.chance(1, 10) {
                    continue;
                }
                let k = k0 + i;
                for _ in 0..r.range(1, 3) {
                    runs.push(((k << 16) + *r.pick(&[0u32, 1, 63, 64, 4095, 65535]), 1));
                }
            }
            let (sh, name) = chunk_shape(r);
            let k = k0 + r.below(n as u64) as u32;
            runs.retain(|x| x.0 >> 16 != k);
            runs.extend(sh.iter().map(|&(s, l)| ((k << 16) + s, l)));
            what = format!("many-chunks({})+{}", n, name);
        }
        1 => {
            // a run that crosses a chunk edge / covers whole chunks exactly / from inside one chunk to inside another
            let k = *r.pick(&[0u32, 1, 6, 0xFFFD]);
            let (s, e) = match r.below(4) {
                0 => ((k << 16) + 65000, ((k + 1) << 16) + 500),
                1 => (k << 16, ((k + 2) << 16) - 1),
                2 => ((k << 16) + 65535, (k + 1) << 16),
                _ => ((k << 16) + *r.pick(&[1u32, 64, 61440]), ((k + 2) << 16) + *r.pick(&[0u32, 63, 4095])),
            };
            runs.push((s, e - s + 1));
            if r.chance(1, 2) {
                runs.push((((k + 2) << 16) + 60000, 3));
            }
            if r.chance(1, 2) && k > 0 {
                runs.push((5, 2));
            }
            what = "cross-chunk-run".to_string();
        }
        2 => {
            what = "empty".to_string();
        }
        3 => {
            // the extremes of the universe
            runs.push((0, *r.pick(&[1u32, 2, 4097])));
            let n = *r.pick(&[1u32, 2, 64, 4096, 4097]);
            runs.push((u32::MAX - (n - 1), n));
            what = "universe-extremes".to_string();
        }
        _ => {
            let nk = *r.pick(&[1usize, 1, 2, 2, 3, 4]);
            let mut ks: Vec<u32> = Vec::new();
            while ks.len() < nk {
                let k = if r.chance(5, 6) { *r.pick(&KEYS) } else { r.below(65536) as u32 };
                if !ks.contains(&k) {
                    ks.push(k);
                }
            }
            ks.sort_unstable();
            let mut big = 0;
            for k in ks {
                let (mut sh, mut name) = chunk_shape(r);
                let n: u32 = sh.iter().map(|x| x.1).sum();
                if n > 30000 {
                    big += 1;
                    if big > 2 {
                        // at most two huge chunks per value (list model)
                        sh = vec![(77, 3)];
                        name = "few";
                    }
                }
                runs.extend(sh.iter().map(|&(s, l)| ((k << 16) + s, l)));
                what.push_str(name);
                what.push('+');
            }
        }
    }
    (canon(runs), what)
}

/// number of values of a target
pub fn card(t: &[(u32, u32)]) -> u64 {
    t.iter().map(|x| x.1 as u64).sum()
}

/// build a zoo value in slot `b` through a public producer that is cheap enough for its size; returns the target
pub fn zoo_build(r: &mut Rng, out: &mut String, b: &str) -> Vec<(u32, u32)> {
    use std::fmt::Write as _;
    let (t, what) = zoo_target(r);
    let n = card(&t);
    // (producers 2 and 4 of the C04 profile assume targets inside the shared key pool and are not used here)
    let which = if t.is_empty() {
        1
    } else if n > 20000 || t.len() > 400 {
        // producers that are linear in the number of runs
        *r.pick(&[1u64, 1, 5, 7, 10, 11, 12])
    } else if n > 6000 {
        *r.pick(&[1u64, 3, 5, 7, 8, 9, 10, 11, 12])
    } else {
        *r.pick(&[0u64, 1, 3, 5, 7, 8, 9, 10, 11, 12])
    };
    let name = if t.is_empty() {
        writeln!(out, "new {}", b).unwrap();
        "new"
    } else {
        c04::produce(r, out, b, &t, which)
    };
    writeln!(out, "# zoo {} via {} card={}", what, name, n).unwrap();
    t
}

/// a conformant serialisation of the target written by the harness's own encoder: every chunk as a run container or as
/// array / bitset (by chance), run cookie forced now and then
pub fn stream_of(r: &mut Rng, t: &[(u32, u32)]) -> Vec<u8> {
    let all = c04::elems(t);
    let mut chunks: Vec<super::stream::Chunk> = Vec::new();
    for &x in &all {
        let k = (x >> 16) as u16;
        match chunks.last_mut() {
            Some(c) if c.key == k => c.vals.push(x as u16),
            _ => chunks.push(super::stream::Chunk { key: k, vals: vec![x as u16], runs: None }),
        }
    }
    for c in chunks.iter_mut() {
        if r.chance(1, 2) && super::stream::maximal_runs(&c.vals).len() <= 1500 {
            c.runs = Some(super::stream::maximal_runs(&c.vals));
        }
    }
    super::stream::encode(&chunks, r.chance(1, 4)).0
}

/// a variation of a target: the same runs with one dropped / one shortened / one value added, or a fresh target
pub fn vary(r: &mut Rng, t: &[(u32, u32)]) -> Vec<(u32, u32)> {
    let mut v = t.to_vec();
    if v.is_empty() {
        return zoo_target(r).0;
    }
    match r.below(6) {
        0 => {}
        1 => {
            let i = r.below(v.len() as u64) as usize;
            v.remove(i);
        }
        2 => {
            // drop one value at an end of a run
            let i = r.below(v.len() as u64) as usize;
            if v[i].1 > 1 {
                if r.chance(1, 2) {
                    v[i].0 += 1;
                }
                v[i].1 -= 1;
            } else {
                v.remove(i);
            }
        }
        3 => {
            // one more value right after a run (or 0 / u32::MAX)
            let i = r.below(v.len() as u64) as usize;
            let x = (v[i].0 as u64 + v[i].1 as u64).min(u32::MAX as u64) as u32;
            v.push((x, 1));
            v.push((*r.pick(&[0u32, u32::MAX]), 1));
        }
        4 => {
            // keep every other run
            v = v.into_iter().step_by(2).collect();
        }
        _ => return zoo_target(r).0,
    }
    canon(v)
}

/// build the given target in `b` (a producer that is cheap enough for its size)
pub fn build_target(r: &mut Rng, out: &mut String, b: &str, t: &[(u32, u32)]) {
    use std::fmt::Write as _;
    if t.is_empty() {
        writeln!(out, "new {}", b).unwrap();
        return;
    }
    let n = card(t);
    let which = if n > 20000 || t.len() > 400 { *r.pick(&[1u64, 1, 5, 7, 10, 11, 12]) } else { *r.pick(&[1u64, 1, 3, 5, 7, 10, 11, 12]) };
    c04::produce(r, out, b, t, which);
}
