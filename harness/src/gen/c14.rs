//! C14: read schedules (1-byte reads, interrupted reads, odd chunk sizes), every kind of truncation point,
//! writers failing at chosen byte positions in both failure modes.
use super::c05::hex;
use super::stream;
use crate::rng::Rng;
use std::fmt::Write as _;

pub fn sched(r: &mut Rng) -> String {
    match r.below(8) {
        0 => "sched:1".to_string(),
        1 => "sched:i,1".to_string(),
        2 => "sched:i,i,i,1,2".to_string(),
        3 => "sched:3".to_string(),
        4 => "sched:7,1,i,8192".to_string(),
        5 => "sched:".to_string(),
        _ => {
            let n = r.range(1, 6);
            let mut v: Vec<String> = (0..n)
                .map(|_| if r.chance(1, 4) { "i".to_string() } else { (*r.pick(&[1u64, 2, 3, 4, 5, 8, 9, 100, 8191, 8192, 8193, 100000])).to_string() })
                .collect();
            if v.iter().all(|x| x == "i") {
                v.push("2".to_string());
            }
            format!("sched:{}", v.join(","))
        }
    }
}

/// truncation / failure positions for a stream of `total` bytes with the given field boundaries
pub fn cut_points(r: &mut Rng, bounds: &[usize], total: usize, n: usize) -> Vec<usize> {
    let mut v = vec![0usize, 1, 3, 4, 7, 8, total.saturating_sub(1), total, total + 1, total + 7];
    for _ in 0..n {
        if r.chance(1, 2) && !bounds.is_empty() {
            let p = *r.pick(bounds) as i64 + *r.pick(&[-1i64, 0, 1]);
            v.push(p.max(0) as usize);
        } else {
            v.push(r.below(total as u64 + 1) as usize);
        }
    }
    v.sort();
    v.dedup();
    v
}

pub fn gen_case(r: &mut Rng, out: &mut String) {
    let small = r.chance(7, 8);
    let g = stream::gen_stream(r, small);
    let h = hex(&g.bytes);
    let total = g.bytes.len();
    let bounds = g.layout.boundaries(total);
    writeln!(out, "note {}", g.describe()).unwrap();
    // the plain decode and the same bytes through scheduled readers
    writeln!(out, "new b0").unwrap();
    writeln!(out, "deser chk b0 {}", h).unwrap();
    writeln!(out, "dump b0").unwrap();
    for _ in 0..3 {
        let m = if r.chance(3, 4) { "chk" } else { "unchk" };
        writeln!(out, "new b1").unwrap();
        writeln!(out, "deser_sched {} b1 {} {}", m, sched(r), h).unwrap();
        writeln!(out, "dump b1").unwrap();
        writeln!(out, "eq b1 b0").unwrap();
    }
    // truncations of the generated (possibly run-encoded) stream
    writeln!(out, "new b2").unwrap();
    for k in cut_points(r, &bounds, total, 6) {
        let m = if r.chance(3, 4) { "chk" } else { "unchk" };
        writeln!(out, "deser_trunc {} b2 {} {}", m, k, h).unwrap();
    }
    // a truncated stream through a scheduled reader
    let k = r.below(total as u64 + 1) as usize;
    writeln!(out, "deser_sched chk b2 {} {}", sched(r), hex(&g.bytes[..k])).unwrap();
    // the crate's own serialisation of the value: every kind of prefix, and failing writers
    // (own size = 8 + 8n + payloads of the run-free encoding)
    let own: usize = 8 + g.chunks.iter().map(|c| 8 + if c.vals.len() <= 4096 { 2 * c.vals.len() } else { 8192 }).sum::<usize>();
    let mut own_bounds = vec![8usize, 8 + 4 * g.chunks.len(), 8 + 8 * g.chunks.len()];
    let mut p = 8 + 8 * g.chunks.len();
    for c in &g.chunks {
        p += if c.vals.len() <= 4096 { 2 * c.vals.len() } else { 8192 };
        own_bounds.push(p);
    }
    for k in cut_points(r, &own_bounds, own, 4) {
        let m = if r.chance(3, 4) { "chk" } else { "unchk" };
        writeln!(out, "deser_prefix {} b2 b0 {}", m, k).unwrap();
    }
    for k in cut_points(r, &own_bounds, own, 4) {
        let md = if r.chance(1, 2) { "err" } else { "zero" };
        writeln!(out, "ser_fail b0 limit:{} mode:{} {}", k, md, sched(r)).unwrap();
    }
    writeln!(out, "ser b0").unwrap();
    writeln!(out, "dump b0").unwrap();
}
