//! Profile table: one line per generator profile (add new profiles here, in alphabetical order).
use crate::rng::Rng;

pub fn gen_case(profile: &str, rng: &mut Rng, out: &mut String) -> bool {
    match profile {
        "C01" => super::c01::gen_case(rng, out, false),
        "C05" => super::c05::gen_case(rng, out),
        "C06" => super::c06::gen_case(rng, out),
        "C07" => super::c01::gen_case(rng, out, true),
        "C13" => super::c13::gen_case(rng, out),
        "C14" => super::c14::gen_case(rng, out),
        "C18" => super::c18::gen_case(rng, out),
        _ => return false,
    }
    true
}
