//! Profile table: one line per generator profile (add new profiles here, in alphabetical order).
use crate::rng::Rng;

pub fn gen_case(profile: &str, rng: &mut Rng, out: &mut String) -> bool {
    match profile {
        "C01" => super::c01::gen_case(rng, out, false),
        "C03" => super::c03::gen_case(rng, out),
        "C03W" => super::c03::gen_window_case(rng, out),
        "C07" => super::c01::gen_case(rng, out, true),
        _ => return false,
    }
    true
}
