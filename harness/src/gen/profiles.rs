//! Profile table: one line per generator profile (add new profiles here, in alphabetical order).
use crate::rng::Rng;

pub fn gen_case(profile: &str, rng: &mut Rng, out: &mut String) -> bool {
    match profile {
        "C01" => super::c01::gen_case(rng, out, false),
        "C02" => super::c02::gen_case(rng, out, false),
        "C03" => super::c03::gen_case(rng, out),
        "C03W" => super::c03::gen_window_case(rng, out),
        "C04" => super::c04::gen_case(rng, out),
        "C04T" => super::c04t::gen_case(rng, out),
        "C05" => super::c05::gen_case(rng, out),
        "C05T" => super::c05t::gen_case(rng, out),
        "C06" => super::c06::gen_case(rng, out),
        "C06T" => super::c06t::gen_case(rng, out),
        "C07" => super::c01::gen_case(rng, out, true),
        "C08" => super::c02::gen_case(rng, out, true),
        "C09" => super::c09::gen_case(rng, out),
        "C10" => super::c10::gen_case(rng, out),
        "C11" => super::c11::gen_case(rng, out),
        "C12" => super::c12::gen_case(rng, out),
        "C13" => super::c13::gen_case(rng, out),
        "C13T" => super::c13t::gen_case(rng, out),
        "C14" => super::c14::gen_case(rng, out),
        "C14T" => super::c14t::gen_case(rng, out),
        "C15" => super::c15::gen_case(rng, out),
        "C16" => super::c16::gen_case(rng, out),
        "C16T" => super::c16t::gen_case(rng, out),
        "C17" => super::c17::gen_case(rng, out),
        "C18" => super::c18::gen_case(rng, out),
        "C19" => super::c19::gen_case(rng, out),
        "C19T" => super::c19t::gen_case(rng, out),
        "C20" => super::c20::gen_case(rng, out),
        _ => return false,
    }
    true
}
