//! Profile table: one line per generator profile (add new profiles here, in alphabetical order).
use crate::rng::Rng;

pub fn gen_case(profile: &str, rng: &mut Rng, out: &mut String) -> bool {
    match profile {
        "C01" => super::c01::gen_case(rng, out, false),
        "C07" => super::c01::gen_case(rng, out, true),
        "C16" => super::c16::gen_case(rng, out),
        "C17" => super::c17::gen_case(rng, out),
        "C19" => super::c19::gen_case(rng, out),
        "C20" => super::c20::gen_case(rng, out),
        _ => return false,
    }
    true
}
