//! Profile table: one line per generator profile (add new profiles here, in alphabetical order).
use crate::rng::Rng;

pub fn gen_case(profile: &str, rng: &mut Rng, out: &mut String) -> bool {
    match profile {
        "C01" => super::c01::gen_case(rng, out, false),
        "C07" => super::c01::gen_case(rng, out, true),
        "C10" => super::c10::gen_case(rng, out),
        "C11" => super::c11::gen_case(rng, out),
        "C12" => super::c12::gen_case(rng, out),
        _ => return false,
    }
    true
}
