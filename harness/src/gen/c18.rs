//! C18: `a` from a short history over the same key pool, streams from the conformant encoder (so run chunks,
//! the offset path and the sequential skip/seek path are live), truncations.
use super::c05::hex;
use super::stream;
use crate::rng::Rng;
use std::fmt::Write as _;

fn gen_a(r: &mut Rng, out: &mut String, g: &stream::GenStream) {
    writeln!(out, "new b0").unwrap();
    // overlap with the stream's chunks: pieces of its own values, whole-chunk ranges, foreign keys
    for c in &g.chunks {
        let base = (c.key as u64) << 16;
        match r.below(7) {
            0 => {} // key absent from a
            1 => writeln!(out, "insert_range b0 in:{} in:{}", base, base + 65535).unwrap(),
            2 => {
                // a window around some of its values
                let v = c.vals[r.below(c.vals.len() as u64) as usize] as u64;
                let lo = v.saturating_sub(r.below(3000));
                let hi = (v + r.below(6000)).min(65535);
                writeln!(out, "insert_range b0 in:{} in:{}", base + lo, base + hi).unwrap();
            }
            3 => {
                // some of its values, individually
                let n = r.range(1, 12);
                let mut s = String::new();
                for _ in 0..n {
                    let v = c.vals[r.below(c.vals.len() as u64) as usize] as u64;
                    write!(s, " {}", base + v).unwrap();
                    if r.chance(1, 3) {
                        write!(s, " {}", base + ((v + 1) & 0xffff)).unwrap();
                    }
                }
                writeln!(out, "extend b0{}", s).unwrap();
            }
            4 => {
                // disjoint from it if possible: only values it does not hold
                let v = (0..50u64).map(|_| r.below(65536)).find(|x| c.vals.binary_search(&(*x as u16)).is_err());
                if let Some(v) = v {
                    writeln!(out, "insert b0 {}", base + v).unwrap();
                }
            }
            5 => {
                // a big window (bitset chunk in a)
                let lo = r.below(30000);
                writeln!(out, "insert_range b0 in:{} in:{}", base + lo, base + lo + r.range(4096, 9000)).unwrap();
            }
            _ => {
                let lo = r.below(65536);
                let hi = (lo + super::common::range_len(r).min(8000)).min(65535);
                writeln!(out, "insert_range b0 in:{} in:{}", base + lo, base + hi).unwrap();
            }
        }
    }
    // keys the stream does not have
    for _ in 0..r.below(3) {
        writeln!(out, "insert b0 {}", super::common::value(r, 6)).unwrap();
    }
}

pub fn gen_case(r: &mut Rng, out: &mut String) {
    if r.chance(1, 5) {
        // both operands from the shared catalogue (gen/zoo.rs): the serialized one is a variation of the in-memory one (or
        // an independent value), written by the harness's encoder with run / array / bitset chunks
        let t = super::zoo::zoo_build(r, out, "b0");
        let t2 = super::zoo::vary(r, &t);
        let bytes = super::zoo::stream_of(r, &t2);
        let h = hex(&bytes);
        writeln!(out, "dump b0").unwrap();
        writeln!(out, "new b1").unwrap();
        writeln!(out, "inter_ser b1 b0 {}", h).unwrap();
        writeln!(out, "dump b1").unwrap();
        writeln!(out, "dump b0").unwrap();
        for k in [bytes.len() / 2, bytes.len().saturating_sub(1), 5] {
            if k < bytes.len() {
                writeln!(out, "new b3").unwrap();
                writeln!(out, "inter_ser_trunc b3 b0 {} {}", k, h).unwrap();
                writeln!(out, "dump b3").unwrap();
            }
        }
        return;
    }
    let small = r.chance(3, 4);
    let g = stream::gen_stream(r, small);
    let h = hex(&g.bytes);
    let total = g.bytes.len();
    writeln!(out, "note {}", g.describe()).unwrap();
    gen_a(r, out, &g);
    writeln!(out, "dump b0").unwrap();
    writeln!(out, "new b1").unwrap();
    writeln!(out, "inter_ser b1 b0 {}", h).unwrap();
    writeln!(out, "dump b1").unwrap();
    writeln!(out, "dump b0").unwrap();
    // the materialised operand, for reference in the trace
    writeln!(out, "new b2").unwrap();
    writeln!(out, "deser chk b2 {}", h).unwrap();
    writeln!(out, "dumpset b2").unwrap();
    // truncations
    let bounds = g.layout.boundaries(total);
    for k in super::c14::cut_points(r, &bounds, total, 6) {
        if k >= total {
            continue;
        }
        writeln!(out, "new b3").unwrap();
        writeln!(out, "inter_ser_trunc b3 b0 {} {}", k, h).unwrap();
        writeln!(out, "dump b3").unwrap();
    }
    // trailing bytes after the stream are never looked at
    if r.chance(1, 4) {
        let mut ext = g.bytes.clone();
        ext.extend([0xffu8; 5]);
        writeln!(out, "inter_ser b1 b0 {}", hex(&ext)).unwrap();
        writeln!(out, "dump b1").unwrap();
    }
}
