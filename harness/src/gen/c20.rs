//! C20: `statistics()` / `serialized_size()` after every step of histories that steer chunk populations
//! around the 4096 array/bitset limit through different producers.
use super::c17::{bytes_of_bits, chunk_pattern};
use super::common::KEYS;
use crate::rng::Rng;
use std::fmt::Write as _;

fn observe(out: &mut String, keys: &[u64]) {
    writeln!(out, "stats b0").unwrap();
    writeln!(out, "dump b0").unwrap();
    for k in keys {
        writeln!(out, "range_cardinality b0 in:{} in:{}", k << 16, (k << 16) + 65535).unwrap();
    }
}

/// bring chunk `k` (currently empty) to a population of exactly `t`
fn produce(r: &mut Rng, out: &mut String, k: u64, t: u64, only_chunk: bool) {
    let base = k << 16;
    let start = base + *r.pick(&[0u64, 1, 63, 64, 1000, 30000]);
    match r.below(if only_chunk { 11 } else { 9 }) {
        0 => {
            // one range insert
            writeln!(out, "insert_range b0 in:{} ex:{}", start, start + t).unwrap();
        }
        1 => {
            // single inserts (`extend` = one Container::insert per value), every other value; descending
            // order keeps the list model linear
            let mut s = String::new();
            for i in (0..t).rev() {
                write!(s, " {}", start + 2 * i).unwrap();
            }
            writeln!(out, "extend b0{}", s).unwrap();
        }
        2 => {
            // a range that is too long, cut back by remove_range at one end
            let extra = *r.pick(&[1u64, 2, 64, 500, 5000]);
            writeln!(out, "insert_range b0 in:{} in:{}", start, start + t + extra - 1).unwrap();
            writeln!(out, "stats b0").unwrap();
            if r.chance(1, 2) {
                writeln!(out, "remove_range b0 in:{} ex:{}", start, start + extra).unwrap();
            } else {
                writeln!(out, "remove_range b0 in:{} in:{}", start + t, base + 65535).unwrap();
            }
        }
        3 => {
            // two ranges and a handful of singles in between
            let a = r.range(1, t - 20);
            let m = r.range(1, 15);
            writeln!(out, "insert_range b0 in:{} ex:{}", start, start + a).unwrap();
            let s2 = start + a + 100;
            writeln!(out, "insert_range b0 in:{} ex:{}", s2, s2 + (t - a - m)).unwrap();
            for i in 0..m {
                writeln!(out, "insert b0 {}", start + a + 2 + 2 * i).unwrap();
            }
        }
        4 => {
            // ascending pushes on top of a range (push only works on the highest chunk; otherwise it is refused
            // and the population stays below t, which is fine too)
            let m = r.range(1, 6);
            writeln!(out, "insert_range b0 in:{} ex:{}", start, start + t - m).unwrap();
            for i in 0..m {
                writeln!(out, "push b0 {}", start + t - m + 1 + 2 * i).unwrap();
                writeln!(out, "stats b0").unwrap();
            }
        }
        5 => {
            // sorted append in one call: all of it accepted, or refused late - after the chunk has crossed the limit
            // inside this very call - by a final out-of-order value (the accepted prefix stays, as documented).
            // Only meaningful on top of the value: the chunks are produced in ascending key order
            let mut s = String::new();
            for i in 0..t {
                write!(s, " {}", start + i + i / 2000).unwrap();
            }
            if r.chance(2, 3) {
                write!(s, " {}", start + *r.pick(&[0u64, 5, 4000])).unwrap();
            }
            writeln!(out, "append b0{}", s).unwrap();
        }
        6 | 7 => {
            // the chunk is the result of a binary operator (6) / a multi-operand operation (7) on operands whose
            // chunks are bitsets: the result has to shrink back to exactly t values
            let x = *r.pick(&[1u64, 100, 4000, 5000]);
            let op = *r.pick(&["and", "sub", "xor"]);
            if r.chance(1, 3) {
                // one operand's chunk is completely FULL (65536 values), the other one a bitset that misses / holds exactly
                // the t values: full ^ (full minus t values), full - (full minus t values), full & (t values)
                let (ta, tb) = (start, start + t - 1);
                writeln!(out, "new b10").unwrap();
                writeln!(out, "new b11").unwrap();
                writeln!(out, "insert_range b10 in:{} in:{}", base, base + 65535).unwrap();
                if op == "and" {
                    writeln!(out, "insert_range b11 in:{} in:{}", ta, tb).unwrap();
                } else {
                    if ta > base {
                        writeln!(out, "insert_range b11 in:{} ex:{}", base, ta).unwrap();
                    }
                    writeln!(out, "insert_range b11 ex:{} in:{}", tb, base + 65535).unwrap();
                }
                // the full chunk on the left or (for the symmetric operators) on the right
                let (l, rr) = if op != "sub" && r.chance(1, 2) { ("b11", "b10") } else { ("b10", "b11") };
                if r.chance(1, 3) {
                    writeln!(out, "new b12").unwrap();
                    writeln!(out, "multi {} {} exact b12 {} {}", op, *r.pick(&["own", "ref", "res_own", "res_ref"]), l, rr).unwrap();
                } else {
                    writeln!(out, "{} {} b12 {} {}", op, *r.pick(&["oo", "or", "ro", "rr", "ao", "ar"]), l, rr).unwrap();
                }
                writeln!(out, "stats b12").unwrap();
                writeln!(out, "or {} b0 b0 b12", *r.pick(&["ao", "ar", "rr", "oo"])).unwrap();
                return;
            }
            let (a, b) = match op {
                "and" => ((start, start + t + x), (start + x, start + t + x + r.range(1, 5000))),
                "sub" => ((start, start + t + x), (start + t, start + t + x + r.range(0, 50))),
                _ => ((start, start + t + x), (start + t, start + t + x)),
            };
            writeln!(out, "new b10").unwrap();
            writeln!(out, "new b11").unwrap();
            writeln!(out, "insert_range b10 in:{} in:{}", a.0, a.1.min(base + 65536) - 1).unwrap();
            if b.1 > b.0 {
                writeln!(out, "insert_range b11 in:{} in:{}", b.0.min(base + 65535), b.1.min(base + 65536) - 1).unwrap();
            }
            if r.chance(1, 2) {
                writeln!(out, "new b12").unwrap();
                writeln!(out, "multi {} {} exact b12 b10 b11", op, *r.pick(&["own", "ref", "res_own", "res_ref"])).unwrap();
            } else {
                writeln!(out, "{} {} b12 b10 b11", op, *r.pick(&["oo", "or", "ro", "rr", "ao", "ar"])).unwrap();
            }
            writeln!(out, "or {} b0 b0 b12", *r.pick(&["ao", "ar", "rr", "oo"])).unwrap();
        }
        8 => {
            // the chunk is what intersection_with_serialized leaves of a FULL chunk against a run container holding t values
            // in a few runs (t - runs <= 4096 < t is the shape whose decoded store is sized too small), or of a range that
            // covers the container
            let nr = r.range(1, 4);
            let mut vals: Vec<u16> = Vec::new();
            let mut pos = (start - base) as u64;
            let per = t / nr;
            for i in 0..nr {
                let len = if i + 1 == nr { t - per * (nr - 1) } else { per };
                for j in 0..len {
                    vals.push((pos + j) as u16);
                }
                pos += len + 3;
            }
            let chunk = super::stream::Chunk { key: k as u16, runs: Some(super::stream::maximal_runs(&vals)), vals };
            let (bytes, _) = super::stream::encode(&[chunk], false);
            writeln!(out, "new b10").unwrap();
            if r.chance(2, 3) {
                writeln!(out, "insert_range b10 in:{} in:{}", base, base + 65535).unwrap();
            } else {
                writeln!(out, "insert_range b10 in:{} in:{}", start, start + t + 20).unwrap();
            }
            writeln!(out, "new b12").unwrap();
            writeln!(out, "inter_ser b12 b10 {}", super::c05::hex(&bytes)).unwrap();
            writeln!(out, "or {} b0 b0 b12", *r.pick(&["ao", "ar", "rr", "oo"])).unwrap();
        }
        9 => {
            // too many values, then remove_smallest (bitset -> array rebuild inside Container::remove_smallest)
            let extra = *r.pick(&[1u64, 2, 3, 100, 4000]);
            writeln!(out, "insert_range b0 in:{} ex:{}", start, start + t + extra).unwrap();
            writeln!(out, "stats b0").unwrap();
            writeln!(out, "remove_smallest b0 {}", extra).unwrap();
        }
        _ => {
            let extra = *r.pick(&[1u64, 2, 3, 100, 4000]);
            writeln!(out, "insert_range b0 in:{} ex:{}", start, start + t + extra).unwrap();
            writeln!(out, "stats b0").unwrap();
            writeln!(out, "remove_biggest b0 {}", extra).unwrap();
        }
    }
}

pub fn gen_case(r: &mut Rng, out: &mut String) {
    let nchunks = *r.pick(&[1usize, 1, 1, 2, 2, 3]);
    let mut keys: Vec<u64> = Vec::new();
    while keys.len() < nchunks {
        let k = *r.pick(&KEYS) as u64;
        if !keys.contains(&k) {
            keys.push(k);
        }
    }
    keys.sort_unstable();
    let from_lsb0 = r.chance(1, 4);
    if from_lsb0 {
        // the whole value is imported: one slice over the first key's chunk (other chunks are added below)
        let k = keys[0];
        let res = if r.chance(1, 2) { 0 } else { r.below(8) };
        let off = (k << 16) + res;
        let len = if res == 0 { 8192 } else { 8191 };
        let mut bits = Vec::new();
        // draw until the pattern is one of the steered ones (population 4095..4097) or give up
        for _ in 0..6 {
            bits.clear();
            chunk_pattern(r, off, off, off + 8 * len, false, &mut bits);
            bits.sort_unstable();
            bits.dedup();
            if (4095..=4097).contains(&(bits.len() as u64)) {
                break;
            }
        }
        let bytes = bytes_of_bits(off, len, &bits);
        let mut h = String::from("hex:");
        for b in &bytes {
            write!(h, "{:02x}", b).unwrap();
        }
        writeln!(out, "from_lsb0 b0 {} {}", off, h).unwrap();
    } else if r.chance(1, 6) {
        // a value of the shared catalogue (gen/zoo.rs)
        super::zoo::zoo_build(r, out, "b0");
    } else if r.chance(1, 6) {
        // the whole value is decoded: run containers whose runs overlap / repeat (accepted by both decoders), with the sum
        // of the run lengths and the real cardinality on opposite sides of the 4096 limit; or a conformant stream
        let mode = if r.chance(1, 2) { "chk" } else { "unchk" };
        let bytes = if r.chance(2, 3) { super::stream::overlapping_runs_stream(r).0 } else { super::stream::gen_stream(r, true).bytes };
        writeln!(out, "new b0").unwrap();
        writeln!(out, "deser {} b0 {}", mode, super::c05::hex(&bytes)).unwrap();
    } else {
        writeln!(out, "new b0").unwrap();
        if r.chance(1, 12) {
            writeln!(out, "extend b0{}", super::common::many_chunk_values(r)).unwrap();
        }
    }
    observe(out, &keys);
    for (i, &k) in keys.iter().enumerate() {
        if from_lsb0 && i == 0 {
            continue;
        }
        let t = *r.pick(&[4094u64, 4095, 4096, 4096, 4097, 4098]);
        produce(r, out, k, t, nchunks == 1);
        observe(out, &keys);
    }
    // single steps across the limit, in both directions
    for _ in 0..r.range(2, 8) {
        let k = *r.pick(&keys);
        let base = k << 16;
        match r.below(10) {
            9 => {
                // a removal that starts inside chunk k (not on its edge) below everything the chunk holds and ends in a later
                // chunk: chunk k is emptied as the FIRST, partly covered chunk of the range and must disappear
                let s = base + *r.pick(&[1u64, 1, 63]);
                let e = (base + 65536 * r.range(1, 2) + *r.pick(&[0u64, 10, 65535])).min(u32::MAX as u64);
                writeln!(out, "remove_range b0 in:{} in:{}", s, e).unwrap()
            }
            0 => writeln!(out, "insert b0 {}", base + r.below(40000)).unwrap(),
            // a value that the chunk most probably holds already (the produced populations start at 0..1000 and are mostly
            // contiguous): an insert that changes nothing, at the limit
            1 => writeln!(out, "insert b0 {}", base + 1001 + r.below(2000)).unwrap(),
            2 | 3 => writeln!(out, "remove b0 {}", base + *r.pick(&[0u64, 1, 63, 64, 1000, 30000]) + r.below(3)).unwrap(),
            4 => writeln!(out, "remove_smallest b0 {}", r.range(0, 3)).unwrap(),
            5 => writeln!(out, "remove_biggest b0 {}", r.range(0, 3)).unwrap(),
            6 => {
                let s = base + r.below(60000);
                writeln!(out, "insert_range b0 in:{} in:{}", s, s + r.below(3)).unwrap()
            }
            7 => {
                let s = base + r.below(40000);
                writeln!(out, "remove_range b0 in:{} in:{}", s, s + r.below(3)).unwrap()
            }
            _ => writeln!(out, "push b0 {}", base + 65535 - r.below(3)).unwrap(),
        }
        observe(out, &keys);
    }
    if r.chance(1, 6) {
        writeln!(out, "clear b0").unwrap();
        observe(out, &keys);
    }
}
