//! C16: totality.  The argument table of the property (empty, inverted, unbounded, exclusive bounds,
//! counts >> len, indices past the end, 0, u32::MAX) applied to values from short histories, through
//! every 32-bit public method that has an op, plus `debug`.  Run in both build profiles: a panic under
//! overflow checks or a silently different value without them is a line difference.
use super::common::*;
use crate::rng::Rng;
use std::fmt::Write as _;

const MAX: u64 = u32::MAX as u64;

/// bound pairs of the argument table around an anchor value `a` (0 < a < MAX); `small` = the range is
/// guaranteed to hold at most ~70000 values (safe for insert_range on the list model)
fn bound_shapes(a: u64, len: u64) -> Vec<(String, String, bool)> {
    let b = (a + len).min(MAX);
    let i = |x: u64| format!("in:{}", x);
    let e = |x: u64| format!("ex:{}", x);
    let un = || "un".to_string();
    vec![
        // empty
        (i(a), e(a), true),
        (e(a), i(a), true),
        (e(a), e(a + 1), true),
        (i(0), e(0), true),
        (un(), e(0), true),
        (e(MAX), un(), true),
        (i(MAX), e(MAX), true),
        (e(MAX), i(MAX), true),
        (e(MAX - 1), e(MAX), true),
        (e(0), e(1), true),
        // equal excluded
        (e(a), e(a), true),
        (e(0), e(0), true),
        (e(MAX), e(MAX), true),
        // inverted
        (i(b), i(a), true),
        (i(b), e(a), true),
        (e(b), i(a), true),
        (e(b), e(a), true),
        (i(MAX), i(0), true),
        (e(MAX), e(0), true),
        (i(1), i(0), true),
        (i(a + 1), i(a), true),
        // one value at the extremes
        (i(0), i(0), true),
        (un(), i(0), true),
        (un(), e(1), true),
        (i(MAX), i(MAX), true),
        (i(MAX), un(), true),
        (e(MAX - 1), un(), true),
        (e(MAX - 1), i(MAX), true),
        // exclusive bounds around the anchor
        (e(a), i(b), len <= 70000),
        (e(a), e(b), len <= 70000),
        (i(a), e(b), len <= 70000),
        (i(a), i(b), len <= 70000),
        (e(a - 1), e(a + 1), true),
        // top and bottom of the universe, short
        (un(), i(len.min(70000)), true),
        (un(), e(len.min(70000)), true),
        (i(MAX - len.min(70000)), un(), true),
        (e(MAX - len.min(70000)), un(), true),
        // unbounded / huge (never for insert_range: a full bitmap does not fit the list model)
        (un(), un(), false),
        (i(0), i(MAX), false),
        (i(0), un(), false),
        (un(), i(MAX), false),
        (e(0), e(MAX), false),
        (i(a), un(), false),
        (un(), e(b.max(1)), b <= 70000),
    ]
}

fn big_counts(r: &mut Rng) -> u64 {
    *r.pick(&[0u64, 1, 2, 15, 16, 4095, 4096, 4097, 65535, 65536, 65537, MAX - 1, MAX, MAX + 1, 1 << 40, u64::MAX - 1, u64::MAX])
}

fn extreme_value(r: &mut Rng, nkeys: usize) -> u64 {
    match r.below(4) {
        0 => *r.pick(&[0u64, 1, 65535, 65536, MAX - 65536, MAX - 65535, MAX - 1, MAX]),
        1 => MAX - r.below(3),
        2 => r.below(3),
        _ => value(r, nkeys) as u64,
    }
}

fn observe(r: &mut Rng, out: &mut String) {
    writeln!(out, "dump b0").unwrap();
    if r.chance(1, 2) {
        writeln!(out, "debug b0").unwrap();
    }
    if r.chance(1, 3) {
        // queries derived from the value's own maximal runs (exactly the run, one more on either side, ranks / selects
        // at its ends): totality of the query paths at the places where the structure of THIS value changes
        writeln!(out, "probe b0").unwrap();
    }
}

pub fn gen_case(r: &mut Rng, out: &mut String) {
    let nkeys = r.range(1, 6) as usize;
    // ---- a value from a short history (possibly empty)
    writeln!(out, "new b0").unwrap();
    if r.chance(1, 6) {
        // a value of the shared catalogue (gen/zoo.rs), kept small enough for the argument table's mutators
        let (t, _) = super::zoo::zoo_target(r);
        if super::zoo::card(&t) <= 140000 {
            super::zoo::build_target(r, out, "b0", &t);
            writeln!(out, "probe b0").unwrap();
        }
    }
    for _ in 0..r.range(0, 6) {
        match r.below(10) {
            0..=2 => writeln!(out, "insert b0 {}", extreme_value(r, nkeys)).unwrap(),
            3..=4 => {
                let (lo, hi) = range_tokens(r, nkeys, 2);
                writeln!(out, "insert_range b0 {} {}", lo, hi).unwrap()
            }
            5 => {
                let (lo, hi) = range_tokens(r, nkeys, 2);
                writeln!(out, "remove_range b0 {} {}", lo, hi).unwrap()
            }
            6 => {
                // next to the `len() < 16` rule of Debug
                let n = *r.pick(&[14u64, 15, 16, 17]);
                let s = value(r, nkeys) as u64;
                let mut t = String::new();
                for j in 0..n {
                    write!(t, " {}", (s + 3 * j).min(MAX)).unwrap();
                }
                writeln!(out, "from_iter b0{}", t).unwrap();
                writeln!(out, "len b0").unwrap();
                writeln!(out, "debug b0").unwrap();
            }
            7 => {
                // a bitset chunk (the cached-cardinality subtractions live there), sometimes a full chunk
                let base = (key(r, nkeys) as u64) << 16;
                let n = if r.chance(1, 8) { 65536 } else { *r.pick(&[4097u64, 5000, 20000]) };
                let s = if n == 65536 { base } else { base + r.below(65536 - n) };
                writeln!(out, "insert_range b0 in:{} in:{}", s, s + n - 1).unwrap()
            }
            8 => writeln!(out, "insert_range b0 in:{} un", MAX - r.below(5000)).unwrap(),
            9 if r.chance(1, 2) => {
                // a dense run over one or two whole chunks, up to a chunk edge (or one value beyond / short of it), starting
                // at or inside a chunk: queries that span several chunks then start at a container that is not the first
                // and run past the last one
                let k = *r.pick(&[1u64, 2, 3, 0xFFFD]);
                let span = r.range(1, 2);
                let s = (k << 16) + *r.pick(&[0u64, 0, 1, 65535, 4096]);
                let e = (((k + span) << 16) - 1 + *r.pick(&[0u64, 0, 1]) - *r.pick(&[0u64, 0, 1])).min(MAX);
                writeln!(out, "insert_range b0 in:{} in:{}", s, e).unwrap();
                writeln!(out, "probe b0").unwrap();
            }
            _ => writeln!(out, "push b0 {}", extreme_value(r, nkeys)).unwrap(),
        }
    }
    observe(r, out);
    writeln!(out, "clone b1 b0").unwrap();

    // ---- the argument table
    for _ in 0..r.range(6, 14) {
        let mut a = (value(r, nkeys) as u64).clamp(1, MAX - 2);
        if r.chance(1, 5) {
            a = (a | 0xFFFF).clamp(1, MAX - 2); // anchor on the last value of a chunk: a + 1 starts the next one
        }
        let len = range_len(r);
        let shapes = bound_shapes(a, len);
        let (lo, hi, small) = r.pick(&shapes).clone();
        match r.below(16) {
            0..=2 => {
                if small {
                    writeln!(out, "insert_range b0 {} {}", lo, hi).unwrap();
                    observe(r, out);
                } else {
                    writeln!(out, "range_cardinality b0 {} {}", lo, hi).unwrap();
                }
            }
            3..=4 => {
                writeln!(out, "remove_range b0 {} {}", lo, hi).unwrap();
                observe(r, out);
            }
            5..=6 => writeln!(out, "range_cardinality b0 {} {}", lo, hi).unwrap(),
            7..=8 => writeln!(out, "contains_range b0 {} {}", lo, hi).unwrap(),
            9 => {
                let which = if r.chance(1, 2) { "remove_smallest" } else { "remove_biggest" };
                writeln!(out, "{} b0 {}", which, big_counts(r)).unwrap();
                observe(r, out);
            }
            10 => {
                writeln!(out, "select b0 {}", big_counts(r)).unwrap();
                writeln!(out, "rank b0 {}", extreme_value(r, nkeys)).unwrap();
                writeln!(out, "contains b0 {}", extreme_value(r, nkeys)).unwrap();
            }
            11 => {
                let v = extreme_value(r, nkeys);
                let op = *r.pick(&["insert", "remove", "push"]);
                writeln!(out, "{} b0 {}", op, v).unwrap();
                observe(r, out);
            }
            12 => {
                // append / extend / from_sorted at the top of the universe, empty lists, repeated MAX
                let lists: [&[u64]; 8] = [
                    &[],
                    &[MAX],
                    &[MAX - 1, MAX],
                    &[MAX, MAX],
                    &[0],
                    &[0, 0],
                    &[MAX, 0],
                    &[MAX - 2, MAX - 1, MAX, MAX],
                ];
                let l = *r.pick(&lists);
                let mut t = String::new();
                for x in l {
                    write!(t, " {}", x).unwrap();
                }
                match r.below(3) {
                    0 => writeln!(out, "append b0{}", t).unwrap(),
                    1 => writeln!(out, "extend b0{}", t).unwrap(),
                    _ => {
                        writeln!(out, "from_sorted b2{}", t).unwrap();
                        writeln!(out, "from_iter b3{}", t).unwrap();
                        writeln!(out, "debug b3").unwrap();
                    }
                }
                observe(r, out);
            }
            13 => {
                for q in ["len", "is_empty", "is_full", "min", "max", "stats"] {
                    writeln!(out, "{} b0", q).unwrap();
                }
            }
            14 => {
                writeln!(out, "eq b0 b1").unwrap();
                writeln!(out, "clone b1 b0").unwrap();
                writeln!(out, "eq b1 b0").unwrap();
                writeln!(out, "debug b1").unwrap();
            }
            _ => {
                if r.chance(1, 3) {
                    writeln!(out, "clear b0").unwrap();
                } else {
                    writeln!(out, "from_lsb0 b4 {} hex:", MAX - r.below(9)).unwrap();
                    writeln!(out, "debug b4").unwrap();
                }
                observe(r, out);
            }
        }
    }
    for q in ["len", "min", "max", "debug"] {
        writeln!(out, "{} b0", q).unwrap();
    }
    // ---- the documented from_lsb0_bytes panic, last (it ends the case)
    if r.chance(1, 6) {
        let n = r.range(1, 4);
        let off = if r.chance(1, 2) { MAX - 7 } else { MAX - r.below(7) };
        let mut h = String::from("hex:");
        for _ in 0..=n {
            write!(h, "{:02x}", 0x80 | r.below(128)).unwrap();
        }
        writeln!(out, "from_lsb0 b5 {} {}", off, h).unwrap();
    }
}
