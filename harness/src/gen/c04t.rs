//! C04 (64-bit half): one target set of u64 reached through two different RoaringTreemap construction histories;
//! `teq` expected true, both `tdump`s compared (they list the partitions, so an empty partition shows).
use crate::rng::Rng;
use std::fmt::Write as _;

const PKEYS: [u64; 5] = [0, 1, 3, 4, 4294967295];

fn target(r: &mut Rng) -> Vec<(u64, u64)> {
    let np = r.range(1, 3) as usize;
    let mut runs = Vec::new();
    let mut big = false;
    let mut keys: Vec<u64> = Vec::new();
    while keys.len() < np {
        let k = *r.pick(&PKEYS);
        if !keys.contains(&k) {
            keys.push(k);
        }
    }
    for k in keys {
        let base = k << 32;
        let mut pos = base + *r.pick(&[0u64, 1, 65535, 65536, 100000, (1u64 << 32) - 3000]);
        for _ in 0..r.range(1, 6) {
            pos = pos.saturating_add(r.range(1, 70000));
            if pos < base || (pos - base) >= (1u64 << 32) - 1000 {
                break;
            }
            // at most one bitset-sized run per target (single inserts of tens of thousands of values are quadratic in the
            // list model)
            let len = if !big && r.chance(1, 5) {
                big = true;
                *r.pick(&[4097u64, 4200])
            } else {
                *r.pick(&[1u64, 1, 2, 3, 64, 500])
            };
            if (pos - base) + len >= (1u64 << 32) {
                break;
            }
            runs.push((pos, len));
            pos += len;
        }
    }
    runs.sort();
    runs
}

fn elems(t: &[(u64, u64)]) -> Vec<u64> {
    let mut v = Vec::new();
    for &(s, l) in t {
        for i in 0..l {
            v.push(s + i);
        }
    }
    v
}

fn junk_key(t: &[(u64, u64)], above: bool) -> u64 {
    // a partition key not used by the target (above all of them if requested and possible)
    let used: Vec<u64> = t.iter().map(|x| x.0 >> 32).collect();
    let mut cands: Vec<u64> = vec![2, 5, 7, 4294967294, 4294967295, 0, 1, 3, 4];
    if above {
        let m = used.iter().copied().max().unwrap_or(0);
        cands.retain(|&k| k > m);
        if cands.is_empty() {
            cands = vec![2, 5, 7];
        }
    }
    *cands.iter().find(|k| !used.contains(k)).unwrap_or(&6)
}

fn produce(r: &mut Rng, out: &mut String, t: &str, tg: &[(u64, u64)], which: u64) -> &'static str {
    let all = elems(tg);
    let list = |v: &[u64]| v.iter().map(|x| x.to_string()).collect::<Vec<_>>().join(" ");
    match which {
        0 => {
            writeln!(out, "tnew {}", t).unwrap();
            let mut v = all.clone();
            for i in (1..v.len()).rev() {
                let j = r.below(i as u64 + 1) as usize;
                v.swap(i, j);
            }
            for ch in v.chunks(300) {
                writeln!(out, "textend {} {}", t, list(ch)).unwrap();
            }
            "shuffled-extend"
        }
        1 => {
            writeln!(out, "tnew {}", t).unwrap();
            for &(s, l) in tg.iter().rev() {
                writeln!(out, "tinsert_range {} in:{} ex:{}", t, s, s + l).unwrap();
            }
            "ranges"
        }
        2 => {
            // partition-wise construction, with an extra empty bitmap under an unused key
            let mut items = String::new();
            let mut keys: Vec<u64> = tg.iter().map(|x| x.0 >> 32).collect();
            keys.dedup();
            for (i, k) in keys.iter().enumerate() {
                let slot = format!("b{}", 10 + i);
                writeln!(out, "new {}", slot).unwrap();
                for &(s, l) in tg.iter().filter(|x| x.0 >> 32 == *k) {
                    let lo = s & 0xFFFF_FFFF;
                    writeln!(out, "insert_range {} in:{} ex:{}", slot, lo, lo + l).unwrap();
                }
                write!(items, " {} {}", k, slot).unwrap();
            }
            writeln!(out, "new b19").unwrap();
            write!(items, " {} b19", junk_key(tg, r.chance(1, 2))).unwrap();
            writeln!(out, "tfrom_bitmaps {}{}", t, items).unwrap();
            "from_bitmaps+empty"
        }
        3 => {
            // an extra partition that is emptied again (single removes / a range remove)
            writeln!(out, "tnew {}", t).unwrap();
            let jk = junk_key(tg, r.chance(1, 2)) << 32;
            writeln!(out, "textend {} {} {} {}", t, jk + 5, jk + 70000, jk + 6).unwrap();
            for &(s, l) in tg {
                writeln!(out, "tinsert_range {} in:{} ex:{}", t, s, s + l).unwrap();
            }
            if r.chance(1, 2) {
                // the junk partition holds {5, 6, 70000}: remove it with bounds beyond it, or with bounds that sit EXACTLY on its
                // smallest / largest value or on the partition's edges
                let lo = *r.pick(&[jk, jk, jk + 5, jk + 4]);
                let hi = *r.pick(&[jk + 100000, jk + 70000, jk + 70000, jk + 70001, jk | 0xFFFF_FFFF]);
                if lo == jk + 4 {
                    writeln!(out, "tremove_range {} ex:{} in:{}", t, lo, hi).unwrap();
                } else if hi == jk + 70001 {
                    writeln!(out, "tremove_range {} in:{} ex:{}", t, lo, hi).unwrap();
                } else {
                    writeln!(out, "tremove_range {} in:{} in:{}", t, lo, hi).unwrap();
                }
            } else {
                writeln!(out, "tremove {} {}", t, jk + 5).unwrap();
                writeln!(out, "tremove {} {}", t, jk + 70000).unwrap();
                writeln!(out, "tremove {} {}", t, jk + 6).unwrap();
            }
            "extra-partition-emptied"
        }
        4 => {
            // difference: (target ∪ junk) - junk, junk in its own partition and inside a target partition
            let jk = junk_key(tg, true) << 32;
            let inside = tg.first().map(|x| x.0 + x.1 + 1).unwrap_or(77);
            writeln!(out, "tnew t7").unwrap();
            writeln!(out, "textend t7 {} {} {}", jk + 1, jk + 2, inside).unwrap();
            writeln!(out, "tclone t6 t7").unwrap();
            for &(s, l) in tg {
                writeln!(out, "tinsert_range t6 in:{} ex:{}", s, s + l).unwrap();
            }
            let inside_in_target = all.contains(&inside);
            let form = *r.pick(&["rr", "ar", "ao", "oo", "or", "ro"]);
            writeln!(out, "tsub {} {} t6 t7", form, t).unwrap();
            if inside_in_target {
                writeln!(out, "tinsert {} {}", t, inside).unwrap();
            }
            "difference"
        }
        5 => {
            // multi-operand symmetric difference with complete cancellation of a (usually top) partition
            let jk = junk_key(tg, true) << 32;
            writeln!(out, "tnew t7").unwrap();
            writeln!(out, "textend t7 {} {}", jk + 9, jk + 65536).unwrap();
            writeln!(out, "tnew t6").unwrap();
            for &(s, l) in tg {
                writeln!(out, "tinsert_range t6 in:{} ex:{}", s, s + l).unwrap();
            }
            let kind = *r.pick(&["own", "ref", "res_own", "res_ref"]);
            let order = *r.pick(&["t6 t7 t7", "t7 t6 t7", "t7 t7 t6"]);
            writeln!(out, "tmulti xor {} {} {}", kind, t, order).unwrap();
            "multi-xor-cancel"
        }
        6 => {
            // decoded from a portable stream that also lists partitions whose bitmap is EMPTY (under unused keys, in key order,
            // written by the harness's own encoders): the decoders must not keep them
            let mut parts: Vec<(u32, Vec<u8>)> = Vec::new();
            let mut i = 0;
            while i < all.len() {
                let hi = all[i] >> 32;
                let mut j = i;
                while j < all.len() && all[j] >> 32 == hi {
                    j += 1;
                }
                parts.push((hi as u32, super::stream::encode_set(all[i..j].iter().map(|&x| x as u32))));
                i = j;
            }
            for _ in 0..r.range(1, 2) {
                let jk = junk_key(tg, r.chance(1, 2)) as u32;
                if !parts.iter().any(|p| p.0 == jk) {
                    parts.push((jk, super::stream64::EMPTY32.to_vec()));
                }
            }
            parts.sort_by_key(|p| p.0);
            let view: Vec<(u32, &[u8])> = parts.iter().map(|p| (p.0, &p.1[..])).collect();
            let (bytes, _) = super::stream64::frame(view.len() as u64, &view);
            writeln!(out, "tnew {}", t).unwrap();
            writeln!(out, "tdeser {} {} {}", *r.pick(&["chk", "unchk"]), t, super::c05::hex(&bytes)).unwrap();
            "decoded-with-empty-partitions"
        }
        _ => {
            // sorted append in batches, then a clone over a dirty destination
            writeln!(out, "tnew t6").unwrap();
            for ch in all.chunks(400) {
                writeln!(out, "tappend t6 {}", list(ch)).unwrap();
            }
            writeln!(out, "tnew {}", t).unwrap();
            writeln!(out, "tinsert_range {} in:5 ex:5000", t).unwrap();
            writeln!(out, "tclone {} t6", t).unwrap();
            "append+clone"
        }
    }
}

pub fn gen_case(r: &mut Rng, out: &mut String) {
    let tg = target(r);
    let p1 = r.below(8);
    let mut p2 = r.below(8);
    if p2 == p1 {
        p2 = (p2 + 1) % 8;
    }
    let n1 = produce(r, out, "t0", &tg, p1);
    let n2 = produce(r, out, "t1", &tg, p2);
    writeln!(out, "# producers {} x {}", n1, n2).unwrap();
    writeln!(out, "teq t0 t1").unwrap();
    writeln!(out, "expect true").unwrap();
    writeln!(out, "teq t1 t0").unwrap();
    writeln!(out, "expect true").unwrap();
    writeln!(out, "tdump t0").unwrap();
    writeln!(out, "tdump t1").unwrap();
    // a one-element difference must be visible wherever it sits (smallest / largest value, one value above the maximum)
    if let (Some(&(s, _)), Some(&(ls, ll))) = (tg.first(), tg.last()) {
        let last = ls + ll - 1;
        match r.below(4) {
            0 => writeln!(out, "tremove t1 {}", s).unwrap(),
            1 | 2 => writeln!(out, "tremove t1 {}", last).unwrap(),
            _ => writeln!(out, "tinsert t1 {}", last.saturating_add(1)).unwrap(),
        }
        writeln!(out, "teq t0 t1").unwrap();
        writeln!(out, "expect false").unwrap();
        writeln!(out, "teq t1 t0").unwrap();
        writeln!(out, "expect false").unwrap();
    }
}
