//! C06T: conformant 64-bit portable streams from the independent encoder (`stream64.rs`: ascending buckets,
//! inner streams with both cookies, with/without offsets, run / array / bitset chunks, possibly an empty
//! bucket) through both decoders; result compared with the reference decoders and with the natively built set.
use super::c05::hex;
use super::stream64;
use crate::rng::Rng;
use std::fmt::Write as _;

/// build the set natively in `t` through range inserts (one per maximal run of the `u64` set)
pub fn native_build(out: &mut String, t: &str, set: &[u64]) {
    writeln!(out, "tnew {}", t).unwrap();
    let mut i = 0;
    while i < set.len() {
        let mut j = i;
        while j + 1 < set.len() && set[j + 1] == set[j] + 1 {
            j += 1;
        }
        if i == j {
            writeln!(out, "tinsert {} {}", t, set[i]).unwrap();
        } else {
            writeln!(out, "tinsert_range {} in:{} in:{}", t, set[i], set[j]).unwrap();
        }
        i = j + 1;
    }
}

pub fn count_runs(set: &[u64]) -> usize {
    1 + set.windows(2).filter(|w| w[1] != w[0] + 1).count()
}

pub fn gen_case(r: &mut Rng, out: &mut String) {
    let small = r.chance(2, 3);
    let g = stream64::gen_stream64(r, small, true);
    let h = hex(&g.bytes);
    writeln!(out, "note {}", g.describe()).unwrap();
    writeln!(out, "tspec_decode {}", h).unwrap();
    writeln!(out, "tnew t0").unwrap();
    writeln!(out, "tdeser chk t0 {}", h).unwrap();
    writeln!(out, "tdump t0").unwrap();
    writeln!(out, "tnew t2").unwrap();
    writeln!(out, "tdeser unchk t2 {}", h).unwrap();
    writeln!(out, "tdump t2").unwrap();
    writeln!(out, "teq t2 t0").unwrap();
    writeln!(out, "expect true").unwrap();
    let set = g.set();
    if count_runs(&set) <= 80 {
        native_build(out, "t1", &set);
        writeln!(out, "tdump t1").unwrap();
        writeln!(out, "teq t0 t1").unwrap();
        writeln!(out, "expect true").unwrap();
        writeln!(out, "teq t2 t1").unwrap();
        writeln!(out, "expect true").unwrap();
    }
    // the decoded value re-serialises to the standard encoding of its set
    writeln!(out, "tser t0").unwrap();
    writeln!(out, "tspec_encode t0").unwrap();
    // trailing bytes are left unread
    if r.chance(1, 3) {
        let mut ext = g.bytes.clone();
        for _ in 0..r.range(1, 9) {
            ext.push(r.below(256) as u8);
        }
        writeln!(out, "tdeser chk t0 {}", hex(&ext)).unwrap();
        writeln!(out, "tdump t0").unwrap();
    }
}
