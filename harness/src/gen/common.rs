//! Value pools shared by the profiles: chunk keys, boundary low parts, range lengths, bound shapes.
use crate::rng::Rng;

pub const KEYS: [u32; 6] = [0, 1, 2, 7, 0xFFFE, 0xFFFF];
pub const LOWS: [u32; 16] =
    [0, 1, 2, 62, 63, 64, 65, 127, 128, 4095, 4096, 4097, 32767, 65471, 65534, 65535];

/// a chunk key, biased to a small pool so that chunks collide
pub fn key(r: &mut Rng, nkeys: usize) -> u32 {
    KEYS[r.below(nkeys.min(KEYS.len()) as u64) as usize]
}

/// a low 16-bit part: boundary table or uniform
pub fn low(r: &mut Rng) -> u32 {
    if r.chance(1, 2) {
        *r.pick(&LOWS)
    } else if r.chance(1, 2) {
        r.below(65536) as u32
    } else {
        // multiples of 64 and neighbours
        let w = r.below(1024) as u32 * 64;
        (w + *r.pick(&[0u32, 1, 63])).min(65535)
    }
}

pub fn value(r: &mut Rng, nkeys: usize) -> u32 {
    if r.chance(1, 40) {
        return *r.pick(&[0u32, u32::MAX, u32::MAX - 1, 65535, 65536]);
    }
    (key(r, nkeys) << 16) | low(r)
}

/// a range length: mostly small or next to the 4096 limit, rarely a whole chunk (keeps values small
/// enough for the list-based model to execute thousands of cases per minute)
pub fn range_len(r: &mut Rng) -> u64 {
    match r.below(100) {
        0..=44 => *r.pick(&[1u64, 2, 3, 63, 64, 65, 128, 129]),
        45..=69 => *r.pick(&[4095u64, 4096, 4097, 5000]),
        70..=89 => r.range(1, 6000),
        90..=96 => r.range(1, 70000),
        _ => *r.pick(&[65535u64, 65536, 65537]),
    }
}

/// (lo, hi) tokens of a range; mostly valid, sometimes empty / inverted / unbounded
pub fn range_tokens(r: &mut Rng, nkeys: usize, max_span_chunks: u32) -> (String, String) {
    let start = value(r, nkeys) as u64;
    let len = range_len(r);
    let len = len.min(max_span_chunks as u64 * 65536);
    let mut end_incl = start + len - 1;
    if end_incl > u32::MAX as u64 {
        end_incl = u32::MAX as u64;
    }
    let shape = r.below(20);
    match shape {
        0 => (format!("in:{}", start), format!("ex:{}", start)), // empty x..x
        1 => {
            // inverted
            let hi = end_incl.max(start + 1).min(u32::MAX as u64);
            let lo = if start < hi { start } else { hi - 1 };
            (format!("in:{}", hi), format!("in:{}", lo))
        }
        2 => {
            if r.chance(1, 2) {
                (format!("ex:{}", start), format!("ex:{}", start)) // equal excluded
            } else {
                // the open interval between two adjacent integers is empty too; often across a chunk edge
                let s = if r.chance(1, 2) { start | 0xFFFF } else { start };
                (format!("ex:{}", s), format!("ex:{}", (s + 1).min(u32::MAX as u64)))
            }
        }
        3 => ("un".to_string(), format!("in:{}", (len - 1).min(3 * 65536))), // unbounded start (small end)
        4 => (format!("ex:{}", u32::MAX), "un".to_string()),     // Excluded(MAX)..
        5 => ("un".to_string(), "ex:0".to_string()),              // ..0
        6 => (format!("in:{}", u32::MAX as u64 - (len - 1).min(70000)), "un".to_string()), // to the top
        7 | 8 => {
            // exclusive start
            let s = if start > 0 { start - 1 } else { 0 };
            (format!("ex:{}", s), format!("in:{}", end_incl))
        }
        9..=13 => (format!("in:{}", start), format!("ex:{}", (end_incl + 1).min(u32::MAX as u64))),
        _ => (format!("in:{}", start), format!("in:{}", end_incl)),
    }
}

/// ops that OR a sparse pattern (every `step`-th value, `count` values, starting at `start`) into slot `dst`,
/// built through `from_lsb0_bytes` into `tmp` (linear in the list model, unlike thousands of single inserts)
pub fn sparse_ops(out: &mut String, dst: &str, tmp: &str, start: u64, step: u64, count: u64) {
    use std::fmt::Write as _;
    let off = start & !7;
    let first = start - off;
    let nbits = first + step * (count - 1) + 1;
    let nbytes = ((nbits + 7) / 8) as usize;
    let mut bytes = vec![0u8; nbytes];
    for k in 0..count {
        let bit = first + step * k;
        bytes[(bit / 8) as usize] |= 1 << (bit % 8);
    }
    let mut h = String::with_capacity(nbytes * 2);
    for b in &bytes {
        write!(h, "{:02x}", b).unwrap();
    }
    writeln!(out, "from_lsb0 {} {} hex:{}", tmp, off, h).unwrap();
    writeln!(out, "or ar {} {} {}", dst, dst, tmp).unwrap();
}

/// values that populate 33..70 tiny chunks (1-3 values each) at consecutive keys starting next to the shared key pool: with
/// them a value has dozens of containers, so that binary searches, container drains, chunk-count heuristics and cursors that
/// resume a search are exercised (the shared pool alone never gives more than six chunks)
pub fn many_chunk_values(r: &mut Rng) -> String {
    use std::fmt::Write as _;
    let n = r.range(33, 70);
    let k0 = *r.pick(&[3u64, 8, 0xFFFE - n]);
    let mut s = String::new();
    for i in 0..n {
        if r.chance(1, 10) {
            continue; // a hole in the key sequence
        }
        let k = k0 + i;
        for _ in 0..r.range(1, 3) {
            write!(s, " {}", (k << 16) + *r.pick(&[0u64, 1, 63, 64, 4095, 65535])).unwrap();
        }
    }
    s
}

/// A *structured* input sequence for the operations that consume a sequence of values (`extend`, `from_iter`, their
/// `&`-item forms, `From<[T; N]>`): not only independent random values but the shapes a caller really passes and that a
/// sequence-aware implementation (run coalescing, "same chunk as the previous value" caches, sortedness shortcuts) could
/// mishandle — ascending runs of consecutive integers that cross an `edge` (a multiple of 2^16 for the 32-bit type, of
/// 2^32 for the 64-bit type), the same run descending, immediate repeats, a sorted sample, and concatenations of those.
/// `pick` draws one value of the profile's pool; `max` is the largest value of the type.
pub fn structured_seq(r: &mut Rng, maxlen: u64, edge: u64, max: u64, pick: &mut dyn FnMut(&mut Rng) -> u64) -> Vec<u64> {
    let mut v: Vec<u64> = Vec::new();
    let parts = r.range(1, 3);
    for _ in 0..parts {
        let room = maxlen.saturating_sub(v.len() as u64);
        if room == 0 {
            break;
        }
        match r.below(8) {
            0 | 1 => {
                // a run of consecutive integers across an edge: a before it, b from it on
                let p = pick(r);
                let e = (p / edge).max(1).saturating_mul(edge);
                let e = if e > max { edge } else { e };
                let a = r.range(0, 4).min(e);
                let b = r.range(if a == 0 { 1 } else { 0 }, 4);
                let mut run: Vec<u64> = (e - a..=(e - 1).saturating_add(b).min(max)).collect();
                if a == 0 && b == 0 {
                    run.push(e);
                }
                if r.chance(1, 4) {
                    run.reverse();
                }
                run.truncate(room as usize);
                v.extend(run);
            }
            2 => {
                // a run of consecutive integers anywhere (ascending; sometimes ending exactly at the top of the type)
                let n = r.range(2, 8).min(room);
                let s = if r.chance(1, 6) { max - (n - 1) } else { pick(r).min(max - (n - 1)) };
                v.extend(s..=s + (n - 1));
            }
            3 if r.chance(1, 2) => {
                // the top of the type immediately followed by its bottom (consecutive modulo 2^n, not consecutive)
                v.extend_from_slice(&[max - 1, max, 0, 1]);
                if r.chance(1, 2) {
                    v.reverse();
                }
                v.truncate(maxlen as usize);
            }
            3 => {
                // immediate repeats and a step back
                let p = pick(r);
                v.push(p);
                v.push(p);
                v.push(p.saturating_add(1).min(max));
                v.push(p);
                v.truncate(maxlen as usize);
            }
            4 => {
                // a sorted sample
                let n = r.range(1, 8).min(room);
                let mut s: Vec<u64> = (0..n).map(|_| pick(r)).collect();
                s.sort_unstable();
                v.extend(s);
            }
            _ => {
                let n = r.range(0, 8).min(room);
                for _ in 0..n {
                    v.push(pick(r));
                }
            }
        }
    }
    v
}

pub fn join_vals(v: &[u64]) -> String {
    let mut s = String::new();
    for x in v {
        s.push(' ');
        s.push_str(&x.to_string());
    }
    s
}
