//! C19: serde representation.  A value from a short history is serialised through the recording
//! serializer, handed back through each delivery kind (bytes / borrowed / buf / seq) and through real
//! postcard / JSON round trips; hand-encoded streams (valid, with trailing bytes, corrupted) exercise the
//! visitor's error path.
use super::common::*;
use crate::rng::Rng;
use std::fmt::Write as _;

/// RoaringFormatSpec encoder without run containers, written from the format description (not from the
/// crate): cookie 12346, container count, (key, cardinality-1) pairs, offsets, payloads.
pub fn encode(sorted: &[u32]) -> Vec<u8> {
    let mut groups: Vec<(u16, Vec<u16>)> = Vec::new();
    for &x in sorted {
        let k = (x >> 16) as u16;
        match groups.last_mut() {
            Some(g) if g.0 == k => g.1.push(x as u16),
            _ => groups.push((k, vec![x as u16])),
        }
    }
    let mut out = Vec::new();
    out.extend_from_slice(&12346u32.to_le_bytes());
    out.extend_from_slice(&(groups.len() as u32).to_le_bytes());
    for (k, v) in &groups {
        out.extend_from_slice(&k.to_le_bytes());
        out.extend_from_slice(&((v.len() - 1) as u16).to_le_bytes());
    }
    let mut off = 8 + 8 * groups.len() as u32;
    for (_, v) in &groups {
        out.extend_from_slice(&off.to_le_bytes());
        off += if v.len() <= 4096 { 2 * v.len() as u32 } else { 8192 };
    }
    for (_, v) in &groups {
        if v.len() <= 4096 {
            for x in v {
                out.extend_from_slice(&x.to_le_bytes());
            }
        } else {
            let mut words = [0u64; 1024];
            for &x in v {
                words[(x / 64) as usize] |= 1u64 << (x % 64);
            }
            for w in words {
                out.extend_from_slice(&w.to_le_bytes());
            }
        }
    }
    out
}

fn hex(bytes: &[u8]) -> String {
    let mut s = String::from("hex:");
    for b in bytes {
        write!(s, "{:02x}", b).unwrap();
    }
    s
}

fn small_set(r: &mut Rng) -> Vec<u32> {
    let mut v: Vec<u32> = Vec::new();
    let nkeys = r.range(1, 3) as usize;
    for _ in 0..r.range(0, 12) {
        v.push(value(r, nkeys));
    }
    if r.chance(1, 6) {
        // one bitset chunk
        let base = (key(r, nkeys) as u64) << 16;
        let n = *r.pick(&[4096u64, 4097, 5000]);
        let s = base + r.below(60000);
        v.extend((s..(s + n).min(base + 65536)).map(|x| x as u32));
    }
    v.sort_unstable();
    v.dedup();
    v
}

const KINDS: [&str; 4] = ["bytes", "borrowed", "buf", "seq"];

pub fn gen_case(r: &mut Rng, out: &mut String) {
    let nkeys = r.range(1, 4) as usize;
    // --- a value from a short history
    writeln!(out, "new b0").unwrap();
    writeln!(out, "new b5").unwrap();
    if r.chance(1, 6) {
        // a value of the shared catalogue (gen/zoo.rs)
        super::zoo::zoo_build(r, out, "b0");
    }
    if r.chance(1, 8) {
        // a completely full chunk (65536 values: its cardinality field is 0xFFFF), or one value short of it
        let base = (key(r, nkeys) as u64) << 16;
        writeln!(out, "insert_range b0 in:{} in:{}", base, base + 65535 - r.below(2)).unwrap();
    }
    for _ in 0..r.range(0, 5) {
        match r.below(8) {
            0..=2 => writeln!(out, "insert b0 {}", value(r, nkeys)).unwrap(),
            3..=4 => {
                let (lo, hi) = range_tokens(r, nkeys, 2);
                writeln!(out, "insert_range b0 {} {}", lo, hi).unwrap()
            }
            5 => {
                let (lo, hi) = range_tokens(r, nkeys, 2);
                writeln!(out, "remove_range b0 {} {}", lo, hi).unwrap()
            }
            6 => {
                // next to the array/bitset limit
                let base = (key(r, nkeys) as u64) << 16;
                let n = *r.pick(&[4095u64, 4096, 4097]);
                writeln!(out, "insert_range b0 in:{} ex:{}", base + 100, base + 100 + n).unwrap()
            }
            _ => writeln!(out, "remove b0 {}", value(r, nkeys)).unwrap(),
        }
    }
    writeln!(out, "dump b0").unwrap();
    // --- what the serializer is handed
    writeln!(out, "serde_events b0").unwrap();
    // --- every delivery kind reproduces the value — also right after a deserialization that broke off half-way (a
    // format error in the middle of the sequence): one call leaves nothing behind for the next one
    for (i, k) in KINDS.iter().enumerate() {
        if r.chance(1, 4) {
            writeln!(out, "serde_visit seqfail b6 ser:b0").unwrap();
        }
        if r.chance(3, 4) {
            let d = format!("b{}", i + 1);
            writeln!(out, "serde_visit {} {} ser:b0", k, d).unwrap();
            writeln!(out, "dump {}", d).unwrap();
            writeln!(out, "eq {} b0", d).unwrap();
            writeln!(out, "eq b0 {}", d).unwrap();
        }
    }
    // --- real formats
    writeln!(out, "serde_rt postcard b0").unwrap();
    writeln!(out, "serde_rt json b0").unwrap();
    // --- hand-encoded streams
    for _ in 0..r.range(1, 3) {
        let set = small_set(r);
        let mut bytes = encode(&set);
        let kind = *r.pick(&KINDS);
        match r.below(10) {
            0..=3 => {} // valid as it is
            4 => {
                // trailing bytes are not read
                for _ in 0..r.range(1, 9) {
                    bytes.push(r.below(256) as u8);
                }
            }
            5 | 6 => {
                let n = r.below(bytes.len() as u64) as usize;
                bytes.truncate(n);
            }
            7 => bytes[0] ^= 1 << r.below(8),
            8 => {
                // swap two adjacent payload values / bytes near the end (unsorted array or changed bitset)
                let n = bytes.len();
                if n >= 20 {
                    bytes.swap(n - 4, n - 2);
                    bytes.swap(n - 3, n - 1);
                }
            }
            _ => {
                // a random byte of the header or payload
                let i = r.below(bytes.len() as u64) as usize;
                bytes[i] = bytes[i].wrapping_add(r.range(1, 255) as u8);
            }
        }
        writeln!(out, "serde_visit {} b5 {}", kind, hex(&bytes)).unwrap();
        writeln!(out, "dump b5").unwrap();
    }
    // --- the payload of the OTHER type (a treemap stream starts with its u64 partition count, not with a cookie)
    if r.chance(1, 3) {
        let g64 = super::stream64::gen_stream64(r, true, false);
        writeln!(out, "serde_visit {} b5 {}", *r.pick(&KINDS), hex(&g64.bytes)).unwrap();
        writeln!(out, "dump b5").unwrap();
    }
}
