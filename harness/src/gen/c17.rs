//! C17: `from_lsb0_bytes` against the same set built by insertion.
//!
//! The generator first chooses the *set of absolute bit positions* inside the window
//! `[offset, offset + 8*len)` chunk by chunk (so chunk populations can be steered exactly, also for
//! unaligned offsets where the shifted bytes straddle chunk edges differently from the input bytes),
//! then derives the byte slice and the insertion script from that one list.
use super::common::KEYS;
use crate::rng::Rng;
use std::fmt::Write as _;

pub const TWO32: u64 = 1 << 32;

fn hex(bytes: &[u8]) -> String {
    let mut s = String::with_capacity(bytes.len() * 2 + 4);
    s.push_str("hex:");
    for b in bytes {
        write!(s, "{:02x}", b).unwrap();
    }
    s
}

/// the byte slice whose set bits (LSB first, counted from `offset`) are exactly `bits`
pub fn bytes_of_bits(offset: u64, len: u64, bits: &[u64]) -> Vec<u8> {
    let mut v = vec![0u8; len as usize];
    for &x in bits {
        let d = x - offset;
        v[(d / 8) as usize] |= 1 << (d % 8);
    }
    v
}

/// maximal runs `[a, b]` of consecutive values of a sorted, duplicate-free list
pub fn runs_of(bits: &[u64]) -> Vec<(u64, u64)> {
    let mut rs: Vec<(u64, u64)> = Vec::new();
    for &x in bits {
        match rs.last_mut() {
            Some(l) if l.1 + 1 == x => l.1 = x,
            _ => rs.push((x, x)),
        }
    }
    rs
}

/// Populate `[lo, hi)` (the part of one chunk inside the window).  `off` is the window start (byte
/// alignment of dense runs is relative to it).  Returns a tag for debugging.
pub fn chunk_pattern(r: &mut Rng, off: u64, lo: u64, hi: u64, prefer_zero: bool, bits: &mut Vec<u64>) {
    let avail = hi - lo;
    if avail == 0 {
        return;
    }
    let z = r.below(100);
    if (prefer_zero && z < 40) || z < 8 {
        return; // all-zero part: no container may be created for it
    }
    // population target next to the array/bitset limit
    let t = *r.pick(&[4095u64, 4096, 4096, 4097]);
    let sel = r.below(16);
    match sel {
        0..=3 if avail >= 2 * t => {
            // sparse: one FIXED stride for the whole chunk (drawn once, never per bit)
            let s = (*r.pick(&[2u64, 3, 7, 8, 15, 16, 16])).min(avail / t);
            let span = s * (t - 1) + 1;
            let start = lo + r.below(avail - span + 1);
            let first = bits.len();
            for i in 0..t {
                bits.push(start + s * i);
            }
            // move a few bits by one position (count unchanged, stride >= 2 so no collision)
            for _ in 0..r.below(4) {
                let i = first + r.below(t - 1) as usize;
                if bits[i] + 1 < bits[i + 1] {
                    bits[i] += 1;
                }
            }
        }
        0..=6 if avail >= t => {
            // dense: `t` consecutive bits; byte-aligned relative to the window half of the time
            // (t = 4096 aligned = 512 bytes of 0xff)
            let mut start = lo + r.below(avail - t + 1);
            if r.chance(1, 2) {
                let a = start - (start - off) % 8;
                if a >= lo {
                    start = a
                } else if a + 8 + t <= hi {
                    start = a + 8
                }
            }
            if r.chance(1, 3) && avail >= t + 40 {
                // two runs with a gap
                let a = r.range(1, t - 1);
                let gap = r.range(1, (avail - t).min(200));
                let start = lo + r.below(avail - t - gap + 1);
                bits.extend(start..start + a);
                bits.extend(start + a + gap..start + gap + t);
            } else {
                bits.extend(start..start + t);
            }
        }
        7..=8 if avail >= t + 600 => {
            // a dense run plus scattered single bits, `t` in total
            let m = r.range(1, 60);
            let run = t - m;
            let start = lo + r.below(avail - t - 500);
            bits.extend(start..start + run);
            // singles after the run with stride >= 2
            let room = hi - (start + run + 1);
            let s = (room / m).clamp(2, 8);
            for i in 0..m {
                let x = start + run + 1 + s * i;
                if x < hi {
                    bits.push(x)
                }
            }
        }
        9 => {
            // edges of the part and of the chunk
            for &x in &[lo, lo + 1, hi - 1, hi.saturating_sub(2).max(lo), lo + avail / 2] {
                if r.chance(2, 3) && lo <= x && x < hi {
                    bits.push(x);
                }
            }
        }
        10 => {
            // large dense run: a bitset chunk (when the part is big enough)
            let n = (avail / 2 + r.below(avail / 2 + 1)).max(1);
            let start = lo + r.below(avail - n + 1);
            bits.extend(start..start + n);
        }
        11 if avail >= 64 && r.chance(1, 3) => {
            // every 8th bit of the whole part (8192 singles in a full chunk: bitset from single bits)
            let ph = r.below(8);
            let mut x = lo + ph;
            while x < hi {
                bits.push(x);
                x += 8;
            }
        }
        12..=13 if avail <= 6000 => {
            // random bytes of a given density
            let den = *r.pick(&[1u64, 4, 7]);
            for x in lo..hi {
                if r.below(8) < den {
                    bits.push(x);
                }
            }
        }
        14 if avail >= 128 => {
            // a few fully set, 64-bit aligned words (array-sized population), in particular the first and the LAST word
            // of the part (the top word of a chunk when the part ends at a chunk edge)
            let first = (lo + 63) / 64 * 64;
            let last = hi / 64 * 64 - 64;
            let mut words = vec![last];
            if r.chance(1, 2) {
                words.push(first);
            }
            for _ in 0..r.below(4) {
                words.push(first + 64 * r.below((last - first) / 64 + 1));
            }
            words.sort();
            words.dedup();
            for w in words {
                if w >= lo && w + 64 <= hi {
                    bits.extend(w..w + 64);
                }
            }
        }
        _ => {
            // a few random single bits and short runs
            for _ in 0..r.range(1, 12) {
                let x = lo + r.below(avail);
                let n = *r.pick(&[1u64, 1, 1, 2, 7, 8, 9, 63, 64, 65]);
                for y in x..(x + n).min(hi) {
                    bits.push(y);
                }
            }
        }
    }
}

/// ops that build the set `bits` in `slot` through the insertion API only
pub fn build_by_insertion(r: &mut Rng, out: &mut String, slot: &str, bits: &[u64]) {
    let runs = runs_of(bits);
    if bits.len() <= 150 && r.chance(1, 2) {
        // from_iter, in ascending / descending / rotated order
        let mut v: Vec<u64> = bits.to_vec();
        match r.below(3) {
            0 => v.reverse(),
            1 if !v.is_empty() => {
                let k = r.below(v.len() as u64) as usize;
                v.rotate_left(k)
            }
            _ => {}
        }
        let mut s = String::new();
        for x in v {
            write!(s, " {}", x).unwrap();
        }
        writeln!(out, "from_iter {}{}", slot, s).unwrap();
    } else if runs.len() <= 48 {
        writeln!(out, "new {}", slot).unwrap();
        let mut rs = runs;
        if r.chance(1, 2) {
            rs.reverse();
        }
        for (a, b) in rs {
            if a == b && r.chance(1, 2) {
                writeln!(out, "insert {} {}", slot, a).unwrap();
            } else if b < u32::MAX as u64 && r.chance(1, 2) {
                writeln!(out, "insert_range {} in:{} ex:{}", slot, a, b + 1).unwrap();
            } else {
                writeln!(out, "insert_range {} in:{} in:{}", slot, a, b).unwrap();
            }
        }
    } else {
        // many separate bits: one from_iter in DESCENDING order (front insertion is O(1) per value in the
        // list model; the crate does not care); long runs are added as ranges afterwards, highest first
        let long = |&(a, b): &(u64, u64)| b - a >= 15 && bits.len() > 9000;
        let mut s = String::new();
        for &(a, b) in runs.iter().rev().filter(|x| !long(x)) {
            for x in (a..=b).rev() {
                write!(s, " {}", x).unwrap();
            }
        }
        writeln!(out, "from_iter {}{}", slot, s).unwrap();
        for &(a, b) in runs.iter().rev().filter(|x| long(x)) {
            writeln!(out, "insert_range {} in:{} in:{}", slot, a, b).unwrap();
        }
    }
}

fn pick_len(r: &mut Rng) -> u64 {
    match r.below(100) {
        0..=4 => 0,
        5..=19 => r.range(1, 7),
        20..=34 => {
            if r.chance(1, 2) {
                *r.pick(&[8u64, 9, 15, 16, 17, 24, 31, 32, 33, 40])
            } else {
                r.range(8, 40)
            }
        }
        35..=49 => {
            if r.chance(1, 2) {
                *r.pick(&[511u64, 512, 513, 520, 600])
            } else {
                r.range(41, 700)
            }
        }
        50..=54 => *r.pick(&[8184u64, 8185, 8190, 8191]),
        55..=79 => 8192,
        _ => {
            if r.chance(1, 2) {
                *r.pick(&[8193u64, 8200, 12288, 16383, 16384, 16385, 20000, 24575, 24576])
            } else {
                r.range(8193, 24576)
            }
        }
    }
}

fn pick_offset(r: &mut Rng, len: u64) -> u64 {
    let res = if r.chance(1, 3) { 0 } else { r.below(8) };
    let mut base: u64 = match r.below(10) {
        0..=1 => 0,
        2 => 8 * r.range(1, 40),
        3..=5 => {
            let edge = *r.pick(&[1u64, 2, 7, 0xFFFF]) << 16;
            match r.below(4) {
                0 => edge,
                1 => edge + 8 * r.range(1, 4),
                2 => edge - 8 * r.range(1, 4),
                _ => edge - 8 * r.below(len + 1).min(8000), // the slice straddles the edge
            }
        }
        6 => (*r.pick(&KEYS) as u64) << 16,
        _ => {
            // near 2^32 (j = 0: exactly fitting when aligned)
            let j = *r.pick(&[0u64, 0, 1, 2, 3, 1000]);
            TWO32 - 8 * len - 8 * j.min((TWO32 - 8 * len) / 8)
        }
    };
    // stay inside the documented domain: offset <= u32::MAX and offset + 8*len <= 2^32
    while base + res + 8 * len > TWO32 || base + res > u32::MAX as u64 {
        base -= 8;
    }
    base + res
}

/// the window's chunks: (key, lo, hi) with `[lo, hi)` = chunk ∩ window
pub fn window_chunks(off: u64, len: u64) -> Vec<(u64, u64, u64)> {
    let end = off + 8 * len;
    let mut v = Vec::new();
    let mut lo = off;
    while lo < end {
        let k = lo >> 16;
        let hi = ((k + 1) << 16).min(end);
        v.push((k, lo, hi));
        lo = hi;
    }
    v
}

pub fn gen_case(r: &mut Rng, out: &mut String) {
    let len = pick_len(r);
    let off = pick_offset(r, len);
    let chunks = window_chunks(off, len);
    let mut bits: Vec<u64> = Vec::new();
    let n = chunks.len();
    for (i, &(_, lo, hi)) in chunks.iter().enumerate() {
        let middle = n >= 3 && i > 0 && i + 1 < n;
        chunk_pattern(r, off, lo, hi, middle, &mut bits);
    }
    bits.sort_unstable();
    bits.dedup();
    let bytes = bytes_of_bits(off, len, &bits);

    writeln!(out, "from_lsb0 b0 {} {}", off, hex(&bytes)).unwrap();
    writeln!(out, "dump b0").unwrap();
    build_by_insertion(r, out, "b1", &bits);
    writeln!(out, "dump b1").unwrap();
    writeln!(out, "eq b0 b1").unwrap();
    writeln!(out, "eq b1 b0").unwrap();
    for &(k, _, _) in &chunks {
        writeln!(out, "range_cardinality b0 in:{} in:{}", k << 16, (k << 16) + 65535).unwrap();
    }
    writeln!(out, "stats b0").unwrap();
    // the imported value must behave like any other under mutation (crossing 4096 in both directions)
    if !bits.is_empty() && r.chance(1, 3) {
        for _ in 0..r.range(1, 3) {
            let x = *r.pick(&bits);
            let y = if x + 1 < TWO32 { x + 1 } else { x - 1 };
            let (op, v) = if r.chance(1, 2) { ("remove", x) } else { ("insert", y) };
            writeln!(out, "{} b0 {}", op, v).unwrap();
            writeln!(out, "{} b1 {}", op, v).unwrap();
            writeln!(out, "dump b0").unwrap();
            writeln!(out, "dump b1").unwrap();
            writeln!(out, "eq b0 b1").unwrap();
        }
    }
    // the edge of the domain: exactly fitting, then (last, it may panic) extending past 2^32
    if r.chance(1, 5) {
        let plen = if r.chance(1, 8) { 8192 + r.below(3) } else { r.range(1, 24) };
        let mut pb: Vec<u8> = (0..plen).map(|_| if r.chance(1, 3) { r.below(256) as u8 } else { 0 }).collect();
        let last = (plen - 1) as usize;
        pb[last] = *r.pick(&[0x80u8, 0x01, 0xff, 0x10, 0x00, 0x0f]);
        let fit = TWO32 - 8 * plen;
        writeln!(out, "from_lsb0 b2 {} {}", fit, hex(&pb)).unwrap();
        writeln!(out, "dump b2").unwrap();
        writeln!(out, "from_lsb0 b3 {} hex:", u32::MAX as u64 - r.below(9)).unwrap();
        writeln!(out, "dump b3").unwrap();
        // aligned: one byte too far -> documented panic; unaligned: panics iff a set bit is shifted past 2^32
        let over = match r.below(3) {
            0 => fit + 8,
            1 => fit + r.range(1, 7),
            _ => fit + 8 * r.range(1, plen),
        };
        writeln!(out, "from_lsb0 b4 {} {}", over.min(u32::MAX as u64), hex(&pb)).unwrap();
        writeln!(out, "dump b4").unwrap();
    }
}
