//! C14T: the `RoaringTreemap` half of C14.  Read schedules (1-byte reads, interrupted reads, odd chunk sizes),
//! every truncation point of small streams (sampled cut points at/next to field boundaries for longer ones),
//! writers failing at every byte position (small) in both failure modes.
use super::c05::hex;
use super::c14::{cut_points, sched};
use super::stream64;
use crate::rng::Rng;
use std::fmt::Write as _;

/// all positions `0..=total+1` when the stream is small, sampled cut points otherwise
fn positions(r: &mut Rng, bounds: &[usize], total: usize, all_below: usize, n: usize) -> Vec<usize> {
    if total <= all_below {
        (0..=total + 1).collect()
    } else {
        cut_points(r, bounds, total, n)
    }
}

pub fn gen_case(r: &mut Rng, out: &mut String) {
    let (small, allow_empty) = (r.chance(9, 10), r.chance(1, 4));
    let mut g = stream64::gen_stream64(r, small, allow_empty);
    // mostly streams small enough for exhaustive sweeps
    for _ in 0..6 {
        if g.bytes.len() <= 400 || r.chance(1, 4) {
            break;
        }
        g = stream64::gen_stream64(r, true, false);
    }
    let h = hex(&g.bytes);
    let total = g.bytes.len();
    let bounds = g.layout.boundaries(&g.buckets, total);
    writeln!(out, "note {}", g.describe()).unwrap();
    // the plain decode and the same bytes through scheduled readers
    writeln!(out, "tnew t0").unwrap();
    writeln!(out, "tdeser chk t0 {}", h).unwrap();
    writeln!(out, "tdump t0").unwrap();
    for _ in 0..3 {
        let m = if r.chance(3, 4) { "chk" } else { "unchk" };
        writeln!(out, "tnew t1").unwrap();
        writeln!(out, "tdeser_sched {} t1 {} {}", m, sched(r), h).unwrap();
        writeln!(out, "tdump t1").unwrap();
        writeln!(out, "teq t1 t0").unwrap();
        writeln!(out, "expect true").unwrap();
    }
    // truncations of the generated (possibly run-encoded) stream
    writeln!(out, "tnew t2").unwrap();
    for k in positions(r, &bounds, total, 100, 10) {
        let m = if r.chance(3, 4) { "chk" } else { "unchk" };
        writeln!(out, "tdeser_trunc {} t2 {} {}", m, k, h).unwrap();
    }
    // a truncated stream through a scheduled reader
    let k = r.below(total as u64 + 1) as usize;
    writeln!(out, "tdeser_sched chk t2 {} {}", sched(r), hex(&g.bytes[..k])).unwrap();
    // the crate's own serialisation of the value: prefixes and failing writers.  Its layout: 8 bytes count, per
    // non-empty bucket 4 bytes key + the run-free inner encoding (8 + 8n + payloads)
    let mut own = 8usize;
    let mut own_bounds = vec![8usize];
    for b in g.buckets.iter().filter(|b| !b.g.chunks.is_empty()) {
        own += 4;
        own_bounds.push(own);
        let n = b.g.chunks.len();
        own_bounds.extend([own + 4, own + 8, own + 8 + 4 * n, own + 8 + 8 * n]);
        own += 8 + 8 * n;
        for c in &b.g.chunks {
            own += if c.vals.len() <= 4096 { 2 * c.vals.len() } else { 8192 };
            own_bounds.push(own);
        }
    }
    for k in positions(r, &own_bounds, own, 100, 8) {
        let m = if r.chance(3, 4) { "chk" } else { "unchk" };
        writeln!(out, "tdeser_prefix {} t2 t0 {}", m, k).unwrap();
    }
    let every = own <= 100;
    for k in positions(r, &own_bounds, own, 100, 8) {
        let md = if r.chance(1, 2) { "err" } else { "zero" };
        let sc = if every && r.chance(1, 2) { "sched:".to_string() } else { sched(r) };
        writeln!(out, "tser_fail t0 limit:{} mode:{} {}", k, md, sc).unwrap();
    }
    writeln!(out, "tser t0").unwrap();
    writeln!(out, "tdump t0").unwrap();
}
