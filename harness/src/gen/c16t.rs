//! C16T: totality of the 64-bit type and of both iterator families.  Values from short histories (empty, one
//! partition, partitions 0 / 1 / u32::MAX, a bitset chunk), then the property's argument table - empty, inverted,
//! unbounded, exclusive bounds, 0, u32::MAX, u64::MAX, targets before the front / beyond the back / in absent
//! partitions / in the partition the other end has already opened - through the treemap methods and through
//! `advance_to` / `advance_back_to` / `nth` / `next` / `next_back` / `size_hint` of all four iterator types.
use crate::rng::Rng;
use std::fmt::Write as _;

const P32: u64 = 1 << 32;
const M64: u64 = u64::MAX;
const M32: u64 = u32::MAX as u64;

fn tbounds(r: &mut Rng, a: u64, len: u64) -> (String, String) {
    let b = a.saturating_add(len);
    let i = |x: u64| format!("in:{}", x);
    let e = |x: u64| format!("ex:{}", x);
    let un = || "un".to_string();
    match r.below(24) {
        0 => (i(a), e(a)),
        1 => (e(a), i(a)),
        2 => (e(a), e(a.saturating_add(1))),
        3 => (un(), e(0)),
        4 => (e(M64), un()),
        5 => (i(M64), e(M64)),
        6 => (e(M64), e(M64)),
        7 => (e(0), e(0)),
        8 => (i(b), i(a)),
        9 => (e(b), e(a)),
        10 => (i(M64), i(0)),
        11 => (i(1), i(0)),
        12 => (i(0), i(0)),
        13 => (i(M64), i(M64)),
        14 => (i(M64), un()),
        15 => (e(M64 - 1), un()),
        16 => (e(a), i(b)),
        17 => (e(a), e(b)),
        18 => (i(a), e(b)),
        19 => (i(a), i(b)),
        20 => (i(M64 - len.min(60000)), un()),
        21 => (un(), i(len.min(60000))),
        // across a partition edge, short
        22 => (i(((a >> 32) << 32).saturating_add(P32 - 1 - len.min(3000))), i(((a >> 32) << 32).saturating_add(P32 - 1).saturating_add(len.min(3000)))),
        _ => (e(a.saturating_sub(1)), e(a.saturating_add(1))),
    }
}

fn tvalue(r: &mut Rng, pks: &[u64]) -> u64 {
    let pk = *r.pick(pks);
    let lo = match r.below(8) {
        0 => 0,
        1 => M32,
        2 => 65535,
        3 => 65536,
        4 => M32 - 1,
        _ => r.below(200000),
    };
    (pk << 32) | lo
}

fn targets64(r: &mut Rng, pks: &[u64]) -> u64 {
    match r.below(10) {
        0 => 0,
        1 => M64,
        2 => M64 - r.below(3),
        3 => P32 * r.below(4),                                   // first value of a (possibly absent) partition
        4 => (P32 * r.range(1, 4)).saturating_sub(1),            // last value of a partition
        5 => ((*pks.iter().max().unwrap() + 1).min(M32) << 32) | r.below(5), // just beyond the last partition
        6 => (pks.iter().min().unwrap().saturating_sub(1) << 32) | M32, // just before the first
        _ => tvalue(r, pks),
    }
}

/// every observer of a treemap whose answer depends on the partition list being clean (no emptied partition left
/// behind): the value itself, both ends, emptiness, the formatter, and a sorted append onto it (on a clone)
fn observe_t(r: &mut Rng, out: &mut String, t: &str) {
    writeln!(out, "tdump {}", t).unwrap();
    writeln!(out, "tmin {}", t).unwrap();
    writeln!(out, "tmax {}", t).unwrap();
    writeln!(out, "tis_empty {}", t).unwrap();
    writeln!(out, "tdebug {}", t).unwrap();
    if r.chance(1, 2) {
        writeln!(out, "tclone t9 {}", t).unwrap();
        writeln!(out, "tappend t9 {} {}", M64 - 1, M64).unwrap();
        writeln!(out, "tpush t9 {}", M64).unwrap();
        writeln!(out, "tdump t9").unwrap();
    }
}

pub fn gen_case(r: &mut Rng, out: &mut String) {
    // ---------------------------------------------------------------- the 64-bit type
    let pks: Vec<u64> = match r.below(6) {
        0 => vec![0],
        1 => vec![0, 1],
        2 => vec![M32],
        3 => vec![0, M32],
        4 => vec![1, 2, M32],
        _ => vec![0, 2],
    };
    writeln!(out, "tnew t0").unwrap();
    let empty = r.chance(1, 10);
    if !empty {
        for &pk in &pks {
            for _ in 0..r.range(1, 3) {
                match r.below(5) {
                    0 => writeln!(out, "tinsert t0 {}", tvalue(r, &[pk])).unwrap(),
                    1 => {
                        let a = (pk << 32) + *r.pick(&[0u64, 65000, M32 - 5000]);
                        writeln!(out, "tinsert_range t0 in:{} in:{}", a, a + r.range(1, 4999)).unwrap();
                    }
                    2 => writeln!(out, "tinsert t0 {}", (pk << 32) | M32).unwrap(),
                    3 => writeln!(out, "tinsert t0 {}", pk << 32).unwrap(),
                    _ => {
                        let a = (pk << 32) + r.below(100000);
                        writeln!(out, "tinsert_range t0 in:{} in:{}", a, a + r.range(1, 40)).unwrap();
                    }
                }
            }
        }
    }
    writeln!(out, "tdump t0").unwrap();
    writeln!(out, "tdebug t0").unwrap();
    for _ in 0..r.range(4, 10) {
        let a = tvalue(r, &pks);
        let len = *r.pick(&[1u64, 2, 100, 5000, 70000]);
        let (lo, hi) = tbounds(r, a, len);
        match r.below(12) {
            0..=2 => {
                writeln!(out, "tinsert_range t0 {} {}", lo, hi).unwrap();
                writeln!(out, "tdump t0").unwrap();
            }
            3..=5 => {
                writeln!(out, "tremove_range t0 {} {}", lo, hi).unwrap();
                observe_t(r, out, "t0");
            }
            6 => {
                // the wide removals that a list model can afford (removal never grows the value)
                let w = match r.below(5) {
                    0 => ("un".to_string(), "un".to_string()),
                    1 => ("in:0".to_string(), format!("in:{}", M64)),
                    2 => (format!("in:{}", a), "un".to_string()),
                    3 => ("un".to_string(), format!("ex:{}", a)),
                    _ => (format!("in:{}", (pks[0] << 32) | 7), format!("in:{}", (pks[pks.len() - 1] << 32) | 9)),
                };
                writeln!(out, "tclone t1 t0").unwrap();
                writeln!(out, "tremove_range t1 {} {}", w.0, w.1).unwrap();
                observe_t(r, out, "t1");
            }
            7 => writeln!(out, "trank t0 {}", targets64(r, &pks)).unwrap(),
            8 => writeln!(out, "tselect t0 {}", *r.pick(&[0u64, 1, 4096, 65536, M32, P32, 1 << 40, M64 - 1, M64])).unwrap(),
            9 => {
                let v = targets64(r, &pks);
                writeln!(out, "tcontains t0 {}", v).unwrap();
                writeln!(out, "{} t0 {}", *r.pick(&["tinsert", "tremove", "tpush"]), v).unwrap();
            }
            10 => {
                writeln!(out, "tmin t0").unwrap();
                writeln!(out, "tmax t0").unwrap();
                writeln!(out, "tlen t0").unwrap();
                writeln!(out, "tis_empty t0").unwrap();
                writeln!(out, "tis_full t0").unwrap();
            }
            _ => {
                let v = targets64(r, &pks);
                writeln!(out, "tappend t0 {} {}", v, v.saturating_add(1)).unwrap();
                writeln!(out, "textend t0 {} 0 {}", v, M64).unwrap();
            }
        }
    }
    writeln!(out, "tdebug t0").unwrap();
    writeln!(out, "tdump t0").unwrap();
    // ---------------------------------------------------------------- 64-bit iterators
    for _ in 0..2 {
        // advance_to / advance_back_to exist on the borrowing iterator only
        let borrowed = r.chance(3, 4);
        writeln!(out, "{} t0 j0", if borrowed { "titer" } else { "tinto_iter" }).unwrap();
        for _ in 0..r.range(4, 12) {
            match r.below(10) {
                0..=1 => writeln!(out, "jnext j0").unwrap(),
                2..=3 => writeln!(out, "jnext_back j0").unwrap(),
                4..=6 if borrowed => writeln!(out, "jadvance_to j0 {}", targets64(r, &pks)).unwrap(),
                7..=8 if borrowed => writeln!(out, "jadvance_back_to j0 {}", targets64(r, &pks)).unwrap(),
                4..=6 => writeln!(out, "jlen j0").unwrap(),
                7..=8 => {
                    let n = *r.pick(&[0u64, 1, 2, 4096, 5000, 65536, M32, P32, M64]);
                    writeln!(out, "{} j0 {}", if r.chance(1, 2) { "jnth" } else { "jnth_back" }, n).unwrap()
                }
                _ => writeln!(out, "jsize_hint j0").unwrap(),
            }
        }
        writeln!(out, "jsize_hint j0").unwrap();
        writeln!(out, "jnext j0").unwrap();
        writeln!(out, "jnext_back j0").unwrap();
        writeln!(out, "{} j0", *r.pick(&["jdrain_fwd", "jdrain_rev", "jfold", "jrfold"])).unwrap();
    }
    // ---------------------------------------------------------------- 32-bit iterators
    writeln!(out, "new b0").unwrap();
    if !r.chance(1, 10) {
        for _ in 0..r.range(1, 4) {
            let k = *r.pick(&[0u64, 1, 2, 0xFFFF]) << 16;
            match r.below(4) {
                0 => writeln!(out, "insert_range b0 in:{} in:{}", k + 100, k + 100 + r.range(4097, 6000)).unwrap(),
                1 => writeln!(out, "insert b0 {}", k + *r.pick(&[0u64, 63, 64, 65535])).unwrap(),
                2 => writeln!(out, "insert_range b0 in:{} in:{}", k + 60000, k + 65535).unwrap(),
                _ => writeln!(out, "insert_range b0 in:{} in:{}", k + r.below(60000), k + 60000 + r.below(100)).unwrap(),
            }
        }
    }
    writeln!(out, "dump b0").unwrap();
    let t32 = |r: &mut Rng| -> u64 {
        match r.below(8) {
            0 => 0,
            1 => M32,
            2 => M32 - r.below(3),
            3 => *r.pick(&[65535u64, 65536, 131071, 131072, 0xFFFF_0000, 0xFFFE_FFFF]),
            4 => (*r.pick(&[0u64, 1, 2, 3, 0xFFFE, 0xFFFF]) << 16) | *r.pick(&[0u64, 63, 64, 127, 128, 4095, 65535]),
            _ => (*r.pick(&[0u64, 1, 2, 0xFFFF]) << 16) + r.below(65536),
        }
    };
    for _ in 0..2 {
        match r.below(4) {
            0 => writeln!(out, "iter b0 i0").unwrap(),
            1 => writeln!(out, "into_iter b0 i0").unwrap(),
            w => {
                // range()/into_range() with every non-panicking bound shape (the two documented panics are C03's)
                let a = t32(r);
                let b = t32(r).max(a);
                let (lo, hi) = match r.below(6) {
                    0 => (format!("in:{}", a), format!("in:{}", b)),
                    1 => (format!("in:{}", a), format!("ex:{}", b.max(a + 1).min(M32))),
                    2 => ("un".to_string(), format!("in:{}", b)),
                    3 => (format!("in:{}", a), "un".to_string()),
                    4 => ("un".to_string(), "un".to_string()),
                    _ => (format!("in:{}", a), format!("in:{}", a)),
                };
                if a + 1 > M32 && lo.starts_with("in:") && hi.starts_with("ex:") {
                    writeln!(out, "iter b0 i0").unwrap();
                } else {
                    writeln!(out, "{} b0 {} {} i0", if w == 2 { "range" } else { "into_range" }, lo, hi).unwrap();
                }
            }
        }
        for _ in 0..r.range(4, 12) {
            match r.below(12) {
                0..=1 => writeln!(out, "next i0").unwrap(),
                2..=3 => writeln!(out, "next_back i0").unwrap(),
                4..=6 => writeln!(out, "advance_to i0 {}", t32(r)).unwrap(),
                7..=8 => writeln!(out, "advance_back_to i0 {}", t32(r)).unwrap(),
                9 => writeln!(out, "nth i0 {}", *r.pick(&[0u64, 1, 63, 64, 4096, 65536, M32, M64 >> 1])).unwrap(),
                10 => writeln!(out, "nth_back i0 {}", *r.pick(&[0u64, 1, 63, 64, 4096, 65536, M32, M64 >> 1])).unwrap(),
                _ => writeln!(out, "size_hint i0").unwrap(),
            }
        }
        writeln!(out, "size_hint i0").unwrap();
        writeln!(out, "next i0").unwrap();
        writeln!(out, "next_back i0").unwrap();
        writeln!(out, "{} i0", *r.pick(&["drain_fwd", "drain_rev", "count", "fold", "rfold"])).unwrap();
    }
}
