//! C12: treemaps with 2-4 (mostly non-adjacent) partitions of a handful to a few thousand values, then a
//! script of 10-40 calls on `iter()` / `into_iter()` (next, next_back, advance_to, advance_back_to) with
//! targets in present / absent / lower / higher / current partitions, before the front and after the back,
//! `jsize_hint` after every call and a final drain; plus `bitmaps()` in both directions.
use super::c10::PKEYS;
use crate::rng::Rng;
use std::fmt::Write as _;

const P32: u64 = 1 << 32;

pub fn gen_case(r: &mut Rng, out: &mut String) {
    // partitions: a random subset of the pool, ascending
    let npart = r.range(2, 4) as usize;
    let mut pks: Vec<u64> = PKEYS.to_vec();
    while pks.len() > npart {
        let i = r.below(pks.len() as u64) as usize;
        pks.remove(i);
    }
    writeln!(out, "tnew t0").unwrap();
    // interesting values: endpoints of what was inserted
    let mut marks: Vec<u64> = Vec::new();
    let mut small = true;
    for (pi, &pk) in pks.iter().enumerate() {
        let base = pk << 32;
        // first / last partitions are often tiny so that a few next / next_back calls cross into the neighbour
        let tiny = (pi == 0 || pi + 1 == pks.len()) && r.chance(1, 2);
        let nruns = if tiny { 1 } else { r.range(1, 3) };
        for _ in 0..nruns {
            let len = if tiny {
                r.range(1, 3)
            } else {
                match r.below(10) {
                    0..=3 => r.range(1, 20),
                    4..=6 => r.range(21, 400),
                    7 => r.range(400, 1500),
                    8 => {
                        small = false;
                        r.range(1500, 4096)
                    }
                    _ => {
                        // a bitset chunk inside the partition (the word-level cursors of the 32-bit layer)
                        small = false;
                        r.range(4097, 7000)
                    }
                }
            };
            let lo = match r.below(6) {
                0 => 0,
                1 => P32 - len,
                2 => 65536 - len.min(65536) / 2,
                3 => r.below(3) * 65536 + r.below(65536),
                4 => 0xFFFE_0000 + r.below(1000),
                _ => r.below(200000),
            };
            let a = base + lo;
            let b = a + (len - 1);
            writeln!(out, "tinsert_range t0 in:{} in:{}", a, b).unwrap();
            marks.extend_from_slice(&[a, b, a + len / 2]);
        }
        if r.chance(1, 2) {
            let mut s = String::new();
            for _ in 0..r.range(1, 4) {
                let v = base + *r.pick(&[0u64, 1, 65535, 65536, 7 * 65536 + 3, P32 - 1, P32 - 2, 1 << 31]);
                write!(s, " {}", v).unwrap();
                marks.push(v);
            }
            writeln!(out, "textend t0{}", s).unwrap();
        }
    }
    writeln!(out, "tdump t0").unwrap();
    if r.chance(1, 4) {
        writeln!(out, "tbitmaps t0").unwrap();
        writeln!(out, "tbitmaps_rev t0").unwrap();
        let n = r.range(1, 6);
        let pat: String = (0..n).map(|_| if r.chance(1, 2) { 'f' } else { 'b' }).collect();
        writeln!(out, "tbitmaps_mix t0 {}", pat).unwrap();
    }
    let borrowed = !r.chance(1, 4);
    writeln!(out, "{} t0 j0", if borrowed { "titer" } else { "tinto_iter" }).unwrap();
    writeln!(out, "jsize_hint j0").unwrap();
    let ncalls = r.range(10, 40);
    marks.sort();
    marks.dedup();
    // the generator's own estimate of the window [lo, hi] left by the advance calls issued so far (it never
    // looks at results): most targets move one end a few marks inwards, some lie outside the window
    // (before the front / after the back = no-op; beyond the other end = empties the iterator)
    let mut lo: u64 = marks[0];
    let mut hi: u64 = marks[marks.len() - 1];
    let special = |r: &mut Rng, pks: &[u64], marks: &[u64]| -> u64 {
        match r.below(5) {
            0 => {
                // a present partition, arbitrary low part
                let pk = *r.pick(pks);
                (pk << 32) | *r.pick(&[0u64, 1, 10, 65536, 1 << 31, P32 - 1])
            }
            1 | 2 => {
                // an absent partition (between / below / above the present ones)
                let pk = *r.pick(&[2u64, 2, 5, 1000, 0xFFFF_FFFE]);
                (pk << 32) | *r.pick(&[0u64, 10, P32 - 1])
            }
            3 => {
                // partition edges
                let pk = *r.pick(pks);
                *r.pick(&[pk << 32, (pk << 32).saturating_sub(1), (pk << 32) | (P32 - 1), ((pk << 32) | (P32 - 1)).saturating_add(1)])
            }
            _ => {
                // the low 32 bits of one mark in the partition of another (catches index/partition mix-ups)
                let a = *r.pick(marks);
                let b = *r.pick(marks);
                (a & !(P32 - 1)) | (b & (P32 - 1))
            }
        }
    };
    let jitter = |r: &mut Rng, m: u64| -> u64 {
        match r.below(5) {
            0 | 1 => m,
            2 => m.saturating_sub(1),
            3 => m.saturating_add(1),
            _ => m.saturating_add(r.below(50)),
        }
    };
    for _ in 0..ncalls {
        if r.chance(1, 7) {
            // nth / nth_back (core's defaults today; `skip`, `step_by`, `rev().nth` go through them): short hops, hops over
            // whole partitions, hops that overshoot everything that is left
            let n = *r.pick(&[0u64, 0, 1, 2, 3, 5, 10, 40, 200, 1000, 5000, 70000, u64::MAX]);
            writeln!(out, "{} j0 {}", if r.chance(1, 2) { "jnth" } else { "jnth_back" }, n).unwrap();
            writeln!(out, "jsize_hint j0").unwrap();
            continue;
        }
        if borrowed {
            match r.below(14) {
                0..=4 => writeln!(out, "jnext j0").unwrap(),
                5..=9 => writeln!(out, "jnext_back j0").unwrap(),
                10..=11 => {
                    let inside: Vec<u64> = marks.iter().copied().filter(|&m| m > lo && m <= hi).collect();
                    let v = match r.below(20) {
                        0..=9 if !inside.is_empty() => {
                            let k = (*r.pick(&[0usize, 0, 0, 0, 1, 1, 2])).min(inside.len() - 1);
                            jitter(r, inside[k])
                        }
                        10..=12 => lo.saturating_sub(r.below(3) * (P32 / 2) + r.below(100)), // before the front
                        13 => hi.saturating_add(*r.pick(&[1u64, 70000, P32])),               // beyond the back
                        14 => *r.pick(&[0u64, 0, u64::MAX]),
                        _ => {
                            // a special target, preferably one that does not wipe out everything
                            let mut v = special(r, &pks, &marks);
                            for _ in 0..8 {
                                if v <= hi {
                                    break;
                                }
                                v = special(r, &pks, &marks);
                            }
                            v
                        }
                    };
                    lo = lo.max(v);
                    writeln!(out, "jadvance_to j0 {}", v).unwrap()
                }
                _ => {
                    let inside: Vec<u64> = marks.iter().copied().filter(|&m| m >= lo && m < hi).collect();
                    let v = match r.below(20) {
                        0..=9 if !inside.is_empty() => {
                            let k = (*r.pick(&[0usize, 0, 0, 0, 1, 1, 2])).min(inside.len() - 1);
                            jitter(r, inside[inside.len() - 1 - k])
                        }
                        10..=11 => hi.saturating_add(r.below(3) * (P32 / 2) + r.below(100)), // after the back
                        12 | 13 => match r.below(3) {
                            // below the front: anywhere, the last bit of the 64-bit word below the front's word, one word lower
                            0 => lo.saturating_sub(*r.pick(&[1u64, 70000, P32])),
                            1 => (lo & !63).saturating_sub(1),
                            _ => lo.saturating_sub(*r.pick(&[64u64, 65, 127, 128])),
                        },
                        14 => *r.pick(&[u64::MAX, u64::MAX, 0]),
                        _ => {
                            let mut v = special(r, &pks, &marks);
                            for _ in 0..8 {
                                if v >= lo {
                                    break;
                                }
                                v = special(r, &pks, &marks);
                            }
                            v
                        }
                    };
                    hi = hi.min(v);
                    writeln!(out, "jadvance_back_to j0 {}", v).unwrap()
                }
            }
        } else if r.chance(1, 2) {
            writeln!(out, "jnext j0").unwrap()
        } else {
            writeln!(out, "jnext_back j0").unwrap()
        }
        writeln!(out, "jsize_hint j0").unwrap();
    }
    if r.chance(1, if borrowed { 4 } else { 2 }) {
        // the specialised fold / rfold / len of the treemap iterators (the iterator is consumed: last op on j0)
        writeln!(out, "jlen j0").unwrap();
        writeln!(out, "{} j0", if r.chance(1, 2) { "jfold" } else { "jrfold" }).unwrap();
        return;
    }
    if small && r.chance(1, 2) {
        writeln!(out, "jdrain_rev j0").unwrap();
    } else {
        writeln!(out, "jdrain_fwd j0").unwrap();
    }
    writeln!(out, "jsize_hint j0").unwrap();
    writeln!(out, "jnext j0").unwrap();
    writeln!(out, "jnext_back j0").unwrap();
    if borrowed {
        // a spent iterator stays spent
        writeln!(out, "jadvance_to j0 0").unwrap();
        writeln!(out, "jadvance_back_to j0 {}", u64::MAX).unwrap();
        writeln!(out, "jnext j0").unwrap();
        writeln!(out, "jsize_hint j0").unwrap();
    }
}
