//! C06: conformant streams from the independent encoder — both cookies, with/without offsets, run / array /
//! bitset chunks of every shape — through both decoders; result compared with the reference decoders and
//! with the natively built set.
use super::c05::hex;
use super::stream;
use crate::rng::Rng;
use std::fmt::Write as _;

/// build the set natively in `b` through range inserts (one per maximal run of the `u32` set)
pub fn native_build(out: &mut String, b: &str, set: &[u32]) {
    writeln!(out, "new {}", b).unwrap();
    let mut i = 0;
    while i < set.len() {
        let mut j = i;
        while j + 1 < set.len() && set[j + 1] == set[j] + 1 {
            j += 1;
        }
        if i == j {
            writeln!(out, "insert {} {}", b, set[i]).unwrap();
        } else {
            writeln!(out, "insert_range {} in:{} in:{}", b, set[i], set[j]).unwrap();
        }
        i = j + 1;
    }
}

pub fn count_runs(set: &[u32]) -> usize {
    1 + set.windows(2).filter(|w| w[1] != w[0] + 1).count()
}

pub fn gen_case(r: &mut Rng, out: &mut String) {
    let g = stream::gen_stream(r, false);
    let h = hex(&g.bytes);
    writeln!(out, "note {}", g.describe()).unwrap();
    writeln!(out, "spec_decode {}", h).unwrap();
    writeln!(out, "new b0").unwrap();
    writeln!(out, "deser chk b0 {}", h).unwrap();
    writeln!(out, "dump b0").unwrap();
    writeln!(out, "new b2").unwrap();
    writeln!(out, "deser unchk b2 {}", h).unwrap();
    writeln!(out, "dump b2").unwrap();
    writeln!(out, "eq b2 b0").unwrap();
    if r.chance(1, 3) {
        // the same stream through a reader that hands out the bytes in small pieces (with interruptions): what is decoded
        // does not depend on how the reader splits the stream
        let m = if r.chance(1, 2) { "chk" } else { "unchk" };
        writeln!(out, "new b3").unwrap();
        writeln!(out, "deser_sched {} b3 {} {}", m, super::c14::sched(r), h).unwrap();
        writeln!(out, "eq b3 b0").unwrap();
        writeln!(out, "expect true").unwrap();
    }
    let set = stream::set_of(&g.chunks);
    if !set.is_empty() && count_runs(&set) <= 80 {
        native_build(out, "b1", &set);
        writeln!(out, "dump b1").unwrap();
        writeln!(out, "eq b0 b1").unwrap();
        writeln!(out, "eq b2 b1").unwrap();
    }
    // the decoded value re-serialises to the standard encoding of its set
    writeln!(out, "ser b0").unwrap();
    writeln!(out, "spec_encode b0").unwrap();
    // trailing bytes are left unread
    if r.chance(1, 3) {
        let mut ext = g.bytes.clone();
        for _ in 0..r.range(1, 9) {
            ext.push(r.below(256) as u8);
        }
        writeln!(out, "deser chk b0 {}", hex(&ext)).unwrap();
        writeln!(out, "dump b0").unwrap();
    }
}
