//! C11: pairs / sequences of treemaps with arbitrary partition overlap (shared, one-sided, emptied by the
//! operation), all four operators in all six operand forms, relations, `*_len`, and the MultiOps folds
//! (owned, borrowed, Result with an error injected) over 0-12 operands.
use super::c10::{value64, Ctx};
use super::common::range_len;
use crate::rng::Rng;
use std::fmt::Write as _;

const P32: u64 = 1 << 32;

/// a short history that builds one operand
fn build(r: &mut Rng, out: &mut String, t: &str, c: &Ctx, max_len: u64) {
    writeln!(out, "tnew {}", t).unwrap();
    let nops = if r.chance(1, 12) { 0 } else { r.range(1, 4) };
    for _ in 0..nops {
        match r.below(6) {
            0..=3 => {
                // ranges anchored at a few common bases so that operands overlap partially
                let pk = c.pkey(r);
                let base = (pk << 32) + *r.pick(&[0u64, 100, 4000, 65000, 65536, P32 - 5000, P32 - 100]);
                let len = range_len(r).min(max_len).min(P32 - (base & (P32 - 1)));
                let straddle = r.chance(1, 8) && pk != 0xFFFF_FFFF;
                let a = if straddle { ((pk + 1) << 32) - len / 2 - 1 } else { base };
                writeln!(out, "tinsert_range {} in:{} in:{}", t, a, a + (len - 1)).unwrap();
            }
            4 => {
                let mut s = String::new();
                for _ in 0..r.range(1, 8) {
                    write!(s, " {}", value64(r, c)).unwrap();
                }
                writeln!(out, "textend {}{}", t, s).unwrap();
            }
            _ => {
                let pk = c.pkey(r);
                writeln!(out, "tremove_range {} in:{} in:{}", t, pk << 32, (pk << 32) + r.below(6000)).unwrap();
            }
        }
    }
}

fn binary_block(r: &mut Rng, out: &mut String, all: bool) {
    let ops = ["tor", "tand", "tsub", "txor"];
    let forms = ["oo", "or", "ro", "rr", "ao", "ar"];
    for op in ops {
        for form in forms {
            if !all && !r.chance(1, 3) {
                continue;
            }
            let (l, rr) = if r.chance(1, 5) { ("t1", "t0") } else { ("t0", "t1") };
            writeln!(out, "{} {} t2 {} {}", op, form, l, rr).unwrap();
            writeln!(out, "tdump t2").unwrap();
        }
    }
    // borrowed operands are left unchanged
    writeln!(out, "tdump t0").unwrap();
    writeln!(out, "tdump t1").unwrap();
    for rel in ["tis_subset", "tis_superset", "tis_disjoint", "tinter_len", "tunion_len", "tdiff_len", "txor_len"] {
        writeln!(out, "{} t0 t1", rel).unwrap();
        if r.chance(1, 3) {
            writeln!(out, "{} t1 t0", rel).unwrap();
        }
    }
}

/// many partitions on one side (70..220 with one or two values each), very few on the other: partition counts that
/// differ by more than 64x; the small side's partitions are shared / absent / beyond the big side's, first, middle, last
fn many_partitions_case(r: &mut Rng, out: &mut String) {
    let n = r.range(70, 220);
    let p0 = *r.pick(&[0u64, 1, 1, 5, 0xFFFF_FFFF - n]);
    let mut big = String::new();
    let mut firsts: Vec<u64> = Vec::new();
    for i in 0..n {
        let pk = (p0 + i) << 32;
        let v = pk + *r.pick(&[0u64, 1, 65535, 65536, P32 - 1]);
        write!(big, " {}", v).unwrap();
        firsts.push(v);
        if r.chance(1, 4) {
            write!(big, " {}", pk + 7).unwrap();
        }
    }
    let nsmall = r.range(1, 3);
    let mut small = String::new();
    // at least one shared value
    write!(small, " {}", firsts[r.below(n) as usize]).unwrap();
    for _ in 0..nsmall {
        let i = match r.below(4) {
            0 => 0,
            1 => n - 1,
            _ => r.below(n),
        } as usize;
        match r.below(4) {
            0 | 1 => write!(small, " {}", firsts[i]).unwrap(),                    // shared value
            2 => write!(small, " {}", ((p0 + i as u64) << 32) + 9).unwrap(),      // shared partition, other value
            _ => write!(small, " {}", ((p0 + n).min(0xFFFF_FFFF) << 32) + 3).unwrap(), // a partition the big side lacks
        }
    }
    if r.chance(1, 2) && p0 > 0 {
        write!(small, " {}", ((p0 - 1) << 32) + 1).unwrap(); // a left-only partition BEFORE the shared ones
    }
    let (l, rr) = if r.chance(1, 2) { ("t0", "t1") } else { ("t1", "t0") };
    writeln!(out, "tfrom_iter {}{}", l, big).unwrap();
    writeln!(out, "tfrom_iter {}{}", rr, small).unwrap();
    writeln!(out, "tdump t0").unwrap();
    writeln!(out, "tdump t1").unwrap();
    binary_block(r, out, true);
    writeln!(out, "tmulti {} {} t2 t0 t1 t0", *r.pick(&["or", "and", "sub", "xor"]), *r.pick(&["own", "ref"])).unwrap();
    writeln!(out, "tdump t2").unwrap();
}

pub fn gen_case(r: &mut Rng, out: &mut String) {
    if r.chance(1, 12) {
        many_partitions_case(r, out);
        return;
    }
    let c = Ctx::new(r);
    let big = r.chance(1, 12);
    let max_len = if big { 70000 } else { 5000 };
    build(r, out, "t0", &c, max_len);
    match r.below(8) {
        0 => {
            // identical operands: xor / sub empty every partition
            writeln!(out, "tclone t1 t0").unwrap();
        }
        1 | 2 => {
            // t1 = subset of t0 (some values / a whole partition removed)
            writeln!(out, "tclone t1 t0").unwrap();
            for _ in 0..r.range(1, 3) {
                if r.chance(1, 2) {
                    writeln!(out, "tremove t1 {}", value64(r, &c)).unwrap();
                } else {
                    let pk = c.pkey(r);
                    let a = (pk << 32) + *r.pick(&[0u64, 100, 4000, 65536]);
                    let b = if r.chance(1, 3) { (pk << 32) | (P32 - 1) } else { a + r.below(3000) };
                    writeln!(out, "tremove_range t1 in:{} in:{}", a, b).unwrap();
                }
            }
        }
        3 => {
            // t1 = superset of t0
            writeln!(out, "tclone t1 t0").unwrap();
            let mut s = String::new();
            for _ in 0..r.range(1, 6) {
                write!(s, " {}", value64(r, &c)).unwrap();
            }
            writeln!(out, "textend t1{}", s).unwrap();
        }
        4 => {
            // same partitions, disjoint contents: t1 = t0 shifted by one inside each partition is not
            // expressible, so use odd / even singles in a shared partition
            let pk = c.pkey(r) << 32;
            writeln!(out, "textend t0 {} {} {}", pk + 2, pk + 4, pk + 65536 * 3).unwrap();
            writeln!(out, "tnew t1").unwrap();
            writeln!(out, "textend t1 {} {} {}", pk + 1, pk + 3, pk + 65536 * 3 + 1).unwrap();
        }
        5 => writeln!(out, "tnew t1").unwrap(), // empty right operand
        _ => build(r, out, "t1", &c, max_len),
    }
    writeln!(out, "tdump t0").unwrap();
    writeln!(out, "tdump t1").unwrap();
    binary_block(r, out, !big);

    // multi-ops
    let n = *r.pick(&[0u64, 1, 2, 2, 3, 3, 5, 8, 12]);
    let mut items: Vec<String> = Vec::new();
    for i in 0..n {
        let name = format!("t{}", 3 + i);
        match r.below(8) {
            0 => writeln!(out, "tnew {}", name).unwrap(), // empty operand
            1 => writeln!(out, "tclone {} t0", name).unwrap(),
            2 => writeln!(out, "tclone {} t1", name).unwrap(),
            _ => build(r, out, &name, &c, 600),
        }
        items.push(name);
    }
    for op in ["or", "and", "sub", "xor"] {
        for kind in ["own", "ref", "res_own", "res_ref"] {
            if !r.chance(1, 2) {
                continue;
            }
            let mut its = items.clone();
            if kind.starts_with("res") && r.chance(1, 2) {
                // inject one or two errors
                let pos = r.below(its.len() as u64 + 1) as usize;
                its.insert(pos, format!("err:{}", r.range(1, 9)));
                if r.chance(1, 3) {
                    let pos = r.below(its.len() as u64 + 1) as usize;
                    its.insert(pos, format!("err:{}", r.range(10, 19)));
                }
            }
            if r.chance(1, 3) {
                let hint = *r.pick(&["lower0", "unknown", "exact"]);
                writeln!(out, "tmultih {} {} {} t2 {}", hint, op, kind, its.join(" ")).unwrap();
            } else {
                writeln!(out, "tmulti {} {} t2 {}", op, kind, its.join(" ")).unwrap();
            }
            writeln!(out, "tdump t2").unwrap();
        }
    }
    // complete cancellation in some or all partitions (an emptied partition must disappear, also the last one):
    // the results are compared (`==`) with the value they must be
    writeln!(out, "tnew t9").unwrap();
    for kind in ["own", "ref", "res_own", "res_ref"] {
        if !r.chance(1, 2) {
            continue;
        }
        for (items, want) in [("t0 t0", "t9"), ("t0 t1 t0", "t1"), ("t1 t0 t1 t0", "t9"), ("t1 t1 t0", "t0")] {
            writeln!(out, "tmulti xor {} t2 {}", kind, items).unwrap();
            writeln!(out, "tdump t2").unwrap();
            writeln!(out, "teq t2 {}", want).unwrap();
            writeln!(out, "expect true").unwrap();
        }
        writeln!(out, "tmulti sub {} t2 t0 t1 t0", kind).unwrap();
        writeln!(out, "tdump t2").unwrap();
        writeln!(out, "teq t2 t9").unwrap();
        writeln!(out, "expect true").unwrap();
        writeln!(out, "tmulti or {} t2 t9 t0 t9", kind).unwrap();
        writeln!(out, "teq t2 t0").unwrap();
        writeln!(out, "expect true").unwrap();
        writeln!(out, "tmulti and {} t2 t0 t0 t0", kind).unwrap();
        writeln!(out, "teq t2 t0").unwrap();
        writeln!(out, "expect true").unwrap();
    }
    if let Some(first) = items.first() {
        writeln!(out, "tdump {}", first).unwrap();
    }
}
