//! C05T: the `RoaringTreemap` half of C05.  Treemaps with 0-4 partitions (keys from {0,1,3,4,u32::MAX}) built by
//! short histories, or obtained by decoding a conformant 64-bit stream; serialise, compare with the reference
//! encoder of the portable format, sizes, decode back with both decoders (`teq` + `expect true`).
use super::c05::hex;
use super::c10::{range_tokens64, value64, Ctx};
use super::stream64;
use crate::rng::Rng;
use std::fmt::Write as _;

const P32: u64 = 1 << 32;

/// a short mutation history on slot `t` (which must exist)
pub fn history(r: &mut Rng, out: &mut String, t: &str, c: &Ctx, nops: u64) {
    for _ in 0..nops {
        match r.below(17) {
            16 => {
                // a completely full 16-bit chunk inside a partition (cardinality field 0xFFFF), or one value short of it
                let base = (c.pkey(r) << 32) | ((r.below(3)) << 16);
                writeln!(out, "tinsert_range {} in:{} in:{}", t, base, base + 65535 - r.below(2)).unwrap()
            }
            0..=5 => writeln!(out, "tinsert {} {}", t, value64(r, c)).unwrap(),
            6..=9 => {
                let (lo, hi) = range_tokens64(r, c, false);
                writeln!(out, "tinsert_range {} {} {}", t, lo, hi).unwrap()
            }
            10 => writeln!(out, "tremove {} {}", t, value64(r, c)).unwrap(),
            11 => {
                let (lo, hi) = range_tokens64(r, c, false);
                writeln!(out, "tremove_range {} {} {}", t, lo, hi).unwrap()
            }
            12 => {
                // next to the array/bitset limit inside one partition
                let base = (c.pkey(r) << 32) | ((r.below(3)) << 16);
                let n = *r.pick(&[4095u64, 4096, 4097]);
                writeln!(out, "tinsert_range {} in:{} ex:{}", t, base + 100, base + 100 + n).unwrap()
            }
            13 => {
                // empty a whole partition so that it disappears from the map (and from the count)
                let pk = c.pkey(r);
                writeln!(out, "tremove_range {} in:{} in:{}", t, pk << 32, (pk << 32) | (P32 - 1)).unwrap()
            }
            14 => {
                // a partition holding a single value, inserted and removed again
                let v = value64(r, c);
                writeln!(out, "tinsert {} {}", t, v).unwrap();
                if r.chance(1, 2) {
                    writeln!(out, "tremove {} {}", t, v).unwrap();
                }
            }
            _ => writeln!(out, "tpush {} {}", t, value64(r, c)).unwrap(),
        }
    }
}

pub fn codec_block(out: &mut String, t: &str) {
    writeln!(out, "tser {}", t).unwrap();
    writeln!(out, "tser_size {}", t).unwrap();
    writeln!(out, "tspec_encode {}", t).unwrap();
    writeln!(out, "tnew t9").unwrap();
    writeln!(out, "tdeser_prefix chk t9 {} 100000000", t).unwrap();
    writeln!(out, "tdump t9").unwrap();
    writeln!(out, "teq t9 {}", t).unwrap();
    writeln!(out, "expect true").unwrap();
    writeln!(out, "tnew t8").unwrap();
    writeln!(out, "tdeser_prefix unchk t8 {} 100000000", t).unwrap();
    writeln!(out, "tdump t8").unwrap();
    writeln!(out, "teq t8 {}", t).unwrap();
    writeln!(out, "expect true").unwrap();
}

pub fn gen_case(r: &mut Rng, out: &mut String) {
    let c = Ctx::new(r);
    match r.below(10) {
        0..=5 => {
            writeln!(out, "tnew t0").unwrap();
            let n = r.range(1, 7);
            history(r, out, "t0", &c, n);
            writeln!(out, "tdump t0").unwrap();
            codec_block(out, "t0");
            // two more mutations and again: the bytes depend on the set alone, not on the history
            history(r, out, "t0", &c, 2);
            writeln!(out, "tdump t0").unwrap();
            codec_block(out, "t0");
        }
        6..=8 => {
            // a value obtained by decoding a conformant stream (run chunks normalised, empty buckets dropped),
            // then re-serialised
            let small = r.chance(3, 4);
            let g = stream64::gen_stream64(r, small, true);
            writeln!(out, "note {}", g.describe()).unwrap();
            writeln!(out, "tnew t0").unwrap();
            writeln!(out, "tdeser chk t0 {}", hex(&g.bytes)).unwrap();
            writeln!(out, "tdump t0").unwrap();
            codec_block(out, "t0");
            writeln!(out, "tinsert t0 {}", value64(r, &c)).unwrap();
            if let Some(&v) = g.set().first() {
                writeln!(out, "tremove t0 {}", v).unwrap();
            }
            writeln!(out, "tdump t0").unwrap();
            codec_block(out, "t0");
        }
        _ => {
            // the empty treemap and tiny sets
            writeln!(out, "tnew t0").unwrap();
            for _ in 0..r.below(4) {
                writeln!(out, "tinsert t0 {}", value64(r, &c)).unwrap();
            }
            writeln!(out, "tdump t0").unwrap();
            codec_block(out, "t0");
        }
    }
}
