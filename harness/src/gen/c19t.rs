//! C19T: serde representation of `RoaringTreemap`.  A value from a short history is serialised through the
//! recording serializer, handed back through each delivery kind (bytes / borrowed / buf / seq) and through real
//! postcard / JSON round trips; hand-encoded portable streams (valid, with trailing bytes, corrupted) exercise
//! the visitor's error path.
use super::c05::hex;
use super::c05t::history;
use super::c10::Ctx;
use super::stream64;
use crate::rng::Rng;
use std::fmt::Write as _;

const KINDS: [&str; 4] = ["bytes", "borrowed", "buf", "seq"];

pub fn gen_case(r: &mut Rng, out: &mut String) {
    let c = Ctx::new(r);
    writeln!(out, "tnew t0").unwrap();
    writeln!(out, "tnew t5").unwrap();
    let n = r.range(0, 5);
    history(r, out, "t0", &c, n);
    writeln!(out, "tdump t0").unwrap();
    // --- what the serializer is handed
    writeln!(out, "tserde_events t0").unwrap();
    // --- every delivery kind reproduces the value
    for (i, k) in KINDS.iter().enumerate() {
        if r.chance(1, 4) {
            // a deserialization that breaks off half-way must leave nothing behind for the next one
            writeln!(out, "tserde_visit seqfail t6 ser:t0").unwrap();
        }
        if r.chance(3, 4) {
            let d = format!("t{}", i + 1);
            writeln!(out, "tserde_visit {} {} ser:t0", k, d).unwrap();
            writeln!(out, "tdump {}", d).unwrap();
            writeln!(out, "teq {} t0", d).unwrap();
            writeln!(out, "expect true").unwrap();
        }
    }
    // --- real formats
    writeln!(out, "tserde_rt postcard t0").unwrap();
    writeln!(out, "tserde_rt json t0").unwrap();
    // --- hand-encoded streams
    for _ in 0..r.range(1, 3) {
        let g = stream64::gen_stream64(r, true, true);
        let kind = *r.pick(&KINDS);
        let bytes = match r.below(10) {
            0..=3 => g.bytes.clone(), // valid as it is
            4 => {
                // trailing bytes are not read
                let mut b = g.bytes.clone();
                for _ in 0..r.range(1, 9) {
                    b.push(r.below(256) as u8);
                }
                b
            }
            5 | 6 => {
                let n = r.below(g.bytes.len() as u64) as usize;
                g.bytes[..n].to_vec()
            }
            _ => stream64::corrupt64(r, &g).0,
        };
        writeln!(out, "note {}", g.describe()).unwrap();
        writeln!(out, "tserde_visit {} t5 {}", kind, hex(&bytes)).unwrap();
        writeln!(out, "tdump t5").unwrap();
    }
    // --- the payload of the OTHER type: a 32-bit stream is not a treemap payload (its cookie + container count read as
    // the partition count); the visitor answers exactly like deserialize_from on these bytes
    if r.chance(1, 3) {
        let g32 = super::stream::gen_stream(r, true);
        writeln!(out, "note 32-bit stream handed to the treemap visitor").unwrap();
        writeln!(out, "tserde_visit {} t5 {}", *r.pick(&KINDS), hex(&g32.bytes)).unwrap();
        writeln!(out, "tdump t5").unwrap();
    }
}
