//! Independent reference codec for the 64-bit "portable" Roaring format (RoaringFormatSpec, "Extension for
//! 64-bit implementations"), written from the format description and NOT from the crate: a little-endian
//! `u64` bucket count, then per bucket the `u32` key followed by a 32-bit stream (`stream.rs`).
//!
//! Conventions (the same as in `SpecCodec64.lean`): keys strictly ascending; a bucket with the empty set is
//! conformant and contributes nothing; the inner stream must be conformant (`stream::decode`); bytes after the
//! last bucket are not part of the structure.
use super::stream::{self, GenStream};
use crate::rng::Rng;

/// the partition keys every 64-bit profile draws from (absent partitions lie between present ones)
pub const PKEYS: [u32; 5] = [0, 1, 3, 4, 4294967295];

pub struct Bucket {
    pub key: u32,
    pub g: GenStream,
}

/// byte positions of the fields of an encoded 64-bit stream
#[derive(Clone, Debug, Default)]
pub struct Layout64 {
    /// position of each bucket's key (the inner stream starts 4 bytes later)
    pub keys: Vec<usize>,
    /// (start, length) of each inner stream
    pub inner: Vec<(usize, usize)>,
}

impl Layout64 {
    /// every position at which a field of the outer framing starts or ends, plus the inner field boundaries
    pub fn boundaries(&self, buckets: &[Bucket], total: usize) -> Vec<usize> {
        let mut v = vec![0, 8, total];
        for (i, &(p, l)) in self.inner.iter().enumerate() {
            v.push(self.keys[i]);
            v.push(p);
            v.push(p + l);
            if let Some(b) = buckets.get(i) {
                v.extend(b.g.layout.boundaries(l).into_iter().map(|x| p + x));
            }
        }
        v.sort();
        v.dedup();
        v
    }
}

fn p32(out: &mut Vec<u8>, v: u32) {
    out.extend_from_slice(&[v as u8, (v >> 8) as u8, (v >> 16) as u8, (v >> 24) as u8]);
}
fn p64(out: &mut Vec<u8>, v: u64) {
    for i in 0..8 {
        out.push((v >> (8 * i)) as u8);
    }
}

/// frame the given `(key, inner stream)` pairs, announcing `count` buckets
pub fn frame(count: u64, parts: &[(u32, &[u8])]) -> (Vec<u8>, Layout64) {
    let mut out = Vec::new();
    let mut lay = Layout64::default();
    p64(&mut out, count);
    for (k, inner) in parts {
        lay.keys.push(out.len());
        p32(&mut out, *k);
        lay.inner.push((out.len(), inner.len()));
        out.extend_from_slice(inner);
    }
    (out, lay)
}

/// the standard portable encoding of an ascending sequence of `u64` (run-free inner streams, no empty bucket)
pub fn encode_set<I: Iterator<Item = u64>>(it: I) -> Vec<u8> {
    let mut groups: Vec<(u32, Vec<u32>)> = Vec::new();
    for x in it {
        let k = (x >> 32) as u32;
        match groups.last_mut() {
            Some(g) if g.0 == k => g.1.push(x as u32),
            _ => groups.push((k, vec![x as u32])),
        }
    }
    let inner: Vec<(u32, Vec<u8>)> = groups.iter().map(|(k, v)| (*k, stream::encode_set(v.iter().copied()))).collect();
    let parts: Vec<(u32, &[u8])> = inner.iter().map(|(k, b)| (*k, &b[..])).collect();
    frame(parts.len() as u64, &parts).0
}

/// Strict decoder: `Some((set, unread byte count))` exactly for byte strings that start with a conformant
/// portable serialization.
pub fn decode(b: &[u8]) -> Option<(Vec<u64>, usize)> {
    if b.len() < 8 {
        return None;
    }
    let count = (0..8).map(|i| (b[i] as u64) << (8 * i)).sum::<u64>();
    let mut p = 8usize;
    let mut prev: Option<u32> = None;
    let mut set = Vec::new();
    let mut i = 0u64;
    while i < count {
        if b.len() - p < 4 {
            return None;
        }
        let key = (0..4).map(|j| (b[p + j] as u32) << (8 * j)).sum::<u32>();
        p += 4;
        if let Some(q) = prev {
            if q >= key {
                return None;
            }
        }
        prev = Some(key);
        let (lows, rest) = stream::decode(&b[p..])?;
        p = b.len() - rest;
        set.extend(lows.into_iter().map(|v| (key as u64) << 32 | v as u64));
        i += 1;
    }
    Some((set, b.len() - p))
}

// ------------------------------------------------------------------------------------------ random values

pub struct Gen64 {
    pub buckets: Vec<Bucket>,
    pub bytes: Vec<u8>,
    pub layout: Layout64,
}

impl Gen64 {
    pub fn set(&self) -> Vec<u64> {
        self.buckets
            .iter()
            .flat_map(|b| stream::set_of(&b.g.chunks).into_iter().map(move |v| (b.key as u64) << 32 | v as u64))
            .collect()
    }
    /// one token-safe line: number of buckets, bytes, per bucket `key:<inner description>`
    pub fn describe(&self) -> String {
        let mut s = format!("parts={} bytes={}", self.buckets.len(), self.bytes.len());
        for b in &self.buckets {
            let empty = if b.g.chunks.is_empty() { "empty-bucket," } else { "" };
            s.push_str(&format!(" {{key={} {}{}}}", b.key, empty, b.g.describe().replace(' ', ",")));
        }
        s
    }
    pub fn reframe(&mut self) {
        let parts: Vec<(u32, &[u8])> = self.buckets.iter().map(|b| (b.key, &b.g.bytes[..])).collect();
        let (bytes, layout) = frame(parts.len() as u64, &parts);
        self.bytes = bytes;
        self.layout = layout;
    }
}

/// `n` distinct keys from the pool, ascending
pub fn gen_pkeys(r: &mut Rng, n: usize) -> Vec<u32> {
    let mut ks: Vec<u32> = Vec::new();
    while ks.len() < n.min(PKEYS.len()) {
        let k = *r.pick(&PKEYS);
        if !ks.contains(&k) {
            ks.push(k);
        }
    }
    ks.sort();
    ks
}

/// a random conformant 64-bit stream: 0..=4 buckets, inner streams from the independent 32-bit encoder (both
/// cookies, run chunks); `allow_empty`: an inner stream may hold the empty set (conformant, see the header).
/// At most one bucket is "big" (may hold bitset chunks) so that the list model stays fast.
pub fn gen_stream64(r: &mut Rng, small: bool, allow_empty: bool) -> Gen64 {
    let n = match r.below(16) {
        0 => 0,
        1..=5 => 1,
        6..=10 => 2,
        11..=13 => 3,
        _ => 4,
    } as usize;
    let keys = gen_pkeys(r, n);
    let big_at = if small { usize::MAX } else { r.below(n.max(1) as u64) as usize };
    let mut buckets = Vec::new();
    for (i, &key) in keys.iter().enumerate() {
        let g = if allow_empty && r.chance(1, 10) {
            // the empty set: no-run cookie, zero containers
            let (bytes, layout) = stream::encode(&[], false);
            GenStream { chunks: Vec::new(), bytes, layout, shapes: Vec::new() }
        } else {
            let mut g = stream::gen_stream(r, i != big_at);
            let mut tries = 0;
            while (g.chunks.is_empty() || (i != big_at && g.bytes.len() > 3000)) && tries < 20 {
                g = stream::gen_stream(r, true);
                tries += 1;
            }
            if g.chunks.is_empty() {
                let chunks = vec![stream::Chunk { key: 0, vals: vec![7], runs: None }];
                let (bytes, layout) = stream::encode(&chunks, false);
                g = GenStream { chunks, bytes, layout, shapes: vec!["few"] };
            }
            g
        };
        buckets.push(Bucket { key, g });
    }
    let mut g = Gen64 { buckets, bytes: Vec::new(), layout: Layout64::default() };
    g.reframe();
    g
}

fn s32(b: &mut [u8], p: usize, v: u32) {
    for i in 0..4 {
        b[p + i] = (v >> (8 * i)) as u8;
    }
}
fn s64(b: &mut [u8], p: usize, v: u64) {
    for i in 0..8 {
        b[p + i] = (v >> (8 * i)) as u8;
    }
}

/// the 8-byte serialization of the empty 32-bit bitmap (no-run cookie, zero containers)
pub const EMPTY32: [u8; 8] = [0x3a, 0x30, 0, 0, 0, 0, 0, 0];

/// One corruption of a valid 64-bit stream: the framing fields (count, keys), an empty bucket, one inner
/// stream corrupted by the 32-bit corruptions, truncation, extension, a bit flip.  Returns the new bytes and a
/// label.  (The result may by chance still be conformant; the strict reference decoders decide.)
pub fn corrupt64(r: &mut Rng, g: &Gen64) -> (Vec<u8>, &'static str) {
    let n = g.buckets.len();
    let parts = |bs: &[(u32, Vec<u8>)]| -> Vec<u8> {
        let ps: Vec<(u32, &[u8])> = bs.iter().map(|(k, b)| (*k, &b[..])).collect();
        frame(ps.len() as u64, &ps).0
    };
    let plain: Vec<(u32, Vec<u8>)> = g.buckets.iter().map(|b| (b.key, b.g.bytes.clone())).collect();
    for _ in 0..20 {
        let mut b = g.bytes.clone();
        match r.below(14) {
            0 if n >= 1 => {
                // count too small: the remaining buckets become trailing bytes
                let c = match r.below(3) {
                    0 => n as u64 - 1,
                    1 => 0,
                    _ => r.below(n as u64),
                };
                s64(&mut b, 0, c);
                return (b, "count-small");
            }
            1 => {
                // count larger than the data: the loop must end with EOF
                let c = match r.below(7) {
                    0 => n as u64 + 1,
                    1 => n as u64 + 5,
                    2 => 1 << 63,
                    3 => u64::MAX,
                    4 => 1 << 32,
                    5 => (n as u64) | 1 << 40,
                    _ => n as u64 + r.range(1, 300),
                };
                s64(&mut b, 0, c);
                return (b, "count-big");
            }
            2 if n >= 2 => {
                // swap two neighbouring keys (descending pair)
                let i = r.below(n as u64 - 1) as usize;
                s32(&mut b, g.layout.keys[i], g.buckets[i + 1].key);
                s32(&mut b, g.layout.keys[i + 1], g.buckets[i].key);
                return (b, "key-swap");
            }
            3 if n >= 2 => {
                // duplicate key: the later bucket replaces the earlier one in the crate
                let i = r.range(1, n as u64 - 1) as usize;
                let j = r.below(i as u64) as usize;
                if r.chance(1, 2) {
                    s32(&mut b, g.layout.keys[i], g.buckets[j].key);
                } else {
                    s32(&mut b, g.layout.keys[j], g.buckets[i].key);
                }
                return (b, "key-dup");
            }
            4 if n >= 1 => {
                let i = r.below(n as u64) as usize;
                let k = match r.below(5) {
                    0 => 0,
                    1 => u32::MAX,
                    2 => g.buckets[i].key.wrapping_add(1),
                    3 => g.buckets[i].key.wrapping_sub(1),
                    _ => r.next() as u32,
                };
                s32(&mut b, g.layout.keys[i], k);
                return (b, "key");
            }
            5 => {
                // an empty inner bitmap: replace a bucket's stream, or add an empty bucket (any position, any key)
                let mut ps = plain.clone();
                if n >= 1 && r.chance(1, 2) {
                    let i = r.below(n as u64) as usize;
                    ps[i].1 = EMPTY32.to_vec();
                    return (parts(&ps), "empty-bucket-replaced");
                }
                let at = r.below(n as u64 + 1) as usize;
                let key = if r.chance(1, 2) { *r.pick(&PKEYS) } else { r.below(6) as u32 };
                ps.insert(at, (key, EMPTY32.to_vec()));
                return (parts(&ps), "empty-bucket-added");
            }
            6 if n >= 1 => {
                // an empty bucket with the key of an existing one, after it: must not erase the earlier bucket...
                // (the crate skips empty bitmaps before `insert`, so the earlier bucket survives)
                let mut ps = plain.clone();
                let i = r.below(n as u64) as usize;
                let at = r.range(i as u64 + 1, n as u64) as usize;
                ps.insert(at, (g.buckets[i].key, EMPTY32.to_vec()));
                return (parts(&ps), "empty-bucket-dup-key");
            }
            7 | 8 if n >= 1 => {
                // one inner stream corrupted by the 32-bit single-field corruptions
                let i = r.below(n as u64) as usize;
                let (cb, _) = stream::corrupt(r, &g.buckets[i].g);
                let mut ps = plain.clone();
                ps[i].1 = cb;
                return (parts(&ps), "inner");
            }
            9 | 10 => {
                if b.is_empty() {
                    continue;
                }
                let k = if r.chance(2, 3) {
                    let bs = g.layout.boundaries(&g.buckets, b.len());
                    let p = *r.pick(&bs) as i64 + *r.pick(&[-1i64, 0, 0, 1]);
                    p.clamp(0, b.len() as i64 - 1) as usize
                } else {
                    r.below(b.len() as u64) as usize
                };
                b.truncate(k);
                return (b, "truncated");
            }
            11 => {
                for _ in 0..r.range(1, 16) {
                    b.push(r.below(256) as u8);
                }
                return (b, "extended");
            }
            12 => {
                let p = r.below(b.len() as u64) as usize;
                b[p] ^= 1 << r.below(8);
                return (b, "bitflip");
            }
            _ => {
                // reorder whole buckets: any permutation is accepted by the crate and sorted by the map
                if n >= 2 {
                    let mut ps = plain.clone();
                    let i = r.below(n as u64 - 1) as usize;
                    ps.swap(i, i + 1);
                    if r.chance(1, 2) {
                        ps.reverse();
                    }
                    return (parts(&ps), "buckets-reordered");
                }
            }
        }
    }
    let mut b = g.bytes.clone();
    b.truncate(b.len() / 2);
    (b, "truncated")
}

/// short random byte strings, most with a plausible count so that decoding gets into the loop
pub fn random_bytes64(r: &mut Rng) -> Vec<u8> {
    let mut b = Vec::new();
    match r.below(4) {
        0 => {}
        1 => p64(&mut b, r.below(4)),
        2 => p64(&mut b, r.next()),
        _ => {
            p64(&mut b, r.range(1, 3));
            p32(&mut b, *r.pick(&PKEYS));
        }
    }
    if r.chance(1, 2) {
        b.extend(stream::random_bytes(r));
    }
    for _ in 0..r.range(0, 12) {
        b.push(if r.chance(1, 2) { r.below(4) as u8 } else { r.below(256) as u8 });
    }
    b
}
