//! Independent reference codec for the 32-bit Roaring format, written from the format specification
//! (https://github.com/RoaringBitmap/RoaringFormatSpec) and NOT from the crate: a conformant encoder
//! that can emit every header variant and chunk kind, a strict decoder, the standard run-free encoder,
//! random chunk sets of every shape, and single-field corruptions of valid streams.
//!
//! Conventions decided where the specification leaves room (the same as in `SpecCodec.lean`):
//! runs are sorted and non-overlapping, *adjacent* runs are accepted; `start + (len-1) <= 65535`; every
//! declared cardinality (run containers included) is the real one; offsets, when present, are the true
//! payload positions; padding bits of the run bitset are ignored.
use crate::rng::Rng;

pub const COOKIE_NORUN: u32 = 12346;
pub const COOKIE_RUN: u32 = 12347;
pub const NO_OFFSET_THRESHOLD: usize = 4;

#[derive(Clone, Debug)]
pub struct Chunk {
    pub key: u16,
    /// strictly ascending, non-empty
    pub vals: Vec<u16>,
    /// `Some(runs)`: encode as a run container with these `(start, len-1)` pairs
    pub runs: Option<Vec<(u16, u16)>>,
}

#[derive(Clone, Copy, Debug, PartialEq)]
pub enum Kind {
    Array,
    Bitset,
    Run,
}

/// byte positions of the fields of an encoded stream
#[derive(Clone, Debug, Default)]
pub struct Layout {
    pub run_cookie: bool,
    pub n: usize,
    pub count_pos: Option<usize>,
    pub flags: Option<(usize, usize)>,
    pub keys: Vec<usize>,
    pub cards: Vec<usize>,
    pub offsets: Vec<usize>,
    pub payload: Vec<(usize, usize, Kind)>,
}

impl Layout {
    /// every position at which a field starts or ends
    pub fn boundaries(&self, total: usize) -> Vec<usize> {
        let mut v = vec![0, 4, total];
        if let Some(p) = self.count_pos {
            v.push(p + 4);
        }
        if let Some((p, l)) = self.flags {
            v.push(p + l);
        }
        v.extend(self.keys.iter().copied());
        v.extend(self.cards.iter().copied());
        v.extend(self.offsets.iter().copied());
        for &(p, l, k) in &self.payload {
            v.push(p);
            v.push(p + l);
            if k == Kind::Run {
                v.push(p + 2);
            }
        }
        v.sort();
        v.dedup();
        v
    }
}

pub fn maximal_runs(vals: &[u16]) -> Vec<(u16, u16)> {
    let mut runs = Vec::new();
    let mut i = 0;
    while i < vals.len() {
        let s = vals[i];
        let mut j = i;
        while j + 1 < vals.len() && vals[j + 1] as u32 == vals[j] as u32 + 1 {
            j += 1;
        }
        runs.push((s, (j - i) as u16));
        i = j + 1;
    }
    runs
}

fn p16(out: &mut Vec<u8>, v: u16) {
    out.push((v & 0xff) as u8);
    out.push((v >> 8) as u8);
}
fn p32(out: &mut Vec<u8>, v: u32) {
    for i in 0..4 {
        out.push(((v >> (8 * i)) & 0xff) as u8);
    }
}
fn p64(out: &mut Vec<u8>, v: u64) {
    for i in 0..8 {
        out.push(((v >> (8 * i)) & 0xff) as u8);
    }
}

fn payload_of(c: &Chunk) -> (Vec<u8>, Kind) {
    let mut out = Vec::new();
    if let Some(runs) = &c.runs {
        p16(&mut out, runs.len() as u16);
        for &(s, l) in runs {
            p16(&mut out, s);
            p16(&mut out, l);
        }
        (out, Kind::Run)
    } else if c.vals.len() <= 4096 {
        for &v in &c.vals {
            p16(&mut out, v);
        }
        (out, Kind::Array)
    } else {
        let mut words = [0u64; 1024];
        for &v in &c.vals {
            words[(v / 64) as usize] |= 1u64 << (v % 64);
        }
        for w in words {
            p64(&mut out, w);
        }
        (out, Kind::Bitset)
    }
}

/// Conformant encoding.  The run cookie is used when asked for or when some chunk is a run container
/// (it needs at least one chunk: `n - 1` is stored).
pub fn encode(chunks: &[Chunk], want_run_cookie: bool) -> (Vec<u8>, Layout) {
    let n = chunks.len();
    let run_cookie = n > 0 && (want_run_cookie || chunks.iter().any(|c| c.runs.is_some()));
    let mut out = Vec::new();
    let mut lay = Layout { run_cookie, n, ..Default::default() };
    if run_cookie {
        p32(&mut out, COOKIE_RUN | (((n - 1) as u32) << 16));
        let fl = (n + 7) / 8;
        let mut flags = vec![0u8; fl];
        for (i, c) in chunks.iter().enumerate() {
            if c.runs.is_some() {
                flags[i / 8] |= 1 << (i % 8);
            }
        }
        lay.flags = Some((out.len(), fl));
        out.extend(flags);
    } else {
        p32(&mut out, COOKIE_NORUN);
        lay.count_pos = Some(out.len());
        p32(&mut out, n as u32);
    }
    for c in chunks {
        lay.keys.push(out.len());
        p16(&mut out, c.key);
        lay.cards.push(out.len());
        p16(&mut out, (c.vals.len() - 1) as u16);
    }
    let payloads: Vec<(Vec<u8>, Kind)> = chunks.iter().map(payload_of).collect();
    let has_offsets = !run_cookie || n >= NO_OFFSET_THRESHOLD;
    let mut pos = out.len() + if has_offsets { 4 * n } else { 0 };
    if has_offsets {
        for (p, _) in &payloads {
            lay.offsets.push(out.len());
            p32(&mut out, pos as u32);
            pos += p.len();
        }
    }
    for (p, k) in payloads {
        lay.payload.push((out.len(), p.len(), k));
        out.extend(p);
    }
    (out, lay)
}

/// the standard run-free encoding of an ascending sequence of `u32`
pub fn encode_set<I: Iterator<Item = u32>>(it: I) -> Vec<u8> {
    let mut chunks: Vec<Chunk> = Vec::new();
    for x in it {
        let k = (x >> 16) as u16;
        match chunks.last_mut() {
            Some(c) if c.key == k => c.vals.push(x as u16),
            _ => chunks.push(Chunk { key: k, vals: vec![x as u16], runs: None }),
        }
    }
    encode(&chunks, false).0
}

fn g16(b: &[u8], p: usize) -> u16 {
    b[p] as u16 | (b[p + 1] as u16) << 8
}
fn g32(b: &[u8], p: usize) -> u32 {
    (0..4).map(|i| (b[p + i] as u32) << (8 * i)).sum()
}
fn g64(b: &[u8], p: usize) -> u64 {
    (0..8).map(|i| (b[p + i] as u64) << (8 * i)).sum()
}

/// Strict decoder: `Some((set, unread byte count))` exactly for streams that start with a conformant
/// serialization.
pub fn decode(b: &[u8]) -> Option<(Vec<u32>, usize)> {
    let mut p = 0usize;
    let need = |p: usize, k: usize| if p + k <= b.len() { Some(()) } else { None };
    need(p, 4)?;
    let cookie = g32(b, p);
    p += 4;
    let n: usize;
    let mut flags: Option<&[u8]> = None;
    if cookie == COOKIE_NORUN {
        need(p, 4)?;
        n = g32(b, p) as usize;
        p += 4;
    } else if cookie & 0xffff == COOKIE_RUN {
        n = (cookie >> 16) as usize + 1;
        let fl = (n + 7) / 8;
        need(p, fl)?;
        flags = Some(&b[p..p + fl]);
        p += fl;
    } else {
        return None;
    }
    if n > 65536 {
        return None;
    }
    need(p, 4 * n)?;
    let descr: Vec<(u16, usize)> = (0..n).map(|i| (g16(b, p + 4 * i), g16(b, p + 4 * i + 2) as usize + 1)).collect();
    p += 4 * n;
    if descr.windows(2).any(|w| w[0].0 >= w[1].0) {
        return None;
    }
    let has_offsets = cookie == COOKIE_NORUN || n >= NO_OFFSET_THRESHOLD;
    let mut offsets = Vec::new();
    if has_offsets {
        need(p, 4 * n)?;
        offsets = (0..n).map(|i| g32(b, p + 4 * i) as usize).collect();
        p += 4 * n;
    }
    let mut set = Vec::new();
    for (i, &(key, card)) in descr.iter().enumerate() {
        if has_offsets && offsets[i] != p {
            return None;
        }
        let is_run = flags.map_or(false, |f| f[i / 8] >> (i % 8) & 1 == 1);
        let base = (key as u32) << 16;
        if is_run {
            need(p, 2)?;
            let nr = g16(b, p) as usize;
            p += 2;
            need(p, 4 * nr)?;
            let mut count = 0usize;
            let mut next_free = 0u32; // smallest start allowed
            for j in 0..nr {
                let s = g16(b, p + 4 * j) as u32;
                let l = g16(b, p + 4 * j + 2) as u32;
                if s + l > 65535 || s < next_free {
                    return None;
                }
                if j > 0 && s < next_free {
                    return None;
                }
                for v in s..=s + l {
                    set.push(base | v);
                }
                count += l as usize + 1;
                next_free = s + l + 1;
            }
            p += 4 * nr;
            if count != card {
                return None;
            }
        } else if card <= 4096 {
            need(p, 2 * card)?;
            let mut prev: Option<u16> = None;
            for j in 0..card {
                let v = g16(b, p + 2 * j);
                if let Some(q) = prev {
                    if q >= v {
                        return None;
                    }
                }
                prev = Some(v);
                set.push(base | v as u32);
            }
            p += 2 * card;
        } else {
            need(p, 8192)?;
            let mut count = 0usize;
            for w in 0..1024u32 {
                let word = g64(b, p + 8 * w as usize);
                for bit in 0..64u32 {
                    if word >> bit & 1 == 1 {
                        set.push(base | (64 * w + bit));
                        count += 1;
                    }
                }
            }
            p += 8192;
            if count != card {
                return None;
            }
        }
    }
    Some((set, b.len() - p))
}

pub fn set_of(chunks: &[Chunk]) -> Vec<u32> {
    chunks.iter().flat_map(|c| c.vals.iter().map(move |&v| (c.key as u32) << 16 | v as u32)).collect()
}

// ------------------------------------------------------------------------------------------ random values

const KEYPOOL: [u16; 8] = [0, 1, 2, 3, 7, 0x7fff, 0xfffe, 0xffff];
const STARTS: [u32; 10] = [0, 1, 63, 64, 65, 4095, 4096, 32768, 60000, 61439];

fn runs_to_vals(runs: &[(u32, u32)]) -> Vec<u16> {
    let mut v = Vec::new();
    for &(s, l) in runs {
        for x in s..=s + l {
            v.push(x as u16);
        }
    }
    v
}

/// runs `(start, len-1)` with the given lengths laid out ascending with random gaps (≥ `min_gap`) so that
/// everything fits below 65536
fn layout_runs(r: &mut Rng, lens: &[u32], min_gap: u32) -> Vec<(u32, u32)> {
    let total: u32 = lens.iter().map(|l| l + 1).sum::<u32>() + min_gap * lens.len() as u32;
    let mut slack = 65536u32.saturating_sub(total);
    let mut pos = 0u32;
    let mut out = Vec::new();
    for (i, &l) in lens.iter().enumerate() {
        let extra = if i == 0 && r.chance(1, 3) { 0 } else { r.below((slack / 4 + 1) as u64).min(slack as u64) as u32 };
        slack -= extra;
        pos += extra + if i == 0 { 0 } else { min_gap };
        out.push((pos, l));
        pos += l + 1;
    }
    if r.chance(1, 4) && pos <= 65536 {
        // push everything to the top so that the last run ends at 65535
        let shift = 65536 - pos;
        for x in out.iter_mut() {
            x.0 += shift;
        }
    }
    out
}

/// values of one chunk, of a named shape
pub fn gen_vals(r: &mut Rng, small: bool) -> (Vec<u16>, &'static str) {
    let shape = if small { r.below(6) } else { r.below(13) };
    match shape {
        0 => {
            // a handful of boundary-biased values
            let n = r.range(1, 12);
            let mut v: Vec<u16> = (0..n)
                .map(|_| if r.chance(1, 2) { *r.pick(&crate::gen::common::LOWS) as u16 } else { r.below(65536) as u16 })
                .collect();
            v.sort();
            v.dedup();
            (v, "few")
        }
        1 => {
            // one run
            let l = *r.pick(&[0u32, 1, 2, 63, 64, 100, 1000]);
            let s = (*r.pick(&STARTS)).min(65535 - l);
            (runs_to_vals(&[(s, l)]), "one-run")
        }
        2 => {
            // one run ending at 65535
            let l = *r.pick(&[0u32, 1, 64, 500]);
            (runs_to_vals(&[(65535 - l, l)]), "run-to-top")
        }
        3 => {
            // many 1-runs (isolated values)
            let n = r.range(2, if small { 40 } else { 600 }) as usize;
            let lens = vec![0u32; n];
            let g = r.range(1, 3) as u32;
            (runs_to_vals(&layout_runs(r, &lens, g)), "many-1-runs")
        }
        4 => {
            // a few runs, possibly adjacent-free, mixed lengths
            let n = r.range(2, 8) as usize;
            let lens: Vec<u32> = (0..n).map(|_| *r.pick(&[0u32, 1, 2, 5, 62, 63, 64, 200])).collect();
            (runs_to_vals(&layout_runs(r, &lens, 1)), "few-runs")
        }
        5 => {
            // runs and singles mixed, small
            let n = r.range(3, 20) as usize;
            let lens: Vec<u32> = (0..n).map(|_| if r.chance(1, 2) { 0 } else { r.range(1, 30) as u32 }).collect();
            (runs_to_vals(&layout_runs(r, &lens, 1)), "mixed-small")
        }
        6 => {
            // THE shape of D3: few runs with sum(len-1) <= 4096 < cardinality
            let nr = r.range(1, 40) as u32;
            // sum of (len-1) in (4096 - nr, 4096]
            let sum = 4096 - r.below(nr as u64) as u32;
            let mut lens = vec![0u32; nr as usize];
            let mut left = sum;
            for i in 0..nr as usize {
                let x = if i + 1 == nr as usize { left } else { r.below(left as u64 / 2 + 1) as u32 };
                lens[i] = x;
                left -= x;
            }
            (runs_to_vals(&layout_runs(r, &lens, 1)), "runs-sum<=4096<card")
        }
        7 => {
            // cardinality next to 4096 as one run plus isolated values
            let card = *r.pick(&[4094u32, 4095, 4096, 4097, 4098]);
            let singles = r.range(0, 5) as u32;
            let mut lens = vec![card - singles - 1];
            lens.extend(std::iter::repeat(0).take(singles as usize));
            if r.chance(1, 2) {
                lens.reverse();
            }
            (runs_to_vals(&layout_runs(r, &lens, 1)), "card~4096")
        }
        8 => {
            // cardinality next to 4096, scattered (stride 3..15): array/bitset cut-over without long runs
            let card = *r.pick(&[4095u32, 4096, 4097]);
            let stride = r.range(2, 15) as u32;
            let s = r.below((65536 - card * stride) as u64 + 1) as u32;
            ((0..card).map(|i| (s + i * stride) as u16).collect(), "scattered~4096")
        }
        9 => {
            // dense random window: a genuine bitset chunk
            let width = r.range(6000, 20000) as u32;
            let s = r.below((65536 - width) as u64 + 1) as u32;
            let mut v: Vec<u16> = (s..s + width).filter(|_| r.chance(2, 3)).map(|x| x as u16).collect();
            if v.is_empty() {
                v.push(s as u16);
            }
            (v, "dense-window")
        }
        10 if r.chance(1, 2) => {
            // one long run (the decoder starts from a bitset store) followed by short runs laid out on the 64-bit word grid:
            // exactly one word, one word minus / plus a value, starting on / next to a word boundary, two whole words
            let l0 = r.range(4200, 9000) as u32;
            let s0 = r.below(2000) as u32;
            let mut runs = vec![(s0, l0)];
            let mut w = (s0 + l0) / 64 + 2;
            for _ in 0..r.range(1, 12) {
                let d = *r.pick(&[0u32, 0, 0, 1, 63]);
                let l = *r.pick(&[63u32, 63, 62, 64, 0, 1, 127]);
                let st = w * 64 + d;
                if st + l > 65535 {
                    break;
                }
                runs.push((st, l));
                w = (st + l) / 64 + 1 + r.below(3) as u32;
            }
            (runs_to_vals(&runs), "long-run+word-grid-runs")
        }
        10 => {
            // long runs: sum(len-1) > 4096 (the decoder starts from a bitset store)
            let n = r.range(1, 5) as usize;
            let lens: Vec<u32> = (0..n).map(|_| r.range(1500, 6000) as u32).collect();
            (runs_to_vals(&layout_runs(r, &lens, 1)), "long-runs")
        }
        11 => {
            if r.chance(1, 3) {
                ((0..=65535u16).collect(), "full")
            } else {
                (runs_to_vals(&[(0, 4096)]), "run-4097")
            }
        }
        _ => {
            // medium array, random
            let n = r.range(50, 1500);
            let mut v: Vec<u16> = (0..n).map(|_| r.below(65536) as u16).collect();
            v.sort();
            v.dedup();
            (v, "random-array")
        }
    }
}

pub fn gen_keys(r: &mut Rng, n: usize) -> Vec<u16> {
    let mut ks: Vec<u16> = Vec::new();
    while ks.len() < n {
        let k = if r.chance(3, 4) { *r.pick(&KEYPOOL) } else { r.below(65536) as u16 };
        if !ks.contains(&k) {
            ks.push(k);
        }
    }
    ks.sort();
    ks
}

/// how the runs of a run container are written: maximal runs, or (sometimes) with one run split into two
/// adjacent pieces (conformant: sorted and non-overlapping)
fn gen_runs(r: &mut Rng, vals: &[u16]) -> Vec<(u16, u16)> {
    let mut runs = maximal_runs(vals);
    if r.chance(1, 8) {
        if let Some(i) = (0..runs.len()).find(|&i| runs[i].1 >= 1) {
            let (s, l) = runs[i];
            let cut = r.below(l as u64) as u16; // first piece has len-1 = cut
            runs[i] = (s, cut);
            runs.insert(i + 1, (s + cut + 1, l - cut - 1));
        }
    }
    runs
}

pub struct GenStream {
    pub chunks: Vec<Chunk>,
    pub bytes: Vec<u8>,
    pub layout: Layout,
    pub shapes: Vec<&'static str>,
}

impl GenStream {
    /// one token-safe line describing the stream: cookie, offsets, per chunk `shape/kind/cardinality`
    pub fn describe(&self) -> String {
        let mut s = format!(
            "cookie={} offsets={} n={} bytes={} chunks=",
            if self.layout.run_cookie { "run" } else { "norun" },
            if self.layout.offsets.is_empty() { "no" } else { "yes" },
            self.chunks.len(),
            self.bytes.len()
        );
        for (i, c) in self.chunks.iter().enumerate() {
            let k = match self.layout.payload[i].2 {
                Kind::Run => "R",
                Kind::Array => "A",
                Kind::Bitset => "B",
            };
            s.push_str(&format!("[{}/{}/{}]", self.shapes[i], k, c.vals.len()));
        }
        s
    }
}

/// a random conformant stream: 0..=6 chunks, per-chunk choice of run vs array/bitset, both cookies
pub fn gen_stream(r: &mut Rng, small: bool) -> GenStream {
    // mostly 0..=6 chunks; sometimes many (tiny) chunks, in particular counts around the multiples of 8
    // (size of the run-flag bitmap) and 16/17
    let many = r.chance(1, 10);
    let n = if many {
        *r.pick(&[7u64, 8, 8, 9, 15, 16, 16, 17, 24])
    } else {
        match r.below(20) {
            0 => 0,
            1..=4 => 1,
            5..=8 => 2,
            9..=11 => 3,
            12..=15 => 4,
            16..=17 => 5,
            _ => 6,
        }
    } as usize;
    let small = small || many;
    let keys = gen_keys(r, n);
    let run_pct = *r.pick(&[0u64, 30, 50, 50, 80, 100]);
    let mut chunks = Vec::new();
    let mut shapes = Vec::new();
    let mut big = 0;
    for &key in &keys {
        let (mut vals, mut shape) = gen_vals(r, small || big >= 2);
        if vals.len() > 4096 {
            big += 1;
        }
        if vals.is_empty() {
            vals = vec![0];
            shape = "few";
        }
        // chunks with thousands of runs are expensive for the list model (each run is an `insert_range`):
        // run-encode them less often
        let nruns = maximal_runs(&vals).len();
        let pct = if nruns > 1500 { run_pct / 4 } else { run_pct };
        let runs = if r.below(100) < pct { Some(gen_runs(r, &vals)) } else { None };
        chunks.push(Chunk { key, vals, runs });
        shapes.push(shape);
    }
    // run cookie although no chunk is a run container: conformant, never produced by the crate
    let want_run_cookie = r.chance(1, 5);
    let (bytes, layout) = encode(&chunks, want_run_cookie);
    GenStream { chunks, bytes, layout, shapes }
}

// ------------------------------------------------------------------------------------------ corruptions

fn s16(b: &mut [u8], p: usize, v: u16) {
    b[p] = (v & 0xff) as u8;
    b[p + 1] = (v >> 8) as u8;
}
fn s32(b: &mut [u8], p: usize, v: u32) {
    for i in 0..4 {
        b[p + i] = ((v >> (8 * i)) & 0xff) as u8;
    }
}

/// One single-field corruption of a valid stream.  Returns the new bytes and a label.  (The result may
/// by chance still be conformant; the strict reference decoders decide.)
pub fn corrupt(r: &mut Rng, g: &GenStream) -> (Vec<u8>, &'static str) {
    let mut b = g.bytes.clone();
    let lay = &g.layout;
    let n = lay.n;
    for _ in 0..20 {
        match r.below(13) {
            0 => {
                let c = match r.below(6) {
                    0 => 12345,
                    1 => 12348,
                    2 => r.next() as u32,
                    3 => 0,
                    4 => {
                        // switch the cookie family, keeping the rest
                        if lay.run_cookie {
                            COOKIE_NORUN
                        } else {
                            COOKIE_RUN | ((n.max(1) as u32 - 1) << 16)
                        }
                    }
                    _ => g32(&b, 0) ^ (1 << r.below(32)),
                };
                s32(&mut b, 0, c);
                return (b, "cookie");
            }
            1 => {
                if let Some(p) = lay.count_pos {
                    let c = match r.below(7) {
                        0 => n as u32 + 1,
                        1 => (n as u32).wrapping_sub(1),
                        2 => 0,
                        3 => 65536,
                        4 => 65537,
                        5 => u32::MAX,
                        _ => r.below(10) as u32,
                    };
                    s32(&mut b, p, c);
                } else {
                    let hi = match r.below(5) {
                        0 => n as u16, // n + 1 containers
                        1 => (n as u16).wrapping_sub(2),
                        2 => 3,
                        3 => 0xffff,
                        _ => r.below(8) as u16,
                    };
                    s16(&mut b, 2, hi);
                }
                return (b, "count");
            }
            2 if n >= 1 => {
                let i = r.below(n as u64) as usize;
                let prev = if i > 0 { g.chunks[i - 1].key } else { g.chunks[n - 1].key };
                let k = match r.below(6) {
                    0 => prev,
                    1 => prev.wrapping_sub(1),
                    2 => 0,
                    3 => 0xffff,
                    4 => g.chunks[i].key.wrapping_add(1),
                    _ => r.below(65536) as u16,
                };
                s16(&mut b, lay.keys[i], k);
                return (b, "key");
            }
            3 if n >= 2 => {
                // swap two neighbouring keys (descending pair)
                let i = r.below(n as u64 - 1) as usize;
                s16(&mut b, lay.keys[i], g.chunks[i + 1].key);
                s16(&mut b, lay.keys[i + 1], g.chunks[i].key);
                return (b, "key-swap");
            }
            4 if n >= 1 => {
                let i = r.below(n as u64) as usize;
                let c = g.chunks[i].vals.len() as u32 - 1;
                let v = match r.below(8) {
                    0 => c.wrapping_add(1),
                    1 => c.wrapping_sub(1),
                    2 => 0,
                    3 => 4095,
                    4 => 4096,
                    5 => 65535,
                    6 => c ^ (1 << r.below(16)),
                    _ => r.below(65536) as u32,
                } as u16;
                s16(&mut b, lay.cards[i], v);
                return (b, "card");
            }
            5 => {
                if let Some((p, l)) = lay.flags {
                    match r.below(4) {
                        0 => b[p + l - 1] ^= 0x80, // a padding bit unless n % 8 == 0
                        1 => (0..l).for_each(|i| b[p + i] = 0xff),
                        2 => (0..l).for_each(|i| b[p + i] = 0),
                        _ => {
                            let i = r.below(n as u64) as usize;
                            b[p + i / 8] ^= 1 << (i % 8);
                        }
                    }
                    return (b, "run-flags");
                }
            }
            6 if !lay.offsets.is_empty() => {
                let i = r.below(n as u64) as usize;
                let o = g32(&b, lay.offsets[i]);
                let v = match r.below(5) {
                    0 => o + 1,
                    1 => o.wrapping_sub(1),
                    2 => 0,
                    3 => u32::MAX,
                    _ => r.below(b.len() as u64 + 10) as u32,
                };
                s32(&mut b, lay.offsets[i], v);
                return (b, "offset");
            }
            7 if n >= 1 => {
                let i = r.below(n as u64) as usize;
                let (p, l, k) = lay.payload[i];
                match k {
                    Kind::Array => {
                        let cnt = l / 2;
                        let j = r.below(cnt as u64) as usize;
                        match r.below(5) {
                            0 if cnt >= 2 => {
                                let j = j.min(cnt - 2);
                                let (x, y) = (g16(&b, p + 2 * j), g16(&b, p + 2 * j + 2));
                                s16(&mut b, p + 2 * j, y);
                                s16(&mut b, p + 2 * j + 2, x);
                            }
                            1 if cnt >= 2 => {
                                let j = j.max(1);
                                let x = g16(&b, p + 2 * j - 2);
                                s16(&mut b, p + 2 * j, x);
                            }
                            2 => s16(&mut b, p + 2 * (cnt - 1), 0),
                            3 => s16(&mut b, p, 0xffff),
                            _ => s16(&mut b, p + 2 * j, r.below(65536) as u16),
                        }
                        return (b, "array-payload");
                    }
                    Kind::Bitset => {
                        let w = r.below(1024) as usize;
                        match r.below(4) {
                            0 => b[p + r.below(8192) as usize] ^= 1 << r.below(8),
                            1 => (0..8).for_each(|i| b[p + 8 * w + i] = 0),
                            2 => (0..8).for_each(|i| b[p + 8 * w + i] = 0xff),
                            _ => {
                                // move one bit: usually keeps the popcount (a different, conformant set)
                                b[p + r.below(8192) as usize] ^= 1 << r.below(8);
                                b[p + r.below(8192) as usize] ^= 1 << r.below(8);
                            }
                        }
                        return (b, "bitset-payload");
                    }
                    Kind::Run => {
                        let nr = (l - 2) / 4;
                        match r.below(9) {
                            0 => s16(&mut b, p, 0),
                            1 => s16(&mut b, p, nr as u16 + 1),
                            2 => s16(&mut b, p, (nr as u16).wrapping_sub(1)),
                            3 => s16(&mut b, p, 0xffff),
                            _ if nr == 0 => s16(&mut b, p, 1),
                            4 => {
                                // length overflow past 65535
                                let j = r.below(nr as u64) as usize;
                                let s = g16(&b, p + 2 + 4 * j);
                                s16(&mut b, p + 4 + 4 * j, (65535 - s).wrapping_add(1 + r.below(3) as u16));
                            }
                            5 => {
                                let j = r.below(nr as u64) as usize;
                                s16(&mut b, p + 4 + 4 * j, *r.pick(&[0u16, 1, 0xffff, 4096]));
                            }
                            6 => {
                                // start moved: overlap with the previous run, or unsorted
                                let j = r.below(nr as u64) as usize;
                                let s = if j > 0 { g16(&b, p + 2 + 4 * (j - 1)) } else { 0xffff };
                                s16(&mut b, p + 2 + 4 * j, s);
                            }
                            7 if nr >= 2 => {
                                // swap two runs
                                let j = r.below(nr as u64 - 1) as usize;
                                for t in 0..4 {
                                    b.swap(p + 2 + 4 * j + t, p + 2 + 4 * (j + 1) + t);
                                }
                            }
                            _ => {
                                let j = r.below(nr as u64) as usize;
                                s16(&mut b, p + 2 + 4 * j, r.below(65536) as u16);
                            }
                        }
                        return (b, "run-payload");
                    }
                }
            }
            8 | 9 => {
                if b.is_empty() {
                    continue;
                }
                // truncation: at / next to a field boundary, or anywhere
                let k = if r.chance(2, 3) {
                    let bs = lay.boundaries(b.len());
                    let p = *r.pick(&bs) as i64 + *r.pick(&[-1i64, 0, 0, 1]);
                    p.clamp(0, b.len() as i64 - 1) as usize
                } else {
                    r.below(b.len() as u64) as usize
                };
                b.truncate(k);
                return (b, "truncated");
            }
            10 => {
                let k = r.range(1, 16);
                for _ in 0..k {
                    b.push(r.below(256) as u8);
                }
                return (b, "extended");
            }
            11 => {
                // flip one random bit anywhere
                if b.is_empty() {
                    continue;
                }
                let p = r.below(b.len() as u64) as usize;
                b[p] ^= 1 << r.below(8);
                return (b, "bitflip");
            }
            _ => {}
        }
    }
    b.truncate(b.len() / 2);
    (b, "truncated")
}

/// short random byte strings, most with a plausible header so that decoding gets past the cookie
pub fn random_bytes(r: &mut Rng) -> Vec<u8> {
    let mut b = Vec::new();
    match r.below(4) {
        0 => {}
        1 => {
            p32(&mut b, COOKIE_NORUN);
            p32(&mut b, r.below(4) as u32);
        }
        2 => p32(&mut b, COOKIE_RUN | ((r.below(5) as u32) << 16)),
        _ => p32(&mut b, COOKIE_RUN | ((r.below(65536) as u32) << 16)),
    }
    let k = r.range(0, 24);
    for _ in 0..k {
        b.push(if r.chance(1, 2) { r.below(4) as u8 } else { r.below(256) as u8 });
    }
    b
}

/// A stream that is NOT conformant but that the crate's decoders accept: a run container whose runs overlap, repeat or
/// are listed out of order (the decoder replays runs through `insert_range`, which merges them). The sum of the run
/// lengths and the number of distinct values are steered to opposite sides of / exactly onto the 4096 array limit, so a
/// decoder that picks the container kind from the SUM instead of the real cardinality is exposed. The declared
/// cardinality is the real one. Returns the bytes, the set, and a description.
pub fn overlapping_runs_stream(r: &mut Rng) -> (Vec<u8>, Vec<u32>, String) {
    if r.chance(1, 3) {
        // DISJOINT runs of different lengths listed out of order (descending, or one run moved): every replayed run is
        // inserted in front of / between values that are already there
        let nr = r.range(2, 5) as usize;
        let mut runs: Vec<(u16, u16)> = Vec::new();
        let mut pos = r.below(1000) as u32;
        for _ in 0..nr {
            let len = *r.pick(&[1u32, 2, 3, 10, 64, 300, 2000]);
            runs.push((pos as u16, (len - 1) as u16));
            pos += len + *r.pick(&[1u32, 2, 50, 5000]);
        }
        let mut vals: Vec<u16> = Vec::new();
        for &(s, l) in &runs {
            vals.extend(s..=s + l);
        }
        match r.below(3) {
            0 => runs.reverse(),
            1 => {
                let x = runs.remove(0);
                runs.push(x);
            }
            _ => {
                let x = runs.pop().unwrap();
                runs.insert(0, x);
            }
        }
        let key = *r.pick(&[0u16, 1, 7, 0xFFFF]);
        let chunks = vec![Chunk { key, vals, runs: Some(runs.clone()) }];
        let (bytes, _) = encode(&chunks, true);
        return (bytes, set_of(&chunks), format!("out-of-order-disjoint-runs runs={}", runs.len()));
    }
    let target_union = *r.pick(&[4095u32, 4096, 4096, 4097, 3000, 6000, 100]);
    let a = r.below(20000) as u32;
    // two or three runs covering a .. a + target_union - 1 with overlaps
    let cut1 = r.range(1, (target_union - 1).max(1) as u64) as u32;
    let back = r.range(0, cut1 as u64).min(3000) as u32; // the second run starts `back` values before the first ends
    let mut runs: Vec<(u16, u16)> = Vec::new();
    runs.push((a as u16, (cut1 - 1) as u16));
    let s2 = a + cut1 - back;
    runs.push((s2 as u16, (a + target_union - 1 - s2) as u16));
    match r.below(5) {
        0 => runs.push(runs[0]),                          // a repeated run
        1 => runs.push((a as u16, (target_union - 1) as u16)), // one run covering everything, listed last
        2 => runs.swap(0, 1),                             // out of order
        _ => {}
    }
    let vals: Vec<u16> = (a..a + target_union).map(|x| x as u16).collect();
    let key = *r.pick(&[0u16, 1, 7, 0xFFFF]);
    let mut chunks: Vec<Chunk> = Vec::new();
    if r.chance(1, 2) && key > 0 {
        chunks.push(Chunk { key: 0, vals: vec![3, 4, 9], runs: None });
    }
    chunks.push(Chunk { key, vals, runs: Some(runs.clone()) });
    if r.chance(1, 2) && key < 0xFFFF {
        chunks.push(Chunk { key: 0xFFFF, vals: vec![65535], runs: None });
    }
    let (bytes, _) = encode(&chunks, true);
    let sum: u32 = runs.iter().map(|&(_, l)| l as u32 + 1).sum();
    (bytes, set_of(&chunks), format!("overlapping-runs union={} sum-of-lengths={} runs={}", target_union, sum, runs.len()))
}
