//! splitmix64: every random choice of a case derives from (seed, case index).
pub struct Rng(pub u64);

impl Rng {
    pub fn new(seed: u64, case: u64) -> Rng {
        let mut r = Rng(seed ^ case.wrapping_mul(0x9E3779B97F4A7C15) ^ 0xD1B54A32D192ED03);
        r.next();
        r.next();
        r
    }
    pub fn next(&mut self) -> u64 {
        self.0 = self.0.wrapping_add(0x9E3779B97F4A7C15);
        let mut z = self.0;
        z = (z ^ (z >> 30)).wrapping_mul(0xBF58476D1CE4E5B9);
        z = (z ^ (z >> 27)).wrapping_mul(0x94D049BB133111EB);
        z ^ (z >> 31)
    }
    pub fn below(&mut self, n: u64) -> u64 {
        if n == 0 {
            0
        } else {
            self.next() % n
        }
    }
    pub fn range(&mut self, lo: u64, hi_incl: u64) -> u64 {
        lo + self.below(hi_incl - lo + 1)
    }
    pub fn chance(&mut self, num: u64, den: u64) -> bool {
        self.below(den) < num
    }
    pub fn pick<'a, T>(&mut self, xs: &'a [T]) -> &'a T {
        &xs[self.below(xs.len() as u64) as usize]
    }
}
