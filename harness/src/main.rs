//! Correspondence harness: executes an ops file on the real crate (`run`) and generates ops files (`gen`).
mod exec;
mod gen;
mod rng;

fn main() {
    let args: Vec<String> = std::env::args().collect();
    match args.get(1).map(|s| s.as_str()) {
        Some("run") => exec::run_stdin(),
        Some("gen") => gen::main(&args[2..]),
        Some("cfg") => println!("debug_assertions={}", cfg!(debug_assertions)),
        _ => {
            eprintln!("usage: harness run < ops | harness gen --profile P --seed S --cases N | harness cfg");
            std::process::exit(2);
        }
    }
}
