//! ops family `multi` (C09): `MultiOps::{union, intersection, difference, symmetric_difference}` over owned
//! values, references and `Result`s of either, driven through an iterator whose `size_hint` is chosen by
//! the op line.
//!
//! `multi <op> <kind> <hint> bD item…`   op ∈ {or,and,sub,xor}; kind ∈ {own, ref, res_own, res_ref};
//! hint ∈ {exact, upper:K, none}; item ∈ {bK, err:E}  ->  `ok` (result stored in bD) | `err:E`
use super::*;
use roaring::MultiOps;

#[derive(Clone, Copy)]
enum Hint {
    /// the `Vec`'s own iterator: `size_hint() = (len, Some(len))`
    Exact,
    /// `(0, Some(k))`
    Upper(usize),
    /// `(0, None)`
    Unknown,
}

/// A fused pass-through over `vec::IntoIter` that only changes what `size_hint` answers.
struct Hinted<T> {
    inner: std::vec::IntoIter<T>,
    hint: Hint,
}

impl<T> Iterator for Hinted<T> {
    type Item = T;
    fn next(&mut self) -> Option<T> {
        self.inner.next()
    }
    fn size_hint(&self) -> (usize, Option<usize>) {
        match self.hint {
            Hint::Exact => self.inner.size_hint(),
            Hint::Upper(k) => (0, Some(k)),
            Hint::Unknown => (0, None),
        }
    }
}

fn parse_hint(t: &str) -> Option<Hint> {
    if t == "exact" {
        Some(Hint::Exact)
    } else if t == "none" {
        Some(Hint::Unknown)
    } else if let Some(k) = t.strip_prefix("upper:") {
        k.parse::<u32>().ok().map(|k| Hint::Upper(k as usize))
    } else {
        None
    }
}

#[derive(Clone, Copy)]
enum Op {
    Or,
    And,
    Sub,
    Xor,
}

fn apply<T, I: MultiOps<T>>(op: Op, it: I) -> I::Output {
    match op {
        Op::Or => it.union(),
        Op::And => it.intersection(),
        Op::Sub => it.difference(),
        Op::Xor => it.symmetric_difference(),
    }
}

/// `exact` really is the plain `Vec` (its `IntoIter` reports the length); the other hints go through the adapter.
macro_rules! run {
    ($op:expr, $hint:expr, $v:expr) => {
        match $hint {
            Hint::Exact => apply($op, $v),
            h => apply($op, Hinted { inner: $v.into_iter(), hint: h }),
        }
    };
}

pub fn handle(st: &mut State, toks: &[&str]) -> HResult {
    match toks {
        ["multi", op, kind, hint, d, items @ ..] => {
            let op = match *op {
                "or" => Op::Or,
                "and" => Op::And,
                "sub" => Op::Sub,
                "xor" => Op::Xor,
                _ => return None,
            };
            let (owned, is_res) = match *kind {
                "own" => (true, false),
                "ref" => (false, false),
                "res_own" => (true, true),
                "res_ref" => (false, true),
                _ => return None,
            };
            let hint = parse_hint(hint)?;
            let di = slot('b', d)?;
            // items: Ok(slot index) | Err(code)
            let mut its: Vec<Result<usize, u32>> = Vec::with_capacity(items.len());
            for t in items {
                if let Some(e) = t.strip_prefix("err:") {
                    if !is_res {
                        return None;
                    }
                    its.push(Err(e.parse::<u32>().ok()?));
                } else {
                    let i = slot('b', t)?;
                    st.bm[i].as_ref()?;
                    its.push(Ok(i));
                }
            }
            let bm = &st.bm;
            let get = |i: usize| bm[i].as_ref().unwrap();
            let r: Result<RoaringBitmap, u32> = match (owned, is_res) {
                (true, false) => {
                    let v: Vec<RoaringBitmap> = its.iter().map(|i| get(*i.as_ref().unwrap()).clone()).collect();
                    Ok(run!(op, hint, v))
                }
                (false, false) => {
                    let v: Vec<&RoaringBitmap> = its.iter().map(|i| get(*i.as_ref().unwrap())).collect();
                    Ok(run!(op, hint, v))
                }
                (true, true) => {
                    let v: Vec<Result<RoaringBitmap, u32>> = its.iter().map(|i| i.map(|i| get(i).clone())).collect();
                    run!(op, hint, v)
                }
                (false, true) => {
                    let v: Vec<Result<&RoaringBitmap, u32>> = its.iter().map(|i| i.map(get)).collect();
                    run!(op, hint, v)
                }
            };
            match r {
                Ok(b) => {
                    st.bm[di] = Some(b);
                    Some("ok".to_string())
                }
                Err(e) => Some(format!("err:{}", e)),
            }
        }
        _ => None,
    }
}
