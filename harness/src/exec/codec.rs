//! ops family `codec` (C05, C06, C13, C14, C18): serialization, both decoders, fault-injecting readers and
//! writers, `intersection_with_serialized_unchecked`, and the harness' own reference codec.
use super::*;
use crate::gen::stream;
use std::io::{self, Cursor, Read, Write as IoWrite};

pub(super) fn fnv_bytes(bs: &[u8]) -> u64 {
    bs.iter().fold(FNV_BASIS, |h, &x| fnv_step(h, x as u64))
}

pub(super) fn show_bytes(bs: &[u8]) -> String {
    if bs.len() <= 64 {
        format!("n={} hex:{}", bs.len(), hex_bytes(bs))
    } else {
        format!("n={} sh={:016x}", bs.len(), fnv_bytes(bs))
    }
}

#[derive(Clone, Copy)]
pub(super) enum Ev {
    Intr,
    Chunk(usize),
}

/// `sched:` (plain) or `sched:3,i,1` (cycled; must contain a chunk, chunks are 1..=1000000)
pub(super) fn parse_sched(t: &str) -> Option<Vec<Ev>> {
    let body = t.strip_prefix("sched:")?;
    if body.is_empty() {
        return Some(vec![]);
    }
    let mut v = Vec::new();
    for p in body.split(',') {
        if p == "i" {
            v.push(Ev::Intr)
        } else {
            // same token language as the Lean driver's `String.toNat?`: decimal digits only
            if p.is_empty() || !p.bytes().all(|c| c.is_ascii_digit()) {
                return None;
            }
            let n: usize = p.parse().ok()?;
            if !(1..=1_000_000).contains(&n) {
                return None;
            }
            v.push(Ev::Chunk(n))
        }
    }
    if v.iter().any(|e| matches!(e, Ev::Chunk(_))) {
        Some(v)
    } else {
        None
    }
}

/// a reader that hands out the data according to a cycled schedule of `read()` results
pub(super) struct SchedReader<'a> {
    pub(super) data: &'a [u8],
    pub(super) pos: usize,
    pub(super) sched: Vec<Ev>,
    pub(super) i: usize,
}

impl Read for SchedReader<'_> {
    fn read(&mut self, buf: &mut [u8]) -> io::Result<usize> {
        let ev = if self.sched.is_empty() {
            Ev::Chunk(usize::MAX)
        } else {
            let e = self.sched[self.i % self.sched.len()];
            self.i += 1;
            e
        };
        match ev {
            Ev::Intr => Err(io::ErrorKind::Interrupted.into()),
            Ev::Chunk(k) => {
                let m = k.min(buf.len()).min(self.data.len() - self.pos);
                buf[..m].copy_from_slice(&self.data[self.pos..self.pos + m]);
                self.pos += m;
                Ok(m)
            }
        }
    }
}

/// the payload of the error a full `LimWriter` returns: "returns the writer's error" (C14) is checked by identity — the
/// error that comes back from `serialize_into` must carry this very payload, not a look-alike of the same kind
#[derive(Debug)]
pub(super) struct SinkFull {
    pub(super) at: usize,
}
impl std::fmt::Display for SinkFull {
    fn fmt(&self, f: &mut std::fmt::Formatter<'_>) -> std::fmt::Result {
        write!(f, "sink full at {}", self.at)
    }
}
impl std::error::Error for SinkFull {}

/// `ok` / `err` (the writer's own error: its payload in `err` mode, std's `WriteZero` in `zero` mode) / `err-foreign`
pub(super) fn show_write_result(r: &io::Result<()>, w: &LimWriter) -> String {
    match r {
        Ok(()) => "ok".to_string(),
        Err(e) => {
            let own = if w.zero {
                e.kind() == io::ErrorKind::WriteZero
            } else {
                e.get_ref().and_then(|x| x.downcast_ref::<SinkFull>()).map(|s| s.at) == Some(w.limit)
            };
            if own {
                "err".to_string()
            } else {
                format!("err-foreign({:?})", e.kind())
            }
        }
    }
}

/// a sink that accepts `limit` bytes in scheduled chunk sizes, then fails (`Err`) or returns `Ok(0)`
pub(super) struct LimWriter {
    pub(super) acc: Vec<u8>,
    pub(super) limit: usize,
    pub(super) zero: bool,
    pub(super) sched: Vec<Ev>,
    pub(super) i: usize,
}

impl IoWrite for LimWriter {
    fn write(&mut self, buf: &[u8]) -> io::Result<usize> {
        let ev = if self.sched.is_empty() {
            Ev::Chunk(usize::MAX)
        } else {
            let e = self.sched[self.i % self.sched.len()];
            self.i += 1;
            e
        };
        match ev {
            Ev::Intr => Err(io::ErrorKind::Interrupted.into()),
            Ev::Chunk(k) => {
                let room = self.limit - self.acc.len();
                let m = k.min(buf.len()).min(room);
                if m == 0 {
                    return if self.zero { Ok(0) } else { Err(io::Error::new(io::ErrorKind::Other, SinkFull { at: self.limit })) };
                }
                self.acc.extend_from_slice(&buf[..m]);
                Ok(m)
            }
        }
    }
    fn flush(&mut self) -> io::Result<()> {
        Ok(())
    }
}

/// C13 oracle evaluated on the real value, through the public API only: every observer agrees with the
/// value's own iteration, it equals the natively built set, and it re-serialises to a stream of the
/// announced size that decodes to the same value.
pub fn consistent(b: &RoaringBitmap) -> bool {
    let v: Vec<u32> = b.iter().collect();
    let asc = v.windows(2).all(|w| w[0] < w[1]);
    let rev: Vec<u32> = b.iter().rev().collect();
    let rev_ok = rev.iter().rev().eq(v.iter());
    let len_ok = b.len() == v.len() as u64 && b.is_empty() == v.is_empty();
    let mm_ok = b.min() == v.first().copied() && b.max() == v.last().copied();
    let contains_ok = v.iter().all(|&x| b.contains(x));
    let step = (v.len() / 512).max(1);
    let rank_ok = v.iter().enumerate().step_by(step).all(|(i, &x)| b.rank(x) == i as u64 + 1 && b.select(i as u32) == Some(x));
    let native: RoaringBitmap = v.iter().copied().collect();
    let eq_ok = *b == native;
    let mut bytes = Vec::new();
    let ser_ok = b.serialize_into(&mut bytes).is_ok() && bytes.len() == b.serialized_size();
    let mut nat_bytes = Vec::new();
    native.serialize_into(&mut nat_bytes).unwrap();
    let rt_ok = match RoaringBitmap::deserialize_from(&bytes[..]) {
        Ok(d) => d == *b && d.iter().eq(v.iter().copied()),
        Err(_) => false,
    };
    asc && rev_ok && len_ok && mm_ok && contains_ok && rank_ok && eq_ok && ser_ok && rt_ok && nat_bytes == bytes
}

pub(super) fn mode(t: &str) -> Option<bool> {
    match t {
        "chk" => Some(true),
        "unchk" => Some(false),
        _ => None,
    }
}

fn decode_with<R: Read>(chk: bool, rd: R) -> io::Result<RoaringBitmap> {
    if chk {
        RoaringBitmap::deserialize_from(rd)
    } else {
        RoaringBitmap::deserialize_unchecked_from(rd)
    }
}

fn show_deser(chk: bool, b: &RoaringBitmap, rest: usize) -> String {
    if chk {
        format!("ok rest={} wf={}", rest, consistent(b))
    } else {
        format!("ok rest={}", rest)
    }
}

pub(super) fn u64tok(t: &str) -> Option<u64> {
    if t.is_empty() || !t.bytes().all(|c| c.is_ascii_digit()) {
        return None;
    }
    t.parse().ok()
}

pub fn test_data_bitmap() -> RoaringBitmap {
    // roaring/tests/serialization.rs
    (0..100).map(|i| i * 1000).chain((100_000..200_000).map(|i| i * 3)).chain(700_000..800_000).collect::<RoaringBitmap>()
}

pub fn handle(st: &mut State, toks: &[&str]) -> HResult {
    match toks {
        ["note", ..] => Some("ok".to_string()),
        ["ser", d] => {
            let b = st.bm[slot('b', d)?].as_ref()?;
            let mut bytes = Vec::new();
            b.serialize_into(&mut bytes).unwrap();
            Some(show_bytes(&bytes))
        }
        ["ser_size", d] => Some(st.bm[slot('b', d)?].as_ref()?.serialized_size().to_string()),
        ["spec_encode", d] => {
            let b = st.bm[slot('b', d)?].as_ref()?;
            Some(show_bytes(&stream::encode_set(b.iter())))
        }
        ["spec_decode", h] => {
            let bytes = parse_hex(h)?;
            Some(match stream::decode(&bytes) {
                Some((set, rest)) => {
                    let mut re = stream::encode_set(set.iter().copied());
                    re.extend_from_slice(&bytes[bytes.len() - rest..]);
                    let eh = set.iter().fold(FNV_BASIS, |h, &x| fnv_step(h, x as u64));
                    format!("ok len={} eh={:016x} rest={} same={}", set.len(), eh, rest, re == bytes)
                }
                None => "err".to_string(),
            })
        }
        ["testdata", d] => {
            st.bm[slot('b', d)?] = Some(test_data_bitmap());
            Some("ok".to_string())
        }
        ["deser", m, d, h] => {
            let chk = mode(m)?;
            let i = slot('b', d)?;
            let bytes = parse_hex(h)?;
            let mut rd: &[u8] = &bytes;
            Some(match decode_with(chk, &mut rd) {
                Ok(b) => {
                    let s = show_deser(chk, &b, rd.len());
                    st.bm[i] = Some(b);
                    s
                }
                Err(_) => "err".to_string(),
            })
        }
        ["deser_trunc", m, d, k, h] => {
            let chk = mode(m)?;
            let i = slot('b', d)?;
            let k = u64tok(k)?;
            let bytes = parse_hex(h)?;
            let k = (k.min(bytes.len() as u64)) as usize;
            let mut rd: &[u8] = &bytes[..k];
            Some(match decode_with(chk, &mut rd) {
                Ok(b) => {
                    let s = show_deser(chk, &b, rd.len());
                    st.bm[i] = Some(b);
                    s
                }
                Err(_) => "err".to_string(),
            })
        }
        ["deser_sched", m, d, sc, h] => {
            let chk = mode(m)?;
            let i = slot('b', d)?;
            let sched = parse_sched(sc)?;
            let bytes = parse_hex(h)?;
            let mut rd = SchedReader { data: &bytes, pos: 0, sched, i: 0 };
            Some(match decode_with(chk, &mut rd) {
                Ok(b) => {
                    let s = show_deser(chk, &b, bytes.len() - rd.pos);
                    st.bm[i] = Some(b);
                    s
                }
                Err(_) => "err".to_string(),
            })
        }
        ["deser_prefix", m, d, s, k] => {
            let chk = mode(m)?;
            let i = slot('b', d)?;
            let src = st.bm[slot('b', s)?].as_ref()?;
            let k = u64tok(k)?;
            let mut bytes = Vec::new();
            src.serialize_into(&mut bytes).unwrap();
            let k = (k.min(bytes.len() as u64)) as usize;
            let mut rd: &[u8] = &bytes[..k];
            Some(match decode_with(chk, &mut rd) {
                Ok(b) => {
                    let s = format!("ok rest={} eq={}", rd.len(), b == *src);
                    st.bm[i] = Some(b);
                    s
                }
                Err(_) => "err".to_string(),
            })
        }
        ["ser_fail", d, lim, md, sc] => {
            let b = st.bm[slot('b', d)?].as_ref()?;
            let limit = u64tok(lim.strip_prefix("limit:")?)?;
            let zero = match md.strip_prefix("mode:")? {
                "zero" => true,
                "err" => false,
                _ => return None,
            };
            let sched = parse_sched(sc)?;
            let mut w = LimWriter { acc: Vec::new(), limit: limit.min(1 << 40) as usize, zero, sched, i: 0 };
            let r = b.serialize_into(&mut w);
            Some(format!("{} n={} sh={:016x}", show_write_result(&r, &w), w.acc.len(), fnv_bytes(&w.acc)))
        }
        ["inter_ser", d, l, h] => {
            let i = slot('b', d)?;
            let a = st.bm[slot('b', l)?].as_ref()?;
            let bytes = parse_hex(h)?;
            Some(match a.intersection_with_serialized_unchecked(Cursor::new(bytes)) {
                Ok(b) => {
                    st.bm[i] = Some(b);
                    "ok".to_string()
                }
                Err(_) => "err".to_string(),
            })
        }
        ["inter_ser_trunc", d, l, k, h] => {
            let i = slot('b', d)?;
            let a = st.bm[slot('b', l)?].as_ref()?;
            let k = u64tok(k)?;
            let mut bytes = parse_hex(h)?;
            bytes.truncate(k.min(bytes.len() as u64) as usize);
            Some(match a.intersection_with_serialized_unchecked(Cursor::new(&bytes[..])) {
                Ok(b) => {
                    st.bm[i] = Some(b);
                    "ok".to_string()
                }
                Err(_) => "err".to_string(),
            })
        }
        _ => None,
    }
}
