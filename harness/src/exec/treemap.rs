//! `RoaringTreemap` mutation / query ops (C10), 64-bit iterators (C12); `tdump` is the canonical observable.
use super::*;
use roaring::MultiOps;

pub fn tdump_set(t: &RoaringTreemap) -> String {
    let mut h = FNV_BASIS;
    let mut n: u64 = 0;
    let mut first = None;
    let mut last = None;
    let mut small: Vec<u64> = Vec::new();
    for x in t.iter() {
        h = fnv_step(h, x);
        if first.is_none() {
            first = Some(x);
        }
        last = Some(x);
        if n < 33 {
            small.push(x);
        }
        n += 1;
    }
    let mut s = format!("len={} min={} max={} eh={:016x}", n, show_opt(first), show_opt(last), h);
    if n <= 32 {
        s.push_str(" e=");
        s.push_str(&small.iter().map(|x| x.to_string()).collect::<Vec<_>>().join(","));
    }
    s
}

fn show_parts(ps: &[Option<(u32, u64)>]) -> String {
    if ps.is_empty() {
        return "-".to_string();
    }
    ps.iter()
        .map(|p| match p {
            Some((k, n)) => format!("{}:{}", k, n),
            None => "none".to_string(),
        })
        .collect::<Vec<_>>()
        .join(",")
}

pub fn tdump(t: &RoaringTreemap) -> String {
    let parts: Vec<Option<(u32, u64)>> = t.bitmaps().map(|(k, b)| Some((k, b.len()))).collect();
    format!("{} | parts=[{}]", tdump_set(t), show_parts(&parts))
}

struct Borrowed(roaring::treemap::Iter<'static>);
struct Owned(roaring::treemap::IntoIter);

impl It64 for Borrowed {
    fn next(&mut self) -> Option<u64> {
        self.0.next()
    }
    fn next_back(&mut self) -> Option<u64> {
        self.0.next_back()
    }
    fn nth(&mut self, n: usize) -> Option<u64> {
        self.0.nth(n)
    }
    fn nth_back(&mut self, n: usize) -> Option<u64> {
        self.0.nth_back(n)
    }
    fn advance_to(&mut self, n: u64) {
        self.0.advance_to(n)
    }
    fn advance_back_to(&mut self, n: u64) {
        self.0.advance_back_to(n)
    }
    fn size_hint(&self) -> (usize, Option<usize>) {
        self.0.size_hint()
    }
    fn fold_fwd(self: Box<Self>) -> (u64, u64) {
        self.0.fold((0u64, FNV_BASIS), |(n, h), v| (n + 1, fnv_step(h, v)))
    }
    fn fold_rev(self: Box<Self>) -> (u64, u64) {
        self.0.rfold((0u64, FNV_BASIS), |(n, h), v| (n + 1, fnv_step(h, v)))
    }
    fn exact_len(&self) -> Option<usize> {
        Some(self.0.len()) // `ExactSizeIterator for treemap::Iter` (iter.rs:305, 64-bit targets): `size_hint().0`
    }
}

impl It64 for Owned {
    fn next(&mut self) -> Option<u64> {
        self.0.next()
    }
    fn next_back(&mut self) -> Option<u64> {
        self.0.next_back()
    }
    fn nth(&mut self, n: usize) -> Option<u64> {
        self.0.nth(n)
    }
    fn nth_back(&mut self, n: usize) -> Option<u64> {
        self.0.nth_back(n)
    }
    fn advance_to(&mut self, _n: u64) {}
    fn advance_back_to(&mut self, _n: u64) {}
    fn size_hint(&self) -> (usize, Option<usize>) {
        self.0.size_hint()
    }
    fn has_advance(&self) -> bool {
        false
    }
    fn fold_fwd(self: Box<Self>) -> (u64, u64) {
        self.0.fold((0u64, FNV_BASIS), |(n, h), v| (n + 1, fnv_step(h, v)))
    }
    fn fold_rev(self: Box<Self>) -> (u64, u64) {
        self.0.rfold((0u64, FNV_BASIS), |(n, h), v| (n + 1, fnv_step(h, v)))
    }
    fn exact_len(&self) -> Option<usize> {
        Some(self.0.len())
    }
}

pub fn handle(st: &mut State, toks: &[&str]) -> HResult {
    macro_rules! t {
        ($t:expr) => {
            st.tm[slot('t', $t)?].as_mut()?
        };
    }
    macro_rules! j {
        ($t:expr) => {
            st.jt[slot('j', $t)?].as_mut()?
        };
    }
    let ok = || Some("ok".to_string());
    match toks {
        ["tnew", d] => {
            st.tm[slot('t', d)?] = Some(RoaringTreemap::new());
            ok()
        }
        ["tclone", d, s] => {
            let i = slot('t', d)?;
            let c = st.tm[slot('t', s)?].as_ref()?.clone();
            st.tm[i] = Some(c);
            ok()
        }
        ["tinsert", d, v] => Some(t!(d).insert(v.parse().ok()?).to_string()),
        ["tremove", d, v] => Some(t!(d).remove(v.parse().ok()?).to_string()),
        ["tinsert_range", d, lo, hi] => {
            let x = t!(d);
            let r = (bound::<u64>(lo)?, bound::<u64>(hi)?);
            Some(x.insert_range(r).to_string())
        }
        ["tremove_range", d, lo, hi] => {
            let x = t!(d);
            let r = (bound::<u64>(lo)?, bound::<u64>(hi)?);
            Some(x.remove_range(r).to_string())
        }
        ["tpush", d, v] => Some(t!(d).push(v.parse().ok()?).to_string()),
        ["tappend", d, vs @ ..] => {
            let x = t!(d);
            let vs: Vec<u64> = nats(vs)?;
            Some(match x.append(vs) {
                Ok(n) => format!("ok {}", n),
                Err(e) => format!("err {}", e.valid_until()),
            })
        }
        ["tfrom_sorted", d, vs @ ..] => {
            let i = slot('t', d)?;
            let vs: Vec<u64> = nats(vs)?;
            Some(match RoaringTreemap::from_sorted_iter(vs) {
                Ok(b) => {
                    st.tm[i] = Some(b);
                    "ok".to_string()
                }
                Err(e) => format!("err {}", e.valid_until()),
            })
        }
        ["textend", d, vs @ ..] => {
            let x = t!(d);
            let vs: Vec<u64> = nats(vs)?;
            x.extend(vs);
            ok()
        }
        ["tfrom_iter", d, vs @ ..] => {
            let i = slot('t', d)?;
            let vs: Vec<u64> = nats(vs)?;
            st.tm[i] = Some(vs.into_iter().collect());
            ok()
        }
        ["tclear", d] => {
            t!(d).clear();
            ok()
        }
        ["tcontains", d, v] => Some(t!(d).contains(v.parse().ok()?).to_string()),
        ["tlen", d] => Some(t!(d).len().to_string()),
        ["tis_empty", d] => Some(t!(d).is_empty().to_string()),
        ["tis_full", d] => Some(t!(d).is_full().to_string()),
        ["tmin", d] => Some(show_opt(t!(d).min())),
        ["tmax", d] => Some(show_opt(t!(d).max())),
        ["trank", d, v] => Some(t!(d).rank(v.parse().ok()?).to_string()),
        ["tselect", d, n] => Some(show_opt(t!(d).select(n.parse().ok()?))),
        ["teq", a, c] => {
            let x = st.tm[slot('t', a)?].as_ref()?;
            let y = st.tm[slot('t', c)?].as_ref()?;
            Some((x == y).to_string())
        }
        ["tfrom_bitmaps", d, items @ ..] => {
            let i = slot('t', d)?;
            if items.len() % 2 != 0 {
                return None;
            }
            let mut v: Vec<(u32, RoaringBitmap)> = Vec::new();
            for kv in items.chunks(2) {
                let k: u32 = kv[0].parse().ok()?;
                let b = st.bm[slot('b', kv[1])?].as_ref()?.clone();
                v.push((k, b));
            }
            st.tm[i] = Some(RoaringTreemap::from_bitmaps(v));
            ok()
        }
        ["tbitmaps", d] => {
            let x = st.tm[slot('t', d)?].as_ref()?;
            let mut it = x.bitmaps();
            let mut out = Vec::new();
            loop {
                let r = it.next().map(|(k, b)| (k, b.len()));
                out.push(r);
                if r.is_none() {
                    break;
                }
            }
            Some(show_parts(&out))
        }
        ["tbitmaps_rev", d] => {
            let x = st.tm[slot('t', d)?].as_ref()?;
            let mut it = x.bitmaps();
            let mut out = Vec::new();
            loop {
                let r = it.next_back().map(|(k, b)| (k, b.len()));
                out.push(r);
                if r.is_none() {
                    break;
                }
            }
            Some(show_parts(&out))
        }
        ["tbitmaps_mix", d, pat] => {
            let x = st.tm[slot('t', d)?].as_ref()?;
            if !pat.chars().all(|c| c == 'f' || c == 'b') {
                return None;
            }
            let mut it = x.bitmaps();
            let mut out = Vec::new();
            for c in pat.chars() {
                let r = if c == 'f' { it.next() } else { it.next_back() };
                out.push(r.map(|(k, b)| (k, b.len())));
            }
            Some(show_parts(&out))
        }
        ["tdump", d] => Some(tdump(st.tm[slot('t', d)?].as_ref()?)),
        // ---- 64-bit iterators
        ["titer", s, k] => {
            let x = st.tm[slot('t', s)?].as_ref()?;
            let k = slot('j', k)?;
            // the borrowing iterator runs over a leaked clone so that it can outlive later mutations of the slot
            let leaked: &'static RoaringTreemap = Box::leak(Box::new(x.clone()));
            st.jt[k] = Some(Box::new(Borrowed(leaked.iter())));
            ok()
        }
        ["tinto_iter", s, k] => {
            let x = st.tm[slot('t', s)?].as_ref()?;
            let k = slot('j', k)?;
            st.jt[k] = Some(Box::new(Owned(x.clone().into_iter())));
            ok()
        }
        ["jnext", k] => Some(show_opt(j!(k).next())),
        ["jnext_back", k] => Some(show_opt(j!(k).next_back())),
        ["jnth", k, n] => {
            let n: u64 = n.parse().ok()?;
            Some(show_opt(j!(k).nth(n as usize)))
        }
        ["jnth_back", k, n] => {
            let n: u64 = n.parse().ok()?;
            Some(show_opt(j!(k).nth_back(n as usize)))
        }
        ["jadvance_to", k, v] => {
            let it = j!(k);
            let v: u64 = v.parse().ok()?;
            if !it.has_advance() {
                return None;
            }
            it.advance_to(v);
            ok()
        }
        ["jadvance_back_to", k, v] => {
            let it = j!(k);
            let v: u64 = v.parse().ok()?;
            if !it.has_advance() {
                return None;
            }
            it.advance_back_to(v);
            ok()
        }
        ["jsize_hint", k] => {
            let (lo, hi) = j!(k).size_hint();
            Some(format!("{},{}", lo, show_opt(hi)))
        }
        ["jdrain_fwd", k] => {
            let it = j!(k);
            let (mut n, mut h) = (0u64, FNV_BASIS);
            while let Some(v) = it.next() {
                n += 1;
                h = fnv_step(h, v);
            }
            Some(format!("n={} h={:016x}", n, h))
        }
        ["jfold", k] => {
            let it = st.jt[slot('j', k)?].take()?;
            let (n, h) = it.fold_fwd();
            Some(format!("n={} h={:016x}", n, h))
        }
        ["jrfold", k] => {
            let it = st.jt[slot('j', k)?].take()?;
            let (n, h) = it.fold_rev();
            Some(format!("n={} h={:016x}", n, h))
        }
        ["jlen", k] => Some(match j!(k).exact_len() {
            Some(n) => n.to_string(),
            None => "na".to_string(),
        }),
        ["tdebug", d] => {
            let s = format!("{:?}", st.tm[slot('t', d)?].as_ref()?);
            let form = if s.contains(" values between ") { "summary" } else { "list" };
            let mut h = FNV_BASIS;
            for &x in s.as_bytes() {
                h = fnv_step(h, x as u64);
            }
            Some(format!("ok n={} h={:016x} f={}", s.len(), h, form))
        }
        ["tclone_from", d, s] => {
            let src = st.tm[slot('t', s)?].as_ref()?.clone();
            st.tm[slot('t', d)?].as_mut()?.clone_from(&src);
            Some("ok".to_string())
        }
        ["tdefault", d] => {
            st.tm[slot('t', d)?] = Some(RoaringTreemap::default());
            Some("ok".to_string())
        }
        ["textend_ref", d, vs @ ..] => {
            let vs: Vec<u64> = nats(vs)?;
            t!(d).extend(vs.iter());
            Some("ok".to_string())
        }
        ["tfrom_iter_ref", d, vs @ ..] => {
            let vs: Vec<u64> = nats(vs)?;
            st.tm[slot('t', d)?] = Some(vs.iter().collect());
            Some("ok".to_string())
        }
        // ---- trait glue that only delegates (From<[u64; N]>, FromIterator<(u32, RoaringBitmap)>, IntoIterator for &RoaringTreemap)
        ["tfrom_arr", d, vs @ ..] => {
            let vs: Vec<u64> = nats(vs)?;
            let t = match vs.len() {
                0 => RoaringTreemap::from([0u64; 0]),
                1 => RoaringTreemap::from([vs[0]]),
                2 => RoaringTreemap::from([vs[0], vs[1]]),
                3 => RoaringTreemap::from([vs[0], vs[1], vs[2]]),
                4 => RoaringTreemap::from([vs[0], vs[1], vs[2], vs[3]]),
                _ => return None,
            };
            st.tm[slot('t', d)?] = Some(t);
            ok()
        }
        ["tcollect_bitmaps", d, items @ ..] => {
            let i = slot('t', d)?;
            if items.len() % 2 != 0 {
                return None;
            }
            let mut v: Vec<(u32, RoaringBitmap)> = Vec::new();
            for kv in items.chunks(2) {
                let k: u32 = kv[0].parse().ok()?;
                let b = st.bm[slot('b', kv[1])?].as_ref()?.clone();
                v.push((k, b));
            }
            st.tm[i] = Some(v.into_iter().collect::<RoaringTreemap>());
            ok()
        }
        ["tfor_ref", d] => {
            let x = st.tm[slot('t', d)?].as_ref()?;
            let (mut n, mut h) = (0u64, FNV_BASIS);
            for v in x {
                n += 1;
                h = fnv_step(h, v);
            }
            Some(format!("n={} h={:016x}", n, h))
        }
        ["jdrain_rev", k] => {
            let it = j!(k);
            let (mut n, mut h) = (0u64, FNV_BASIS);
            while let Some(v) = it.next_back() {
                n += 1;
                h = fnv_step(h, v);
            }
            Some(format!("n={} h={:016x}", n, h))
        }
        // ---- algebra (C11)
        [op @ ("tor" | "tand" | "tsub" | "txor"), form, d, l, r] => {
            let i = slot('t', d)?;
            let a = st.tm[slot('t', l)?].as_ref()?.clone();
            let b = st.tm[slot('t', r)?].as_ref()?.clone();
            let (na, nb) = (a.bitmaps().count(), b.bitmaps().count());
            macro_rules! forms {
                ($o:tt, $oa:tt) => {
                    match *form {
                        "oo" => a $o b,
                        "or" => a $o &b,
                        "ro" => &a $o b,
                        "rr" => &a $o &b,
                        "ao" => {
                            let mut x = a;
                            x $oa b;
                            x
                        }
                        "ar" => {
                            let mut x = a;
                            x $oa &b;
                            x
                        }
                        _ => return None,
                    }
                };
            }
            let res = match *op {
                "tor" => forms!(|, |=),
                "tand" => forms!(&, &=),
                "tsub" => forms!(-, -=),
                _ => forms!(^, ^=),
            };
            let out = format!("ok {},{}->{}", na, nb, res.bitmaps().count());
            st.tm[i] = Some(res);
            Some(out)
        }
        [op @ ("tis_subset" | "tis_superset" | "tis_disjoint" | "tinter_len" | "tunion_len" | "tdiff_len" | "txor_len"), l, r] => {
            let a = st.tm[slot('t', l)?].as_ref()?;
            let b = st.tm[slot('t', r)?].as_ref()?;
            Some(match *op {
                "tis_subset" => a.is_subset(b).to_string(),
                "tis_superset" => a.is_superset(b).to_string(),
                "tis_disjoint" => a.is_disjoint(b).to_string(),
                "tinter_len" => a.intersection_len(b).to_string(),
                "tunion_len" => a.union_len(b).to_string(),
                "tdiff_len" => a.difference_len(b).to_string(),
                _ => a.symmetric_difference_len(b).to_string(),
            })
        }
        ["tmulti", op, kind, d, items @ ..] => tmulti(st, "exact", op, kind, d, items),
        // tmultih <exact|lower0|unknown> …: the same operation fed from an iterator whose size_hint is exact,
        // has lower bound 0 (a `filter` adapter) or is unknown (`from_fn`); the treemap multi-ops must not depend on it
        ["tmultih", hint @ ("exact" | "lower0" | "unknown"), op, kind, d, items @ ..] => tmulti(st, hint, op, kind, d, items),
        _ => None,
    }
}

/// wraps an iterator so that its `size_hint` is exact / has lower bound 0 / is unknown
fn adapt<'a, T: 'a>(it: impl Iterator<Item = T> + 'a, hint: &str) -> Box<dyn Iterator<Item = T> + 'a> {
    match hint {
        "exact" => Box::new(it),
        "lower0" => Box::new(it.filter(|_| true)),
        _ => {
            let mut it = it;
            Box::new(std::iter::from_fn(move || it.next()))
        }
    }
}

fn tmulti(st: &mut State, hint: &str, op: &str, kind: &str, d: &str, items: &[&str]) -> HResult {
            if !matches!(op, "or" | "and" | "sub" | "xor") {
                return None;
            }
            let i = slot('t', d)?;
            let mut parsed: Vec<Result<usize, u64>> = Vec::new();
            for t in items.iter().rev() {
                // (parsed right to left like the driver, so that the same token decides `bad-op`)
                if let Some(e) = t.strip_prefix("err:") {
                    parsed.push(Err(e.parse::<u64>().ok()?));
                } else {
                    let k = slot('t', t)?;
                    st.tm[k].as_ref()?;
                    parsed.push(Ok(k));
                }
            }
            parsed.reverse();
            let is_res = match kind {
                "own" | "ref" => false,
                "res_own" | "res_ref" => true,
                _ => return None,
            };
            if !is_res && parsed.iter().any(|p| p.is_err()) {
                return None;
            }
            let tm = &st.tm;
            macro_rules! run {
                ($it:expr) => {
                    match op {
                        "or" => $it.union(),
                        "and" => $it.intersection(),
                        "sub" => $it.difference(),
                        _ => $it.symmetric_difference(),
                    }
                };
            }
            let res: Result<RoaringTreemap, u64> = match kind {
                "own" => Ok(run!(adapt(parsed.iter().map(|p| tm[*p.as_ref().unwrap()].as_ref().unwrap().clone()), hint))),
                "ref" => Ok(run!(adapt(parsed.iter().map(|p| tm[*p.as_ref().unwrap()].as_ref().unwrap()), hint))),
                "res_own" => run!(adapt(parsed.iter().map(|p| p.map(|k| tm[k].as_ref().unwrap().clone())), hint)),
                _ => run!(adapt(parsed.iter().map(|p| p.map(|k| tm[k].as_ref().unwrap())), hint)),
            };
            Some(match res {
                Ok(v) => {
                    st.tm[i] = Some(v);
                    "ok".to_string()
                }
                Err(e) => format!("err:{}", e),
            })
}
