//! ops family `treemap` (stub — replaced when the family is implemented)
use super::*;

pub fn handle(_st: &mut State, _toks: &[&str]) -> HResult {
    None
}
