//! Executes an ops file on the real crate, one result line per op (same protocol as the Lean driver).
use roaring::{RoaringBitmap, RoaringTreemap};
use std::io::{BufRead, Write};
use std::ops::Bound;
use std::panic::{catch_unwind, AssertUnwindSafe};

pub mod algebra;
pub mod codec;
pub mod extra;
pub mod iter32;
pub mod lsb0;
pub mod multi;
pub mod ops32;
pub mod tcodec;
pub mod treemap;
pub mod ub;

pub struct State {
    pub bm: Vec<Option<RoaringBitmap>>,
    pub tm: Vec<Option<RoaringTreemap>>,
    pub it: Vec<Option<Box<dyn crate::exec::It32>>>,
    pub jt: Vec<Option<Box<dyn crate::exec::It64>>>,
}

/// object-safe view of the 32-bit iterators (`Iter<'static>` over a leaked clone, `IntoIter`)
pub trait It32 {
    fn next(&mut self) -> Option<u32>;
    fn next_back(&mut self) -> Option<u32>;
    fn nth(&mut self, n: usize) -> Option<u32>;
    fn nth_back(&mut self, n: usize) -> Option<u32>;
    fn advance_to(&mut self, n: u32);
    fn advance_back_to(&mut self, n: u32);
    fn size_hint(&self) -> (usize, Option<usize>);
    fn len(&self) -> usize;
    fn boxed_clone(&self) -> Box<dyn It32>;
    fn count(self: Box<Self>) -> usize;
    fn fold_fwd(self: Box<Self>) -> (u64, u64);
    fn fold_rev(self: Box<Self>) -> (u64, u64);
}

pub trait It64 {
    fn next(&mut self) -> Option<u64>;
    fn next_back(&mut self) -> Option<u64>;
    fn advance_to(&mut self, n: u64);
    fn advance_back_to(&mut self, n: u64);
    fn nth(&mut self, n: usize) -> Option<u64>;
    fn nth_back(&mut self, n: usize) -> Option<u64>;
    fn size_hint(&self) -> (usize, Option<usize>);
    /// `false` for `treemap::IntoIter`, which has no `advance_to` / `advance_back_to`
    fn has_advance(&self) -> bool {
        true
    }
    /// `Iterator::fold` / `DoubleEndedIterator::rfold` (the specialised impls of treemap/iter.rs), `ExactSizeIterator::len`
    fn fold_fwd(self: Box<Self>) -> (u64, u64);
    fn fold_rev(self: Box<Self>) -> (u64, u64);
    fn exact_len(&self) -> Option<usize>;
}

impl State {
    pub fn new() -> State {
        State {
            bm: (0..64).map(|_| None).collect(),
            tm: (0..64).map(|_| None).collect(),
            it: (0..64).map(|_| None).collect(),
            jt: (0..64).map(|_| None).collect(),
        }
    }
}

pub const FNV_BASIS: u64 = 14695981039346656037;
pub const FNV_PRIME: u64 = 1099511628211;
#[inline]
pub fn fnv_step(h: u64, x: u64) -> u64 {
    (h ^ x).wrapping_mul(FNV_PRIME)
}

pub fn slot(pfx: char, t: &str) -> Option<usize> {
    let mut cs = t.chars();
    if cs.next()? != pfx {
        return None;
    }
    cs.as_str().parse::<usize>().ok().filter(|&i| i < 64)
}

pub fn bound<T: std::str::FromStr>(t: &str) -> Option<Bound<T>> {
    if t == "un" {
        Some(Bound::Unbounded)
    } else if let Some(v) = t.strip_prefix("in:") {
        v.parse().ok().map(Bound::Included)
    } else if let Some(v) = t.strip_prefix("ex:") {
        v.parse().ok().map(Bound::Excluded)
    } else {
        None
    }
}

pub fn nats<T: std::str::FromStr>(ts: &[&str]) -> Option<Vec<T>> {
    ts.iter().map(|t| t.parse::<T>().ok()).collect()
}

pub fn parse_hex(t: &str) -> Option<Vec<u8>> {
    let h = t.strip_prefix("hex:")?;
    if h.len() % 2 != 0 {
        return None;
    }
    (0..h.len() / 2).map(|i| u8::from_str_radix(&h[2 * i..2 * i + 2], 16).ok()).collect()
}

pub fn hex_bytes(bs: &[u8]) -> String {
    let mut s = String::with_capacity(bs.len() * 2);
    for b in bs {
        s.push_str(&format!("{:02x}", b));
    }
    s
}

pub fn show_opt<T: std::fmt::Display>(o: Option<T>) -> String {
    match o {
        Some(v) => v.to_string(),
        None => "none".to_string(),
    }
}

/// Result of a family: `None` = not handled here.
pub type HResult = Option<String>;

fn dispatch(st: &mut State, toks: &[&str]) -> String {
    let families: [fn(&mut State, &[&str]) -> HResult; 10] = [
        ops32::handle,
        algebra::handle,
        iter32::handle,
        codec::handle,
        multi::handle,
        treemap::handle,
        lsb0::handle,
        tcodec::handle,
        ub::handle,
        extra::handle,
    ];
    for f in families {
        if let Some(r) = f(st, toks) {
            return r;
        }
    }
    "bad-op".to_string()
}

pub fn run_stdin() {
    std::panic::set_hook(Box::new(|_| {}));
    let stdin = std::io::stdin();
    let stdout = std::io::stdout();
    let mut out = std::io::BufWriter::new(stdout.lock());
    let mut st = State::new();
    let mut dead = false;
    let mut last = String::new();
    // VERIF_FLUSH: write every result as soon as it exists (bin/check re-runs a case this way after the process died, so
    // that the output stops exactly at the op that aborted it)
    let flush_each = std::env::var("VERIF_FLUSH").is_ok();
    for line in stdin.lock().lines() {
        if flush_each {
            out.flush().unwrap();
        }
        let line = line.unwrap();
        let l = line.trim();
        if l.is_empty() || l.starts_with('#') {
            continue;
        }
        let toks: Vec<&str> = l.split(' ').filter(|t| !t.is_empty()).collect();
        if toks[0] == "case" {
            writeln!(out, "{}", l).unwrap();
            st = State::new();
            dead = false;
            continue;
        }
        if dead {
            writeln!(out, "skipped").unwrap();
            continue;
        }
        if toks[0] == "expect" {
            // oracle line: the previous result must be exactly this text
            let want = toks[1..].join(" ");
            if last == want {
                writeln!(out, "ok").unwrap();
            } else {
                writeln!(out, "EXPECT-FAIL want={} got={}", want, last).unwrap();
            }
            continue;
        }
        let r = catch_unwind(AssertUnwindSafe(|| dispatch(&mut st, &toks)));
        // an index >= len seen by a cfg(roaring_verif) recorder in front of an unchecked access during this op
        let ub = if ub::violations_since_last_drain() > 0 { " UB-SITE" } else { "" };
        match r {
            Ok(s) => {
                if s.starts_with("panic") {
                    dead = true;
                }
                let s = format!("{}{}", s, ub);
                writeln!(out, "{}", s).unwrap();
                last = s
            }
            Err(_) => {
                dead = true;
                writeln!(out, "panic{}", ub).unwrap()
            }
        }
    }
    out.flush().unwrap();
}
