//! C15: drive the whole public API over (possibly ill-formed) values under `catch_unwind`, with the
//! cfg(roaring_verif) bounds recorders draining after every sweep. Panics are allowed; a fired site
//! assertion (`viol > 0`) is the violation.
use super::{parse_hex, slot, HResult, State};
use roaring::MultiOps;
use roaring::RoaringBitmap;
use std::panic::{catch_unwind, AssertUnwindSafe};

#[cfg(roaring_verif)]
fn drain_sites() -> (u64, String) {
    let recs = roaring::verif_hooks::drain();
    let mut viol = 0;
    let mut parts = Vec::new();
    for (i, r) in recs.iter().enumerate() {
        viol += r.violations;
        if r.count > 0 {
            parts.push(format!("{}:{}:{}:{}", i, r.count, r.max_index, r.min_slack));
        }
    }
    (viol, parts.join(","))
}
#[cfg(not(roaring_verif))]
fn drain_sites() -> (u64, String) {
    (0, "hooks-off".to_string())
}

/// number of bounds-recorder violations since the last drain (called by the run loop after EVERY op, so that an
/// out-of-bounds index at one of the 16 unchecked accesses marks the op's line whatever family it belongs to)
pub fn violations_since_last_drain() -> u64 {
    drain_sites().0
}

fn args_for(b: &RoaringBitmap, seed: u64) -> Vec<u32> {
    let mut r = crate::rng::Rng::new(seed, 77);
    let mut v = vec![0u32, 1, 63, 64, 65535, 65536, 65537, u32::MAX, u32::MAX - 1];
    // values near whatever the value claims to contain (never trust it: everything under catch_unwind)
    let probe = catch_unwind(AssertUnwindSafe(|| {
        let mut w = Vec::new();
        for x in b.iter().take(4) {
            w.push(x);
        }
        if let Some(m) = b.max() {
            w.push(m);
        }
        w
    }));
    if let Ok(w) = probe {
        for x in w {
            v.push(x);
            v.push(x.wrapping_add(1));
            v.push(x.wrapping_sub(1));
            v.push(x ^ 64);
        }
    }
    for _ in 0..6 {
        v.push(crate::gen::common::value(&mut r, 6));
    }
    v
}

pub fn sweep(b: &RoaringBitmap, o: &RoaringBitmap, seed: u64) -> (u64, u64) {
    let mut calls = 0u64;
    let mut panics = 0u64;
    macro_rules! t {
        ($e:expr) => {{
            calls += 1;
            if catch_unwind(AssertUnwindSafe(|| {
                let _ = $e;
            }))
            .is_err()
            {
                panics += 1;
            }
        }};
    }
    let args = args_for(b, seed);
    t!(b.len());
    t!(b.is_empty());
    t!(b.is_full());
    t!(b.min());
    t!(b.max());
    t!(b.statistics());
    t!(b.serialized_size());
    t!({
        let mut v = Vec::new();
        b.serialize_into(&mut v)
    });
    t!(format!("{:?}", b));
    t!(b.clone() == *b);
    t!(b == o);
    for &a in &args {
        t!(b.contains(a));
        t!(b.rank(a));
        t!(b.select(a));
        t!(b.select(a % 70000));
        t!(b.range_cardinality(a..));
        t!(b.range_cardinality(..=a));
        t!(b.contains_range(a..a.saturating_add(70)));
        t!(b.contains_range(a..=a));
        t!({
            let mut it = b.iter();
            it.advance_to(a);
            let x = it.next();
            let y = it.next_back();
            it.advance_back_to(a.saturating_add(5000));
            (x, y, it.size_hint(), it.count())
        });
        t!({
            let mut it = b.iter();
            let y = it.next_back();
            it.advance_to(a);
            (y, it.next(), it.nth(3), it.nth_back(2), it.len())
        });
        t!({
            let mut it = b.clone().into_iter();
            it.advance_back_to(a);
            (it.next_back(), it.next(), it.count())
        });
        t!(b.range(a..a.saturating_add(100000)).count());
        t!({
            let mut c = b.clone();
            (c.insert(a), c.remove(a.wrapping_add(1)), c.push(a), c.len())
        });
        t!({
            let mut c = b.clone();
            (c.insert_range(a..a.saturating_add(5000)), c.remove_range(a.saturating_add(100)..a.saturating_add(300)), c.len())
        });
        t!({
            let mut c = b.clone();
            c.remove_smallest((a % 5000) as u64);
            c.remove_biggest((a % 777) as u64);
            c.len()
        });
        t!({
            let mut c = b.clone();
            c.append(vec![a, a.saturating_add(1), a.saturating_add(70000)])
        });
    }
    // from_lsb0_bytes: full-chunk (read_unaligned) and partial dense chunks (byte view of the word array)
    for (off, n, fill) in [(0u32, 8192usize, 0xffu8), (65536 * 3, 8192, 0xf0), (8, 8191, 0xff), (0, 700, 0xff),
        (65536 - 64, 16 + 8192, 0xee), ((seed % 8) as u32, 600, 0x7f)]
    {
        t!(RoaringBitmap::from_lsb0_bytes(off, &vec![fill; n]).len());
    }
    t!(b.iter().count());
    t!(b.iter().rev().count());
    t!(b.iter().fold(0u64, |s, x| s.wrapping_add(x as u64)));
    t!(b.clone().into_iter().rfold(0u64, |s, x| s.wrapping_add(x as u64)));
    // binary operations in every form, both operand orders
    for (x, y) in [(b, o), (o, b), (b, b)] {
        t!((x | y).len());
        t!((x & y).len());
        t!((x - y).len());
        t!((x ^ y).len());
        t!((x.clone() | y.clone()).len());
        t!((x.clone() & y.clone()).len());
        t!((x.clone() - y.clone()).len());
        t!((x.clone() ^ y.clone()).len());
        t!((x.clone() | y).len());
        t!((x & y.clone()).len());
        t!({
            let mut c = x.clone();
            c |= y;
            c &= y;
            c.len()
        });
        t!({
            let mut c = x.clone();
            c ^= y;
            c -= y;
            c.len()
        });
        t!({
            let mut c = x.clone();
            c |= y.clone();
            c ^= y.clone();
            c &= y.clone();
            c -= y.clone();
            c.len()
        });
        t!(x.is_subset(y));
        t!(x.is_superset(y));
        t!(x.is_disjoint(y));
        t!(x.intersection_len(y));
        t!(x.union_len(y));
        t!(x.difference_len(y));
        t!(x.symmetric_difference_len(y));
        t!([x, y, x].union().len());
        t!([x, y].intersection().len());
        t!([x, y].difference().len());
        t!([x, y, y].symmetric_difference().len());
        t!(vec![x.clone(), y.clone()].union().len());
        t!(vec![x.clone(), y.clone()].intersection().len());
        t!({
            let mut bytes = Vec::new();
            y.serialize_into(&mut bytes).ok();
            x.intersection_with_serialized_unchecked(std::io::Cursor::new(bytes)).map(|r| r.len())
        });
    }
    (calls, panics)
}

pub fn handle(st: &mut State, toks: &[&str]) -> HResult {
    match toks {
        // api_sweep bN bM seed  (bN may be ill-formed; bM is the second operand)
        ["api_sweep", a, o, seed] => {
            let seed: u64 = seed.parse().ok()?;
            let x = st.bm[slot('b', a)?].as_ref()?.clone();
            let y = st.bm[slot('b', o)?].as_ref()?.clone();
            let _ = drain_sites();
            let (calls, panics) = sweep(&x, &y, seed);
            let (viol, sites) = drain_sites();
            let marker = if viol > 0 { " UB-SITE" } else { "" };
            Some(format!("ok calls={} panics={} viol={}{} sites={}", calls, panics, viol, marker, sites))
        }
        // deser_raw bD hex:…  : deserialize_unchecked_from of arbitrary bytes (result may be ill-formed)
        ["deser_raw", d, hex] => {
            let bytes = parse_hex(hex)?;
            let i = slot('b', d)?;
            let _ = drain_sites();
            let r = catch_unwind(AssertUnwindSafe(|| RoaringBitmap::deserialize_unchecked_from(&bytes[..])));
            let (viol, _) = drain_sites();
            let marker = if viol > 0 { " UB-SITE" } else { "" };
            Some(match r {
                Ok(Ok(b)) => {
                    st.bm[i] = Some(b);
                    format!("ok{}", marker)
                }
                Ok(Err(_)) => {
                    st.bm[i] = Some(RoaringBitmap::new());
                    format!("err{}", marker)
                }
                Err(_) => {
                    st.bm[i] = Some(RoaringBitmap::new());
                    format!("caught-panic{}", marker)
                }
            })
        }
        // inter_raw bD bL hex:… : intersection_with_serialized_unchecked on arbitrary bytes
        ["inter_raw", d, l, hex] => {
            let bytes = parse_hex(hex)?;
            let i = slot('b', d)?;
            let x = st.bm[slot('b', l)?].as_ref()?.clone();
            let _ = drain_sites();
            let r = catch_unwind(AssertUnwindSafe(|| {
                x.intersection_with_serialized_unchecked(std::io::Cursor::new(&bytes[..]))
            }));
            let (viol, _) = drain_sites();
            let marker = if viol > 0 { " UB-SITE" } else { "" };
            Some(match r {
                Ok(Ok(b)) => {
                    st.bm[i] = Some(b);
                    format!("ok{}", marker)
                }
                Ok(Err(_)) => {
                    st.bm[i] = Some(RoaringBitmap::new());
                    format!("err{}", marker)
                }
                Err(_) => {
                    st.bm[i] = Some(RoaringBitmap::new());
                    format!("caught-panic{}", marker)
                }
            })
        }
        _ => None,
    }
}
