//! 32-bit mutation and query ops (C01, C07, C16, C20); `dump` is the canonical observable.
use super::*;

pub fn dump_set(b: &RoaringBitmap) -> String {
    let mut h = FNV_BASIS;
    let mut n: u64 = 0;
    let mut first = None;
    let mut last = None;
    let mut small: Vec<u32> = Vec::new();
    for x in b.iter() {
        h = fnv_step(h, x as u64);
        if first.is_none() {
            first = Some(x);
        }
        last = Some(x);
        if n < 33 {
            small.push(x);
        }
        n += 1;
    }
    let mut s = format!("len={} min={} max={} eh={:016x}", n, show_opt(first), show_opt(last), h);
    if n <= 32 {
        s.push_str(" e=");
        s.push_str(&small.iter().map(|x| x.to_string()).collect::<Vec<_>>().join(","));
    }
    s
}

pub fn dump_repr(b: &RoaringBitmap) -> String {
    let st = b.statistics();
    let mut bytes = Vec::new();
    b.serialize_into(&mut bytes).unwrap();
    let mut h = FNV_BASIS;
    for &x in &bytes {
        h = fnv_step(h, x as u64);
    }
    format!(
        "nc={} na={} nb={} va={} vb={} card={} smin={} smax={} ssz={} sh={:016x}",
        st.n_containers,
        st.n_array_containers,
        st.n_bitset_containers,
        st.n_values_array_containers,
        st.n_values_bitset_containers,
        st.cardinality,
        show_opt(st.min_value),
        show_opt(st.max_value),
        b.serialized_size(),
        h
    )
}

pub fn handle(st: &mut State, toks: &[&str]) -> HResult {
    macro_rules! b {
        ($t:expr) => {
            st.bm[slot('b', $t)?].as_mut()?
        };
    }
    let ok = || Some("ok".to_string());
    match toks {
        ["new", d] => {
            st.bm[slot('b', d)?] = Some(RoaringBitmap::new());
            ok()
        }
        ["clone", d, s] => {
            let c = st.bm[slot('b', s)?].as_ref()?.clone();
            st.bm[slot('b', d)?] = Some(c);
            ok()
        }
        ["insert", d, v] => Some(b!(d).insert(v.parse().ok()?).to_string()),
        ["remove", d, v] => Some(b!(d).remove(v.parse().ok()?).to_string()),
        ["insert_range", d, lo, hi] => {
            let r = (bound::<u32>(lo)?, bound::<u32>(hi)?);
            Some(b!(d).insert_range(r).to_string())
        }
        ["remove_range", d, lo, hi] => {
            let r = (bound::<u32>(lo)?, bound::<u32>(hi)?);
            Some(b!(d).remove_range(r).to_string())
        }
        ["push", d, v] => Some(b!(d).push(v.parse().ok()?).to_string()),
        ["append", d, vs @ ..] => {
            let vs: Vec<u32> = nats(vs)?;
            Some(match b!(d).append(vs) {
                Ok(n) => format!("ok {}", n),
                Err(e) => format!("err {}", e.valid_until()),
            })
        }
        ["from_sorted", d, vs @ ..] => {
            let vs: Vec<u32> = nats(vs)?;
            let i = slot('b', d)?;
            Some(match RoaringBitmap::from_sorted_iter(vs) {
                Ok(b) => {
                    st.bm[i] = Some(b);
                    "ok".to_string()
                }
                Err(e) => format!("err {}", e.valid_until()),
            })
        }
        ["extend", d, vs @ ..] => {
            let vs: Vec<u32> = nats(vs)?;
            b!(d).extend(vs);
            ok()
        }
        ["from_iter", d, vs @ ..] => {
            let vs: Vec<u32> = nats(vs)?;
            st.bm[slot('b', d)?] = Some(vs.into_iter().collect());
            ok()
        }
        ["clear", d] => {
            b!(d).clear();
            ok()
        }
        ["remove_smallest", d, n] => {
            b!(d).remove_smallest(n.parse().ok()?);
            ok()
        }
        ["remove_biggest", d, n] => {
            b!(d).remove_biggest(n.parse().ok()?);
            ok()
        }
        ["contains", d, v] => Some(b!(d).contains(v.parse().ok()?).to_string()),
        ["contains_range", d, lo, hi] => {
            let r = (bound::<u32>(lo)?, bound::<u32>(hi)?);
            Some(b!(d).contains_range(r).to_string())
        }
        ["range_cardinality", d, lo, hi] => {
            let r = (bound::<u32>(lo)?, bound::<u32>(hi)?);
            Some(b!(d).range_cardinality(r).to_string())
        }
        ["len", d] => Some(b!(d).len().to_string()),
        ["is_empty", d] => Some(b!(d).is_empty().to_string()),
        ["is_full", d] => Some(b!(d).is_full().to_string()),
        ["min", d] => Some(show_opt(b!(d).min())),
        ["max", d] => Some(show_opt(b!(d).max())),
        ["rank", d, v] => Some(b!(d).rank(v.parse().ok()?).to_string()),
        ["select", d, n] => {
            // `select` takes a u32; larger indices are past the end of any u32 set
            let n: u64 = n.parse().ok()?;
            Some(if n > u32::MAX as u64 { "none".to_string() } else { show_opt(b!(d).select(n as u32)) })
        }
        ["eq", a, c] => {
            let x = st.bm[slot('b', a)?].as_ref()?;
            let y = st.bm[slot('b', c)?].as_ref()?;
            Some((x == y).to_string())
        }
        ["dump", d] => {
            let x = st.bm[slot('b', d)?].as_ref()?;
            Some(format!("{} | {}", dump_set(x), dump_repr(x)))
        }
        ["dumpset", d] => Some(dump_set(st.bm[slot('b', d)?].as_ref()?)),
        _ => None,
    }
}
