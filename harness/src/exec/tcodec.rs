//! ops family `tcodec`: the `RoaringTreemap` halves of C05, C06, C13, C14, C19 — serialization, both decoders,
//! fault-injecting readers and writers (shared with `codec.rs`), serde (generic code of `lsb0.rs`), and the
//! harness' own reference codec for the 64-bit portable format (`gen/stream64.rs`).
use super::codec::{consistent, fnv_bytes, mode, parse_sched, show_bytes, u64tok, LimWriter, SchedReader};
use super::lsb0::{deliver, serde_events, serde_rt, serde_visit};
use super::*;
use crate::gen::stream64;
use std::io::{self, Read};

/// C13 oracle evaluated on the real value, through the public API only: every observer agrees with the
/// value's own iteration, every partition is a consistent non-empty 32-bit value, it equals the natively
/// built set, and it re-serialises to a stream of the announced size that decodes to the same value.
pub fn consistent_t(t: &RoaringTreemap) -> bool {
    let v: Vec<u64> = t.iter().collect();
    let asc = v.windows(2).all(|w| w[0] < w[1]);
    let rev: Vec<u64> = t.iter().rev().collect();
    let rev_ok = rev.iter().rev().eq(v.iter());
    let len_ok = t.len() == v.len() as u64 && t.is_empty() == v.is_empty();
    let mm_ok = t.min() == v.first().copied() && t.max() == v.last().copied();
    let step = (v.len() / 512).max(1);
    let contains_ok = v.iter().step_by(step).all(|&x| t.contains(x));
    let rank_ok =
        v.iter().enumerate().step_by(step).all(|(i, &x)| t.rank(x) == i as u64 + 1 && t.select(i as u64) == Some(x));
    let parts_ok = t.bitmaps().all(|(_, b)| !b.is_empty() && consistent(b))
        && t.bitmaps().map(|(k, _)| k).collect::<Vec<_>>().windows(2).all(|w| w[0] < w[1]);
    let native: RoaringTreemap = v.iter().copied().collect();
    let eq_ok = *t == native;
    let mut bytes = Vec::new();
    let ser_ok = t.serialize_into(&mut bytes).is_ok() && bytes.len() == t.serialized_size();
    let mut nat_bytes = Vec::new();
    native.serialize_into(&mut nat_bytes).unwrap();
    let rt_ok = match RoaringTreemap::deserialize_from(&bytes[..]) {
        Ok(d) => d == *t && d.iter().eq(v.iter().copied()),
        Err(_) => false,
    };
    asc && rev_ok && len_ok && mm_ok && contains_ok && rank_ok && parts_ok && eq_ok && ser_ok && rt_ok && nat_bytes == bytes
}

fn decode_with<R: Read>(chk: bool, rd: R) -> io::Result<RoaringTreemap> {
    if chk {
        RoaringTreemap::deserialize_from(rd)
    } else {
        RoaringTreemap::deserialize_unchecked_from(rd)
    }
}

fn show_deser(chk: bool, t: &RoaringTreemap, rest: usize) -> String {
    if chk {
        format!("ok rest={} wf={}", rest, consistent_t(t))
    } else {
        format!("ok rest={}", rest)
    }
}

fn ser_bytes(t: &RoaringTreemap) -> Vec<u8> {
    let mut v = Vec::new();
    t.serialize_into(&mut v).unwrap();
    v
}

pub fn handle(st: &mut State, toks: &[&str]) -> HResult {
    match toks {
        ["tser", d] => Some(show_bytes(&ser_bytes(st.tm[slot('t', d)?].as_ref()?))),
        ["tser_size", d] => Some(st.tm[slot('t', d)?].as_ref()?.serialized_size().to_string()),
        ["tspec_encode", d] => {
            let t = st.tm[slot('t', d)?].as_ref()?;
            Some(show_bytes(&stream64::encode_set(t.iter())))
        }
        ["tspec_decode", h] => {
            let bytes = parse_hex(h)?;
            Some(match stream64::decode(&bytes) {
                Some((set, rest)) => {
                    let mut re = stream64::encode_set(set.iter().copied());
                    re.extend_from_slice(&bytes[bytes.len() - rest..]);
                    let eh = set.iter().fold(FNV_BASIS, |h, &x| fnv_step(h, x));
                    format!("ok len={} eh={:016x} rest={} same={}", set.len(), eh, rest, re == bytes)
                }
                None => "err".to_string(),
            })
        }
        ["tdeser", m, d, h] => {
            let chk = mode(m)?;
            let i = slot('t', d)?;
            let bytes = parse_hex(h)?;
            let mut rd: &[u8] = &bytes;
            Some(match decode_with(chk, &mut rd) {
                Ok(t) => {
                    let s = show_deser(chk, &t, rd.len());
                    st.tm[i] = Some(t);
                    s
                }
                Err(_) => "err".to_string(),
            })
        }
        ["tdeser_trunc", m, d, k, h] => {
            let chk = mode(m)?;
            let i = slot('t', d)?;
            let k = u64tok(k)?;
            let bytes = parse_hex(h)?;
            let k = (k.min(bytes.len() as u64)) as usize;
            let mut rd: &[u8] = &bytes[..k];
            Some(match decode_with(chk, &mut rd) {
                Ok(t) => {
                    let s = show_deser(chk, &t, rd.len());
                    st.tm[i] = Some(t);
                    s
                }
                Err(_) => "err".to_string(),
            })
        }
        ["tdeser_sched", m, d, sc, h] => {
            let chk = mode(m)?;
            let i = slot('t', d)?;
            let sched = parse_sched(sc)?;
            let bytes = parse_hex(h)?;
            let mut rd = SchedReader { data: &bytes, pos: 0, sched, i: 0 };
            Some(match decode_with(chk, &mut rd) {
                Ok(t) => {
                    let s = show_deser(chk, &t, bytes.len() - rd.pos);
                    st.tm[i] = Some(t);
                    s
                }
                Err(_) => "err".to_string(),
            })
        }
        ["tdeser_prefix", m, d, s, k] => {
            let chk = mode(m)?;
            let i = slot('t', d)?;
            let src = st.tm[slot('t', s)?].as_ref()?;
            let k = u64tok(k)?;
            let bytes = ser_bytes(src);
            let k = (k.min(bytes.len() as u64)) as usize;
            let mut rd: &[u8] = &bytes[..k];
            Some(match decode_with(chk, &mut rd) {
                Ok(t) => {
                    let s = format!("ok rest={} eq={}", rd.len(), t == *src);
                    st.tm[i] = Some(t);
                    s
                }
                Err(_) => "err".to_string(),
            })
        }
        ["tser_fail", d, lim, md, sc] => {
            let t = st.tm[slot('t', d)?].as_ref()?;
            let limit = u64tok(lim.strip_prefix("limit:")?)?;
            let zero = match md.strip_prefix("mode:")? {
                "zero" => true,
                "err" => false,
                _ => return None,
            };
            let sched = parse_sched(sc)?;
            let mut w = LimWriter { acc: Vec::new(), limit: limit.min(1 << 40) as usize, zero, sched, i: 0 };
            let r = t.serialize_into(&mut w);
            Some(format!("{} n={} sh={:016x}", super::codec::show_write_result(&r, &w), w.acc.len(), fnv_bytes(&w.acc)))
        }
        ["tserde_events", d] => {
            let t = st.tm[slot('t', d)?].as_ref()?;
            Some(serde_events(t, &ser_bytes(t)))
        }
        ["tserde_visit", kind, d, src] => {
            let i = slot('t', d)?;
            let how = deliver(kind)?;
            let bytes = if let Some(s) = src.strip_prefix("ser:") {
                ser_bytes(st.tm[slot('t', s)?].as_ref()?)
            } else {
                parse_hex(src)?
            };
            Some(match serde_visit::<RoaringTreemap>(how, &bytes) {
                Ok(t) => {
                    st.tm[i] = Some(t);
                    "ok".to_string()
                }
                Err(_) => "err".to_string(),
            })
        }
        ["tserde_rt", fmt, d] => serde_rt(fmt, st.tm[slot('t', d)?].as_ref()?),
        _ => None,
    }
}
