//! ops family `misc`: `from_lsb0` (C17), `stats` (C20), `serde_*` (C19), `debug` (C16)
use super::*;
use serde::de::{DeserializeSeed, IntoDeserializer, SeqAccess, Visitor};
use serde::ser::Impossible;
use serde::{Deserialize, Deserializer, Serialize, Serializer};
use std::fmt;

fn fnv_bytes(bs: &[u8]) -> u64 {
    let mut h = FNV_BASIS;
    for &x in bs {
        h = fnv_step(h, x as u64);
    }
    h
}

// ------------------------------------------------------------------------------------------ C19: serde

#[derive(Debug)]
pub struct SErr(String);
impl fmt::Display for SErr {
    fn fmt(&self, f: &mut fmt::Formatter) -> fmt::Result {
        f.write_str(&self.0)
    }
}
impl std::error::Error for SErr {}
impl serde::ser::Error for SErr {
    fn custom<T: fmt::Display>(msg: T) -> Self {
        SErr(msg.to_string())
    }
}
impl serde::de::Error for SErr {
    fn custom<T: fmt::Display>(msg: T) -> Self {
        SErr(msg.to_string())
    }
}

/// A `Serializer` that only records which data-model methods are called (and the payload of
/// `serialize_bytes`).  Compound types are recorded and then refused.
#[derive(Default)]
pub struct Recorder {
    pub calls: Vec<&'static str>,
    pub bytes: Vec<u8>,
}

macro_rules! rec_scalar {
    ($($name:ident : $ty:ty),*) => {
        $(fn $name(self, _v: $ty) -> Result<(), SErr> { self.calls.push(stringify!($name)); Ok(()) })*
    };
}

impl<'a> Serializer for &'a mut Recorder {
    type Ok = ();
    type Error = SErr;
    type SerializeSeq = Impossible<(), SErr>;
    type SerializeTuple = Impossible<(), SErr>;
    type SerializeTupleStruct = Impossible<(), SErr>;
    type SerializeTupleVariant = Impossible<(), SErr>;
    type SerializeMap = Impossible<(), SErr>;
    type SerializeStruct = Impossible<(), SErr>;
    type SerializeStructVariant = Impossible<(), SErr>;

    rec_scalar!(serialize_bool: bool, serialize_i8: i8, serialize_i16: i16, serialize_i32: i32, serialize_i64: i64,
        serialize_u8: u8, serialize_u16: u16, serialize_u32: u32, serialize_u64: u64, serialize_f32: f32,
        serialize_f64: f64, serialize_char: char, serialize_str: &str);

    fn serialize_bytes(self, v: &[u8]) -> Result<(), SErr> {
        self.calls.push("serialize_bytes");
        self.bytes.extend_from_slice(v);
        Ok(())
    }
    fn serialize_none(self) -> Result<(), SErr> {
        self.calls.push("serialize_none");
        Ok(())
    }
    fn serialize_some<T: ?Sized + Serialize>(self, _v: &T) -> Result<(), SErr> {
        self.calls.push("serialize_some");
        Ok(())
    }
    fn serialize_unit(self) -> Result<(), SErr> {
        self.calls.push("serialize_unit");
        Ok(())
    }
    fn serialize_unit_struct(self, _n: &'static str) -> Result<(), SErr> {
        self.calls.push("serialize_unit_struct");
        Ok(())
    }
    fn serialize_unit_variant(self, _n: &'static str, _i: u32, _v: &'static str) -> Result<(), SErr> {
        self.calls.push("serialize_unit_variant");
        Ok(())
    }
    fn serialize_newtype_struct<T: ?Sized + Serialize>(self, _n: &'static str, _v: &T) -> Result<(), SErr> {
        self.calls.push("serialize_newtype_struct");
        Ok(())
    }
    fn serialize_newtype_variant<T: ?Sized + Serialize>(
        self,
        _n: &'static str,
        _i: u32,
        _v: &'static str,
        _x: &T,
    ) -> Result<(), SErr> {
        self.calls.push("serialize_newtype_variant");
        Ok(())
    }
    fn serialize_seq(self, _len: Option<usize>) -> Result<Self::SerializeSeq, SErr> {
        self.calls.push("serialize_seq");
        Err(SErr("seq".into()))
    }
    fn serialize_tuple(self, _len: usize) -> Result<Self::SerializeTuple, SErr> {
        self.calls.push("serialize_tuple");
        Err(SErr("tuple".into()))
    }
    fn serialize_tuple_struct(self, _n: &'static str, _len: usize) -> Result<Self::SerializeTupleStruct, SErr> {
        self.calls.push("serialize_tuple_struct");
        Err(SErr("tuple_struct".into()))
    }
    fn serialize_tuple_variant(
        self,
        _n: &'static str,
        _i: u32,
        _v: &'static str,
        _len: usize,
    ) -> Result<Self::SerializeTupleVariant, SErr> {
        self.calls.push("serialize_tuple_variant");
        Err(SErr("tuple_variant".into()))
    }
    fn serialize_map(self, _len: Option<usize>) -> Result<Self::SerializeMap, SErr> {
        self.calls.push("serialize_map");
        Err(SErr("map".into()))
    }
    fn serialize_struct(self, _n: &'static str, _len: usize) -> Result<Self::SerializeStruct, SErr> {
        self.calls.push("serialize_struct");
        Err(SErr("struct".into()))
    }
    fn serialize_struct_variant(
        self,
        _n: &'static str,
        _i: u32,
        _v: &'static str,
        _len: usize,
    ) -> Result<Self::SerializeStructVariant, SErr> {
        self.calls.push("serialize_struct_variant");
        Err(SErr("struct_variant".into()))
    }
}

/// `serde_events`: which serializer methods a value calls, and whether the bytes handed over are
/// exactly `reference` (the output of the type's own `serialize_into`).  Generic: works for
/// `RoaringBitmap` and `RoaringTreemap` alike.
pub fn serde_events<T: Serialize>(v: &T, reference: &[u8]) -> String {
    let mut rec = Recorder::default();
    let r = v.serialize(&mut rec);
    let calls = if rec.calls.is_empty() { "none".to_string() } else { rec.calls.join(",") };
    format!(
        "calls={} n={} sh={:016x} same={}{}",
        calls,
        rec.bytes.len(),
        fnv_bytes(&rec.bytes),
        rec.bytes == reference,
        if r.is_err() { " err" } else { "" }
    )
}

/// how the hand-written `Deserializer` answers whatever the type asks for
#[derive(Clone, Copy)]
pub enum Deliver {
    Bytes,    // visit_bytes with a transient slice
    Borrowed, // visit_borrowed_bytes with a slice living as long as 'de
    Buf,      // visit_byte_buf with an owned Vec
    Seq,      // visit_seq, one u8 per element
    SeqFail,  // visit_seq whose SeqAccess fails after half of the elements (a format error in the middle of the sequence)
}

pub fn deliver(kind: &str) -> Option<Deliver> {
    Some(match kind {
        "bytes" => Deliver::Bytes,
        "borrowed" => Deliver::Borrowed,
        "buf" => Deliver::Buf,
        "seq" => Deliver::Seq,
        "seqfail" => Deliver::SeqFail,
        _ => return None,
    })
}

pub struct ByteDe<'de> {
    data: &'de [u8],
    how: Deliver,
}

struct ByteSeq<'de> {
    it: std::slice::Iter<'de, u8>,
}

impl<'de> SeqAccess<'de> for ByteSeq<'de> {
    type Error = SErr;
    fn next_element_seed<S: DeserializeSeed<'de>>(&mut self, seed: S) -> Result<Option<S::Value>, SErr> {
        match self.it.next() {
            Some(&b) => seed.deserialize(IntoDeserializer::<SErr>::into_deserializer(b)).map(Some),
            None => Ok(None),
        }
    }
    fn size_hint(&self) -> Option<usize> {
        Some(self.it.len())
    }
}

/// a sequence that breaks off with an error after `left` elements
struct FailSeq<'de> {
    it: std::slice::Iter<'de, u8>,
    left: usize,
}

impl<'de> SeqAccess<'de> for FailSeq<'de> {
    type Error = SErr;
    fn next_element_seed<S: DeserializeSeed<'de>>(&mut self, seed: S) -> Result<Option<S::Value>, SErr> {
        if self.left == 0 {
            return Err(<SErr as serde::de::Error>::custom("the sequence broke off"));
        }
        self.left -= 1;
        match self.it.next() {
            Some(&b) => seed.deserialize(IntoDeserializer::<SErr>::into_deserializer(b)).map(Some),
            None => Err(<SErr as serde::de::Error>::custom("the sequence broke off")),
        }
    }
    fn size_hint(&self) -> Option<usize> {
        Some(self.it.len())
    }
}

impl<'de> Deserializer<'de> for ByteDe<'de> {
    type Error = SErr;
    fn deserialize_any<V: Visitor<'de>>(self, visitor: V) -> Result<V::Value, SErr> {
        match self.how {
            Deliver::Bytes => {
                let copy = self.data.to_vec();
                visitor.visit_bytes(&copy)
            }
            Deliver::Borrowed => visitor.visit_borrowed_bytes(self.data),
            Deliver::Buf => visitor.visit_byte_buf(self.data.to_vec()),
            Deliver::Seq => visitor.visit_seq(ByteSeq { it: self.data.iter() }),
            Deliver::SeqFail => visitor.visit_seq(FailSeq { it: self.data.iter(), left: self.data.len() / 2 }),
        }
    }
    serde::forward_to_deserialize_any! {
        bool i8 i16 i32 i64 i128 u8 u16 u32 u64 u128 f32 f64 char str string bytes byte_buf option unit
        unit_struct newtype_struct seq tuple tuple_struct map struct enum identifier ignored_any
    }
}

/// `serde_visit`: deserialize a `T` from a byte string delivered in the given way
pub fn serde_visit<'de, T: Deserialize<'de>>(how: Deliver, data: &'de [u8]) -> Result<T, SErr> {
    T::deserialize(ByteDe { data, how })
}

/// `serde_rt`: a real round trip through postcard (bytes as a length-prefixed byte string,
/// non-self-describing) or serde_json (bytes as a sequence of numbers, self-describing)
pub fn serde_rt<T: Serialize + for<'a> Deserialize<'a> + PartialEq>(fmt: &str, v: &T) -> Option<String> {
    let back: Result<T, String> = match fmt {
        "postcard" => postcard::to_allocvec(v)
            .map_err(|e| e.to_string())
            .and_then(|bs| postcard::from_bytes::<T>(&bs).map_err(|e| e.to_string())),
        "json" => serde_json::to_vec(v)
            .map_err(|e| e.to_string())
            .and_then(|bs| serde_json::from_slice::<T>(&bs).map_err(|e| e.to_string())),
        _ => return None,
    };
    Some(match back {
        Ok(w) => format!("ok eq={}", &w == v),
        Err(_) => "err".to_string(),
    })
}
// To add RoaringTreemap: `tserde_events tN` = serde_events(t, &t_bytes), `tserde_visit kind tD src` =
// serde_visit::<RoaringTreemap>(..), `tserde_rt fmt tN` = serde_rt(fmt, t) — three arms like the ones below.

// ------------------------------------------------------------------------------------------ handlers

pub fn handle(st: &mut State, toks: &[&str]) -> HResult {
    match toks {
        ["from_lsb0", d, off, hx] => {
            let i = slot('b', d)?;
            let off: u32 = off.parse().ok()?;
            let bytes = parse_hex(hx)?;
            // the documented panic is caught by the caller and printed as `panic`
            st.bm[i] = Some(RoaringBitmap::from_lsb0_bytes(off, &bytes));
            Some("ok".to_string())
        }
        // from_lsb0_zeros bD off len : a slice of `len` zero bytes with bit `tail` of the last byte set when tail < 8
        // (lets the 2^29-byte boundary be exercised without a 1 GiB hex literal)
        ["from_lsb0_zeros", d, off, len, tail] => {
            let i = slot('b', d)?;
            let off: u32 = off.parse().ok()?;
            let len: usize = len.parse().ok()?;
            let tail: u32 = tail.parse().ok()?;
            if len > (1usize << 29) + 8 {
                return None;
            }
            let mut bytes = vec![0u8; len];
            if tail < 8 && len > 0 {
                bytes[len - 1] = 1 << tail;
            }
            st.bm[i] = Some(RoaringBitmap::from_lsb0_bytes(off, &bytes));
            Some("ok".to_string())
        }
        ["stats", d] => {
            let b = st.bm[slot('b', d)?].as_ref()?;
            let s = b.statistics();
            Some(format!(
                "nc={} na={} nr={} nb={} va={} vr={} vb={} card={} min={} max={} ssz={}",
                s.n_containers,
                s.n_array_containers,
                s.n_run_containers,
                s.n_bitset_containers,
                s.n_values_array_containers,
                s.n_values_run_containers,
                s.n_values_bitset_containers,
                s.cardinality,
                show_opt(s.min_value),
                show_opt(s.max_value),
                b.serialized_size()
            ))
        }
        ["debug", d] => {
            let b = st.bm[slot('b', d)?].as_ref()?;
            let s = format!("{:?}", b);
            let form = if s.contains(" values between ") { "summary" } else { "list" };
            Some(format!("ok n={} h={:016x} f={}", s.len(), fnv_bytes(s.as_bytes()), form))
        }
        ["serde_events", d] => {
            let b = st.bm[slot('b', d)?].as_ref()?;
            let mut reference = Vec::new();
            b.serialize_into(&mut reference).unwrap();
            Some(serde_events(b, &reference))
        }
        ["serde_visit", kind, d, src] => {
            let i = slot('b', d)?;
            let how = deliver(kind)?;
            let bytes = if let Some(s) = src.strip_prefix("ser:") {
                let mut v = Vec::new();
                st.bm[slot('b', s)?].as_ref()?.serialize_into(&mut v).unwrap();
                v
            } else {
                parse_hex(src)?
            };
            Some(match serde_visit::<RoaringBitmap>(how, &bytes) {
                Ok(b) => {
                    st.bm[i] = Some(b);
                    "ok".to_string()
                }
                Err(_) => "err".to_string(),
            })
        }
        ["serde_rt", fmt, d] => {
            let b = st.bm[slot('b', d)?].as_ref()?;
            serde_rt(fmt, b)
        }
        _ => None,
    }
}
