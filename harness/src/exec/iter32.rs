//! ops family `iter32`: the 32-bit iterators `Iter<'_>` (iter(), range()) and `IntoIter` (into_iter(),
//! into_range()) driven through the public API only (C03).
//!
//! Borrowing iterators borrow a leaked clone of the bitmap (`Iter<'static>`), so that a slot can outlive
//! and be independent of the `bN` slot it was made from.
use super::*;
use roaring::bitmap::{IntoIter, Iter};

macro_rules! impl_it32 {
    ($t:ty) => {
        impl It32 for $t {
            fn next(&mut self) -> Option<u32> {
                Iterator::next(self)
            }
            fn next_back(&mut self) -> Option<u32> {
                DoubleEndedIterator::next_back(self)
            }
            fn nth(&mut self, n: usize) -> Option<u32> {
                Iterator::nth(self, n)
            }
            fn nth_back(&mut self, n: usize) -> Option<u32> {
                DoubleEndedIterator::nth_back(self, n)
            }
            fn advance_to(&mut self, n: u32) {
                <$t>::advance_to(self, n)
            }
            fn advance_back_to(&mut self, n: u32) {
                <$t>::advance_back_to(self, n)
            }
            fn size_hint(&self) -> (usize, Option<usize>) {
                Iterator::size_hint(self)
            }
            fn len(&self) -> usize {
                ExactSizeIterator::len(self)
            }
            fn boxed_clone(&self) -> Box<dyn It32> {
                Box::new(self.clone())
            }
            fn count(self: Box<Self>) -> usize {
                Iterator::count(*self)
            }
            fn fold_fwd(self: Box<Self>) -> (u64, u64) {
                Iterator::fold(*self, (0u64, FNV_BASIS), |(n, h), x| (n + 1, fnv_step(h, x as u64)))
            }
            fn fold_rev(self: Box<Self>) -> (u64, u64) {
                DoubleEndedIterator::rfold(*self, (0u64, FNV_BASIS), |(n, h), x| (n + 1, fnv_step(h, x as u64)))
            }
        }
    };
}
impl_it32!(Iter<'static>);
impl_it32!(IntoIter);

fn islot(t: &str) -> Option<usize> {
    slot('i', t)
}

fn show_h((n, h): (u64, u64)) -> String {
    format!("n={} h={:016x}", n, h)
}

pub fn handle(st: &mut State, toks: &[&str]) -> HResult {
    macro_rules! it {
        ($t:expr) => {
            st.it[islot($t)?].as_mut()?
        };
    }
    let ok = || Some("ok".to_string());
    match toks {
        ["iter", b, k] => {
            let k = islot(k)?;
            let leaked: &'static RoaringBitmap = Box::leak(Box::new(st.bm[slot('b', b)?].as_ref()?.clone()));
            st.it[k] = Some(Box::new(leaked.iter()));
            ok()
        }
        ["into_iter", b, k] => {
            let k = islot(k)?;
            let owned = st.bm[slot('b', b)?].as_ref()?.clone();
            st.it[k] = Some(Box::new(owned.into_iter()));
            ok()
        }
        ["range", b, lo, hi, k] => {
            let src = st.bm[slot('b', b)?].as_ref()?;
            let r = (bound::<u32>(lo)?, bound::<u32>(hi)?);
            let k = islot(k)?;
            let leaked: &'static RoaringBitmap = Box::leak(Box::new(src.clone()));
            // the two documented panics propagate to the caller (printed as `panic`, ends the case)
            st.it[k] = Some(Box::new(leaked.range(r)));
            ok()
        }
        ["into_range", b, lo, hi, k] => {
            let src = st.bm[slot('b', b)?].as_ref()?;
            let r = (bound::<u32>(lo)?, bound::<u32>(hi)?);
            let k = islot(k)?;
            let owned = src.clone();
            st.it[k] = Some(Box::new(owned.into_range(r)));
            ok()
        }
        ["iclone", a, d] => {
            let c = st.it[islot(a)?].as_ref()?.boxed_clone();
            st.it[islot(d)?] = Some(c);
            ok()
        }
        ["next", a] => Some(show_opt(it!(a).next())),
        ["next_back", a] => Some(show_opt(it!(a).next_back())),
        ["nth", a, n] => {
            let n: u64 = n.parse().ok()?;
            Some(show_opt(it!(a).nth(n as usize)))
        }
        ["nth_back", a, n] => {
            let n: u64 = n.parse().ok()?;
            Some(show_opt(it!(a).nth_back(n as usize)))
        }
        ["advance_to", a, v] => {
            let v: u32 = v.parse().ok()?;
            it!(a).advance_to(v);
            ok()
        }
        ["advance_back_to", a, v] => {
            let v: u32 = v.parse().ok()?;
            it!(a).advance_back_to(v);
            ok()
        }
        ["size_hint", a] => {
            let (lo, hi) = it!(a).size_hint();
            Some(format!("{},{}", lo, show_opt(hi)))
        }
        ["ilen", a] => Some(it!(a).len().to_string()),
        ["count", a] => {
            let i = st.it[islot(a)?].take()?;
            Some(i.count().to_string())
        }
        ["fold", a] => {
            let i = st.it[islot(a)?].take()?;
            Some(show_h(i.fold_fwd()))
        }
        ["rfold", a] => {
            let i = st.it[islot(a)?].take()?;
            Some(show_h(i.fold_rev()))
        }
        ["drain_fwd", a] => {
            let mut i = st.it[islot(a)?].take()?;
            let mut acc = (0u64, FNV_BASIS);
            while let Some(x) = i.next() {
                acc = (acc.0 + 1, fnv_step(acc.1, x as u64));
            }
            Some(show_h(acc))
        }
        ["drain_rev", a] => {
            let mut i = st.it[islot(a)?].take()?;
            let mut acc = (0u64, FNV_BASIS);
            while let Some(x) = i.next_back() {
                acc = (acc.0 + 1, fnv_step(acc.1, x as u64));
            }
            Some(show_h(acc))
        }
        _ => None,
    }
}
