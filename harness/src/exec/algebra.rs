//! ops family `algebra`: binary set operations in every operand / assign form (C02), relations and
//! cardinality-only operations (C08).  Public API only.
//!
//! `or|and|sub|xor <form> bD bL bR`, form ∈ {oo, or, ro, rr, ao, ar}: owned operands are clones of the
//! slots; the result is stored in `bD` (and, for the assigning forms, `bL` is the assigned-to value).
//! After a form with borrowed operands the element hash of every *borrowed* operand is printed, taken
//! after the operation ran — the model prints the hash of its (unchanged) value.
use super::*;

fn elem_hash(b: &RoaringBitmap) -> String {
    let mut h = FNV_BASIS;
    for x in b.iter() {
        h = fnv_step(h, x as u64);
    }
    format!("{:016x}", h)
}

/// (key, kind) per chunk, from the public API: a chunk is a bitset iff it holds more than 4096 values
fn kinds(b: &RoaringBitmap) -> Vec<(u32, char)> {
    let mut v: Vec<(u32, u32)> = Vec::new();
    for x in b.iter() {
        let k = x >> 16;
        match v.last_mut() {
            Some((lk, n)) if *lk == k => *n += 1,
            _ => v.push((k, 1)),
        }
    }
    v.into_iter().map(|(k, n)| (k, if n > 4096 { 'B' } else { 'A' })).collect()
}

/// coverage tag: one cell `LR>D` per pair of the merge-join of the operands' chunk keys
fn cell_tags(l: &[(u32, char)], r: &[(u32, char)], d: &[(u32, char)]) -> String {
    let (mut i, mut j) = (0, 0);
    let mut cells = Vec::new();
    while i < l.len() || j < r.len() {
        let (key, lk, rk);
        if j >= r.len() || (i < l.len() && l[i].0 < r[j].0) {
            key = l[i].0;
            lk = l[i].1;
            rk = '-';
            i += 1;
        } else if i >= l.len() || r[j].0 < l[i].0 {
            key = r[j].0;
            lk = '-';
            rk = r[j].1;
            j += 1;
        } else {
            key = l[i].0;
            lk = l[i].1;
            rk = r[j].1;
            i += 1;
            j += 1;
        }
        let dk = d.iter().find(|c| c.0 == key).map(|c| c.1).unwrap_or('-');
        cells.push(format!("{}{}>{}", lk, rk, dk));
    }
    cells.join(",")
}

macro_rules! binop_forms {
    ($form:expr, $l:expr, $r:expr, $op:tt, $opa:tt) => {{
        let l: &mut RoaringBitmap = $l;
        let r: &RoaringBitmap = $r;
        match $form {
            "oo" => Some((l.clone() $op r.clone(), "ok".to_string())),
            "or" => {
                let d = l.clone() $op r;
                Some((d, format!("ok r={}", elem_hash(r))))
            }
            "ro" => {
                let d = &*l $op r.clone();
                Some((d, format!("ok l={}", elem_hash(l))))
            }
            "rr" => {
                let d = &*l $op r;
                Some((d, format!("ok l={} r={}", elem_hash(l), elem_hash(r))))
            }
            "ao" => {
                *l $opa r.clone();
                Some((l.clone(), "ok".to_string()))
            }
            "ar" => {
                *l $opa r;
                Some((l.clone(), format!("ok r={}", elem_hash(r))))
            }
            _ => None,
        }
    }};
}

pub fn handle(st: &mut State, toks: &[&str]) -> HResult {
    match toks {
        [op @ ("or" | "and" | "sub" | "xor"), form, d, l, r] => {
            let di = slot('b', d)?;
            let li = slot('b', l)?;
            let ri = slot('b', r)?;
            if !matches!(*form, "oo" | "or" | "ro" | "rr" | "ao" | "ar") {
                return None;
            }
            st.bm[li].as_ref()?;
            if li == ri && *form == "rr" {
                // `&a op &a`: literally the same object on both sides (an identity shortcut would show here)
                let a = st.bm[li].as_ref()?;
                let res = match *op {
                    "or" => a | a,
                    "and" => a & a,
                    "sub" => a - a,
                    _ => a ^ a,
                };
                let k = kinds(a);
                let out = format!("ok l={} r={} | p={}", elem_hash(a), elem_hash(a), cell_tags(&k, &k, &kinds(&res)));
                st.bm[di] = Some(res);
                return Some(out);
            }
            // the right operand is only ever read: work on a snapshot when both operands are the same slot
            let rsnap;
            let (lref, rref): (&mut RoaringBitmap, &RoaringBitmap) = if li == ri {
                rsnap = st.bm[ri].as_ref()?.clone();
                (st.bm[li].as_mut()?, &rsnap)
            } else {
                st.bm[ri].as_ref()?;
                let (x, y) = if li < ri {
                    let (a, b) = st.bm.split_at_mut(ri);
                    (a[li].as_mut()?, b[0].as_ref()?)
                } else {
                    let (a, b) = st.bm.split_at_mut(li);
                    (b[0].as_mut()?, a[ri].as_ref()?)
                };
                (x, y)
            };
            let (lk, rk) = (kinds(lref), kinds(rref));
            let (res, out) = match *op {
                "or" => binop_forms!(*form, lref, rref, |, |=),
                "and" => binop_forms!(*form, lref, rref, &, &=),
                "sub" => binop_forms!(*form, lref, rref, -, -=),
                _ => binop_forms!(*form, lref, rref, ^, ^=),
            }?;
            let out = format!("{} | p={}", out, cell_tags(&lk, &rk, &kinds(&res)));
            st.bm[di] = Some(res);
            Some(out)
        }
        [q @ ("is_subset" | "is_superset" | "is_disjoint" | "inter_len" | "union_len" | "diff_len" | "xor_len"), l, r] => {
            let x = st.bm[slot('b', l)?].as_ref()?;
            let y = st.bm[slot('b', r)?].as_ref()?;
            Some(match *q {
                "is_subset" => x.is_subset(y).to_string(),
                "is_superset" => x.is_superset(y).to_string(),
                "is_disjoint" => x.is_disjoint(y).to_string(),
                "inter_len" => x.intersection_len(y).to_string(),
                "union_len" => x.union_len(y).to_string(),
                "diff_len" => x.difference_len(y).to_string(),
                _ => x.symmetric_difference_len(y).to_string(),
            })
        }
        _ => None,
    }
}
