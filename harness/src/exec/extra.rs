//! trait-impl glue of the 32-bit type that the other families do not reach: Clone::clone_from, Default,
//! Extend<&u32>, FromIterator<&u32>, From<[u32; N]>, IntoIterator for &RoaringBitmap, RoaringBitmap::full()
use super::{nats, show_opt, slot, HResult, State};
use roaring::RoaringBitmap;

pub fn handle(st: &mut State, toks: &[&str]) -> HResult {
    let ok = || Some("ok".to_string());
    match toks {
        ["clone_from", d, s] => {
            let src = st.bm[slot('b', s)?].as_ref()?.clone();
            st.bm[slot('b', d)?].as_mut()?.clone_from(&src);
            ok()
        }
        ["default", d] => {
            st.bm[slot('b', d)?] = Some(RoaringBitmap::default());
            ok()
        }
        ["extend_ref", d, vs @ ..] => {
            let vs: Vec<u32> = nats(vs)?;
            st.bm[slot('b', d)?].as_mut()?.extend(vs.iter());
            ok()
        }
        ["from_iter_ref", d, vs @ ..] => {
            let vs: Vec<u32> = nats(vs)?;
            st.bm[slot('b', d)?] = Some(vs.iter().collect());
            ok()
        }
        ["from_arr", d, vs @ ..] => {
            let vs: Vec<u32> = nats(vs)?;
            let b = match vs.len() {
                0 => RoaringBitmap::from([0u32; 0]),
                1 => RoaringBitmap::from([vs[0]]),
                2 => RoaringBitmap::from([vs[0], vs[1]]),
                3 => RoaringBitmap::from([vs[0], vs[1], vs[2]]),
                4 => RoaringBitmap::from([vs[0], vs[1], vs[2], vs[3]]),
                _ => return None,
            };
            st.bm[slot('b', d)?] = Some(b);
            ok()
        }
        // for x in &bitmap  (IntoIterator for &RoaringBitmap): element count and order-sensitive hash
        ["for_ref", d] => {
            let b = st.bm[slot('b', d)?].as_ref()?;
            let (mut n, mut h) = (0u64, super::FNV_BASIS);
            for x in b {
                n += 1;
                h = super::fnv_step(h, x as u64);
            }
            Some(format!("n={} h={:016x}", n, h))
        }
        // implementation-only (2^32 elements do not fit the list model): RoaringBitmap::full()
        ["full", d] => {
            st.bm[slot('b', d)?] = Some(RoaringBitmap::full());
            ok()
        }
        ["first_last", d] => {
            let b = st.bm[slot('b', d)?].as_ref()?;
            Some(format!("{} {}", show_opt(b.iter().next()), show_opt(b.iter().next_back())))
        }
        _ => None,
    }
}
