//! trait-impl glue of the 32-bit type that the other families do not reach: Clone::clone_from, Default,
//! Extend<&u32>, FromIterator<&u32>, From<[u32; N]>, IntoIterator for &RoaringBitmap, RoaringBitmap::full()
use super::{nats, show_opt, slot, HResult, State};
use roaring::RoaringBitmap;


/// maximal runs of consecutive values of an ascending sequence
fn runs_of<I: Iterator<Item = u64>>(it: I) -> Vec<(u64, u64)> {
    let mut runs: Vec<(u64, u64)> = Vec::new();
    for v in it {
        match runs.last_mut() {
            Some(r) if r.1.wrapping_add(1) == v && v != 0 => r.1 = v,
            _ => runs.push((v, v)),
        }
    }
    runs
}

/// the first three and the last three runs
fn pick_runs(runs: &[(u64, u64)]) -> Vec<(u64, u64)> {
    if runs.len() <= 6 {
        runs.to_vec()
    } else {
        let mut v = runs[..3].to_vec();
        v.extend_from_slice(&runs[runs.len() - 3..]);
        v
    }
}

pub fn handle(st: &mut State, toks: &[&str]) -> HResult {
    let ok = || Some("ok".to_string());
    match toks {
        // structure-aware query battery: the queries are derived from the runs of the value itself (first and last
        // three maximal runs): exactly the run, one more on either side, ranks / selects at the run's ends
        ["probe", d] => {
            use std::fmt::Write as _;
            let b = st.bm[slot('b', d)?].as_ref()?;
            let runs = runs_of(b.iter().map(u64::from));
            let mut o = format!("runs={}", runs.len());
            let m = u32::MAX as u64;
            let sel = |n: u64| if n > m { "none".to_string() } else { show_opt(b.select(n as u32)) };
            for (a, z) in pick_runs(&runs) {
                let (a32, z32) = (a as u32, z as u32);
                write!(o, " {}..{}:{}", a, z, b.contains_range(a32..=z32)).unwrap();
                if z < m {
                    write!(o, ",{},{}", b.contains_range(a32..=z32 + 1), b.contains(z32 + 1)).unwrap();
                } else {
                    o.push_str(",-,-");
                }
                if a > 0 {
                    write!(o, ",{}", b.contains_range(a32 - 1..=z32)).unwrap();
                } else {
                    o.push_str(",-");
                }
                let (ra, rz) = (b.rank(a32), b.rank(z32));
                write!(o, ",{},{},{},{},{},{}", b.range_cardinality(a32..=z32), ra, rz, sel(ra.wrapping_sub(1)), sel(rz.wrapping_sub(1)), sel(rz)).unwrap();
            }
            Some(o)
        }
        ["tprobe", d] => {
            use std::fmt::Write as _;
            let t = st.tm[slot('t', d)?].as_ref()?;
            let runs = runs_of(t.iter());
            let mut o = format!("runs={}", runs.len());
            for (a, z) in pick_runs(&runs) {
                write!(o, " {}..{}:{}", a, z, t.contains(a)).unwrap();
                if z < u64::MAX {
                    write!(o, ",{}", t.contains(z + 1)).unwrap();
                } else {
                    o.push_str(",-");
                }
                if a > 0 {
                    write!(o, ",{},{}", t.contains(a - 1), t.rank(a - 1)).unwrap();
                } else {
                    o.push_str(",-,-");
                }
                let (ra, rz) = (t.rank(a), t.rank(z));
                write!(o, ",{},{},{},{},{}", ra, rz, show_opt(t.select(ra.wrapping_sub(1))), show_opt(t.select(rz.wrapping_sub(1))), show_opt(t.select(rz))).unwrap();
            }
            Some(o)
        }
        ["clone_from", d, s] => {
            let src = st.bm[slot('b', s)?].as_ref()?.clone();
            st.bm[slot('b', d)?].as_mut()?.clone_from(&src);
            ok()
        }
        ["default", d] => {
            st.bm[slot('b', d)?] = Some(RoaringBitmap::default());
            ok()
        }
        ["extend_ref", d, vs @ ..] => {
            let vs: Vec<u32> = nats(vs)?;
            st.bm[slot('b', d)?].as_mut()?.extend(vs.iter());
            ok()
        }
        ["from_iter_ref", d, vs @ ..] => {
            let vs: Vec<u32> = nats(vs)?;
            st.bm[slot('b', d)?] = Some(vs.iter().collect());
            ok()
        }
        ["from_arr", d, vs @ ..] => {
            let vs: Vec<u32> = nats(vs)?;
            let b = match vs.len() {
                0 => RoaringBitmap::from([0u32; 0]),
                1 => RoaringBitmap::from([vs[0]]),
                2 => RoaringBitmap::from([vs[0], vs[1]]),
                3 => RoaringBitmap::from([vs[0], vs[1], vs[2]]),
                4 => RoaringBitmap::from([vs[0], vs[1], vs[2], vs[3]]),
                _ => return None,
            };
            st.bm[slot('b', d)?] = Some(b);
            ok()
        }
        // for x in &bitmap  (IntoIterator for &RoaringBitmap): element count and order-sensitive hash
        ["for_ref", d] => {
            let b = st.bm[slot('b', d)?].as_ref()?;
            let (mut n, mut h) = (0u64, super::FNV_BASIS);
            for x in b {
                n += 1;
                h = super::fnv_step(h, x as u64);
            }
            Some(format!("n={} h={:016x}", n, h))
        }
        // implementation-only (2^32 elements do not fit the list model): RoaringBitmap::full()
        ["full", d] => {
            st.bm[slot('b', d)?] = Some(RoaringBitmap::full());
            ok()
        }
        ["first_last", d] => {
            let b = st.bm[slot('b', d)?].as_ref()?;
            Some(format!("{} {}", show_opt(b.iter().next()), show_opt(b.iter().next_back())))
        }
        _ => None,
    }
}
