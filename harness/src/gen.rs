//! Structured, seeded generators: one profile per property.
use crate::rng::Rng;
use std::fmt::Write as _;

pub mod c01;
pub mod c02;
pub mod c03;
pub mod c04;
pub mod c04t;
pub mod c05;
pub mod c05t;
pub mod c06;
pub mod c06t;
pub mod c09;
pub mod c10;
pub mod c11;
pub mod c12;
pub mod c13;
pub mod c13t;
pub mod c14;
pub mod c14t;
pub mod c15;
pub mod c16;
pub mod c16t;
pub mod c17;
pub mod c18;
pub mod c19;
pub mod c19t;
pub mod c20;
pub mod common;
pub mod profiles;
pub mod stream;
pub mod stream64;
pub mod zoo;

pub fn main(args: &[String]) {
    let mut profile = "C01".to_string();
    let mut seed = 1u64;
    let mut cases = 100u64;
    let mut i = 0;
    while i < args.len() {
        match args[i].as_str() {
            "--profile" => {
                profile = args[i + 1].clone();
                i += 2
            }
            "--seed" => {
                seed = args[i + 1].parse().unwrap();
                i += 2
            }
            "--cases" => {
                cases = args[i + 1].parse().unwrap();
                i += 2
            }
            _ => i += 1,
        }
    }
    let mut out = String::new();
    for c in 0..cases {
        let mut rng = Rng::new(seed, c);
        writeln!(out, "case {} {} {}", profile, seed, c).unwrap();
        if !profiles::gen_case(&profile, &mut rng, &mut out) {
            eprintln!("unknown profile {}", profile);
            std::process::exit(2);
        }
    }
    print!("{}", out);
}
