/-! scratch: popcount bookkeeping + store canonical form -/
namespace C
def popcount (w : Nat) : Nat := (List.range 64).countP (fun i => w.testBit i)

theorem countP_or_and {α} (l : List α) (p q : α → Bool) :
    l.countP (fun x => p x || q x) + l.countP (fun x => p x && q x) = l.countP p + l.countP q := by
  induction l with
  | nil => simp
  | cons a l ih =>
    simp only [List.countP_cons]
    cases hp : p a <;> cases hq : q a <;> simp <;> omega

theorem popcount_or_and (w m : Nat) : popcount (w ||| m) + popcount (w &&& m) = popcount w + popcount m := by
  unfold popcount
  have := countP_or_and (List.range 64) (fun i => w.testBit i) (fun i => m.testBit i)
  simpa [Nat.testBit_or, Nat.testBit_and] using this

/-- the `inserted` count computed by BitmapStore::insert_range for one word: |m| - |w & m| = |w|m| - |w| -/
theorem inserted_word (w m : Nat) : popcount (w ||| m) = popcount w + (popcount m - popcount (w &&& m)) := by
  have h := popcount_or_and w m
  have hle : popcount (w &&& m) ≤ popcount m := by
    unfold popcount
    apply List.countP_mono_left
    intro i _ hi
    simp [Nat.testBit_and] at hi
    exact hi.2
  omega

/-- word extensionality below 2^64 from the 64 tested bits -/
theorem word_ext (a b : Nat) (ha : a < 2^64) (hb : b < 2^64)
    (h : ∀ i, i < 64 → a.testBit i = b.testBit i) : a = b := by
  apply Nat.eq_of_testBit_eq
  intro i
  by_cases hi : i < 64
  · exact h i hi
  · have h1 : a < 2^i := Nat.lt_of_lt_of_le ha (Nat.pow_le_pow_right (by omega) (by omega))
    have h2 : b < 2^i := Nat.lt_of_lt_of_le hb (Nat.pow_le_pow_right (by omega) (by omega))
    rw [Nat.testBit_lt_two_pow h1, Nat.testBit_lt_two_pow h2]

/-- membership view of a 1024-word bitset -/
def memB (bits : List Nat) (i : Nat) : Bool := (bits.getD (i / 64) 0).testBit (i % 64)

/-- canonical form for bitset contents: same length, bounded words, same membership ⇒ same words -/
theorem bits_ext (a b : List Nat) (hl : a.length = b.length)
    (ha : ∀ x ∈ a, x < 2^64) (hb : ∀ x ∈ b, x < 2^64)
    (h : ∀ i, i < 64 * a.length → memB a i = memB b i) : a = b := by
  apply List.ext_getElem hl
  intro k hk1 hk2
  apply word_ext _ _ (ha _ (List.getElem_mem hk1)) (hb _ (List.getElem_mem hk2))
  intro j hj
  have := h (64 * k + j) (by omega)
  unfold memB at this
  have h1 : (64 * k + j) / 64 = k := by omega
  have h2 : (64 * k + j) % 64 = j := by omega
  rw [h1, h2] at this
  simpa [List.getD_eq_getElem?_getD, List.getElem?_eq_getElem hk1, List.getElem?_eq_getElem hk2] using this
end C
#print axioms C.bits_ext
#print axioms C.inserted_word
