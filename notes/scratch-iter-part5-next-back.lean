import I4
/-! scratch: BitmapIter.next_back as (getLast?, dropLast) of the remaining list (part 5) -/
namespace I

def BIter.emitBackV (it : BIter) : BIter × Option Nat :=   -- live word is `value`
  ({ it with value := popHigh it.value }, some (64 * it.keyBack + hiBit it.value))
def BIter.emitBackVB (it : BIter) : BIter × Option Nat :=  -- live word is `value_back`
  ({ it with valueBack := popHigh it.valueBack }, some (64 * it.keyBack + hiBit it.valueBack))

/-- mirrors the `loop { … key_back -= 1; continue }` of next_back; terminates on `keyBack` -/
def BIter.nextBack (it : BIter) : BIter × Option Nat :=
  if it.keyBack ≤ it.key then
    if it.value = 0 then (it, none) else it.emitBackV
  else if it.valueBack ≠ 0 then it.emitBackVB
  else
    BIter.nextBack { it with keyBack := it.keyBack - 1, valueBack := word it.bits (it.keyBack - 1) }
termination_by it.keyBack
decreasing_by simp_wf; omega

theorem bitsOf_step_back (k w) (hw : w ≠ 0) (hlt : w < 2^64) :
    bitsOf k w = bitsOf k (popHigh w) ++ [64*k + hiBit w] := by
  simp [bitsOf, bitPos_step_back w hw hlt]

theorem popHigh_lt (w : Nat) (h : w < 2^64) : popHigh w < 2^64 := by
  unfold popHigh; exact Nat.lt_of_le_of_lt Nat.and_le_left h

/-- peeling the last word off the words strictly between -/
theorem between_last (bits : List Nat) (k kb : Nat) (h : k + 1 < kb) :
    between bits k kb = between bits k (kb - 1) ++ bitsOf (kb - 1) (word bits (kb - 1)) := by
  have := between_split bits k (kb - 1) kb (by omega) (by omega)
  rw [this]
  have : between bits (kb - 1) kb = [] := by
    unfold between
    have : kb - (kb - 1) - 1 = 0 := by omega
    simp [this]
  rw [this]; simp

theorem between_adjacent (bits : List Nat) (k : Nat) : between bits k (k+1) = [] := by
  unfold between; simp

theorem nextBack_cursor (it : BIter) (hi : it.Inv) :
    it.nextBack.2 = it.rem.getLast? ∧ it.nextBack.1.rem = it.rem.dropLast ∧ it.nextBack.1.Inv := by
  fun_induction BIter.nextBack it with
  | case1 it hk hv =>
    -- live word is `value`, empty
    have hnk : ¬ it.key < it.keyBack := by omega
    simp [BIter.rem, hnk, hv, bitsOf_zero, hi]
  | case2 it hk hv =>
    have hnk : ¬ it.key < it.keyBack := by omega
    have hkey : it.keyBack = it.key := by
      rcases hi.live hk with h | h
      · exact h
      · exact absurd h hv
    have hstep := bitsOf_step_back it.key it.value hv hi.v
    simp only [BIter.emitBackV, BIter.rem, hnk, ↓reduceIte]
    rw [hstep, hkey]
    refine ⟨by simp, by simp, ?_⟩
    exact ⟨popHigh_lt _ hi.v, hi.vb, hi.ws, by intro _; left; rfl⟩
  | case3 it hk hvb =>
    have hk' : it.key < it.keyBack := by omega
    have hstep := bitsOf_step_back it.keyBack it.valueBack hvb hi.vb
    simp only [BIter.emitBackVB, BIter.rem, hk', ↓reduceIte]
    rw [hstep]
    refine ⟨by simp, ?_, ?_⟩
    · rw [← List.append_assoc, List.dropLast_concat]
    · exact ⟨hi.v, popHigh_lt _ hi.vb, hi.ws, by intro h; simp only [] at h; omega⟩
  | case4 it hk hvb ih =>
    have hk' : it.key < it.keyBack := by omega
    simp at hvb
    -- the stepped iterator has the same remaining list
    have hinv' : BIter.Inv { it with keyBack := it.keyBack - 1, valueBack := word it.bits (it.keyBack - 1) } :=
      ⟨hi.v, hi.ws _, hi.ws, by intro h; left; show it.keyBack - 1 = it.key; have h' : it.keyBack - 1 ≤ it.key := h; omega⟩
    have hrem : BIter.rem { it with keyBack := it.keyBack - 1, valueBack := word it.bits (it.keyBack - 1) } = it.rem := by
      unfold BIter.rem
      simp only [hk', ↓reduceIte, hvb, bitsOf_zero, List.append_nil]
      by_cases hadj : it.key + 1 < it.keyBack
      · have : it.key < it.keyBack - 1 := by omega
        simp only [this, ↓reduceIte]
        rw [between_last it.bits it.key it.keyBack hadj, List.append_assoc]
      · have hkb : it.keyBack = it.key + 1 := by omega
        have : ¬ it.key < it.keyBack - 1 := by omega
        simp only [this, ↓reduceIte]
        rw [hkb, between_adjacent]; simp
    have := ih hinv'
    rw [hrem] at this
    exact this
end I
#print axioms I.nextBack_cursor
