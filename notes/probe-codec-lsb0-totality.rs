use roaring::{RoaringBitmap, RoaringTreemap};
use std::collections::BTreeSet;
use std::io::{self, Cursor, Read, Write};
use std::ops::Bound;
use std::panic::{catch_unwind, AssertUnwindSafe};

struct Rng(u64);
impl Rng {
    fn next(&mut self) -> u64 { self.0 = self.0.wrapping_add(0x9E3779B97F4A7C15); let mut z = self.0; z = (z ^ (z >> 30)).wrapping_mul(0xBF58476D1CE4E5B9); z = (z ^ (z >> 27)).wrapping_mul(0x94D049BB133111EB); z ^ (z >> 31) }
    fn below(&mut self, n: u64) -> u64 { self.next() % n }
    fn val(&mut self) -> u32 {
        let chunk = [0u32, 1, 2, 7, 65535][self.below(5) as usize];
        let low = match self.below(6) { 0 => [0u32, 1, 63, 64, 65, 4095, 4096, 4097, 65535, 65534, 127, 128][self.below(12) as usize], 1 => (self.below(1024) * 64) as u32 + [0, 1, 63][self.below(3) as usize], _ => self.below(65536) as u32 };
        (chunk << 16) | (low & 0xffff)
    }
}
fn build(r: &mut Rng) -> BTreeSet<u32> {
    let mut set = BTreeSet::new();
    for _ in 0..r.below(6) {
        match r.below(4) {
            0 => { for _ in 0..r.below(30) { set.insert(r.val()); } }
            1 => { let a = r.val() & 0xffff_0000; let n = [4095u32, 4096, 4097][r.below(3) as usize]; let step = [1u32, 2, 16][r.below(3) as usize]; for i in 0..n { set.insert(a + ((i*step) & 0xffff)); } }
            _ => { let a = r.val(); let len = [1u32, 100, 4095, 4096, 4097, 9000, 65536][r.below(7) as usize]; let b = a.saturating_add(len-1); for x in a..=b { set.insert(x); } }
        }
    }
    set
}
// ---- independent codec from the format spec
fn chunks(set: &BTreeSet<u32>) -> Vec<(u16, Vec<u16>)> { let mut v: Vec<(u16, Vec<u16>)> = vec![]; for &x in set { let k = (x >> 16) as u16; if v.last().map_or(true, |l| l.0 != k) { v.push((k, vec![])); } v.last_mut().unwrap().1.push(x as u16); } v }
fn payload_plain(vals: &[u16]) -> Vec<u8> { let mut out = vec![]; if vals.len() <= 4096 { for v in vals { out.extend_from_slice(&v.to_le_bytes()); } } else { let mut w = [0u64; 1024]; for &v in vals { w[v as usize / 64] |= 1 << (v % 64); } for x in w { out.extend_from_slice(&x.to_le_bytes()); } } out }
fn runs_of(vals: &[u16]) -> Vec<(u16, u16)> { let mut r: Vec<(u16,u16)> = vec![]; for &v in vals { match r.last_mut() { Some((s, l)) if *s as u32 + *l as u32 + 1 == v as u32 => *l += 1, _ => r.push((v, 0)) } } r }
fn spec_encode(set: &BTreeSet<u32>) -> Vec<u8> {
    let cs = chunks(set); let mut out = vec![]; out.extend_from_slice(&12346u32.to_le_bytes()); out.extend_from_slice(&(cs.len() as u32).to_le_bytes());
    for (k, v) in &cs { out.extend_from_slice(&k.to_le_bytes()); out.extend_from_slice(&((v.len()-1) as u16).to_le_bytes()); }
    let mut off = 8 + 8 * cs.len() as u32; for (_, v) in &cs { out.extend_from_slice(&off.to_le_bytes()); off += if v.len() <= 4096 { 2 * v.len() as u32 } else { 8192 }; }
    for (_, v) in &cs { out.extend(payload_plain(v)); } out
}
fn spec_encode_runs(set: &BTreeSet<u32>, r: &mut Rng) -> Vec<u8> {
    let cs = chunks(set); if cs.is_empty() { return spec_encode(set); }
    let n = cs.len(); let isrun: Vec<bool> = cs.iter().map(|_| r.below(2) == 0).collect();
    let mut out = vec![]; out.extend_from_slice(&(12347u32 | (((n - 1) as u32) << 16)).to_le_bytes());
    let mut bm = vec![0u8; (n + 7) / 8]; for (i, b) in isrun.iter().enumerate() { if *b { bm[i/8] |= 1 << (i%8); } } out.extend(&bm);
    for (k, v) in &cs { out.extend_from_slice(&k.to_le_bytes()); out.extend_from_slice(&((v.len()-1) as u16).to_le_bytes()); }
    let payloads: Vec<Vec<u8>> = cs.iter().zip(&isrun).map(|((_, v), run)| if *run { let rs = runs_of(v); let mut p = vec![]; p.extend_from_slice(&(rs.len() as u16).to_le_bytes()); for (s, l) in rs { p.extend_from_slice(&s.to_le_bytes()); p.extend_from_slice(&l.to_le_bytes()); } p } else { payload_plain(v) }).collect();
    if n >= 4 { let mut off = out.len() as u32 + 4 * n as u32; for p in &payloads { out.extend_from_slice(&off.to_le_bytes()); off += p.len() as u32; } }
    for p in payloads { out.extend(p); } out
}
struct Chunked<'a> { data: &'a [u8], pos: usize, rng: Rng }
impl Read for Chunked<'_> { fn read(&mut self, buf: &mut [u8]) -> io::Result<usize> { if self.rng.below(4) == 0 { return Err(io::Error::new(io::ErrorKind::Interrupted, "intr")); } let n = (1 + self.rng.below(3) as usize).min(buf.len()).min(self.data.len() - self.pos); buf[..n].copy_from_slice(&self.data[self.pos..self.pos+n]); self.pos += n; Ok(n) } }
struct FailW { out: Vec<u8>, limit: usize, rng: Rng }
impl Write for FailW { fn write(&mut self, buf: &[u8]) -> io::Result<usize> { if self.rng.below(5) == 0 { return Err(io::Error::new(io::ErrorKind::Interrupted, "intr")); } if self.out.len() >= self.limit { return Err(io::Error::new(io::ErrorKind::Other, "full")); } let n = (1 + self.rng.below(3) as usize).min(buf.len()).min(self.limit - self.out.len()); self.out.extend_from_slice(&buf[..n]); Ok(n) } fn flush(&mut self) -> io::Result<()> { Ok(()) } }

fn wellformed(b: &RoaringBitmap) -> Result<(), String> {
    let v: Vec<u32> = b.iter().collect();
    if !v.windows(2).all(|w| w[0] < w[1]) { return Err("not ascending".into()); }
    if b.len() != v.len() as u64 || b.is_empty() != v.is_empty() || b.min() != v.first().copied() || b.max() != v.last().copied() { return Err("len/min/max".into()); }
    for &x in v.iter().take(50) { if !b.contains(x) { return Err("contains".into()); } }
    let native: RoaringBitmap = v.iter().copied().collect(); if *b != native { return Err("!= native".into()); }
    let mut buf = vec![]; b.serialize_into(&mut buf).map_err(|e| e.to_string())?; let d = RoaringBitmap::deserialize_from(&buf[..]).map_err(|e| format!("reser: {e}"))?; if d != *b { return Err("reser !=".into()); }
    Ok(())
}

fn ser(seed: u64) -> bool {
    let mut r = Rng(seed); let set = build(&mut r); let bm: RoaringBitmap = set.iter().copied().collect();
    let mut buf = vec![]; bm.serialize_into(&mut buf).unwrap();
    if buf != spec_encode(&set) { println!("C05 bytes differ"); return false; }
    if buf.len() != bm.serialized_size() { println!("C05 size"); return false; }
    // C20
    let st = bm.statistics(); let cs = chunks(&set);
    let exp_size: usize = 8 + cs.iter().map(|(_, v)| 8 + (2 * v.len()).min(8192)).sum::<usize>();
    if st.cardinality != set.len() as u64 || st.n_containers as usize != cs.len() || st.n_array_containers as usize != cs.iter().filter(|c| c.1.len() <= 4096).count() || st.n_bitset_containers as usize != cs.iter().filter(|c| c.1.len() > 4096).count() || st.n_values_array_containers as usize != cs.iter().filter(|c| c.1.len() <= 4096).map(|c| c.1.len()).sum::<usize>() || st.n_values_bitset_containers as usize != cs.iter().filter(|c| c.1.len() > 4096).map(|c| c.1.len()).sum::<usize>() || st.n_run_containers != 0 || st.min_value != bm.min() || st.max_value != bm.max() || bm.serialized_size() != exp_size { println!("C20 stats"); return false; }
    // C06
    let rs = spec_encode_runs(&set, &mut r);
    for (nm, d) in [("chk", RoaringBitmap::deserialize_from(&rs[..])), ("unchk", RoaringBitmap::deserialize_unchecked_from(&rs[..]))] { match d { Ok(d) => if d != bm { println!("C06 {nm} != (n={})", chunks(&set).len()); return false; }, Err(e) => { println!("C06 {nm} err {e}"); return false; } } }
    // C14 chunked read
    match RoaringBitmap::deserialize_from(Chunked { data: &rs, pos: 0, rng: Rng(seed ^ 5) }) { Ok(d) if d == bm => {}, _ => { println!("C14 chunked"); return false; } }
    // C14 prefixes (sampled)
    for _ in 0..20 { let k = r.below(buf.len() as u64) as usize; match catch_unwind(|| RoaringBitmap::deserialize_from(&buf[..k]).is_err()) { Ok(true) => {}, _ => { println!("C14 prefix {k}"); return false; } } let k = r.below(rs.len() as u64) as usize; match catch_unwind(|| RoaringBitmap::deserialize_from(&rs[..k]).is_err()) { Ok(true) => {}, _ => { println!("C14 prefix runs {k}"); return false; } } }
    // C14 writer
    for _ in 0..10 { let limit = r.below(buf.len() as u64 + 3) as usize; let mut w = FailW { out: vec![], limit, rng: Rng(seed ^ 9) }; let res = catch_unwind(AssertUnwindSafe(|| bm.serialize_into(&mut w))); match res { Ok(res) => { if res.is_ok() != (limit >= buf.len()) || w.out != buf[..limit.min(buf.len())] { println!("C14 writer limit {limit} len {}", buf.len()); return false; } }, Err(_) => { println!("C14 writer panic"); return false; } } }
    // C18
    let a: RoaringBitmap = build(&mut r).into_iter().chain(set.iter().copied().filter(|x| x % 3 == 0)).collect();
    let sa: BTreeSet<u32> = a.iter().collect(); let exp: BTreeSet<u32> = sa.intersection(&set).copied().collect(); let expb: RoaringBitmap = exp.iter().copied().collect();
    for (nm, s) in [("plain", &buf), ("runs", &rs)] { match catch_unwind(|| a.intersection_with_serialized_unchecked(Cursor::new(s.as_slice()))) { Ok(Ok(x)) if x == expb => {}, o => { println!("C18 {nm} wrong n={} {:?}", chunks(&set).len(), o.map(|r| r.map(|b| b.len()).map_err(|e| e.to_string())).map_err(|_| "panic")); return false; } }
        for _ in 0..10 { let k = r.below(s.len() as u64) as usize; match catch_unwind(|| a.intersection_with_serialized_unchecked(Cursor::new(&s[..k]))) { Ok(Ok(x)) if x == expb => {}, Ok(Err(_)) => {}, Ok(Ok(_)) => { println!("C18 {nm} trunc {k} wrong value"); return false; }, Err(_) => { println!("C18 {nm} trunc {k} panic"); return false; } } } }
    // C19
    let p = postcard::to_allocvec(&bm).unwrap(); let back: RoaringBitmap = postcard::from_bytes(&p).unwrap(); if back != bm { println!("C19 postcard"); return false; }
    let j = serde_json::to_vec(&bm).unwrap(); let back: RoaringBitmap = serde_json::from_slice(&j).unwrap(); if back != bm { println!("C19 json"); return false; }
    let jv: Vec<u8> = serde_json::from_slice(&j).unwrap(); if jv != buf { println!("C19 json bytes"); return false; }
    // treemap
    let t: RoaringTreemap = set.iter().map(|&x| ((x as u64 & 3) << 32) | x as u64).collect(); let mut tb = vec![]; t.serialize_into(&mut tb).unwrap(); if tb.len() != t.serialized_size() || RoaringTreemap::deserialize_from(&tb[..]).unwrap() != t { println!("treemap ser"); return false; }
    for _ in 0..10 { let k = r.below(tb.len() as u64) as usize; if !RoaringTreemap::deserialize_from(&tb[..k]).is_err() { println!("treemap prefix"); return false; } }
    true
}
fn malformed(seed: u64) -> bool {
    let mut r = Rng(seed); let set = build(&mut r); let mut s = if r.below(2) == 0 { spec_encode(&set) } else { spec_encode_runs(&set, &mut r) };
    if r.below(8) == 0 { s = (0..r.below(40)).map(|_| r.below(256) as u8).collect(); }
    for _ in 0..1 + r.below(2) { if s.is_empty() { break; } match r.below(6) { 0 => { let i = r.below(s.len().min(64) as u64) as usize; s[i] ^= 1 << r.below(8); } 1 => { let i = r.below(s.len() as u64) as usize; s[i] = r.below(256) as u8; } 2 => { let k = r.below(s.len() as u64) as usize; s.truncate(k); } 3 => { s.push(r.below(256) as u8); } 4 => { let i = r.below(s.len().min(40) as u64) as usize; s[i] = [0u8, 1, 255, 0x3a, 0x3b][r.below(5) as usize]; } _ => { if s.len() > 12 { let i = 8 + 4 * r.below(((s.len() - 8) / 4).min(8) as u64) as usize; if i + 4 <= s.len() { s.swap(i, i+4-4+0); let a = [s[i], s[i+1]]; let j = (i + 4).min(s.len() - 2); s[i] = s[j]; s[i+1] = s[j+1]; s[j] = a[0]; s[j+1] = a[1]; } } } } }
    match catch_unwind(|| RoaringBitmap::deserialize_from(&s[..])) { Err(_) => { println!("C13 panic"); false }, Ok(Err(_)) => true, Ok(Ok(b)) => match catch_unwind(|| wellformed(&b)) { Ok(Ok(())) => true, Ok(Err(e)) => { println!("C13 accepted ill-formed: {e} bytes {:?}", &s[..s.len().min(48)]); false }, Err(_) => { println!("C13 observer panic"); false } } }
}
fn lsb0(seed: u64) -> bool {
    let mut r = Rng(seed);
    let off_base = [0u32, 65536 - 64, 65536, 7 * 65536 - 8, u32::MAX - 70000][r.below(5) as usize]; let off = off_base + r.below(24) as u32;
    let len = [0usize, 1, 7, 8, 9, 100, 8191, 8192, 8193, 20000][r.below(10) as usize];
    let dens = r.below(4);
    let mut bytes: Vec<u8> = (0..len).map(|_| match dens { 0 => 0, 1 => if r.below(16)==0 { 1 << r.below(8) } else { 0 }, 2 => r.below(256) as u8, _ => 0xff }).collect();
    if r.below(2) == 0 && len >= 600 { // exactly around 4096 bits in first chunk region
        for b in bytes.iter_mut() { *b = 0; } let n = [4095usize, 4096, 4097][r.below(3) as usize]; let stride = [1usize, 2][r.below(2) as usize]; for i in 0..n { let bit = i * stride; if bit / 8 < len { bytes[bit / 8] |= 1 << (bit % 8); } } }
    let mut set = BTreeSet::new(); for (i, b) in bytes.iter().enumerate() { for j in 0..8 { if b & (1 << j) != 0 { set.insert(off as u64 + 8 * i as u64 + j as u64); } } }
    let fits = off as u64 + 8 * len as u64 <= 1u64 << 32;
    match catch_unwind(|| RoaringBitmap::from_lsb0_bytes(off, &bytes)) { Err(_) => { if fits { println!("C17 panic though fits off {off} len {len}"); return false; } true }
        Ok(b) => { if !fits { return true; } let exp: RoaringBitmap = set.iter().map(|&x| x as u32).collect(); if b != exp { println!("C17 mismatch off {off} len {len} dens {dens} got {} exp {}", b.len(), exp.len()); return false; } true } }
}
fn totality(seed: u64) -> bool {
    let mut r = Rng(seed); let set = build(&mut r); let mut bm: RoaringBitmap = set.iter().copied().collect(); let mut set = set;
    let bound = |r: &mut Rng| { let v = [0u32, 1, u32::MAX, u32::MAX - 1, 65535, 65536][r.below(6) as usize]; let v = if r.below(2) == 0 { v } else { r.val() }; match r.below(3) { 0 => Bound::Included(v), 1 => Bound::Excluded(v), _ => Bound::Unbounded } };
    for _ in 0..30 {
        let (s, e) = (bound(&mut r), bound(&mut r));
        let lo: Option<u64> = match s { Bound::Included(v) => Some(v as u64), Bound::Excluded(v) => Some(v as u64 + 1), Bound::Unbounded => Some(0) };
        let hi: Option<u64> = match e { Bound::Included(v) => Some(v as u64 + 1), Bound::Excluded(v) => Some(v as u64), Bound::Unbounded => Some(1 << 32) };
        let (lo, hi) = (lo.unwrap(), hi.unwrap()); // [lo, hi)
        let inside = |x: u32| (x as u64) >= lo && (x as u64) < hi;
        let card = set.iter().filter(|x| inside(**x)).count() as u64;
        let res = catch_unwind(AssertUnwindSafe(|| {
            if bm.range_cardinality((s, e)) != card { return Err(format!("range_card {s:?} {e:?}")); }
            let full = hi > lo && (hi - lo) <= 200000; if hi <= lo { if !bm.contains_range((s, e)) { return Err("contains_range empty".into()); } } else if full { let exp = (lo..hi).all(|x| set.contains(&(x as u32))); if bm.contains_range((s, e)) != exp { return Err(format!("contains_range {s:?} {e:?}")); } }
            match r.below(4) { 0 if hi <= lo || hi - lo < 300000 => { let before = set.len(); for x in lo..hi { set.insert(x as u32); } let n = bm.insert_range((s, e)); if n != (set.len() - before) as u64 { return Err("insert_range ret".into()); } }
                1 => { let before = set.len(); set.retain(|x| !inside(*x)); let n = bm.remove_range((s, e)); if n != (before - set.len()) as u64 { return Err("remove_range ret".into()); } } _ => {} }
            Ok(()) }));
        match res { Ok(Ok(())) => {}, Ok(Err(e)) => { println!("C16 {e}"); return false; }, Err(_) => { println!("C16 PANIC on {s:?} {e:?}"); return false; } }
        // range iterator: documented panic iff inverted
        let should_panic = match (s, e) { (Bound::Excluded(a), Bound::Excluded(b)) if a == b => true, (Bound::Included(a) | Bound::Excluded(a), Bound::Included(b) | Bound::Excluded(b)) if a > b => true, _ => false };
        let res = catch_unwind(AssertUnwindSafe(|| bm.range((s, e)).collect::<Vec<u32>>()));
        match res { Err(_) => if !should_panic { println!("C16 range panic {s:?} {e:?}"); return false; }, Ok(v) => { if should_panic { println!("C16 range should panic"); return false; } let exp: Vec<u32> = set.iter().copied().filter(|x| inside(*x)).collect(); if v != exp { println!("C03 range {s:?} {e:?} got {} exp {}", v.len(), exp.len()); return false; }
            let mut w: Vec<u32> = bm.clone().into_range((s, e)).rev().collect(); w.reverse(); if w != exp { println!("C03 into_range rev"); return false; }
            let f = bm.range((s, e)).fold(0u64, |a, x| a.wrapping_mul(31).wrapping_add(x as u64)); let fe = exp.iter().fold(0u64, |a, x| a.wrapping_mul(31).wrapping_add(*x as u64)); if f != fe { println!("C03 fold"); return false; }
            let f = bm.range((s, e)).rfold(0u64, |a, x| a.wrapping_mul(31).wrapping_add(x as u64)); let fe = exp.iter().rev().fold(0u64, |a, x| a.wrapping_mul(31).wrapping_add(*x as u64)); if f != fe { println!("C03 rfold"); return false; }
            if bm.range((s, e)).count() != exp.len() || bm.range((s,e)).len() != exp.len() { println!("C03 count"); return false; } } }
        let _ = format!("{:?}", bm);
    }
    let all: Vec<u32> = bm.iter().collect(); if all != set.iter().copied().collect::<Vec<_>>() { println!("C16 final mismatch"); return false; }
    true
}
fn main() {
    let n: u64 = std::env::args().nth(1).map(|s| s.parse().unwrap()).unwrap_or(300);
    std::panic::set_hook(Box::new(|_| {}));
    for (name, f) in [("ser", ser as fn(u64) -> bool), ("malformed", malformed), ("lsb0", lsb0), ("totality", totality)] {
        let mut fails = 0; let mut first = None;
        for seed in 0..n { let r = catch_unwind(AssertUnwindSafe(|| f(seed * 7919 + 13))); if !matches!(r, Ok(true)) { if r.is_err() { println!("harness panic"); } fails += 1; if first.is_none() { first = Some(seed); } if fails > 3 { break; } } }
        println!("== {name}: fails {fails} first {first:?}");
    }
}
