/-! scratch: prefix-monotone parsers (C14_prefix) -/
namespace P
abbrev Bytes := List Nat
inductive Err | eof | invalid
  deriving DecidableEq, Repr

abbrev Parser (α : Type) := Bytes → Except Err (α × Bytes)

def readExact (n : Nat) : Parser Bytes := fun bs =>
  if n ≤ bs.length then .ok (bs.take n, bs.drop n) else .error .eof

def pure' (a : α) : Parser α := fun bs => .ok (a, bs)
def fail' (e : Err) : Parser α := fun _ => .error e
def bind' (p : Parser α) (f : α → Parser β) : Parser β := fun bs =>
  match p bs with
  | .ok (a, rest) => f a rest
  | .error e => .error e

/-- `p` is prefix-monotone: a success consumes a prefix `used`, works for any continuation, and every
strictly shorter prefix of `used` fails with EOF (never with a value, never with another error). -/
def Mono (p : Parser α) : Prop :=
  ∀ bs a rest, p bs = .ok (a, rest) →
    ∃ used, bs = used ++ rest ∧ (∀ ys, p (used ++ ys) = .ok (a, ys)) ∧
      (∀ k, k < used.length → p (used.take k) = .error .eof)

theorem mono_pure (a : α) : Mono (pure' a) := by
  intro bs a' rest h
  simp [pure'] at h
  obtain ⟨rfl, rfl⟩ := h
  exact ⟨[], by simp, by intro ys; simp [pure'], by intro k hk; simp at hk⟩

theorem mono_fail (e : Err) : Mono (fail' e : Parser α) := by
  intro bs a rest h; simp [fail'] at h

theorem mono_readExact (n : Nat) : Mono (readExact n) := by
  intro bs a rest h
  unfold readExact at h
  split at h
  · rename_i hn
    simp at h
    obtain ⟨rfl, rfl⟩ := h
    refine ⟨bs.take n, by simp, ?_, ?_⟩
    · intro ys
      have hl : (List.take n bs).length = n := by simp; omega
      unfold readExact
      simp [hl]
    · intro k hk
      have hl : (List.take n bs).length = n := by simp; omega
      unfold readExact
      have : ¬ n ≤ (List.take k (List.take n bs)).length := by
        simp only [List.length_take]; rw [hl] at hk; omega
      rw [if_neg this]
  · simp at h

theorem mono_bind (p : Parser α) (f : α → Parser β) (hp : Mono p) (hf : ∀ a, Mono (f a)) :
    Mono (bind' p f) := by
  intro bs b rest h
  unfold bind' at h
  split at h
  · rename_i a r1 hpa
    obtain ⟨u1, hbs, hcont1, hpre1⟩ := hp bs a r1 hpa
    obtain ⟨u2, hr1, hcont2, hpre2⟩ := hf a r1 b rest h
    refine ⟨u1 ++ u2, by rw [hbs, hr1]; simp, ?_, ?_⟩
    · intro ys
      unfold bind'
      rw [List.append_assoc, hcont1 (u2 ++ ys)]
      exact hcont2 ys
    · intro k hk
      unfold bind'
      by_cases hk1 : k < u1.length
      · have : List.take k (u1 ++ u2) = List.take k u1 := by
          rw [List.take_append_of_le_length (by omega)]
        rw [this, hpre1 k hk1]
      · have hk' : k - u1.length < u2.length := by simp at hk; omega
        have : List.take k (u1 ++ u2) = u1 ++ List.take (k - u1.length) u2 := by
          rw [List.take_append]
          have : List.take k u1 = u1 := List.take_of_length_le (by omega)
          rw [this]
        rw [this, hcont1]
        exact hpre2 _ hk'
  · simp at h

/-- corollary shape used by C14: if the whole stream parses with nothing left, every strict prefix is EOF. -/
theorem strict_prefix_eof (p : Parser α) (hp : Mono p) (bs : Bytes) (a : α) (h : p bs = .ok (a, []))
    (k : Nat) (hk : k < bs.length) : p (bs.take k) = .error .eof := by
  obtain ⟨used, hbs, _, hpre⟩ := hp bs a [] h
  simp at hbs
  subst hbs
  exact hpre k hk
end P
#print axioms P.mono_bind
#print axioms P.strict_prefix_eof
