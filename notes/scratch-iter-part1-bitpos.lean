/-! scratch: BitmapIter — list-level facts about `bitPos`/`bitsOf` (part 1) -/
namespace I
def tz : Nat → Nat
  | 0 => 64
  | n+1 => if (n+1) % 2 = 1 then 0 else tz ((n+1)/2) + 1
decreasing_by omega
def popLow (w : Nat) : Nat := w &&& (w - 1)
def bitPos (w : Nat) : List Nat := (List.range 64).filter (fun i => w.testBit i)
def bitsOf (k w : Nat) : List Nat := (bitPos w).map (fun i => 64*k + i)

abbrev Sorted (l : List Nat) : Prop := l.Pairwise (· < ·)

theorem sorted_ext : ∀ (l r : List Nat), Sorted l → Sorted r → (∀ x, x ∈ l ↔ x ∈ r) → l = r := by
  intro l
  induction l with
  | nil => intro r _ _ h; cases r with
    | nil => rfl
    | cons b r => have := (h b).2 (by simp); simp at this
  | cons a l ih =>
    intro r hl hr h
    cases r with
    | nil => have := (h a).1 (by simp); simp at this
    | cons b r =>
      have hab : a = b := by
        have h1 := (h a).1 (by simp)
        have h2 := (h b).2 (by simp)
        simp [Sorted, List.pairwise_cons] at hl hr h1 h2
        rcases h1 with h1 | h1
        · exact h1
        · rcases h2 with h2 | h2
          · exact h2.symm
          · have := hl.1 b h2; have := hr.1 a h1; omega
      subst hab
      congr 1
      apply ih r (List.Pairwise.of_cons hl) (List.Pairwise.of_cons hr)
      intro x
      have hx := h x
      simp [Sorted, List.pairwise_cons] at hl hr hx
      constructor
      · intro hm; have := hl.1 x hm; rcases hx.1 (Or.inr hm) with h' | h'; omega; exact h'
      · intro hm; have := hr.1 x hm; rcases hx.2 (Or.inr hm) with h' | h'; omega; exact h'

theorem sorted_range (n : Nat) : Sorted (List.range n) := by
  unfold Sorted
  rw [List.pairwise_iff_getElem]
  intro i j hi hj hij
  simp [hij]

theorem mem_bitPos (w i : Nat) : i ∈ bitPos w ↔ i < 64 ∧ w.testBit i = true := by
  simp [bitPos, List.mem_filter, List.mem_range]

theorem sorted_bitPos (w : Nat) : Sorted (bitPos w) :=
  List.Pairwise.sublist List.filter_sublist (sorted_range 64)

theorem tz_testBit (w : Nat) (h : w ≠ 0) : w.testBit (tz w) = true ∧ ∀ i, i < tz w → w.testBit i = false := by
  induction w using Nat.strongRecOn with
  | _ w ih =>
    cases w with
    | zero => contradiction
    | succ n =>
      unfold tz
      split
      · rename_i hodd
        refine ⟨?_, by intro i hi; omega⟩
        simp [Nat.testBit_zero, hodd]
      · rename_i heven
        have hne : (n+1)/2 ≠ 0 := by omega
        have := ih ((n+1)/2) (by omega) hne
        refine ⟨?_, ?_⟩
        · rw [Nat.testBit_succ]; exact this.1
        · intro i hi
          cases i with
          | zero => simp [Nat.testBit_zero]; omega
          | succ j => rw [Nat.testBit_succ]; exact this.2 j (by omega)

theorem popLow_testBit (w : Nat) (h : w ≠ 0) (i : Nat) :
    (popLow w).testBit i = (w.testBit i && decide (i ≠ tz w)) := by
  induction w using Nat.strongRecOn generalizing i with
  | _ w ih =>
    cases w with
    | zero => contradiction
    | succ n =>
      by_cases hodd : (n+1) % 2 = 1
      · have htz : tz (n+1) = 0 := by unfold tz; simp [hodd]
        rw [htz]
        unfold popLow
        rw [Nat.testBit_and]
        cases i with
        | zero => simp [Nat.testBit_zero]; omega
        | succ j =>
          simp only [Nat.testBit_succ, Nat.add_sub_cancel]
          have : n / 2 = (n+1)/2 := by omega
          rw [this]; simp
      · have hne : (n+1)/2 ≠ 0 := by omega
        have htz : tz (n+1) = tz ((n+1)/2) + 1 := by
          conv => lhs; unfold tz
          simp [hodd]
        rw [htz]
        unfold popLow
        rw [Nat.testBit_and]
        cases i with
        | zero => simp [Nat.testBit_zero]; omega
        | succ j =>
          simp only [Nat.testBit_succ, Nat.add_sub_cancel]
          have h2 := ih ((n+1)/2) (by omega) hne j
          unfold popLow at h2
          rw [Nat.testBit_and] at h2
          have : n / 2 = (n+1)/2 - 1 := by omega
          rw [this, h2]
          simp

theorem tz_lt (w : Nat) (h : w ≠ 0) (hlt : w < 2^64) : tz w < 64 := by
  have h1 := (tz_testBit w h).1
  by_cases hc : tz w < 64
  · exact hc
  · have : w < 2 ^ tz w := Nat.lt_of_lt_of_le hlt (Nat.pow_le_pow_right (by omega) (by omega))
    rw [Nat.testBit_lt_two_pow this] at h1
    contradiction

theorem bitPos_step (w : Nat) (hw : w ≠ 0) (hlt : w < 2^64) : bitPos w = tz w :: bitPos (popLow w) := by
  apply sorted_ext _ _ (sorted_bitPos w)
  · simp only [Sorted, List.pairwise_cons]
    refine ⟨?_, sorted_bitPos _⟩
    intro i hi
    rw [mem_bitPos, popLow_testBit w hw] at hi
    simp at hi
    have := (tz_testBit w hw).2 i
    by_cases hc : i < tz w
    · have := this hc; simp [this] at hi
    · omega
  · intro i
    simp only [List.mem_cons, mem_bitPos, popLow_testBit w hw]
    constructor
    · intro ⟨h1, h2⟩
      by_cases hc : i = tz w
      · left; exact hc
      · right; simp [h1, h2, hc]
    · intro h
      rcases h with h | h
      · subst h; exact ⟨tz_lt w hw hlt, (tz_testBit w hw).1⟩
      · simp at h; exact ⟨h.1, h.2.1⟩

theorem bitPos_and (w m : Nat) : bitPos (w &&& m) = (bitPos w).filter (fun i => m.testBit i) := by
  simp [bitPos, List.filter_filter, Nat.testBit_and, Bool.and_comm]

theorem bitPos_zero : bitPos 0 = [] := by simp [bitPos]
end I
#print axioms I.bitPos_step
