import I5
/-! scratch: BitmapIter.advance_back_to = filter (· ≤ n), and size_hint = length (part 6) -/
namespace I

/-- `u64::MAX >> (64 - bit - 1)` -/
def maskLEb (b : Nat) : Nat := (W - 1) >>> (64 - b - 1)

def BIter.advanceBackTo (it : BIter) (index : Nat) : BIter :=
  let nk := index / 64
  let m := maskLEb (index % 64)
  if nk > it.keyBack then it
  else if nk = it.keyBack then
    if it.keyBack ≤ it.key then { it with value := it.value &&& m }
    else { it with valueBack := it.valueBack &&& m }
  else if nk > it.key then { it with keyBack := nk, valueBack := word it.bits nk &&& m }
  else if nk = it.key then { it with keyBack := nk, value := it.value &&& m }
  else { it with keyBack := nk, value := 0 }

theorem maskLEb_testBit (b i : Nat) (hb : b < 64) : (maskLEb b).testBit i = decide (i ≤ b) := by
  unfold maskLEb W
  rw [Nat.testBit_shiftRight, Nat.testBit_two_pow_sub_one]
  by_cases h : i ≤ b <;> simp [h] <;> omega

theorem bitsOf_maskLE (k w b : Nat) (hb : b < 64) :
    bitsOf k (w &&& maskLEb b) = (bitsOf k w).filter (fun x => decide (x ≤ 64*k + b)) := by
  unfold bitsOf
  rw [bitPos_and, List.filter_map]
  congr 1
  apply List.filter_congr
  intro i _
  simp only [Function.comp]
  rw [maskLEb_testBit b i hb]
  by_cases h : i ≤ b <;> simp [h]

theorem filterLE_keep (l : List Nat) (n : Nat) (h : ∀ x ∈ l, x ≤ n) : l.filter (fun x => decide (x ≤ n)) = l := by
  rw [List.filter_eq_self]; intro x hx; simp [h x hx]

theorem filterLE_drop (l : List Nat) (n : Nat) (h : ∀ x ∈ l, n < x) : l.filter (fun x => decide (x ≤ n)) = [] := by
  rw [List.filter_eq_nil_iff]; intro x hx; have := h x hx; simp; omega

theorem advanceBackTo_cursor (it : BIter) (hi : it.Inv) (n : Nat) :
    (it.advanceBackTo n).rem = it.rem.filter (fun x => decide (x ≤ n)) ∧ (it.advanceBackTo n).Inv := by
  have hb : n % 64 < 64 := Nat.mod_lt _ (by omega)
  unfold BIter.advanceBackTo
  simp only []
  by_cases c1 : n / 64 > it.keyBack
  · simp only [c1, ↓reduceIte]
    refine ⟨?_, hi⟩
    symm; apply filterLE_keep
    intro x hx
    unfold BIter.rem at hx
    split at hx
    · simp only [List.mem_append] at hx
      rcases hx with (hx | hx) | hx
      · have := bitsOf_bounds _ _ _ hx; omega
      · have := between_bounds _ _ _ _ hx; omega
      · have := bitsOf_bounds _ _ _ hx; omega
    · rename_i hk
      rcases hi.live (by omega) with h | h
      · have := bitsOf_bounds _ _ _ hx; omega
      · rw [h, bitsOf_zero] at hx; simp at hx
  · simp only [c1, ↓reduceIte]
    by_cases c2 : n / 64 = it.keyBack
    · simp only [c2, ↓reduceIte]
      by_cases c3 : it.keyBack ≤ it.key
      · -- live word is `value`
        simp only [c3, ↓reduceIte]
        have hnk : ¬ it.key < it.keyBack := by omega
        refine ⟨?_, ⟨and_lt _ _ hi.v, hi.vb, hi.ws, ?_⟩⟩
        · unfold BIter.rem
          simp only [hnk, ↓reduceIte]
          rcases hi.live c3 with h | h
          · have hm := bitsOf_maskLE it.key it.value (n % 64) hb
            have : 64 * it.key + n % 64 = n := by omega
            rw [this] at hm; exact hm
          · simp [h, bitsOf_zero]
        · intro h
          rcases hi.live h with h' | h'
          · left; exact h'
          · right; simp [h']
      · simp only [c3, ↓reduceIte]
        have hk : it.key < it.keyBack := by omega
        have hm := bitsOf_maskLE it.keyBack it.valueBack (n % 64) hb
        have : 64 * it.keyBack + n % 64 = n := by omega
        rw [this] at hm
        refine ⟨?_, ⟨hi.v, and_lt _ _ hi.vb, hi.ws, by intro h; simp only [] at h; omega⟩⟩
        unfold BIter.rem
        simp only [hk, ↓reduceIte, List.filter_append]
        rw [hm]
        rw [filterLE_keep (bitsOf it.key it.value) n (by intro x hx; have := bitsOf_bounds _ _ _ hx; omega)]
        rw [filterLE_keep (between it.bits it.key it.keyBack) n (by intro x hx; have := between_bounds _ _ _ _ hx; omega)]
    · simp only [c2, ↓reduceIte]
      have c2' : n / 64 < it.keyBack := by omega
      by_cases c4 : n / 64 > it.key
      · -- a fresh word strictly between becomes the back word
        simp only [c4, ↓reduceIte]
        have hk : it.key < it.keyBack := by omega
        have hm := bitsOf_maskLE (n / 64) (word it.bits (n / 64)) (n % 64) hb
        have : 64 * (n / 64) + n % 64 = n := by omega
        rw [this] at hm
        refine ⟨?_, ⟨hi.v, and_lt _ _ (hi.ws _), hi.ws, by intro h; simp only [] at h; omega⟩⟩
        unfold BIter.rem
        simp only [hk, c4, ↓reduceIte]
        rw [between_split it.bits it.key (n / 64) it.keyBack c4 c2']
        simp only [List.filter_append]
        rw [hm]
        rw [filterLE_keep (bitsOf it.key it.value) n (by intro x hx; have := bitsOf_bounds _ _ _ hx; omega)]
        rw [filterLE_keep (between it.bits it.key (n / 64)) n (by intro x hx; have := between_bounds _ _ _ _ hx; omega)]
        rw [filterLE_drop (between it.bits (n / 64) it.keyBack) n (by intro x hx; have := between_bounds _ _ _ _ hx; omega)]
        rw [filterLE_drop (bitsOf it.keyBack it.valueBack) n (by intro x hx; have := bitsOf_bounds _ _ _ hx; omega)]
        simp
      · simp only [c4, ↓reduceIte]
        by_cases c5 : n / 64 = it.key
        · simp only [c5, ↓reduceIte]
          have hk : it.key < it.keyBack := by omega
          have hm := bitsOf_maskLE it.key it.value (n % 64) hb
          have : 64 * it.key + n % 64 = n := by omega
          rw [this] at hm
          refine ⟨?_, ⟨and_lt _ _ hi.v, hi.vb, hi.ws, by intro _; left; rfl⟩⟩
          unfold BIter.rem
          simp only [hk, Nat.lt_irrefl, ↓reduceIte, List.filter_append]
          rw [hm]
          rw [filterLE_drop (between it.bits it.key it.keyBack) n (by intro x hx; have := between_bounds _ _ _ _ hx; omega)]
          rw [filterLE_drop (bitsOf it.keyBack it.valueBack) n (by intro x hx; have := bitsOf_bounds _ _ _ hx; omega)]
          simp
        · simp only [c5, ↓reduceIte]
          have c5' : n / 64 < it.key := by omega
          refine ⟨?_, ⟨by simp, hi.vb, hi.ws, by intro _; right; rfl⟩⟩
          have hnk : ¬ it.key < n / 64 := by omega
          unfold BIter.rem
          simp only [hnk, ↓reduceIte, bitsOf_zero]
          symm
          split
          · simp only [List.filter_append]
            rw [filterLE_drop (bitsOf it.key it.value) n (by intro x hx; have := bitsOf_bounds _ _ _ hx; omega)]
            rw [filterLE_drop (between it.bits it.key it.keyBack) n (by intro x hx; have := between_bounds _ _ _ _ hx; omega)]
            rw [filterLE_drop (bitsOf it.keyBack it.valueBack) n (by intro x hx; have := bitsOf_bounds _ _ _ hx; omega)]
            simp
          · exact filterLE_drop _ n (by intro x hx; have := bitsOf_bounds _ _ _ hx; omega)

/-! size_hint -/
def popcount (w : Nat) : Nat := (List.range 64).countP (fun i => w.testBit i)

def BIter.sizeHint (it : BIter) : Nat :=
  popcount it.value +
    (if it.key < it.keyBack then
      ((List.range' (it.key+1) (it.keyBack - it.key - 1)).map (fun j => popcount (word it.bits j))).sum
        + popcount it.valueBack
     else 0)

theorem length_bitsOf (k w : Nat) : (bitsOf k w).length = popcount w := by
  simp [bitsOf, bitPos, popcount, List.countP_eq_length_filter]

theorem length_between (bits : List Nat) (k kb : Nat) :
    (between bits k kb).length = ((List.range' (k+1) (kb - k - 1)).map (fun j => popcount (word bits j))).sum := by
  unfold between
  rw [List.length_flatMap]
  congr 1
  apply List.map_congr_left
  intro j _
  exact length_bitsOf _ _

theorem sizeHint_exact (it : BIter) : it.sizeHint = it.rem.length := by
  unfold BIter.sizeHint BIter.rem
  split
  · simp [length_bitsOf, length_between]
  · simp [length_bitsOf]
end I
#print axioms I.advanceBackTo_cursor
#print axioms I.sizeHint_exact
