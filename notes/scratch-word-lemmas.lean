namespace W

/-- trailing_zeros for a non-zero word (fuel = the value itself suffices) -/
def tz : Nat → Nat
  | 0 => 64
  | n+1 => if (n+1) % 2 = 1 then 0 else tz ((n+1)/2) + 1
decreasing_by omega

/-- ascending list of set bit positions of w -/
def bitPos (w : Nat) : List Nat := (List.range 64).filter (fun i => w.testBit i)

/-- same, computed the way the code does: take lowest set bit, clear it -/
def popLow (w : Nat) : Nat := w &&& (w - 1)

theorem tz_testBit (w : Nat) (h : w ≠ 0) : w.testBit (tz w) = true ∧ ∀ i, i < tz w → w.testBit i = false := by
  induction w using Nat.strongRecOn with
  | _ w ih =>
    cases w with
    | zero => contradiction
    | succ n =>
      unfold tz
      split
      · rename_i hodd
        refine ⟨?_, by intro i hi; omega⟩
        simp [Nat.testBit_zero, hodd]
      · rename_i heven
        have hne : (n+1)/2 ≠ 0 := by omega
        have := ih ((n+1)/2) (by omega) hne
        refine ⟨?_, ?_⟩
        · rw [Nat.testBit_succ]; exact this.1
        · intro i hi
          cases i with
          | zero => simp [Nat.testBit_zero]; omega
          | succ j => rw [Nat.testBit_succ]; exact this.2 j (by omega)

theorem popLow_testBit (w : Nat) (h : w ≠ 0) (i : Nat) :
    (popLow w).testBit i = (w.testBit i && decide (i ≠ tz w)) := by
  induction w using Nat.strongRecOn generalizing i with
  | _ w ih =>
    cases w with
    | zero => contradiction
    | succ n =>
      by_cases hodd : (n+1) % 2 = 1
      · -- odd: w-1 = w with bit 0 cleared
        have htz : tz (n+1) = 0 := by unfold tz; simp [hodd]
        rw [htz]
        unfold popLow
        rw [Nat.testBit_and]
        cases i with
        | zero => simp [Nat.testBit_zero]; omega
        | succ j =>
          simp only [Nat.testBit_succ, Nat.add_sub_cancel]
          have : n / 2 = (n+1)/2 := by omega
          rw [this]; simp
      · have hne : (n+1)/2 ≠ 0 := by omega
        have htz : tz (n+1) = tz ((n+1)/2) + 1 := by
          conv => lhs; unfold tz
          simp [hodd]
        rw [htz]
        unfold popLow
        rw [Nat.testBit_and]
        cases i with
        | zero => simp [Nat.testBit_zero]; omega
        | succ j =>
          simp only [Nat.testBit_succ, Nat.add_sub_cancel]
          have h2 := ih ((n+1)/2) (by omega) hne j
          unfold popLow at h2
          rw [Nat.testBit_and] at h2
          have : n / 2 = (n+1)/2 - 1 := by omega
          rw [this, h2]
          simp

end W
#print axioms W.popLow_testBit
