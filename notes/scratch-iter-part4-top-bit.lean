import I3
/-! scratch: top-bit lemmas for next_back (part 4) -/
namespace I
/-- 63 - leading_zeros for a non-zero u64 -/
def hiBit (w : Nat) : Nat := Nat.log2 w
/-- `*value &= !(1 << index)` with index = hiBit -/
def popHigh (w : Nat) : Nat := w &&& not64 (1 <<< hiBit w)

#check @Nat.log2_lt
#check @Nat.log2_self_le
#check @Nat.lt_log2_self
#check @Nat.testBit_eq_decide_div_mod_eq

theorem hiBit_testBit (w : Nat) (h : w ≠ 0) : w.testBit (hiBit w) = true ∧ ∀ i, hiBit w < i → w.testBit i = false := by
  unfold hiBit
  have h1 : 2 ^ w.log2 ≤ w := Nat.log2_self_le h
  have h2 : w < 2 ^ (w.log2 + 1) := Nat.lt_log2_self
  constructor
  · rw [Nat.testBit_eq_decide_div_mod_eq]
    have : w / 2 ^ w.log2 = 1 := by
      apply Nat.div_eq_of_lt_le
      · simpa using h1
      · rw [Nat.pow_succ] at h2; omega
    simp [this]
  · intro i hi
    apply Nat.testBit_lt_two_pow
    exact Nat.lt_of_lt_of_le h2 (Nat.pow_le_pow_right (by omega) (by omega))

theorem hiBit_lt (w : Nat) (h : w ≠ 0) (hlt : w < 2^64) : hiBit w < 64 := by
  unfold hiBit
  rw [Nat.log2_lt h]; exact hlt

theorem popHigh_testBit (w : Nat) (h : w ≠ 0) (hlt : w < 2^64) (i : Nat) (hi : i < 64) :
    (popHigh w).testBit i = (w.testBit i && decide (i ≠ hiBit w)) := by
  unfold popHigh not64 W
  rw [Nat.testBit_and, Nat.testBit_xor, Nat.testBit_two_pow_sub_one, Nat.one_shiftLeft, Nat.testBit_two_pow]
  by_cases hc : hiBit w = i
  · subst hc; simp [hi]
  · have hc' : ¬ i = hiBit w := fun h => hc h.symm
    simp [hi, hc, hc']

theorem bitPos_step_back (w : Nat) (hw : w ≠ 0) (hlt : w < 2^64) :
    bitPos w = bitPos (popHigh w) ++ [hiBit w] := by
  apply sorted_ext _ _ (sorted_bitPos w)
  · rw [Sorted, List.pairwise_append]
    refine ⟨sorted_bitPos _, by simp, ?_⟩
    intro a ha b hb
    simp at hb; subst hb
    rw [mem_bitPos] at ha
    rw [popHigh_testBit w hw hlt a ha.1] at ha
    simp at ha
    have := (hiBit_testBit w hw).2 a
    by_cases hc : hiBit w < a
    · have := this hc; simp [this] at ha
    · omega
  · intro i
    simp only [List.mem_append, List.mem_singleton, mem_bitPos]
    constructor
    · intro ⟨h1, h2⟩
      by_cases hc : i = hiBit w
      · right; exact hc
      · left; refine ⟨h1, ?_⟩; rw [popHigh_testBit w hw hlt i h1]; simp [h2, hc]
    · intro h
      rcases h with ⟨h1, h2⟩ | h
      · rw [popHigh_testBit w hw hlt i h1] at h2; simp at h2; exact ⟨h1, h2.1⟩
      · subst h; exact ⟨hiBit_lt w hw hlt, (hiBit_testBit w hw).1⟩
end I
#print axioms I.bitPos_step_back
