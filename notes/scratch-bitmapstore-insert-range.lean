/-! scratch: BitmapStore::insert_range (bitmap_store.rs:112-157) — membership and cached `len` -/
namespace R
def W : Nat := 2^64
def not64 (x : Nat) : Nat := (W - 1) ^^^ x
def popcount (w : Nat) : Nat := (List.range 64).countP (fun i => w.testBit i)
def word (bits : List Nat) (k : Nat) : Nat := bits.getD k 0

/-- `!((1 << start_bit) - 1)` -/
def maskGE (sb : Nat) : Nat := not64 ((1 <<< sb) - 1)
/-- `if end_bit == 63 { u64::MAX } else { (1 << (end_bit + 1)) - 1 }` -/
def maskLE (eb : Nat) : Nat := if eb = 63 then W - 1 else (1 <<< (eb + 1)) - 1

structure BStore where
  len : Nat
  bits : List Nat

/-- the code, phase by phase -/
def insertRange (s : BStore) (start end_ : Nat) : BStore × Nat :=
  let sk := start / 64; let sb := start % 64
  let ek := end_ / 64;  let eb := end_ % 64
  if sk = ek then
    let mask := maskLE eb &&& maskGE sb
    let existed := popcount (word s.bits sk &&& mask)
    let bits := s.bits.set sk (word s.bits sk ||| mask)
    let inserted := (end_ - start + 1) - existed
    ({ len := s.len + inserted, bits := bits }, inserted)
  else
    let mask1 := maskGE sb
    let existed1 := popcount (word s.bits sk &&& mask1)
    let bits1 := s.bits.set sk (word s.bits sk ||| mask1)
    let existedMid := ((List.range' (sk+1) (ek - sk - 1)).map (fun i => popcount (word bits1 i))).sum
    let bits2 := bits1.mapIdx (fun i w => if sk < i ∧ i < ek then W - 1 else w)
    let mask2 := maskLE eb
    let existed3 := popcount (word bits2 ek &&& mask2)
    let bits3 := bits2.set ek (word bits2 ek ||| mask2)
    let inserted := end_ - start + 1 - (existed1 + existedMid + existed3)
    ({ len := s.len + inserted, bits := bits3 }, inserted)

/-- the mask applied to word `i` by a range insert -/
def rangeMask (sk sb ek eb i : Nat) : Nat :=
  if i < sk ∨ ek < i then 0
  else if sk = ek then maskLE eb &&& maskGE sb
  else if i = sk then maskGE sb
  else if i = ek then maskLE eb
  else W - 1

/-! mask facts over the finite bit positions: complete `decide +kernel` tables -/
theorem maskGE_tb : ∀ sb i : Fin 64, (maskGE sb.val).testBit i.val = decide (sb.val ≤ i.val) := by decide +kernel
theorem maskLE_tb : ∀ eb i : Fin 64, (maskLE eb.val).testBit i.val = decide (i.val ≤ eb.val) := by decide +kernel
theorem maskGE_lt : ∀ sb : Fin 64, maskGE sb.val < 2^64 := by decide +kernel
theorem maskLE_lt : ∀ eb : Fin 64, maskLE eb.val < 2^64 := by decide +kernel
theorem popcount_maskGE : ∀ sb : Fin 64, popcount (maskGE sb.val) = 64 - sb.val := by decide +kernel
theorem popcount_maskLE : ∀ eb : Fin 64, popcount (maskLE eb.val) = eb.val + 1 := by decide +kernel
theorem popcount_maskSame : ∀ sb eb : Fin 64, sb.val ≤ eb.val →
    popcount (maskLE eb.val &&& maskGE sb.val) = eb.val - sb.val + 1 := by decide +kernel
theorem popcount_full : popcount (W - 1) = 64 := by decide +kernel

theorem or_full (w : Nat) (h : w < 2^64) : w ||| (W - 1) = W - 1 := by
  apply Nat.eq_of_testBit_eq
  intro i
  unfold W
  rw [Nat.testBit_or, Nat.testBit_two_pow_sub_one]
  by_cases hi : i < 64
  · simp [hi]
  · have : w < 2^i := Nat.lt_of_lt_of_le h (Nat.pow_le_pow_right (by omega) (by omega))
    simp [hi, Nat.testBit_lt_two_pow this]

/-- pointwise description of the new words -/
theorem insertRange_bits (s : BStore) (start end_ : Nat) (h : start ≤ end_) (he : end_ < 65536)
    (hl : s.bits.length = 1024) (hw : ∀ x ∈ s.bits, x < 2^64) (i : Nat) (hi : i < 1024) :
    word (insertRange s start end_).1.bits i =
      word s.bits i ||| rangeMask (start/64) (start%64) (end_/64) (end_%64) i := by
  unfold insertRange rangeMask word
  simp only []
  have hsk : start / 64 < 1024 := by omega
  have hek : end_ / 64 < 1024 := by omega
  by_cases c : start / 64 = end_ / 64
  · simp only [c, ↓reduceIte]
    by_cases ci : i = end_ / 64
    · subst ci
      simp [List.getD_eq_getElem?_getD, List.getElem?_set, hl, hi]
    · have : ¬ (end_ / 64 = i) := fun h => ci h.symm
      simp only [List.getD_eq_getElem?_getD, List.getElem?_set, this, ↓reduceIte]
      have : i < end_ / 64 ∨ end_ / 64 < i := by omega
      simp [this]
  · simp only [c, ↓reduceIte]
    simp only [List.getD_eq_getElem?_getD, List.getElem?_set, List.getElem?_mapIdx, List.length_mapIdx,
      List.length_set, hl, hi, hek, hsk]
    by_cases c1 : i < start / 64 ∨ end_ / 64 < i
    · have e1 : ¬ (end_ / 64 = i) := by omega
      have e2 : ¬ (start / 64 = i) := by omega
      have e3 : ¬ (start / 64 < i ∧ i < end_ / 64) := by omega
      simp [c1, e1, e2, e3, List.getElem?_set, hl, hi]
    · simp only [c1, ↓reduceIte]
      by_cases c2 : i = start / 64
      · subst c2
        have e1 : ¬ (end_ / 64 = start / 64) := fun h => c h.symm
        simp [e1, List.getElem?_set, hl, hi]
      · by_cases c3 : i = end_ / 64
        · subst c3
          have e2 : ¬ (start / 64 = end_ / 64) := c
          simp [c2, e2, List.getElem?_set, hl, hi]
        · have e1 : ¬ (end_ / 64 = i) := fun h => c3 h.symm
          have e2 : ¬ (start / 64 = i) := fun h => c2 h.symm
          have e3 : start / 64 < i ∧ i < end_ / 64 := by omega
          simp [c2, c3, e1, e2, e3, List.getElem?_set, hl, hi]
          exact (or_full _ (hw _ (List.getElem_mem _))).symm
end R
#print axioms R.insertRange_bits
#print axioms R.popcount_maskSame
