import I1
/-! scratch: BitmapIter model (with the D1 repair) and its cursor lemmas (part 2) -/
namespace I

def word (bits : List Nat) (k : Nat) : Nat := bits.getD k 0
def W : Nat := 2^64
def not64 (x : Nat) : Nat := (W - 1) ^^^ x

structure BIter where
  key : Nat
  value : Nat
  keyBack : Nat
  valueBack : Nat
  bits : List Nat

def between (bits : List Nat) (k kb : Nat) : List Nat :=
  (List.range' (k+1) (kb - k - 1)).flatMap (fun j => bitsOf j (word bits j))

def BIter.rem (it : BIter) : List Nat :=
  if it.key < it.keyBack then
    bitsOf it.key it.value ++ between it.bits it.key it.keyBack ++ bitsOf it.keyBack it.valueBack
  else bitsOf it.key it.value

structure BIter.Inv (it : BIter) : Prop where
  v : it.value < 2^64
  vb : it.valueBack < 2^64
  ws : ∀ k, word it.bits k < 2^64
  live : it.keyBack ≤ it.key → it.keyBack = it.key ∨ it.value = 0

def BIter.emit (it : BIter) : BIter × Option Nat :=
  ({ it with value := popLow it.value }, some (64 * it.key + tz it.value))

def BIter.next (it : BIter) : BIter × Option Nat :=
  if it.value ≠ 0 then it.emit
  else if it.key ≥ it.keyBack then (it, none)
  else match (List.range' (it.key+1) (it.keyBack - it.key - 1)).find? (fun k => word it.bits k != 0) with
    | some k => BIter.emit { it with key := k, value := word it.bits k }
    | none =>
      let it' := { it with key := it.keyBack, value := it.valueBack }
      if it'.value = 0 then (it', none) else it'.emit

/-! ### bitsOf facts -/
theorem bitsOf_zero (k) : bitsOf k 0 = [] := by simp [bitsOf, bitPos_zero]

theorem bitsOf_step (k w) (hw : w ≠ 0) (hlt : w < 2^64) :
    bitsOf k w = (64*k + tz w) :: bitsOf k (popLow w) := by
  simp [bitsOf, bitPos_step w hw hlt]

theorem mem_bitsOf (k w x : Nat) : x ∈ bitsOf k w ↔ ∃ i, i < 64 ∧ w.testBit i = true ∧ x = 64*k + i := by
  simp only [bitsOf, List.mem_map, mem_bitPos]
  constructor
  · rintro ⟨i, ⟨h1, h2⟩, rfl⟩; exact ⟨i, h1, h2, rfl⟩
  · rintro ⟨i, h1, h2, rfl⟩; exact ⟨i, ⟨h1, h2⟩, rfl⟩

theorem bitsOf_bounds (k w x : Nat) (h : x ∈ bitsOf k w) : 64*k ≤ x ∧ x < 64*k + 64 := by
  rw [mem_bitsOf] at h
  obtain ⟨i, h1, _, rfl⟩ := h
  omega

theorem popLow_lt (w : Nat) (h : w < 2^64) : popLow w < 2^64 := by
  unfold popLow
  exact Nat.lt_of_le_of_lt Nat.and_le_left h

theorem between_nil_of_find_none (bits k kb)
    (h : (List.range' (k+1) (kb - k - 1)).find? (fun j => word bits j != 0) = none) :
    between bits k kb = [] := by
  unfold between
  rw [List.find?_eq_none] at h
  simp only [List.flatMap_eq_nil_iff]
  intro j hj
  have := h j hj
  simp at this
  simp [this, bitsOf_zero]

/-- splitting the words strictly between `k` and `kb` at a word `j` in that range -/
theorem between_split (bits : List Nat) (k j kb : Nat) (h1 : k < j) (h2 : j < kb) :
    between bits k kb = between bits k j ++ bitsOf j (word bits j) ++ between bits j kb := by
  unfold between
  have e : List.range' (k+1) (kb - k - 1) =
      List.range' (k+1) (j - k - 1) ++ (j :: List.range' (j+1) (kb - j - 1)) := by
    have h3 : kb - k - 1 = (j - k - 1) + (1 + (kb - j - 1)) := by omega
    rw [h3, ← List.range'_append_1]
    have h4 : k + 1 + (j - k - 1) = j := by omega
    rw [h4]
    congr 1
    rw [Nat.add_comm 1, List.range'_succ]
  rw [e]
  simp [List.flatMap_append]

theorem between_nil_prefix_of_find (bits : List Nat) (k j kb : Nat)
    (h : (List.range' (k+1) (kb - k - 1)).find? (fun i => word bits i != 0) = some j) :
    k < j ∧ j < kb ∧ word bits j ≠ 0 ∧ between bits k j = [] := by
  have hmem := List.mem_of_find?_eq_some h
  have hp := List.find?_some h
  rw [List.mem_range'_1] at hmem
  simp at hp
  refine ⟨by omega, by omega, hp, ?_⟩
  -- every earlier word in the range is zero
  unfold between
  simp only [List.flatMap_eq_nil_iff]
  intro i hi
  rw [List.mem_range'_1] at hi
  -- i < j within the search range ⇒ predicate false at i
  have := List.find?_eq_some_iff_append.mp h
  obtain ⟨_, as, bs, hsplit, hall⟩ := this
  -- i is in `as`
  have hi_mem : i ∈ List.range' (k+1) (kb - k - 1) := by rw [List.mem_range'_1]; omega
  rw [hsplit] at hi_mem
  have hsorted : (List.range' (k+1) (kb - k - 1)).Pairwise (· < ·) := List.pairwise_lt_range'
  rw [hsplit] at hsorted
  rcases List.mem_append.mp hi_mem with hia | hib
  · have := hall i hia
    simp at this
    simp [this, bitsOf_zero]
  · -- then j ≤ i, contradiction
    rw [List.pairwise_append] at hsorted
    have hjb := hsorted.2.1
    rcases List.mem_cons.mp hib with hij | hib'
    · omega
    · have := (List.pairwise_cons.mp hjb).1 i hib'
      omega

theorem next_cursor (it : BIter) (hi : it.Inv) :
    it.next.2 = it.rem.head? ∧ it.next.1.rem = it.rem.tail ∧ it.next.1.Inv := by
  unfold BIter.next
  by_cases hv : it.value = 0
  · simp only [hv, ne_eq, not_true_eq_false, ↓reduceIte]
    by_cases hk : it.key ≥ it.keyBack
    · have hnk : ¬ it.key < it.keyBack := by omega
      simp [hk, BIter.rem, hnk, hv, bitsOf_zero, hi]
    · have hk' : it.key < it.keyBack := by omega
      simp only [hk, ↓reduceIte]
      split
      · rename_i j hfind
        obtain ⟨h1, h2, h3, h4⟩ := between_nil_prefix_of_find it.bits it.key j it.keyBack hfind
        have hstep := bitsOf_step j (word it.bits j) h3 (hi.ws j)
        simp only [BIter.emit, BIter.rem, hk', h2, ↓reduceIte, hv, bitsOf_zero, List.nil_append]
        rw [between_split it.bits it.key j it.keyBack h1 h2, h4, hstep]
        refine ⟨by simp, by simp, ?_⟩
        exact ⟨popLow_lt _ (hi.ws j), hi.vb, hi.ws, by intro h; simp only [] at h; omega⟩
      · rename_i hfind
        have hb := between_nil_of_find_none it.bits it.key it.keyBack hfind
        by_cases hvb : it.valueBack = 0
        · simp [hvb, BIter.rem, hk', hv, hb, bitsOf_zero]
          exact ⟨by simp, by simp, hi.ws, by intro _; left; rfl⟩
        · have hstep := bitsOf_step it.keyBack it.valueBack hvb hi.vb
          simp only [hvb, ↓reduceIte, BIter.emit, BIter.rem, hk', hv, bitsOf_zero, hb, List.nil_append,
            Nat.lt_irrefl]
          rw [hstep]
          refine ⟨by simp, by simp, ?_⟩
          exact ⟨popLow_lt _ hi.vb, hi.vb, hi.ws, by intro _; left; rfl⟩
  · have hstep := bitsOf_step it.key it.value hv hi.v
    simp only [hv, ne_eq, not_false_eq_true, ↓reduceIte, BIter.emit]
    refine ⟨?_, ?_, ?_⟩
    · unfold BIter.rem; split <;> simp [hstep]
    · unfold BIter.rem; simp only []; split <;> simp [hstep]
    · refine ⟨popLow_lt _ hi.v, hi.vb, hi.ws, ?_⟩
      intro h
      rcases hi.live h with h' | h'
      · left; exact h'
      · exact absurd h' hv
end I
#print axioms I.next_cursor
