import I2
/-! scratch: BitmapIter.advance_to (with the D1 repair) = filter (n ≤ ·) on the remaining list (part 3) -/
namespace I

def maskGE (b : Nat) : Nat := not64 ((1 <<< b) - 1)

def BIter.advanceTo (it : BIter) (index : Nat) : BIter :=
  let nk := index / 64
  let b := index % 64
  if nk < it.key then it
  else if nk = it.key then { it with value := it.value &&& maskGE b }
  else if nk < it.keyBack then { it with key := nk, value := word it.bits nk &&& maskGE b }
  else if nk = it.keyBack then { it with key := nk, value := it.valueBack &&& maskGE b }
  else { it with key := it.keyBack, value := 0, valueBack := 0 }   -- D1 repair: nothing remains

theorem maskGE_testBit (b i : Nat) (hi : i < 64) : (maskGE b).testBit i = decide (b ≤ i) := by
  unfold maskGE not64 W
  rw [Nat.testBit_xor, Nat.testBit_two_pow_sub_one, Nat.one_shiftLeft, Nat.testBit_two_pow_sub_one]
  by_cases h : i < b <;> simp [hi, h] <;> omega

theorem bitsOf_mask (k w b : Nat) (hb : b < 64) :
    bitsOf k (w &&& maskGE b) = (bitsOf k w).filter (fun x => decide (64*k + b ≤ x)) := by
  unfold bitsOf
  rw [bitPos_and, List.filter_map]
  congr 1
  apply List.filter_congr
  intro i hi
  rw [mem_bitPos] at hi
  simp only [Function.comp]
  rw [maskGE_testBit b i hi.1]
  by_cases h : b ≤ i <;> simp [h]

theorem and_lt (w m : Nat) (h : w < 2^64) : w &&& m < 2^64 := Nat.lt_of_le_of_lt Nat.and_le_left h

theorem between_bounds (bits : List Nat) (k kb x : Nat) (h : x ∈ between bits k kb) :
    64*(k+1) ≤ x ∧ x < 64*kb := by
  unfold between at h
  rw [List.mem_flatMap] at h
  obtain ⟨j, hj, hx⟩ := h
  rw [List.mem_range'_1] at hj
  have := bitsOf_bounds j _ x hx
  omega

theorem filter_keep (l : List Nat) (n : Nat) (h : ∀ x ∈ l, n ≤ x) : l.filter (fun x => decide (n ≤ x)) = l := by
  rw [List.filter_eq_self]; intro x hx; simp [h x hx]

theorem filter_drop (l : List Nat) (n : Nat) (h : ∀ x ∈ l, x < n) : l.filter (fun x => decide (n ≤ x)) = [] := by
  rw [List.filter_eq_nil_iff]; intro x hx; have := h x hx; simp; omega

theorem advanceTo_cursor (it : BIter) (hi : it.Inv) (n : Nat) :
    (it.advanceTo n).rem = it.rem.filter (fun x => decide (n ≤ x)) ∧ (it.advanceTo n).Inv := by
  have hb : n % 64 < 64 := Nat.mod_lt _ (by omega)
  have hn : n = 64 * (n / 64) + n % 64 := by omega
  unfold BIter.advanceTo
  simp only []
  by_cases c1 : n / 64 < it.key
  · -- target word is before the front word: nothing to discard
    simp only [c1, ↓reduceIte]
    refine ⟨?_, hi⟩
    symm; apply filter_keep
    intro x hx
    unfold BIter.rem at hx
    split at hx
    · simp only [List.mem_append] at hx
      rcases hx with (hx | hx) | hx
      · have := bitsOf_bounds _ _ _ hx; omega
      · have := between_bounds _ _ _ _ hx; omega
      · have := bitsOf_bounds _ _ _ hx; omega
    · have := bitsOf_bounds _ _ _ hx; omega
  · simp only [c1, ↓reduceIte]
    by_cases c2 : n / 64 = it.key
    · -- same word: mask the live front word
      simp only [c2, ↓reduceIte]
      have hm := bitsOf_mask it.key it.value (n % 64) hb
      have hn' : 64 * it.key + n % 64 = n := by omega
      rw [hn'] at hm
      refine ⟨?_, ⟨and_lt _ _ hi.v, hi.vb, hi.ws, ?_⟩⟩
      · unfold BIter.rem
        simp only []
        split
        · rw [List.filter_append, List.filter_append, hm]
          congr 1
          · congr 1
            symm; apply filter_keep
            intro x hx; have := between_bounds _ _ _ _ hx; omega
          · symm; apply filter_keep
            intro x hx; have := bitsOf_bounds _ _ _ hx; omega
        · exact hm
      · intro h
        rcases hi.live h with h' | h'
        · left; exact h'
        · right; simp [h']
    · simp only [c2, ↓reduceIte]
      have c2' : it.key < n / 64 := by omega
      by_cases c3 : n / 64 < it.keyBack
      · -- a fresh word strictly between front and back
        simp only [c3, ↓reduceIte]
        have hkb : it.key < it.keyBack := by omega
        have hm := bitsOf_mask (n / 64) (word it.bits (n / 64)) (n % 64) hb
        rw [← hn] at hm
        refine ⟨?_, ⟨and_lt _ _ (hi.ws _), hi.vb, hi.ws, by intro h; simp only [] at h; omega⟩⟩
        unfold BIter.rem
        simp only [c3, hkb, ↓reduceIte]
        rw [between_split it.bits it.key (n / 64) it.keyBack c2' c3]
        simp only [List.filter_append]
        rw [hm]
        rw [filter_drop (bitsOf it.key it.value) n (by intro x hx; have := bitsOf_bounds _ _ _ hx; omega)]
        rw [filter_drop (between it.bits it.key (n / 64)) n (by intro x hx; have := between_bounds _ _ _ _ hx; omega)]
        rw [filter_keep (between it.bits (n / 64) it.keyBack) n (by intro x hx; have := between_bounds _ _ _ _ hx; omega)]
        rw [filter_keep (bitsOf it.keyBack it.valueBack) n (by intro x hx; have := bitsOf_bounds _ _ _ hx; omega)]
        simp
      · simp only [c3, ↓reduceIte]
        by_cases c4 : n / 64 = it.keyBack
        · -- the back word becomes the live front word
          simp only [c4, ↓reduceIte]
          have hkb : it.key < it.keyBack := by omega
          have hm := bitsOf_mask it.keyBack it.valueBack (n % 64) hb
          have hn' : 64 * it.keyBack + n % 64 = n := by omega
          rw [hn'] at hm
          refine ⟨?_, ⟨and_lt _ _ hi.vb, hi.vb, hi.ws, by intro _; left; rfl⟩⟩
          unfold BIter.rem
          simp only [hkb, Nat.lt_irrefl, ↓reduceIte]
          simp only [List.filter_append]
          rw [hm]
          rw [filter_drop (bitsOf it.key it.value) n (by intro x hx; have := bitsOf_bounds _ _ _ hx; omega)]
          rw [filter_drop (between it.bits it.key it.keyBack) n (by intro x hx; have := between_bounds _ _ _ _ hx; omega)]
          simp
        · -- D1 branch: target is past the back cursor, nothing remains
          simp only [c4, ↓reduceIte]
          refine ⟨?_, ⟨by simp, by simp, hi.ws, by intro _; left; rfl⟩⟩
          unfold BIter.rem
          simp only [Nat.lt_irrefl, ↓reduceIte, bitsOf_zero]
          symm
          split
          · simp only [List.filter_append]
            rw [filter_drop (bitsOf it.key it.value) n (by intro x hx; have := bitsOf_bounds _ _ _ hx; omega)]
            rw [filter_drop (between it.bits it.key it.keyBack) n (by intro x hx; have := between_bounds _ _ _ _ hx; omega)]
            rw [filter_drop (bitsOf it.keyBack it.valueBack) n (by intro x hx; have := bitsOf_bounds _ _ _ hx; omega)]
            simp
          · exact filter_drop _ n (by intro x hx; have := bitsOf_bounds _ _ _ hx; omega)

/-- The unrepaired code (D1): past the back cursor it only zeroes `value_back`. -/
def BIter.advanceToOld (it : BIter) (index : Nat) : BIter :=
  let nk := index / 64
  let b := index % 64
  if nk < it.key then it
  else if nk = it.key then { it with value := it.value &&& maskGE b }
  else if nk < it.keyBack then { it with key := nk, value := word it.bits nk &&& maskGE b }
  else if nk = it.keyBack then { it with key := nk, value := it.valueBack &&& maskGE b }
  else { it with valueBack := 0 }

/-- machine-checked witness that the old branch is wrong: stale elements survive -/
example :
    let it : BIter := { key := 0, value := 1, keyBack := 1, valueBack := 0, bits := [1, 0, 0] }
    (it.advanceToOld 200).rem = [0] ∧ it.rem.filter (fun x => decide (200 ≤ x)) = [] := by
  decide
end I
#print axioms I.advanceTo_cursor
