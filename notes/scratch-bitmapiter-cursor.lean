/-! scratch: BitmapIter.next as a cursor over `rem` — feasibility of the C03 kernel proof -/
namespace B
def tz : Nat → Nat
  | 0 => 64
  | n+1 => if (n+1) % 2 = 1 then 0 else tz ((n+1)/2) + 1
decreasing_by omega
def popLow (w : Nat) : Nat := w &&& (w - 1)
def bitPos (w : Nat) : List Nat := (List.range 64).filter (fun i => w.testBit i)
def bitsOf (k w : Nat) : List Nat := (bitPos w).map (fun i => 64*k + i)
def word (bits : List Nat) (k : Nat) : Nat := bits.getD k 0

structure BIter where
  key : Nat
  value : Nat
  keyBack : Nat
  valueBack : Nat
  bits : List Nat

def between (bits : List Nat) (k kb : Nat) : List Nat :=
  (List.range' (k+1) (kb - k - 1)).flatMap (fun j => bitsOf j (word bits j))

def BIter.rem (it : BIter) : List Nat :=
  if it.key < it.keyBack then bitsOf it.key it.value ++ between it.bits it.key it.keyBack ++ bitsOf it.keyBack it.valueBack
  else bitsOf it.key it.value

def BIter.emit (it : BIter) : BIter × Option Nat :=
  ({ it with value := popLow it.value }, some (64 * it.key + tz it.value))

def BIter.next (it : BIter) : BIter × Option Nat :=
  if it.value ≠ 0 then it.emit
  else if it.key ≥ it.keyBack then (it, none)
  else match (List.range' (it.key+1) (it.keyBack - it.key - 1)).find? (fun k => word it.bits k != 0) with
    | some k => BIter.emit { it with key := k, value := word it.bits k }
    | none =>
      let it' := { it with key := it.keyBack, value := it.valueBack }
      if it'.value = 0 then (it', none) else it'.emit

-- assumed here (proved in scratch-word-lemmas for testBit; list form is the next step)
def BitPosStep : Prop := ∀ w, w ≠ 0 → w < 2^64 → bitPos w = tz w :: bitPos (popLow w)

theorem bitPos_zero : bitPos 0 = [] := by
  unfold bitPos; simp

theorem bitsOf_zero (k) : bitsOf k 0 = [] := by simp [bitsOf, bitPos_zero]

theorem bitsOf_step (h : BitPosStep) (k w) (hw : w ≠ 0) (hlt : w < 2^64) :
    bitsOf k w = (64*k + tz w) :: bitsOf k (popLow w) := by
  simp [bitsOf, h w hw hlt]

structure BIter.Inv (it : BIter) : Prop where
  v : it.value < 2^64
  vb : it.valueBack < 2^64
  ws : ∀ k, word it.bits k < 2^64
  live : it.keyBack ≤ it.key → it.keyBack = it.key ∨ it.value = 0

theorem between_find_none (bits k kb)
    (h : (List.range' (k+1) (kb - k - 1)).find? (fun j => word bits j != 0) = none) :
    between bits k kb = [] := by
  unfold between
  rw [List.find?_eq_none] at h
  simp only [List.flatMap_eq_nil_iff]
  intro j hj
  have := h j hj
  simp at this
  simp [this, bitsOf_zero]

theorem next_spec_exhausted (it : BIter) (hv : it.value = 0) (hk : it.key ≥ it.keyBack) :
    it.rem = [] ∧ it.next = (it, none) := by
  unfold BIter.rem BIter.next
  have : ¬ it.key < it.keyBack := by omega
  simp [this, hv, bitsOf_zero, hk]

theorem next_spec_emit (hS : BitPosStep) (it : BIter) (hi : it.Inv) (hv : it.value ≠ 0) :
    (it.next.2 = it.rem.head?) ∧ (it.next.1.rem = it.rem.tail) := by
  have hstep := bitsOf_step hS it.key it.value hv hi.v
  unfold BIter.next
  simp only [hv, ne_eq, not_false_eq_true, ↓reduceIte, BIter.emit]
  unfold BIter.rem
  by_cases hk : it.key < it.keyBack
  · simp [hk, hstep]
  · simp [hk, hstep]
end B
#print axioms B.next_spec_emit
