use roaring::{RoaringTreemap, MultiOps};
use std::collections::{BTreeSet, VecDeque};
use std::panic::{catch_unwind, AssertUnwindSafe};
struct Rng(u64);
impl Rng {
    fn next(&mut self) -> u64 { self.0 = self.0.wrapping_add(0x9E3779B97F4A7C15); let mut z = self.0; z = (z ^ (z >> 30)).wrapping_mul(0xBF58476D1CE4E5B9); z = (z ^ (z >> 27)).wrapping_mul(0x94D049BB133111EB); z ^ (z >> 31) }
    fn below(&mut self, n: u64) -> u64 { self.next() % n }
    fn val(&mut self) -> u64 {
        let hi = [0u64, 1, 3, 4, 0xFFFF_FFFF][self.below(5) as usize];
        let lo = match self.below(5) { 0 => [0u64, 1, 65535, 65536, 0xFFFF_FFFF, 0xFFFF_FFFE][self.below(6) as usize], 1 => self.below(200), _ => self.below(300000) };
        (hi << 32) | lo
    }
}
fn check_eq(tag: &str, bm: &RoaringTreemap, set: &BTreeSet<u64>) -> bool {
    let v: Vec<u64> = bm.iter().collect(); let s: Vec<u64> = set.iter().copied().collect();
    if v != s || bm.len() != s.len() as u64 || bm.is_empty() != s.is_empty() { println!("MISMATCH {tag}: {} vs {}", v.len(), s.len()); return false; }
    let native: RoaringTreemap = s.iter().copied().collect();
    if *bm != native { println!("NONCANONICAL {tag}"); return false; }
    true
}
fn build(r: &mut Rng) -> (RoaringTreemap, BTreeSet<u64>) {
    let mut bm = RoaringTreemap::new(); let mut set = BTreeSet::new();
    for _ in 0..r.below(6) {
        match r.below(3) {
            0 => { for _ in 0..r.below(30) { let v = r.val(); bm.insert(v); set.insert(v); } }
            _ => { let a = r.val(); let len = [1u64, 100, 4096, 4097, 9000][r.below(5) as usize]; let b = a.saturating_add(len-1); bm.insert_range(a..=b); for x in a..=b { set.insert(x); } }
        }
    }
    (bm, set)
}
fn mutators(seed: u64) -> bool {
    let mut r = Rng(seed); let mut bm = RoaringTreemap::new(); let mut set = BTreeSet::new(); let mut log = vec![];
    for _ in 0..50 {
        match r.below(10) {
            0 | 1 => { let v = r.val(); log.push(format!("insert {v}")); if bm.insert(v) != set.insert(v) { println!("ret insert {log:?}"); return false; } }
            2 => { let v = r.val(); log.push(format!("remove {v}")); if bm.remove(v) != set.remove(&v) { println!("ret remove"); return false; } }
            3 | 4 => { let a = r.val(); let b = a.saturating_add(r.below(9000)); log.push(format!("insert_range {a}..={b}")); let before = set.len(); for x in a..=b { set.insert(x); } let n = bm.insert_range(a..=b); if n != (set.len()-before) as u64 { println!("ret insert_range {n} {log:?}"); return false; } }
            5 | 6 => { let a = r.val(); let b = a.saturating_add(r.below(9000)); log.push(format!("remove_range {a}..={b}")); let before = set.len(); set.retain(|x| *x < a || *x > b); let n = bm.remove_range(a..=b); if n != (before-set.len()) as u64 { println!("ret remove_range"); return false; } }
            7 => { let v = r.val(); log.push(format!("push {v}")); let exp = set.iter().next_back().map_or(true, |m| *m < v); if exp { set.insert(v); } if bm.push(v) != exp { println!("ret push {log:?}"); return false; } }
            8 => { let base = r.val(); let vals: Vec<u64> = (0..r.below(5)).map(|i| if r.below(6)==0 { base } else { base.saturating_add(i * (1 + r.below(3) * (1<<31))) }).collect(); log.push(format!("append {vals:?}"));
                   let mut cnt = 0u64; let mut err = false; for v in &vals { if set.iter().next_back().map_or(true, |m| m < v) { set.insert(*v); cnt += 1; } else { err = true; break; } }
                   let res = bm.append(vals.clone()); match res { Ok(n) => if err || n != cnt { println!("append ok {n} exp {cnt} err {err} {log:?}"); return false; }, Err(e) => if !err || e.valid_until() != cnt { println!("append err {} exp {cnt} {log:?}", e.valid_until()); return false; } } }
            _ => { let v = r.val(); if bm.rank(v) != set.range(..=v).count() as u64 { println!("rank"); return false; } if bm.contains(v) != set.contains(&v) { println!("contains"); return false; }
                   let n = r.below(set.len() as u64 + 2); if bm.select(n) != set.iter().nth(n as usize).copied() { println!("select"); return false; }
                   if bm.min() != set.iter().next().copied() || bm.max() != set.iter().next_back().copied() { println!("minmax"); return false; } }
        }
        if !check_eq("mut", &bm, &set) { println!("{log:?}"); return false; }
    }
    true
}
fn binops(seed: u64) -> bool {
    let mut r = Rng(seed);
    let (a, sa) = build(&mut r); let (b, sb) = build(&mut r);
    let or: BTreeSet<u64> = BTreeSet::union(&sa, &sb).copied().collect(); let and: BTreeSet<u64> = BTreeSet::intersection(&sa, &sb).copied().collect();
    let sub: BTreeSet<u64> = BTreeSet::difference(&sa, &sb).copied().collect(); let xor: BTreeSet<u64> = BTreeSet::symmetric_difference(&sa, &sb).copied().collect();
    let mut ok = true;
    ok &= check_eq("or rr", &(&a | &b), &or); ok &= check_eq("or oo", &(a.clone() | b.clone()), &or); ok &= check_eq("or or", &(a.clone() | &b), &or); ok &= check_eq("or ro", &(&a | b.clone()), &or);
    { let mut x = a.clone(); x |= &b; ok &= check_eq("or= r", &x, &or); let mut x = a.clone(); x |= b.clone(); ok &= check_eq("or= o", &x, &or); }
    ok &= check_eq("and rr", &(&a & &b), &and); ok &= check_eq("and oo", &(a.clone() & b.clone()), &and); ok &= check_eq("and or", &(a.clone() & &b), &and); ok &= check_eq("and ro", &(&a & b.clone()), &and);
    { let mut x = a.clone(); x &= &b; ok &= check_eq("and= r", &x, &and); let mut x = a.clone(); x &= b.clone(); ok &= check_eq("and= o", &x, &and); }
    ok &= check_eq("sub rr", &(&a - &b), &sub); ok &= check_eq("sub oo", &(a.clone() - b.clone()), &sub); ok &= check_eq("sub or", &(a.clone() - &b), &sub); ok &= check_eq("sub ro", &(&a - b.clone()), &sub);
    { let mut x = a.clone(); x -= &b; ok &= check_eq("sub= r", &x, &sub); let mut x = a.clone(); x -= b.clone(); ok &= check_eq("sub= o", &x, &sub); }
    ok &= check_eq("xor rr", &(&a ^ &b), &xor); ok &= check_eq("xor oo", &(a.clone() ^ b.clone()), &xor); ok &= check_eq("xor or", &(a.clone() ^ &b), &xor); ok &= check_eq("xor ro", &(&a ^ b.clone()), &xor);
    { let mut x = a.clone(); x ^= &b; ok &= check_eq("xor= r", &x, &xor); let mut x = a.clone(); x ^= b.clone(); ok &= check_eq("xor= o", &x, &xor); }
    ok &= a.is_subset(&b) == sa.is_subset(&sb); ok &= a.is_disjoint(&b) == sa.is_disjoint(&sb); ok &= a.is_superset(&b) == sa.is_superset(&sb);
    ok &= a.intersection_len(&b) == and.len() as u64 && a.union_len(&b) == or.len() as u64 && a.difference_len(&b) == sub.len() as u64 && a.symmetric_difference_len(&b) == xor.len() as u64;
    let n = [0usize, 1, 2, 3, 5, 12][r.below(6) as usize];
    let mut v = vec![]; let mut sv: Vec<BTreeSet<u64>> = vec![];
    for i in 0..n { if i % 5 == 3 { v.push(RoaringTreemap::new()); sv.push(BTreeSet::new()); } else { let (x, s) = build(&mut r); v.push(x); sv.push(s); } }
    let f_or = sv.iter().fold(BTreeSet::<u64>::new(), |a: BTreeSet<u64>, s: &BTreeSet<u64>| BTreeSet::union(&a, s).copied().collect());
    let f_xor = sv.iter().fold(BTreeSet::<u64>::new(), |a: BTreeSet<u64>, s: &BTreeSet<u64>| BTreeSet::symmetric_difference(&a, s).copied().collect());
    let f_and = if sv.is_empty() { BTreeSet::new() } else { sv[1..].iter().fold(sv[0].clone(), |a: BTreeSet<u64>, s: &BTreeSet<u64>| BTreeSet::intersection(&a, s).copied().collect()) };
    let f_sub = if sv.is_empty() { BTreeSet::new() } else { sv[1..].iter().fold(sv[0].clone(), |a: BTreeSet<u64>, s: &BTreeSet<u64>| BTreeSet::difference(&a, s).copied().collect()) };
    ok &= check_eq("m-or ref", &v.iter().union(), &f_or); ok &= check_eq("m-or own", &v.clone().union(), &f_or);
    ok &= check_eq("m-xor ref", &v.iter().symmetric_difference(), &f_xor); ok &= check_eq("m-xor own", &v.clone().symmetric_difference(), &f_xor);
    ok &= check_eq("m-and ref", &v.iter().intersection(), &f_and); ok &= check_eq("m-and own", &v.clone().intersection(), &f_and);
    ok &= check_eq("m-sub ref", &v.iter().difference(), &f_sub); ok &= check_eq("m-sub own", &v.clone().difference(), &f_sub);
    if !ok { println!("binops seed {seed} n={n}"); }
    ok
}
fn iters(seed: u64) -> bool {
    let mut r = Rng(seed);
    let (bm, set) = build(&mut r);
    let mut model: VecDeque<u64> = set.iter().copied().collect();
    let mut it = bm.iter(); let mut log = vec![];
    for _ in 0..30 {
        match r.below(7) {
            0 | 1 => { log.push("next".to_string()); if it.next() != model.pop_front() { println!("next {log:?}"); return false; } }
            2 | 3 => { log.push("next_back".to_string()); if it.next_back() != model.pop_back() { println!("next_back {log:?}"); return false; } }
            4 => { let v = if r.below(3)==0 && !model.is_empty() { model[r.below(model.len() as u64) as usize] } else { r.val() }; log.push(format!("advance_to {v}")); it.advance_to(v); while model.front().map_or(false, |x| *x < v) { model.pop_front(); } }
            5 => { let v = if r.below(3)==0 && !model.is_empty() { model[r.below(model.len() as u64) as usize] } else { r.val() }; log.push(format!("advance_back_to {v}")); it.advance_back_to(v); while model.back().map_or(false, |x| *x > v) { model.pop_back(); } }
            _ => {}
        }
        let sh = it.size_hint(); if sh != (model.len(), Some(model.len())) { println!("size_hint {sh:?} vs {} {log:?}", model.len()); return false; }
    }
    let rest: Vec<u64> = it.collect();
    if rest != model.iter().copied().collect::<Vec<_>>() { println!("rest {log:?}"); return false; }
    // into_iter size hints + double ended
    let mut it = bm.clone().into_iter(); let mut model: VecDeque<u64> = set.iter().copied().collect();
    for _ in 0..20 { if r.below(2)==0 { if it.next() != model.pop_front() { println!("into next"); return false; } } else { if it.next_back() != model.pop_back() { println!("into next_back"); return false; } }
        if it.size_hint() != (model.len(), Some(model.len())) { println!("into size_hint {:?} vs {}", it.size_hint(), model.len()); return false; } }
    true
}
fn main() {
    let n: u64 = std::env::args().nth(1).map(|s| s.parse().unwrap()).unwrap_or(300);
    std::panic::set_hook(Box::new(|i| { println!("PANIC {}", i); }));
    for (name, f) in [("mutators", mutators as fn(u64) -> bool), ("binops", binops), ("iters", iters)] {
        let mut fails = 0; let mut first = None;
        for seed in 0..n { let r = catch_unwind(AssertUnwindSafe(|| f(seed * 7919 + 13))); if !matches!(r, Ok(true)) { fails += 1; if first.is_none() { first = Some(seed); } if fails > 3 { break; } } }
        println!("== {name}: fails {fails} first {first:?}");
    }
}
